(* C11 — executable model of the two tokenizations of seq-db. No proofs in this file.
   Index side  : tokenizer/tokenizer.go (toLowerTryInplace), keyword_tokenizer.go, text_tokenizer.go,
                 path_tokenizer.go, proxy/bulk/indexer.go (index, decodeInternal, decodeTags)
   Query side  : parser/seqql_filter.go (parseSeqQLKeyword, parseSeqQLText), term_builder.go
                 (newTextTermCaseSensitive), token_literal.go (appendTerm), strings.ToLower
   Matcher     : specification-level reading of pattern/pattern.go (literal / wildcard search)
   Bytes and runes are numbers in N; byte strings are lists. UTF-8 decoding is utf8.DecodeRune
   (invalid byte => RuneError, width 1), encoding is utf8.AppendRune (invalid rune => U+FFFD).
   The Unicode classes enter as the Section variables is_letter / is_number / to_lower; they are
   instantiated with the tables dumped from Go (Consts.v) at the end of the file. *)
From VLib Require Export CaseLib.
From C11 Require Export Tables Consts.

Definition list_eqb_N : list N -> list N -> bool := list_eqb N.eqb.
Definition first_byte (raw : list N) : N := match raw with b :: _ => b | [] => 0 end.

Definition RuneError : N := 65533.     (* U+FFFD *)
Definition WildcardRune : N := 57344.  (* U+E000, parser/seqql.go *)
Definition Slash : N := 47.

(* ------------------------------------------------------------------ UTF-8 *)

Definition cont (b : N) : bool := (128 <=? b) && (b <=? 191).

(* utf8.first / acceptRanges: size of the sequence and accepted range of the second byte *)
Definition lead_info (b0 : N) : option (nat * N * N) :=
  if (194 <=? b0) && (b0 <=? 223) then Some (2%nat, 128, 191)
  else if b0 =? 224 then Some (3%nat, 160, 191)
  else if (225 <=? b0) && (b0 <=? 236) then Some (3%nat, 128, 191)
  else if b0 =? 237 then Some (3%nat, 128, 159)
  else if (238 <=? b0) && (b0 <=? 239) then Some (3%nat, 128, 191)
  else if b0 =? 240 then Some (4%nat, 144, 191)
  else if (241 <=? b0) && (b0 <=? 243) then Some (4%nat, 128, 191)
  else if b0 =? 244 then Some (4%nat, 128, 143)
  else None.

Definition r2 (b0 b1 : N) : N := (b0 - 192) * 64 + (b1 - 128).
Definition r3 (b0 b1 b2 : N) : N := (b0 - 224) * 4096 + (b1 - 128) * 64 + (b2 - 128).
Definition r4 (b0 b1 b2 b3 : N) : N :=
  (b0 - 240) * 262144 + (b1 - 128) * 4096 + (b2 - 128) * 64 + (b3 - 128).

Definition seg := (N * list N)%type.   (* decoded rune, the bytes it was decoded from *)

(* one utf8.DecodeRune step: rune, consumed bytes, rest *)
Definition step (s : list N) : option (N * list N * list N) :=
  match s with
  | [] => None
  | b0 :: t0 =>
    if b0 <? 128 then Some (b0, [b0], t0) else
    match lead_info b0 with
    | None => Some (RuneError, [b0], t0)
    | Some (sz, lo, hi) =>
      match t0 with
      | [] => Some (RuneError, [b0], t0)
      | b1 :: t1 =>
        if negb ((lo <=? b1) && (b1 <=? hi)) then Some (RuneError, [b0], t0) else
        match sz with
        | 2%nat => Some (r2 b0 b1, [b0; b1], t1)
        | _ =>
          match t1 with
          | [] => Some (RuneError, [b0], t0)
          | b2 :: t2 =>
            if negb (cont b2) then Some (RuneError, [b0], t0) else
            match sz with
            | 3%nat => Some (r3 b0 b1 b2, [b0; b1; b2], t2)
            | _ =>
              match t2 with
              | [] => Some (RuneError, [b0], t0)
              | b3 :: t3 =>
                if negb (cont b3) then Some (RuneError, [b0], t0)
                else Some (r4 b0 b1 b2 b3, [b0; b1; b2; b3], t3)
              end
            end
          end
        end
      end
    end
  end.

(* the whole string as the sequence of DecodeRune steps (same case analysis as [step], written
   out so that the recursion is structural) *)
Fixpoint segs (s : list N) : list seg :=
  match s with
  | [] => []
  | b0 :: t0 =>
    if b0 <? 128 then (b0, [b0]) :: segs t0 else
    match lead_info b0 with
    | None => (RuneError, [b0]) :: segs t0
    | Some (sz, lo, hi) =>
      match t0 with
      | [] => (RuneError, [b0]) :: segs t0
      | b1 :: t1 =>
        if negb ((lo <=? b1) && (b1 <=? hi)) then (RuneError, [b0]) :: segs t0 else
        match sz with
        | 2%nat => (r2 b0 b1, [b0; b1]) :: segs t1
        | _ =>
          match t1 with
          | [] => (RuneError, [b0]) :: segs t0
          | b2 :: t2 =>
            if negb (cont b2) then (RuneError, [b0]) :: segs t0 else
            match sz with
            | 3%nat => (r3 b0 b1 b2, [b0; b1; b2]) :: segs t2
            | _ =>
              match t2 with
              | [] => (RuneError, [b0]) :: segs t0
              | b3 :: t3 =>
                if negb (cont b3) then (RuneError, [b0]) :: segs t0
                else (r4 b0 b1 b2 b3, [b0; b1; b2; b3]) :: segs t3
              end
            end
          end
        end
      end
    end
  end.

Definition raws (l : list seg) : list N := concat (map snd l).

Definition surrogate (r : N) : bool := (55296 <=? r) && (r <=? 57343).
Definition valid_rune (r : N) : bool := (r <? 1114112) && negb (surrogate r).

(* utf8.RuneLen; 0 stands for -1 *)
Definition rune_len (r : N) : nat :=
  if r <? 128 then 1 else if r <? 2048 then 2 else if surrogate r then 0
  else if r <? 65536 then 3 else if r <? 1114112 then 4 else 0.

(* utf8.AppendRune / EncodeRune *)
Definition encode (r : N) : list N :=
  if r <? 128 then [r]
  else if r <? 2048 then [192 + r / 64; 128 + r mod 64]
  else if surrogate r || (1114111 <? r) then [239; 191; 189]
  else if r <? 65536 then [224 + r / 4096; 128 + (r / 64) mod 64; 128 + r mod 64]
  else [240 + r / 262144; 128 + (r / 4096) mod 64; 128 + (r / 64) mod 64; 128 + r mod 64].

(* what b.WriteRune(r) / string(r) over the decoded runes makes of a byte string *)
Definition sanitize (s : list N) : list N := concat (map (fun sg : seg => encode (fst sg)) (segs s)).

(* every byte sequence is the canonical encoding of the rune it decodes to *)
Definition seg_canon (sg : seg) : bool := list_eqb_N (snd sg) (encode (fst sg)).
Definition valid_utf8 (s : list N) : bool := forallb seg_canon (segs s).
Definition has_rune (x : N) (s : list N) : bool := existsb (fun sg : seg => fst sg =? x) (segs s).

(* ------------------------------------------------------------------ ASCII tables (tokenizer.go) *)

Definition is_upper_ascii (b : N) : bool := (65 <=? b) && (b <=? 90).
Definition ascii_lower (b : N) : N := if is_upper_ascii b then b + 32 else b.   (* toLowerMap *)
Definition is_alnum_ascii (b : N) : bool :=
  ((97 <=? b) && (b <=? 122)) || ((65 <=? b) && (b <=? 90)) || ((48 <=? b) && (b <=? 57)).
Definition is_text_token (b : N) : bool := is_alnum_ascii b || (b =? 95) || (b =? 42). (* isTextToken *)
Definition nonempty {A} (l : list A) : bool := match l with [] => false | _ => true end.

Inductive ttype := TyKeyword | TyText | TyPath | TyExists | TyObject | TyTags | TyNested | TyNoop.

Record icfg := ICfg {
  cs : bool;            (* case sensitive *)
  partial : bool;       (* partial field indexing *)
  max_tok : N;          (* MaxTokenSize (default size of keyword/path values, size of text words) *)
  def_field : N         (* default maxFieldValueLength of the text tokenizer *)
}.

Inductive term := TText (d : list N) | TStar.

Section Oracles.
  Variables (is_letter is_number : N -> bool) (to_lower : N -> N).

  (* bytes.Map(unicode.ToLower, s) and strings.Map(unicode.ToLower, s): every decoded rune
     (invalid byte = U+FFFD) mapped and re-encoded *)
  Definition map_lower (s : list N) : list N :=
    concat (map (fun sg : seg => encode (to_lower (fst sg))) (segs s)).

  (* toLowerTryInplace, the loop: returns the buffer as mutated in place and whether the width of
     some rune changed (then the code abandons the loop and returns bytes.Map over the buffer) *)
  Fixpoint lower_mut (l : list seg) : list N * bool :=
    match l with
    | [] => ([], false)
    | (r, raw) :: rest =>
      if first_byte raw <? 128 then                       (* isASCII[s[i]] *)
        let (m, f) := lower_mut rest in (ascii_lower (first_byte raw) :: m, f)
      else
        let lo := to_lower r in
        if Nat.eqb (rune_len lo) (length raw) then let (m, f) := lower_mut rest in (encode lo ++ m, f)
        else (raw ++ raws rest, true)
    end.

  (* (returned slice, backing bytes after the call) *)
  Definition lower_full (s : list N) : list N * list N :=
    let (m, f) := lower_mut (segs s) in ((if f then map_lower m else m), m).
  Definition lower_ip (s : list N) : list N := fst (lower_full s).

  (* toLowerIfCaseInsensitive *)
  Definition lower_if (c : icfg) (s : list N) : list N * list N :=
    if cs c then (s, s) else lower_full s.

  Definition limit_of (dflt fmax : N) : nat := N.to_nat (if fmax =? 0 then dflt else fmax).

  (* ---------------- KeywordTokenizer.Tokenize: (token values, value bytes afterwards) *)
  Definition kw_tokenize (c : icfg) (fmax : N) (v : list N) : list (list N) * list N :=
    let mx := limit_of (max_tok c) fmax in
    if Nat.ltb mx (length v) && negb (partial c) then ([], v)
    else let (t, m) := lower_if c (firstn mx v) in ([t], m ++ skipn mx v).

  (* ---------------- PathTokenizer.Tokenize *)
  (* pre = value[:i] as it is now (earlier prefixes were lower-cased in place), suf = value[i:] *)
  Fixpoint path_loop (c : icfg) (pre suf : list N) : list (list N) * list N :=
    match suf with
    | [] => ([], pre)
    | b :: rest =>
      if (b =? Slash) && nonempty pre then
        let (t, m) := lower_if c pre in
        let (ts, fin) := path_loop c (m ++ [b]) rest in (t :: ts, fin)
      else path_loop c (pre ++ [b]) rest
    end.

  Definition path_tokenize (c : icfg) (fmax : N) (v : list N) : list (list N) * list N :=
    let mx := limit_of (max_tok c) fmax in
    if Nat.ltb mx (length v) && negb (partial c) then ([], v)
    else
      let (ts, buf) := path_loop c [] (firstn mx v) in
      let (t, m) := lower_if c buf in (ts ++ [t], m ++ skipn mx v).

  (* ---------------- TextTokenizer.Tokenize *)
  (* a finished word value[k:i] with the two flags of the loop *)
  Definition text_emit (c : icfg) (cur : list N) (has_upper ascii_only : bool)
    : list (list N) * list N :=
    if nonempty cur && Nat.leb (length cur) (N.to_nat (max_tok c)) then
      if negb (cs c) && (negb ascii_only || has_upper)
      then let (t, m) := lower_full cur in ([t], m) else ([cur], cur)
    else ([], cur).

  Fixpoint text_loop (c : icfg) (l : list seg) (cur : list N) (hu ao : bool)
    : list (list N) * list N :=
    match l with
    | [] =>
      (* after the loop: k == len(value) || len(value[k:]) > maxTokenSize => nothing more *)
      if negb (nonempty cur) || Nat.ltb (N.to_nat (max_tok c)) (length cur) then ([], cur)
      else if negb (cs c) && ((ao && hu) || negb ao)
           then let (t, m) := lower_full cur in ([t], m) else ([cur], cur)
    | (r, raw) :: rest =>
      let b := first_byte raw in
      if b <? 128 then
        (* fast path: ASCII byte, class from the isTextToken table *)
        let hu' := hu || is_upper_ascii b in
        if is_text_token b then text_loop c rest (cur ++ raw) hu' ao
        else
          let (t, m) := text_emit c cur hu' ao in
          let (ts, ms) := text_loop c rest [] false true in (t ++ ts, m ++ raw ++ ms)
      else
        (* slow path: decoded rune, asciiOnly = false *)
        if is_letter r || is_number r then text_loop c rest (cur ++ raw) hu false
        else
          let (t, m) := text_emit c cur hu false in
          let (ts, ms) := text_loop c rest [] false true in (t ++ ts, m ++ raw ++ ms)
    end.

  Definition text_tokenize (c : icfg) (fmax : N) (v : list N) : list (list N) * list N :=
    let mx := limit_of (def_field c) fmax in
    if Nat.ltb mx (length v) && negb (partial c) then ([], v)
    else match v with
         | [] => ([[]], [])
         | _ => let (ts, m) := text_loop c (segs (firstn mx v)) [] false true in
                (ts, m ++ skipn mx v)
         end.

  Definition tokenize (t : ttype) (c : icfg) (fmax : N) (v : list N) : list (list N) :=
    match t with
    | TyKeyword => fst (kw_tokenize c fmax v)
    | TyText => fst (text_tokenize c fmax v)
    | TyPath => fst (path_tokenize c fmax v)
    | _ => []
    end.

  (* ------------------------------------------------------------------ query side *)

  Definition all_ascii (s : list N) : bool := forallb (fun b => b <? 128) s.

  (* strings.ToLower *)
  Definition str_to_lower (s : list N) : list N :=
    if all_ascii s then map ascii_lower s else map_lower s.

  (* newTextTermCaseSensitive / Literal.appendTerm *)
  Definition qlower (sens : bool) (d : list N) : list N := if sens then d else str_to_lower d.

  Definition flush (sens : bool) (d : list N) : list term :=
    if nonempty d then [TText (qlower sens d)] else [].

  (* parseSeqQLKeyword, the loop over the runes of the (already unquoted) value *)
  Fixpoint qkw_loop (sens : bool) (l : list seg) (cur : list N) : list term :=
    match l with
    | [] => flush sens cur
    | (r, _) :: rest =>
      if r =? WildcardRune then flush sens cur ++ TStar :: qkw_loop sens rest []
      else qkw_loop sens rest (cur ++ encode r)
    end.

  Definition qkw (sens : bool) (s : list N) : list term :=
    match s with [] => [TText []] | _ => qkw_loop sens (segs s) [] end.

  (* parseSeqQLText: list of literals (each a list of terms) *)
  Definition is_word_rune (r : N) : bool := is_letter r || is_number r || (r =? 95) || (r =? 42).

  Fixpoint qtext_loop (sens : bool) (l : list seg) (tm : list N) (cur : list term)
    : list (list term) :=
    match l with
    | [] => let cur' := cur ++ flush sens tm in if nonempty cur' then [cur'] else []
    | (r, _) :: rest =>
      if is_word_rune r then qtext_loop sens rest (tm ++ encode r) cur
      else
        let cur' := cur ++ flush sens tm in
        if r =? WildcardRune then qtext_loop sens rest [] (cur' ++ [TStar])
        else if nonempty cur' then cur' :: qtext_loop sens rest [] []
        else qtext_loop sens rest [] []
    end.

  Definition qtext (sens : bool) (s : list N) : list (list term) :=
    match s with
    | [] => [[TText []]]
    | _ => match qtext_loop sens (segs s) [] [] with [] => [[TText []]] | ls => ls end
    end.

  (* literals the query `field:<literal of s>` is made of, by mapping type of the field *)
  Definition query_lits (t : ttype) (sens : bool) (s : list N) : option (list (list term)) :=
    match t with
    | TyKeyword | TyPath => Some [qkw sens s]
    | TyText => Some (qtext sens s)
    | _ => None     (* "cannot be searched by value" *)
    end.

  (* ------------------------------------------------------------------ what the property asks to find *)

  (* words of a byte string: maximal runs of word runes (rune level, independent of the byte-level
     scan of the tokenizer) *)
  Fixpoint words_of (l : list seg) (cur : list N) : list (list N) :=
    match l with
    | [] => if nonempty cur then [cur] else []
    | (r, raw) :: rest =>
      if is_word_rune r then words_of rest (cur ++ raw)
      else if nonempty cur then cur :: words_of rest [] else words_of rest []
    end.

  (* leading paths cut at a separator (the separator itself at position 0 cuts nothing) *)
  Fixpoint path_prefixes (pre suf : list N) : list (list N) :=
    match suf with
    | [] => []
    | b :: rest =>
      if (b =? Slash) && nonempty pre then pre :: path_prefixes (pre ++ [b]) rest
      else path_prefixes (pre ++ [b]) rest
    end.

  Definition skipped (t : ttype) (c : icfg) (fmax : N) (v : list N) : bool :=
    let mx := match t with TyText => limit_of (def_field c) fmax | _ => limit_of (max_tok c) fmax end in
    Nat.ltb mx (length v) && negb (partial c).

  Definition indexed_part (t : ttype) (c : icfg) (fmax : N) (v : list N) : list N :=
    let mx := match t with TyText => limit_of (def_field c) fmax | _ => limit_of (max_tok c) fmax end in
    firstn mx v.

  (* the query strings made "from the document's own field content" that must find the document *)
  Definition spec_queries (t : ttype) (c : icfg) (fmax : N) (v : list N) : list (list N) :=
    if skipped t c fmax v then [] else
    let p := indexed_part t c fmax v in
    match t with
    | TyKeyword => [p]
    | TyPath => path_prefixes [] p ++ [p]
    | TyText =>
      match v with
      | [] => [[]]
      | _ => filter (fun w => Nat.leb (length w) (N.to_nat (max_tok c))) (words_of (segs p) [])
      end
    | _ => []
    end.
End Oracles.

(* ------------------------------------------------------------------ reference matcher *)
(* pattern.newLiteralSearch / newWildcardSearch read as a specification: one text term = equality;
   otherwise text terms must occur in order, the first anchored at the start when the literal
   begins with text, the last anchored at the end when it ends with text. *)

Fixpoint is_prefix (p s : list N) : bool :=
  match p, s with
  | [], _ => true
  | x :: p', y :: s' => (x =? y) && is_prefix p' s'
  | _, [] => false
  end.

(* leftmost occurrence of p in s: rest after the occurrence *)
Fixpoint find_sub (p s : list N) : option (list N) :=
  if is_prefix p s then Some (skipn (length p) s)
  else match s with [] => None | _ :: s' => find_sub p s' end.

Fixpoint find_seq (ps : list (list N)) (s : list N) : bool :=
  match ps with
  | [] => true
  | p :: ps' => match find_sub p s with Some r => find_seq ps' r | None => false end
  end.

Definition term_text (t : term) : option (list N) := match t with TText d => Some d | TStar => None end.

Fixpoint texts_of (l : list term) : list (list N) :=
  match l with [] => [] | TText d :: r => d :: texts_of r | TStar :: r => texts_of r end.

Definition lit_matches (terms : list term) (tok : list N) : bool :=
  match terms with
  | [TText d] => list_eqb_N d tok
  | [] => false
  | t0 :: _ =>
    let pre := match t0 with TText d => d | TStar => [] end in
    let suf := match last terms TStar with TText d => d | TStar => [] end in
    let mid := texts_of (removelast (tl terms)) in
    Nat.leb (length pre + length suf) (length tok)
    && is_prefix pre tok
    && is_prefix (rev suf) (rev tok)
    && find_seq mid (firstn (length tok - length pre - length suf) (skipn (length pre) tok))
  end.

(* a query (conjunction of literals on one field) finds a document with these tokens on the field *)
Definition query_finds (lits : list (list term)) (toks : list (list N)) : bool :=
  forallb (fun l => existsb (lit_matches l) toks) lits.

(* ------------------------------------------------------------------ instantiation with Go's tables *)
Definition go_is_letter : N -> bool := rmem letter_tree.
Definition go_is_number : N -> bool := rmem number_tree.
Definition go_to_lower : N -> N := lower_of lower_tree.
