(* C11 — the wiring configuration -> tokenizers / query case rule (ModelWire.v) hands every tokenizer the
   configuration's own parameters, so the bulk path of the binary is the one-configuration model the findability
   theorems are about. *)
From Coq Require Import List Bool NArith Arith Lia.
From C11 Require Import Model ModelDoc ModelWire CaseDefs ProofsLower ProofsText ProofsPath ProofsDoc ProofsSpec ProofsGo.
Open Scope N_scope.

(* ------------------------------------------------------------------ the wiring itself *)
Lemma wiring_consistent : forall f,
  let w := wire f in
  (cs (keyword_cfg w) = flagCaseSensitive f /\ partial (keyword_cfg w) = flagPartialFieldIndexing f /\
   max_tok (keyword_cfg w) = flagMaxTokenSize f) /\
  (cs (text_cfg w) = flagCaseSensitive f /\ partial (text_cfg w) = flagPartialFieldIndexing f /\
   max_tok (text_cfg w) = flagMaxTokenSize f /\ def_field (text_cfg w) = MaxTextFieldValueLength) /\
  (cs (path_cfg w) = flagCaseSensitive f /\ partial (path_cfg w) = flagPartialFieldIndexing f /\
   max_tok (path_cfg w) = flagMaxTokenSize f) /\
  query_cfg w = flagCaseSensitive f /\
  (* the map: every mapping type with a tokenizer has its own kind of tokenizer, no other type has one *)
  (forall ty, match binary_tokenizers f ty with
              | Some (TkKeyword _) => ty = TyKeyword
              | Some (TkText _) => ty = TyText
              | Some (TkPath _) => ty = TyPath
              | Some TkExists => ty = TyExists
              | None => has_tokenizer ty = false
              end).
Proof.
  intros [mx c p]. cbn. repeat split. intros ty. destruct ty; reflexivity.
Qed.

Section Wire.
  Variables (is_letter is_number : N -> bool) (to_lower : N -> N).
  Notation tokenize_full := (tokenize_full is_letter is_number to_lower).
  Notation index_types := (index_types is_letter is_number to_lower).
  Notation dec := (dec is_letter is_number to_lower).
  Notation doc_metas := (doc_metas is_letter is_number to_lower).
  Notation tag_tokens := (tag_tokens is_letter is_number to_lower).
  Notation tk_tokenize := (tk_tokenize is_letter is_number to_lower).
  Notation index_types_w := (index_types_w is_letter is_number to_lower).
  Notation tag_tokens_w := (tag_tokens_w is_letter is_number to_lower).
  Notation dec_w := (dec_w is_letter is_number to_lower).
  Notation doc_metas_w := (doc_metas_w is_letter is_number to_lower).

  (* the path loop reads nothing but the case mode *)
  Lemma path_loop_cs_only : forall a b, cs a = cs b -> forall suf pre,
    path_loop to_lower a pre suf = path_loop to_lower b pre suf.
  Proof.
    intros a b Hcs. induction suf as [|x rest IH]; intros pre; [reflexivity|].
    cbn [path_loop]. destruct ((x =? Slash) && nonempty pre).
    - unfold lower_if. rewrite Hcs. destruct (cs b).
      + rewrite IH. reflexivity.
      + destruct (lower_full to_lower pre) as [t m]. rewrite IH. reflexivity.
    - apply IH.
  Qed.

  (* the tokenizer the map holds for a type = the tokenizer model of that type under the flags' own parameters *)
  Lemma binary_tk_tokenize : forall f ty t fmax v,
    binary_tokenizers f ty = Some t -> tk_tokenize t fmax v = tokenize_full ty (flags_cfg f) fmax v.
  Proof.
    intros [mx c p] ty t fmax v H. destruct ty; cbn in H; inversion H; subst; clear H; try reflexivity.
    (* path *)
    cbn [ModelWire.tk_tokenize ModelDoc.tokenize_full]. unfold path_tokenize. cbn [max_tok partial path_icfg flags_cfg
      NewPathTokenizer pt_defaultMaxTokenSize pt_caseSensitive pt_partialIndexing flagMaxTokenSize flagCaseSensitive
      flagPartialFieldIndexing MaxTokenSize CaseSensitive PartialFieldIndexing start_proxy_bulk].
    destruct (Nat.ltb (limit_of mx fmax) (length v) && negb p); [reflexivity|].
    rewrite (path_loop_cs_only (ICfg c p mx 0) (ICfg c p mx MaxTextFieldValueLength) eq_refl).
    reflexivity.
  Qed.

  Lemma binary_has_tokenizer : forall f ty,
    (exists t, binary_tokenizers f ty = Some t) <-> has_tokenizer ty = true.
  Proof.
    intros f ty. destruct ty; cbn; split; intros H; try discriminate; try (destruct H; discriminate);
      try reflexivity; eexists; reflexivity.
  Qed.

  (* indexer.index *)
  Lemma index_types_w_eq : forall f all key value,
    index_types_w (binary_tokenizers f) all key value = index_types (flags_cfg f) all key value.
  Proof.
    intros f all key. induction all as [|[[title ty] mx] rest IH]; intros value; [reflexivity|].
    cbn [ModelWire.index_types_w ModelDoc.index_types].
    destruct (binary_tokenizers f ty) as [t|] eqn:E.
    - assert (Ht : has_tokenizer ty = true) by (apply (binary_has_tokenizer f); eexists; exact E).
      rewrite Ht. destruct value as [v|].
      + rewrite (binary_tk_tokenize f ty t mx v E). destruct (tokenize_full ty (flags_cfg f) mx v) as [toks v'].
        rewrite IH. reflexivity.
      + rewrite IH. reflexivity.
    - assert (Ht : has_tokenizer ty = false).
      { destruct (has_tokenizer ty) eqn:Hh; [|reflexivity].
        apply (binary_has_tokenizer f) in Hh. destruct Hh as [t Ht]. rewrite Ht in E. discriminate. }
      rewrite Ht. apply IH.
  Qed.

  Lemma tag_tokens_w_eq : forall f m name el,
    tag_tokens_w (binary_tokenizers f) m name el = tag_tokens m (flags_cfg f) name el.
  Proof. intros. unfold ModelWire.tag_tokens_w, ModelDoc.tag_tokens. apply index_types_w_eq. Qed.

  (* decodeInternal: same unfolding as ProofsDoc.here / go_spec *)
  Definition here_w (tk : tkmap) (m : mapping) (name : list N) (kv : list N * jval)
    : list token * list (list token) :=
    let (k, v) := kv in
    let fname := join name k in
    let mt := mlookup m fname in
    match fst mt, v with
    | TyNoop, _ => ([], [])
    | TyObject, JObj _ _ => dec_w tk m fname v
    | TyTags, JArr els _ => (flat_map (tag_tokens_w tk m fname) els, [])
    | TyNested, JArr els _ =>
      ([], (fix each (els : list jval) : list (list token) :=
              match els with
              | [] => []
              | e :: er =>
                let (t, ms) := dec_w tk m fname e in
                (((K_ALL, []) :: t) :: ms) ++ each er
              end) els)
    | _, _ => (index_types_w tk (snd mt) fname (jvalue v), [])
    end.

  Fixpoint go_spec_w (tk : tkmap) (m : mapping) (name : list N) (fs : list (list N * jval))
    : list token * list (list token) :=
    match fs with
    | [] => ([], [])
    | kv :: r =>
      let h := here_w tk m name kv in
      let (t2, m2) := go_spec_w tk m name r in (fst h ++ t2, snd h ++ m2)
    end.

  Lemma dec_w_obj : forall tk m name fs enc, dec_w tk m name (JObj fs enc) = go_spec_w tk m name fs.
  Proof.
    intros tk m name fs enc. induction fs as [|[k v] r IH]; [reflexivity|].
    simpl in IH. simpl. rewrite IH. reflexivity.
  Qed.

  Lemma dec_w_eq : forall f m n name, dec_w (binary_tokenizers f) m name n = dec m (flags_cfg f) name n.
  Proof.
    intros f m n. remember (jsize n) as k eqn:Hk. revert n Hk.
    induction k as [k IHk] using lt_wf_ind. intros n Hk name. subst k.
    destruct n as [v|fs enc|els enc]; [reflexivity| |reflexivity].
    rewrite dec_w_obj, (dec_obj is_letter is_number to_lower).
    assert (Hfs : forall kv, In kv fs ->
              here_w (binary_tokenizers f) m name kv = here is_letter is_number to_lower m (flags_cfg f) name kv).
    { intros [k v] Hin. unfold here_w, here.
      pose proof (jsize_field fs enc k v Hin) as Hlt.
      destruct (fst (mlookup m (join name k))) eqn:Ety; destruct v as [lv|fs' enc'|els' enc'];
        try reflexivity; try (rewrite index_types_w_eq; reflexivity).
      - (* object *) apply (IHk _ Hlt _ eq_refl).
      - (* tags *) f_equal. apply flat_map_ext. intros el. apply tag_tokens_w_eq.
      - (* nested *) f_equal.
        assert (He : forall e, In e els' -> forall nm, dec_w (binary_tokenizers f) m nm e = dec m (flags_cfg f) nm e).
        { intros e Hine nm. pose proof (jsize_elem els' enc' e Hine) as Hlt2.
          apply (IHk (jsize e)); [lia|reflexivity]. }
        clear Hlt Hin. induction els' as [|e er IHe]; [reflexivity|].
        rewrite (He e (or_introl eq_refl)). destruct (dec m (flags_cfg f) (join name k) e) as [t ms].
        rewrite IHe; [reflexivity|]. intros e' Hin' nm. apply He. right. assumption. }
    clear IHk. induction fs as [|kv r IHr]; [reflexivity|].
    cbn [go_spec_w go_spec]. rewrite (Hfs kv (or_introl eq_refl)).
    rewrite IHr; [reflexivity|]. intros kv' Hin'. apply Hfs. right. assumption.
  Qed.

  (* indexer.Index: the metas the binary's bulk path makes of a document are those of the one-configuration model *)
  Lemma doc_metas_w_eq : forall f m doc,
    binary_doc_metas is_letter is_number to_lower f m doc = doc_metas m (flags_cfg f) doc.
  Proof.
    intros. unfold binary_doc_metas, ModelWire.doc_metas_w, ModelDoc.doc_metas. rewrite dec_w_eq. reflexivity.
  Qed.

  Lemma binary_tokenize_eq : forall f ty fmax v,
    binary_tokenize is_letter is_number to_lower f ty fmax v = tokenize is_letter is_number to_lower ty (flags_cfg f) fmax v.
  Proof.
    intros f ty fmax v. unfold binary_tokenize.
    destruct (binary_tokenizers f ty) as [t|] eqn:E.
    - rewrite (binary_tk_tokenize f ty t fmax v E). destruct ty; reflexivity.
    - destruct ty; cbn in E; try discriminate; reflexivity.
  Qed.

  Lemma binary_query_eq : forall legacy f ty s,
    binary_query is_letter is_number to_lower legacy f ty s =
    (if legacy then lquery_lits is_letter is_number to_lower else query_lits is_letter is_number to_lower)
      ty (cs (flags_cfg f)) s.
  Proof. intros legacy [mx c p] ty s. reflexivity. Qed.
End Wire.

(* ------------------------------------------------------------------ instantiated with Go's tables *)
Definition go_binary_tokenize := binary_tokenize go_is_letter go_is_number go_to_lower.
Definition go_binary_query := binary_query go_is_letter go_is_number go_to_lower.
Definition go_binary_doc_metas := binary_doc_metas go_is_letter go_is_number go_to_lower.
Definition go_swapped_tokenize := swapped_tokenize go_is_letter go_is_number go_to_lower.

(* the bulk path and the query side of the binary started with flags f ARE the one-configuration model under
   flags_cfg f — every theorem stated for one icfg on both sides speaks about every start-up configuration *)
Lemma go_wired_equals_model : forall f,
  (forall m doc, go_binary_doc_metas f m doc = doc_metas go_is_letter go_is_number go_to_lower m (flags_cfg f) doc) /\
  (forall ty fmax v, go_binary_tokenize f ty fmax v = tokenize go_is_letter go_is_number go_to_lower ty (flags_cfg f) fmax v) /\
  (forall ty s, go_binary_query false f ty s = query_lits go_is_letter go_is_number go_to_lower ty (cs (flags_cfg f)) s) /\
  (forall ty s, go_binary_query true f ty s = lquery_lits go_is_letter go_is_number go_to_lower ty (cs (flags_cfg f)) s).
Proof.
  intros f. split; [|split; [|split]].
  - intros. apply doc_metas_w_eq.
  - intros. apply binary_tokenize_eq.
  - intros. apply (binary_query_eq go_is_letter go_is_number go_to_lower false).
  - intros. apply (binary_query_eq go_is_letter go_is_number go_to_lower true).
Qed.

Lemma finds_single : forall t, query_finds [[TText t]] [t] = true.
Proof. intros t. cbn. rewrite list_eqb_N_refl. reflexivity. Qed.

Lemma go_wired_keyword_findable : forall f fmax v,
  let c := flags_cfg f in
  let p := indexed_part TyKeyword c fmax v in
  if skipped TyKeyword c fmax v then go_binary_tokenize f TyKeyword fmax v = []
  else exists t, go_binary_tokenize f TyKeyword fmax v = [t] /\
       (has_rune WildcardRune p = false -> (flagCaseSensitive f = false \/ valid_utf8 p = true) ->
        go_binary_query false f TyKeyword p = Some [[TText t]] /\
        query_finds [[TText t]] (go_binary_tokenize f TyKeyword fmax v) = true).
Proof.
  intros f fmax v c p. unfold go_binary_tokenize, go_binary_query. rewrite binary_tokenize_eq, binary_query_eq.
  fold c. cbn [tokenize query_lits].
  pose proof (go_kw_consistent c fmax v) as H. cbv zeta in H. fold p in H.
  destruct (skipped TyKeyword c fmax v); [exact H|].
  destruct H as [t [Ht Hq]]. exists t. split; [exact Ht|].
  intros Hw Hv. assert (Hv' : cs c = false \/ valid_utf8 p = true) by (destruct f; exact Hv).
  destruct (Hq Hw Hv') as [Hq1 _]. rewrite Hq1, Ht. split; [reflexivity|apply finds_single].
Qed.

Lemma go_wired_text_findable : forall f fmax v, v <> [] ->
  let c := flags_cfg f in
  let p := indexed_part TyText c fmax v in
  let toks := go_binary_tokenize f TyText fmax v in
  if skipped TyText c fmax v then toks = []
  else toks = map (go_word_token c) (filter (sizeok c) (words_of go_is_letter go_is_number (segs p) []))
       /\ (forall w, In w (words_of go_is_letter go_is_number (segs p) []) ->
             go_binary_query false f TyText w = Some [[TText (go_word_token c w)]] /\
             (sizeok c w = true -> query_finds [[TText (go_word_token c w)]] toks = true)).
Proof.
  intros f fmax v Hne c p toks. subst toks. unfold go_binary_tokenize, go_binary_query.
  rewrite binary_tokenize_eq. fold c. cbn [tokenize].
  pose proof (go_text_consistent c fmax v Hne) as H. cbv zeta in H. fold p in H.
  destruct (skipped TyText c fmax v); [exact H|].
  destruct H as [Ht [Hw _]]. split; [exact Ht|].
  intros w Hin. rewrite binary_query_eq. fold c. cbn [query_lits].
  destruct (Hw w Hin) as [Hq Hf]. rewrite Hq. split; [reflexivity|].
  intros Hs. rewrite Hq in Hf. apply Hf. exact Hs.
Qed.

Lemma go_wired_path_findable : forall f fmax v,
  let c := flags_cfg f in
  let p := indexed_part TyPath c fmax v in
  let toks := go_binary_tokenize f TyPath fmax v in
  if skipped TyPath c fmax v then toks = []
  else toks = map (go_ptok c) (path_prefixes [] p ++ [p])
       /\ (forall q, In q (path_prefixes [] p ++ [p]) ->
             has_rune WildcardRune q = false -> (flagCaseSensitive f = false \/ valid_utf8 q = true) ->
             go_binary_query false f TyPath q = Some [[TText (go_ptok c q)]] /\
             query_finds [[TText (go_ptok c q)]] toks = true).
Proof.
  intros f fmax v c p toks. subst toks. unfold go_binary_tokenize, go_binary_query.
  rewrite binary_tokenize_eq. fold c. cbn [tokenize].
  pose proof (go_path_consistent c fmax v) as H. cbv zeta in H. fold p in H.
  destruct (skipped TyPath c fmax v); [exact H|].
  destruct H as [Ht Hq]. split; [exact Ht|].
  intros q Hin Hw Hv. rewrite binary_query_eq. fold c. cbn [query_lits].
  assert (Hv' : cs c = false \/ valid_utf8 q = true) by (destruct f; exact Hv).
  destruct (Hq q Hin Hw Hv') as [Hq1 Hf]. rewrite Hq1 in Hf |- *. split; [reflexivity|exact Hf].
Qed.

Lemma go_wired_flatten_findable :
  forall f m doc fld x, reach m [] doc fld x ->
    let c := flags_cfg f in
    exists meta, In meta (go_binary_doc_metas f m doc) /\
      (forall title ty mx, In (title, ty, mx) (snd (mlookup m fld)) -> has_tokenizer ty = true ->
         In (K_EXISTS, title_of title fld) meta /\ In (title_of title fld) (field_tokens meta K_EXISTS)) /\
      (forall v, x = Some v ->
         forall title ty mx v',
           In ((title, ty, mx), v') (seen_by go_is_letter go_is_number go_to_lower c (snd (mlookup m fld)) v) ->
           incl (fst (tokenize_full go_is_letter go_is_number go_to_lower ty c mx v'))
                (field_tokens meta (title_of title fld)) /\
           (forall lits,
              query_finds lits (fst (tokenize_full go_is_letter go_is_number go_to_lower ty c mx v')) = true ->
              query_finds lits (field_tokens meta (title_of title fld)) = true)).
Proof.
  intros f m doc fld x Hr c. unfold go_binary_doc_metas. rewrite doc_metas_w_eq.
  exact (go_flatten_findable m c doc fld x Hr).
Qed.

(* the seeded wiring (C11-m10) refuted: --case-sensitive, value "/Api/V1": the path tokenizer got the partial-indexing
   flag as its case mode, lower-cases, and the case-preserving query made from the value's own leading path finds
   nothing; --partial-indexing with --max-token-size 8 and an over-long value: skipped instead of prefix-indexed *)
Lemma swapped_path_refuted :
  let f := Flags 72 true false in
  let v := [47; 65; 112; 105; 47; 86; 49] in
  cs (path_cfg (wire_swapped_path f)) <> flagCaseSensitive f /\
  skipped TyPath (flags_cfg f) 0 v = false /\
  In [47; 65; 112; 105] (path_prefixes [] v ++ [v]) /\
  go_swapped_tokenize f TyPath 0 v = [[47; 97; 112; 105]; [47; 97; 112; 105; 47; 118; 49]] /\
  go_binary_query false f TyPath [47; 65; 112; 105] = Some [[TText [47; 65; 112; 105]]] /\
  query_finds [[TText [47; 65; 112; 105]]] (go_swapped_tokenize f TyPath 0 v) = false /\
  query_finds [[TText [47; 65; 112; 105]]] (go_binary_tokenize f TyPath 0 v) = true.
Proof. vm_compute. repeat split; try reflexivity; try discriminate. left. reflexivity. Qed.

Lemma swapped_path_oversize_refuted :
  let f := Flags 8 false true in
  let v := [47; 97; 112; 105; 47; 118; 49; 47; 117; 115; 101; 114; 115] in
  skipped TyPath (flags_cfg f) 0 v = false /\
  go_swapped_tokenize f TyPath 0 v = [] /\
  go_binary_tokenize f TyPath 0 v = [[47; 97; 112; 105]; [47; 97; 112; 105; 47; 118; 49]; [47; 97; 112; 105; 47; 118; 49; 47]].
Proof. vm_compute. repeat split; reflexivity. Qed.

Lemma wiring_nonvacuous :
  let f := Flags 8 true true in
  wire f = (ICfg true true 8 0, ICfg true true 8 32768, ICfg true true 8 0, true) /\
  go_binary_tokenize f TyKeyword 0 [65; 98; 99; 100; 101; 102; 103; 104; 105; 106] = [[65; 98; 99; 100; 101; 102; 103; 104]] /\
  go_binary_query false f TyKeyword [65; 98] = Some [[TText [65; 98]]].
Proof. vm_compute. repeat split; reflexivity. Qed.
