(* C11 — shape of the generated cases and the two executable verdicts. No proofs. *)
From C11 Require Import Model ModelDoc ModelMulti ModelLex ModelWire.

Definition bytes_eqb := list_eqb_N.

Definition term_eqb (a b : term) : bool :=
  match a, b with
  | TText x, TText y => bytes_eqb x y
  | TStar, TStar => true
  | _, _ => false
  end.

Definition token_eqb (a b : token) : bool := bytes_eqb (fst a) (fst b) && bytes_eqb (snd a) (snd b).

Definition lits_eqb : list (list term) -> list (list term) -> bool := list_eqb (list_eqb term_eqb).

Definition ttype_eqb (a b : ttype) : bool :=
  match a, b with
  | TyKeyword, TyKeyword | TyText, TyText | TyPath, TyPath | TyExists, TyExists
  | TyObject, TyObject | TyTags, TyTags | TyNested, TyNested | TyNoop, TyNoop => true
  | _, _ => false
  end.

(* the model instantiated with the tables dumped from Go *)
Definition m_tokenize := tokenize go_is_letter go_is_number go_to_lower.
Definition m_query := query_lits go_is_letter go_is_number go_to_lower.
Definition m_lquery := lquery_lits go_is_letter go_is_number go_to_lower.
Definition m_doc_metas := doc_metas go_is_letter go_is_number go_to_lower.
Definition any_query (legacy : bool) := if legacy then m_lquery else m_query.
Definition m_spec_queries := spec_queries go_is_letter go_is_number.
Definition m_skipped := skipped.

(* one query built from a string: the string, the literals the real parser returned for
   `f:<quoted string>` (None = parse error), and whether the real matcher (pattern.Search) found
   every literal among the index tokens of the field *)
Definition qobs := (list N * option (list (list term)) * bool)%type.

(* what the harness saw the real parser return for a query text *)
Inductive pobs := OErr | OOther | OForm (f : qform).

(* where the rendered literal stands in the query on field `f` *)
Inductive rpos :=
| PPlain                                             (* f:<lit> *)
| PIn (before after : list (style * list N))         (* f:in(<b1>, .., <lit>, <a1>, ..) *)
| PRange.                                            (* f:[<lit> to <lit>] *)

Definition ltok_eqb (a b : ltok) : bool :=
  bytes_eqb (t_txt a) (t_txt b) && Bool.eqb (t_quoted a) (t_quoted b) && Bool.eqb (t_raw a) (t_raw b)
  && Bool.eqb (t_space a) (t_space b).

Definition qform_eqb (a b : qform) : bool :=
  match a, b with
  | QPlain x, QPlain y => lits_eqb x y
  | QIn x, QIn y => list_eqb lits_eqb x y
  | QRange f1 t1 a1 b1, QRange f2 t2 a2 b2 => term_eqb f1 f2 && term_eqb t1 t2 && Bool.eqb a1 a2 && Bool.eqb b1 b2
  | _, _ => false
  end.

(* `f:in(x)` builds the same tree as `f:x`: the harness cannot tell them apart *)
Definition qnorm (f : qform) : qform := match f with QIn [l] => QPlain l | _ => f end.

Definition obs_agrees (m : R qform) (o : pobs) : bool :=
  match m, o with
  | RUnsup, _ => true                 (* outside the modelled fragment (several filters, not, pipes ..) *)
  | ROk f, OForm g => qform_eqb (qnorm f) (qnorm g)
  | RErr, OErr => true
  | _, _ => false
  end.

Definition K_INDEX : list N := [95; 105; 110; 100; 101; 120].   (* "_index" *)
(* indexType(mapping, field) for the mapping {name: t} *)
Definition case_ftype (name : list N) (t : ttype) (n : list N) : ttype :=
  if list_eqb_N n name then t
  else if list_eqb_N n K_ALL || list_eqb_N n K_EXISTS || list_eqb_N n K_INDEX then TyKeyword else TyNoop.

Definition m_text (legacy : bool) (name : list N) (t : ttype) (sens : bool) (q : list N) : R qform :=
  if legacy then
    match m_legacy_text (case_ftype name t) sens q with
    | ROk l => ROk (QPlain l) | RErr => RErr | RUnsup => RUnsup | RFuel => RFuel
    end
  else m_seqql_text (case_ftype name t) sens q.

Definition render_lit (legacy : bool) (st : style) (s : list N) : list N :=
  if legacy then match st with StBare => s | _ => render_legacy s end else render st s.

(* the query text the harness writes for a round-trip case *)
Definition build_text (legacy : bool) (st : style) (pos : rpos) (s : list N) : list N :=
  let lit := render_lit legacy st s in
  match pos with
  | PPlain => [102; 58] ++ lit
  | PIn before after =>
      [102; 58; 105; 110; 40]
      ++ concat (map (fun m : style * list N => render (fst m) (snd m) ++ [44; 32]) before)
      ++ lit
      ++ concat (map (fun m : style * list N => [44; 32] ++ render (fst m) (snd m)) after) ++ [41]
  | PRange => [102; 58; 91] ++ lit ++ [32; 116; 111; 32] ++ lit ++ [93]
  end.

(* the literal made from the string is exactly the one text term tok *)
Definition obs_is_term (pos : rpos) (o : pobs) (tok : list N) : bool :=
  match pos, o with
  | PPlain, OForm (QPlain [[TText d]]) => bytes_eqb d tok
  | PIn [] [], OForm (QPlain [[TText d]]) => bytes_eqb d tok
  | PIn before after, OForm (QIn ms) =>
      Nat.eqb (length ms) (S (length before + length after))
      && match nth_error ms (length before) with Some [[TText d]] => bytes_eqb d tok | _ => false end
  | PRange, OForm (QRange (TText f) (TText t) true true) => bytes_eqb f tok && bytes_eqb t tok
  | _, _ => false
  end.

Definition m_index_types := index_types go_is_letter go_is_number go_to_lower.

(* the binary's wiring model instantiated with Go's tables *)
Definition m_binary_doc_metas := binary_doc_metas go_is_letter go_is_number go_to_lower.
Definition m_binary_query := binary_query go_is_letter go_is_number go_to_lower.
Definition K_f : list N := [102].
Definition wire_mapping (t : ttype) (fmax : N) : mapping := [(K_f, (t, [([], t, fmax)]))].
Definition wire_doc (v : list N) : jval := JObj [(K_f, JLeaf (Some v))] [].
(* the configuration as the PROPERTY reads it, straight from the flags (no constructor, no map in between) *)
Definition prop_cfg (f : flags) : icfg :=
  ICfg (flagCaseSensitive f) (flagPartialFieldIndexing f) (flagMaxTokenSize f) 32768.

Inductive case :=
(* real tokenizer of type t, configuration c, per-field size fmax (0 = default) on value v emitted
   the token values toks; qs = observations for the queries the harness derived from v, parsed by
   ParseSeqQL (legacy = false) or by the legacy ParseQuery (legacy = true) *)
| CFind (legacy : bool) (t : ttype) (c : icfg) (fmax : N) (v : list N) (toks : list (list N)) (qs : list qobs)
(* real ParseSeqQL on `f:<literal>` where the literal unquotes to s (wildcards = U+E000), field of
   type t, case sensitivity sens: the literals returned (None = error) *)
| CQuery (t : ttype) (sens : bool) (s : list N) (lits : option (list (list term)))
(* the real bulk indexer emitted `_exists_:title` for a present mapped field; the real parser (running
   case-insensitively) on `_exists_:<literal of title>` returned lits, and the real matcher's verdict
   over the document's _exists_ tokens *)
| CExists (title : list N) (lits : option (list (list term))) (found : bool)
(* the real bulk processor on a document (given as the tree insaneJSON decodes it to) with mapping m
   and tokenizer configuration c returned these metas (token lists, parent first) *)
| CDoc (m : mapping) (c : icfg) (doc : jval) (metas : list (list token))
(* a case of the input class of the known finding cs-invalid-utf8 (case-sensitive, keyword/path value or
   cut prefix not valid UTF-8) on which the driver saw the finding (query not found) and reported it
   itself under that fingerprint: the model must still agree; the spec verdict is not asked again *)
| CKnown (inner : case)
(* the in(...) form: field of type t (is_ex: the field is `_exists_`), parser configured with case
   sensitivity sens; ms = the strings the members unquote to, the k-th is a value the property says must be
   found; plain = literals the real parser returned for the plain form `f:<literal of ms[k]>`; inls = for
   `f:in(m1, .., mn)` the literals of every member of the OR (None = error / other shape); toks = the index
   tokens of the field; found = verdict of the real matcher for the in-query (some member finds) *)
| CIn (t : ttype) (is_ex sens : bool) (ms : list (list N)) (k : nat)
      (plain : option (list (list term))) (inls : option (list (list (list term))))
      (toks : list (list N)) (found : bool)
(* the range form `f:[<lit of s> to <lit of s>]` on a keyword/path/`_exists_` field: the two bound terms *)
| CRange (is_ex sens : bool) (s : list N) (plain : option (list (list term)))
         (bounds : option (term * term)) (toks : list (list N)) (found : bool)
(* ---- query TEXT (extension): the real SeqQL lexer (parser.lexer.Next until IsEnd) on the query text q left
   these tokens (None: it did not reach the end) *)
| CLex (q : list N) (toks : option (list ltok))
(* the real ParseSeqQL (legacy = false) / ParseQuery (legacy = true) on the query TEXT q, mapping = one field
   `name` of type t plus the built-in fields, configured case sensitivity sens: what came back *)
| CQText (legacy : bool) (name : list N) (t : ttype) (sens : bool) (q : list N) (o : pobs)
(* round trip: s is a string the property says must be found (whole value / word / leading path of a value whose
   real tokenizer emitted toks); the harness rendered it in style st at position pos of a query on field `f`
   (text q), and the real parser returned o *)
| CRound (legacy : bool) (st : style) (pos : rpos) (t : ttype) (sens : bool) (s : list N) (q : list N) (o : pobs)
         (toks : list (list N))
(* multi-type field: the real bulk processor on {"key": v} with the titles `all` (in this order) emitted the meta
   `meta`; per_title = what the REAL tokenizer of each title emits on a fresh copy of the ORIGINAL value *)
| CMulti (c : icfg) (all : list mtype) (key v : list N) (per_title : list (list (list N))) (meta : list token)
(* ---- the WIRING (extension): the indexer is built by the production constructor bulk.NewIngestor from the
   configuration startProxy() makes of the flags f; conf.CaseSensitive is set the way main() sets it. The document
   {"f": v} (v = the bytes insaneJSON hands to the indexer) with the mapping {f: t, MaxSize fmax} went through
   Ingestor.ProcessDocuments; meta = ALL tokens of the one meta the storage client received (decompressed,
   unmarshalled). qs = the property's queries on `f` (parser in the binary's case mode), ex = the parser's
   literals for `_exists_:f` and the matcher's verdict over the meta's `_exists_` tokens *)
| CWire (legacy : bool) (f : flags) (t : ttype) (fmax : N) (v : list N) (meta : list token) (qs : list qobs)
        (ex : option (list (list term)) * bool)
(* a whole generated document through the same production path: all metas *)
| CWireDoc (f : flags) (m : mapping) (doc : jval) (metas : list (list token)).

Definition q_str (q : qobs) := fst (fst q).
Definition q_lits (q : qobs) := snd (fst q).
Definition q_found (q : qobs) := snd q.

(* model output = implementation output *)
Fixpoint case_agrees (c : case) : bool :=
  match c with
  | CFind legacy t c fmax v toks qs =>
      list_eqb bytes_eqb (m_tokenize t c fmax v) toks
      && forallb (fun q =>
           option_eqb lits_eqb (any_query legacy t (cs c) (q_str q)) (q_lits q)
           && match q_lits q with
              | Some ls => Bool.eqb (query_finds ls toks) (q_found q)
              | None => negb (q_found q)
              end) qs
  | CQuery t sens s lits => option_eqb lits_eqb (m_query t sens s) lits
  | CExists title lits found =>
      (* `_exists_` is a keyword field searched case-sensitively whatever the configuration *)
      option_eqb lits_eqb (m_query TyKeyword true title) lits
      && match lits with Some ls => implb (query_finds ls [title]) found | None => negb found end
  | CDoc m c doc metas => list_eqb (list_eqb token_eqb) (m_doc_metas m c doc) metas
  | CKnown inner => case_agrees inner
  | CIn t is_ex sens ms k plain inls toks found =>
      let e := eff_sens is_ex sens in
      option_eqb (list_eqb lits_eqb) (query_in go_is_letter go_is_number go_to_lower t e ms) inls
      && option_eqb lits_eqb (match nth_error ms k with Some s => m_query t e s | None => None end) plain
      && match inls with Some members => Bool.eqb (in_finds members toks) found | None => negb found end
  | CRange is_ex sens s plain bounds toks found =>
      let e := eff_sens is_ex sens in
      option_eqb lits_eqb (m_query TyKeyword e s) plain
      && option_eqb (pair_eqb term_eqb term_eqb)
           (match range_term go_to_lower e s with Some t => Some (t, t) | None => None end) bounds
      && match bounds with
         | Some (f, t) => implb (range_finds f t toks) found   (* numeric ranges may find more *)
         | None => negb found
         end
  | CLex q toks =>
      match m_lex q, toks with
      | ROk ts, Some os => list_eqb ltok_eqb ts os
      | _, _ => false
      end
  | CQText legacy name t sens q o => obs_agrees (m_text legacy name t sens q) o
  | CRound legacy st pos t sens s q o toks =>
      bytes_eqb (build_text legacy st pos s) q
      && obs_agrees (m_text legacy [102] t sens q) o
  | CMulti c all key v per_title meta =>
      list_eqb token_eqb ((K_ALL, []) :: m_index_types c all key (Some v)) meta
      && list_eqb (list_eqb bytes_eqb) (map (fun mt : mtype => let '(_, ty, mx) := mt in m_tokenize ty c mx v) all) per_title
  | CWire legacy f t fmax v meta qs ex =>
      let toks := field_tokens meta K_f in
      list_eqb (list_eqb token_eqb) (m_binary_doc_metas f (wire_mapping t fmax) (wire_doc v)) [meta]
      && forallb (fun q =>
           option_eqb lits_eqb (m_binary_query legacy f t (q_str q)) (q_lits q)
           && match q_lits q with
              | Some ls => Bool.eqb (query_finds ls toks) (q_found q)
              | None => negb (q_found q)
              end) qs
      && option_eqb lits_eqb (m_query TyKeyword true K_f) (fst ex)
      && match fst ex with
         | Some ls => Bool.eqb (query_finds ls (field_tokens meta K_EXISTS)) (snd ex)
         | None => negb (snd ex)
         end
  | CWireDoc f m doc metas => list_eqb (list_eqb token_eqb) (m_binary_doc_metas f m doc) metas
  end.

(* the fields of a document as the property describes them (executable form of [reach]): into objects, tag
   arrays and nested arrays, names joined by dots *)
Definition K_key : list N := [107; 101; 121].
Definition K_value : list N := [118; 97; 108; 117; 101].
Fixpoint reach_list (m : mapping) (name : list N) (n : jval) {struct n} : list (list N * option (list N)) :=
  match n with
  | JObj fs _ =>
    (fix go (fs : list (list N * jval)) : list (list N * option (list N)) :=
       match fs with
       | [] => []
       | (k, v) :: r =>
         let fname := join name k in
         (match fst (mlookup m fname), v with
          | TyNoop, _ => []
          | TyObject, JObj _ _ => reach_list m fname v
          | TyTags, JArr els _ =>
            flat_map (fun el => match el with
                                | JObj tfs _ =>
                                  match dig tfs K_key with
                                  | Some kn => [(fname ++ Dot :: jbytes kn,
                                                 match dig tfs K_value with Some x => jvalue x | None => None end)]
                                  | None => []
                                  end
                                | _ => [] end) els
          | TyNested, JArr els _ =>
            (fix each (els : list jval) : list (list N * option (list N)) :=
               match els with [] => [] | e :: er => reach_list m fname e ++ each er end) els
          | _, _ => [(fname, jvalue v)]
          end) ++ go r
       end) fs
  | _ => []
  end.

(* the spec of a document's metas (CDoc, CWireDoc) *)
Definition doc_spec_ok (m : mapping) (doc : jval) (metas : list (list token)) : bool :=
      (* every meta starts with _all_; every token indexed under a title has `_exists_:title` in the same
         meta; every nested meta carries all tokens of the parent *)
      match metas with
      | [] => false
      | parent :: nested =>
        forallb (fun mt => match mt with (k, []) :: _ => bytes_eqb k K_ALL | _ => false end) metas
        && forallb (fun mt => forallb (fun t : token =>
                      bytes_eqb (fst t) K_ALL || bytes_eqb (fst t) K_EXISTS
                      || existsb (token_eqb (K_EXISTS, fst t)) mt) mt) metas
        && forallb (fun mt => forallb (fun t => existsb (token_eqb t) mt) (tl parent)) nested
        (* every field the document has, every title of its mapping entry with a tokenizer: `_exists_:title`
           is in some meta *)
        && forallb (fun fx : list N * option (list N) =>
             forallb (fun mt : mtype =>
               let '(title, ty, _) := mt in
               negb (has_tokenizer ty)
               || existsb (fun meta => existsb (token_eqb (K_EXISTS, title_of title (fst fx))) meta) metas)
               (snd (mlookup m (fst fx)))) (reach_list m [] doc)
      end.

(* implementation output satisfies the property (independent of the model's tokenizers):
   - the queries are exactly those the property names (whole value / each word / each leading path
     of the part within the size limit; none when the value is skipped),
   - every one of them parsed and found the document (verdict of the real matcher),
   - a skipped value left no token, and every token that was indexed is reached by one of those
     queries (never indexed under a token the query side cannot produce). *)
Definition case_spec_ok (c : case) : bool :=
  match c with
  | CFind _ t c fmax v toks qs =>
      list_eqb bytes_eqb (map q_str qs) (m_spec_queries t c fmax v)
      && forallb (fun q => match q_lits q with Some _ => q_found q | None => false end) qs
      && (if m_skipped t c fmax v then negb (nonempty toks) else true)
      && forallb (fun tok =>
           existsb (fun q => match q_lits q with
                             | Some ls => existsb (fun l => lit_matches l tok) ls
                             | None => false end) qs) toks
  | CQuery _ _ _ _ => true
  | CExists title lits found =>
      found && match lits with Some ls => query_finds ls [title] | None => false end
  | CDoc m c doc metas => doc_spec_ok m doc metas
  | CKnown _ => true
  (* form independence on the real ASTs: the member made from the value is the plain form's literals, and
     the in-query finds the document *)
  | CIn t is_ex sens ms k plain inls toks found =>
      found
      && match plain, inls with
         | Some p, Some members =>
           match nth_error members k with Some l => lits_eqb l p | None => false end
           && Nat.eqb (length members) (length ms)
         | _, _ => false
         end
  | CRange is_ex sens s plain bounds toks found =>
      found
      && match plain, bounds with
         | Some [[p]], Some (f, t) => term_eqb f p && term_eqb t p
         | _, _ => false
         end
  | CLex _ toks => match toks with Some _ => true | None => false end      (* the lexer reaches the end *)
  | CQText _ _ _ _ _ _ => true
  (* "the term the real parser yields equals a token the real indexer emitted" *)
  | CRound _ _ pos _ _ _ _ o toks => existsb (obs_is_term pos o) toks
  (* the real indexer's tokens for title k = the real tokenizer of title k on the ORIGINAL value *)
  | CMulti c all key v per_title meta =>
      list_eqb token_eqb meta
        ((K_ALL, []) ::
         concat (map (fun p : mtype * list (list N) =>
                        let '((title, ty, _), toks) := p in
                        if has_tokenizer ty then map (pair (title_of title key)) toks ++ [(K_EXISTS, title_of title key)]
                        else []) (combine all per_title)))
      && Nat.eqb (length all) (length per_title)
  (* the property under the binary's configuration, read off the FLAGS (independent of the model's wiring and
     tokenizers): the meta is `_all_`, tokens of f, `_exists_:f`; the queries are those the property names for the
     flags' own case mode / partial flag / token size; each parsed and found the document; a skipped value left no
     token; every indexed token is reached by one of the queries; `_exists_:f` finds the document *)
  | CWire _ f t fmax v meta qs ex =>
      let toks := field_tokens meta K_f in
      let c := prop_cfg f in
      list_eqb token_eqb meta ((K_ALL, []) :: map (pair K_f) toks ++ [(K_EXISTS, K_f)])
      && list_eqb bytes_eqb (map q_str qs) (m_spec_queries t c fmax v)
      && forallb (fun q => match q_lits q with Some _ => q_found q | None => false end) qs
      && (if m_skipped t c fmax v then negb (nonempty toks) else true)
      && forallb (fun tok =>
           existsb (fun q => match q_lits q with
                             | Some ls => existsb (fun l => lit_matches l tok) ls
                             | None => false end) qs) toks
      && snd ex && match fst ex with Some ls => query_finds ls [K_f] | None => false end
  | CWireDoc _ m doc metas => doc_spec_ok m doc metas
  end.

Definition diff_indices (l : list case) : list nat := bad_indices (fun c => negb (case_agrees c)) l.
Definition specfail_indices (l : list case) : list nat := bad_indices (fun c => negb (case_spec_ok c)) l.
