(* C11 — shape of the Unicode class tables dumped from Go (unicode.IsLetter, unicode.IsNumber,
   unicode.ToLower) into Consts.v, and their lookup functions. No proofs. *)
From Coq Require Export List Bool NArith.
Export ListNotations.
Open Scope N_scope.

(* balanced search tree of disjoint closed ranges lo..hi *)
Inductive rtree := RL | RN (l : rtree) (lo hi : N) (r : rtree).

Fixpoint rmem (t : rtree) (x : N) : bool :=
  match t with
  | RL => false
  | RN l lo hi r => if x <? lo then rmem l x else if hi <? x then rmem r x else true
  end.

(* balanced search tree key -> value (runes whose lower case differs from themselves) *)
Inductive ltree := LL | LN (l : ltree) (k v : N) (r : ltree).

Fixpoint lget (t : ltree) (x : N) : option N :=
  match t with
  | LL => None
  | LN l k v r => if x <? k then lget l x else if k <? x then lget r x else Some v
  end.

Fixpoint lelems (t : ltree) : list (N * N) :=
  match t with
  | LL => []
  | LN l k v r => lelems l ++ (k, v) :: lelems r
  end.

Definition lower_of (t : ltree) (x : N) : N :=
  match lget t x with Some v => v | None => x end.
