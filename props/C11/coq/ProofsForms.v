(* C11 — the other filter forms of SeqQL (in(...), range): every member / bound goes through the same term
   functions with the same case rule as the plain form, so whatever the plain form finds they find. *)
From Coq Require Import List Bool NArith ZArith Lia ZifyN ZifyBool ZifyNat.
From C11 Require Import Model ModelDoc ProofsUtf8 ProofsLower.
Open Scope N_scope.

Section Forms.
  Variables (is_letter is_number : N -> bool) (to_lower : N -> N).
  Notation query_lits := (query_lits is_letter is_number to_lower).
  Notation query_in := (query_in is_letter is_number to_lower).

  (* the member made from the value is exactly the plain form's query; the in-query finds whatever the
     plain query finds — for every field type, every case rule, any other members around it *)
  Lemma in_form_uniform : forall t sens ms k v members,
    nth_error ms k = Some v -> query_in t sens ms = Some members ->
    exists lits, query_lits t sens v = Some lits /\ nth_error members k = Some lits /\
                 length members = length ms /\
                 (forall toks, query_finds lits toks = true -> in_finds members toks = true).
  Proof.
    intros t sens. induction ms as [|s r IH]; intros k v members Hk Hq; [destruct k; discriminate|].
    cbn [ModelDoc.query_in] in Hq.
    destruct (query_lits t sens s) as [l|] eqn:El; [|discriminate].
    destruct (query_in t sens r) as [ls|] eqn:Er; [|discriminate].
    inversion Hq; subst members. destruct k as [|k]; cbn [nth_error] in *.
    - inversion Hk; subst v. exists l. repeat split; try assumption.
      + cbn [length]. f_equal. clear -Er. revert ls Er. induction r as [|s' r' IHr]; intros ls Er.
        * cbn in Er. inversion Er. reflexivity.
        * cbn [ModelDoc.query_in] in Er. destruct (query_lits t sens s'); [|discriminate].
          destruct (query_in t sens r') as [ls'|]; [|discriminate]. inversion Er. cbn. f_equal. auto.
      + intros toks H. unfold in_finds. cbn [existsb]. rewrite H. reflexivity.
    - destruct (IH k v ls Hk eq_refl) as [lits [H1 [H2 [H3 H4]]]].
      exists lits. repeat split; try assumption.
      + cbn [length]. f_equal. assumption.
      + intros toks H. unfold in_finds in *. cbn [existsb]. rewrite (H4 toks H). apply orb_true_r.
  Qed.

  Lemma query_in_total : forall t sens ms, (exists l, query_lits t sens [] = Some l) ->
    exists members, query_in t sens ms = Some members.
  Proof.
    intros t sens ms [l0 H0].
    assert (Ht : forall s, exists l, query_lits t sens s = Some l).
    { intros s. unfold Model.query_lits in *. destruct t; try discriminate; eauto. }
    induction ms as [|s r [ls IH]]; [exists []; reflexivity|].
    destruct (Ht s) as [l Hl]. exists (l :: ls). cbn [ModelDoc.query_in]. rewrite Hl, IH. reflexivity.
  Qed.

  Lemma bytes_le_refl : forall a, bytes_le a a = true.
  Proof. induction a as [|x a IH]; [reflexivity|]. cbn. rewrite N.ltb_irrefl. assumption. Qed.

  (* range form with both bounds made from the value: the bounds are the plain form's term, and the range
     contains the token the plain query finds *)
  Lemma range_form_uniform : forall sens v t toks,
    qkw to_lower sens v = [TText t] ->
    range_term to_lower sens v = Some (TText t) /\
    (In t toks -> range_finds (TText t) (TText t) toks = true).
  Proof.
    intros sens v t toks H. unfold range_term. rewrite H. split; [reflexivity|].
    intros Hin. unfold range_finds. apply existsb_exists. exists t. split; [assumption|].
    rewrite bytes_le_refl. reflexivity.
  Qed.

  (* `_exists_` in every form: the case rule is the forced one *)
  Lemma exists_forms : forall sens title,
    has_rune WildcardRune title = false -> valid_utf8 title = true ->
    let e := eff_sens true sens in
    qkw to_lower e title = [TText title] /\
    range_term to_lower e title = Some (TText title) /\
    (forall ms k members toks, nth_error ms k = Some title ->
       query_in TyKeyword e ms = Some members -> In title toks ->
       nth_error members k = Some [[TText title]] /\ in_finds members toks = true).
  Proof.
    intros sens title Hw Hv e. subst e. cbn [eff_sens orb].
    destruct (exists_term to_lower title Hw Hv) as [Hq _].
    split; [exact Hq|]. split.
    - unfold range_term. rewrite Hq. reflexivity.
    - intros ms k members toks Hk Hin Ht.
      destruct (in_form_uniform TyKeyword true ms k title members Hk Hin) as [lits [H1 [H2 [_ H4]]]].
      cbn [Model.query_lits] in H1. rewrite Hq in H1. inversion H1; subst lits.
      split; [exact H2|]. apply H4. unfold query_finds. cbn [forallb]. rewrite andb_true_r.
      apply existsb_exists. exists title. split; [assumption|]. cbn. apply list_eqb_N_refl.
  Qed.
End Forms.
