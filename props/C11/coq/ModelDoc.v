(* C11 — executable model, part 2. No proofs in this file.
   (a) proxy/bulk/indexer.go: Index, decodeInternal, decodeTags, index over an abstract JSON tree
       (what insaneJSON hands to the indexer: objects = field lists, arrays, and for every node the
       bytes encodeInsaneNode returns for it);
   (b) the legacy query side parser/token_parser.go + term_builder.go: ParseQuery converts the
       query to []rune up front (an invalid byte becomes U+FFFD), keywordTokenBuilder /
       textTokenBuilder append rune by rune, lower-casing each rune with unicode.ToLower. *)
From C11 Require Export Model.

(* ------------------------------------------------------------------ JSON tree *)
Inductive jval :=
| JLeaf (v : option (list N))                          (* string/number/true/false/null: its bytes *)
| JObj (fields : list (list N * jval)) (enc : list N)  (* enc = Encode() of the node *)
| JArr (elems : list jval) (enc : list N).

(* encodeInsaneNode of a present node *)
Definition jvalue (n : jval) : option (list N) :=
  match n with JLeaf v => v | JObj _ e => Some e | JArr _ e => Some e end.

(* Node.AsBytes *)
Definition jbytes (n : jval) : list N := match n with JLeaf (Some b) => b | _ => [] end.

(* Node.Dig(k) on an object: value of the first field named k *)
Fixpoint dig (fs : list (list N * jval)) (k : list N) : option jval :=
  match fs with
  | [] => None
  | (k', v) :: r => if list_eqb_N k' k then Some v else dig r k
  end.

Definition is_obj (n : jval) : bool := match n with JObj _ _ => true | _ => false end.
Definition is_arr (n : jval) : bool := match n with JArr _ _ => true | _ => false end.

(* ------------------------------------------------------------------ mapping *)
Definition mtype := (list N * ttype * N)%type.    (* Title ("" = []), TokenizerType, MaxSize *)
Definition mtypes := (ttype * list mtype)%type.   (* Main.TokenizerType, All *)
Definition mapping := list (list N * mtypes).

Fixpoint mlookup (m : mapping) (k : list N) : mtypes :=
  match m with
  | [] => (TyNoop, [])
  | (k', t) :: r => if list_eqb_N k' k then t else mlookup r k
  end.

Definition token := (list N * list N)%type.       (* MetaToken: Key, Value *)
Definition K_ALL : list N := [95; 97; 108; 108; 95].                     (* "_all_" *)
Definition K_EXISTS : list N := [95; 101; 120; 105; 115; 116; 115; 95].  (* "_exists_" *)
Definition Dot : N := 46.

Definition join (name k : list N) : list N :=
  match name with [] => k | _ => name ++ Dot :: k end.

Definition has_tokenizer (t : ttype) : bool :=
  match t with TyKeyword | TyText | TyPath | TyExists => true | _ => false end.

Section Oracles.
  Variables (is_letter is_number : N -> bool) (to_lower : N -> N).

  (* Tokenize: token values and the value bytes afterwards (the tokenizers lower-case in place and
     the same slice is handed to the tokenizer of the next type) *)
  Definition tokenize_full (t : ttype) (c : icfg) (fmax : N) (v : list N) : list (list N) * list N :=
    match t with
    | TyKeyword => kw_tokenize to_lower c fmax v
    | TyText => text_tokenize is_letter is_number to_lower c fmax v
    | TyPath => path_tokenize to_lower c fmax v
    | _ => ([], v)
    end.

  Definition title_of (title key : list N) : list N := if nonempty title then title else key.

  (* indexer.index *)
  Fixpoint index_types (c : icfg) (all : list mtype) (key : list N) (value : option (list N))
    : list token :=
    match all with
    | [] => []
    | (title, ty, mx) :: rest =>
      if has_tokenizer ty then
        let t := title_of title key in
        match value with
        | Some v =>
          let (toks, v') := tokenize_full ty c mx v in
          map (pair t) toks ++ (K_EXISTS, t) :: index_types c rest key (Some v')
        | None => (K_EXISTS, t) :: index_types c rest key None
        end
      else index_types c rest key value
    end.

  (* decodeTags *)
  Definition tag_tokens (m : mapping) (c : icfg) (name : list N) (el : jval) : list token :=
    let fs := match el with JObj fs _ => fs | _ => [] end in
    let k := match dig fs [107; 101; 121] with Some n => jbytes n | None => [] end in       (* "key" *)
    let v := match dig fs [118; 97; 108; 117; 101] with Some n => jvalue n | None => None end in (* "value" *)
    let fname := name ++ Dot :: k in
    index_types c (snd (mlookup m fname)) fname v.

  (* decodeInternal on node n with name prefix [name]: tokens appended to the current meta, and the
     metas created for nested elements (in creation order) *)
  Fixpoint dec (m : mapping) (c : icfg) (name : list N) (n : jval) {struct n}
    : list token * list (list token) :=
    match n with
    | JObj fs _ =>
      (fix go (fs : list (list N * jval)) : list token * list (list token) :=
         match fs with
         | [] => ([], [])
         | (k, v) :: r =>
           let fname := join name k in
           let mt := mlookup m fname in
           let here :=
             match fst mt, v with
             | TyNoop, _ => ([], [])
             | TyObject, JObj _ _ => dec m c fname v
             | TyTags, JArr els _ => (flat_map (tag_tokens m c fname) els, [])
             | TyNested, JArr els _ =>
               ([], (fix each (els : list jval) : list (list token) :=
                       match els with
                       | [] => []
                       | e :: er =>
                         let (t, ms) := dec m c fname e in
                         (((K_ALL, []) :: t) :: ms) ++ each er
                       end) els)
             | _, _ => (index_types c (snd mt) fname (jvalue v), [])
             end in
           let (t2, m2) := go r in
           (fst here ++ t2, snd here ++ m2)
         end) fs
    | _ => ([], [])
    end.

  (* indexer.Index: metas of one document, the parent first; nested metas get the parent's tokens
     (all but _all_) appended *)
  Definition doc_metas (m : mapping) (c : icfg) (doc : jval) : list (list token) :=
    let (t0, ms) := dec m c [] doc in
    ((K_ALL, []) :: t0) :: map (fun mt => mt ++ t0) ms.

  (* ------------------------------------------------------------------ legacy query side *)
  Definition lowr (sens : bool) (r : N) : N := if sens then r else to_lower r.

  (* keywordTokenBuilder over the runes of the (unquoted) value *)
  Definition lq_kw (sens : bool) (s : list N) : list (list term) :=
    [[TText (concat (map (fun sg : seg => encode (lowr sens (fst sg))) (segs s)))]].

  (* textTokenBuilder: isIndexed(r) => append the lower-cased rune, otherwise finish the token *)
  Fixpoint ltext_loop (sens : bool) (l : list seg) (tm : list N) : list (list term) :=
    match l with
    | [] => if nonempty tm then [[TText tm]] else []
    | (r, _) :: rest =>
      if is_word_rune is_letter is_number r then ltext_loop sens rest (tm ++ encode (lowr sens r))
      else (if nonempty tm then [[TText tm]] else []) ++ ltext_loop sens rest []
    end.

  Definition lq_text (sens : bool) (s : list N) : list (list term) :=
    match ltext_loop sens (segs s) [] with [] => [[TText []]] | ls => ls end.

  Definition lquery_lits (t : ttype) (sens : bool) (s : list N) : option (list (list term)) :=
    match t with
    | TyKeyword | TyPath => Some (lq_kw sens s)
    | TyText => Some (lq_text sens s)
    | _ => None
    end.
End Oracles.

(* ------------------------------------------------------------------ which fields a document has *)
(* reach m name n f x : walking node n (an object reached under the name prefix [name]) the way the
   property describes it — into objects, tag arrays and nested arrays, names joined by dots — meets
   the field with full name f whose value bytes are x (None: a tag without value). Specification,
   independent of [dec]. *)
Definition leafy (m : mapping) (fname : list N) (v : jval) : Prop :=
  match fst (mlookup m fname), v with
  | TyNoop, _ => False
  | TyObject, JObj _ _ => False
  | TyTags, JArr _ _ => False
  | TyNested, JArr _ _ => False
  | _, _ => True
  end.

Inductive reach (m : mapping) : list N -> jval -> list N -> option (list N) -> Prop :=
| R_field : forall name fs enc k v,
    In (k, v) fs -> leafy m (join name k) v ->
    reach m name (JObj fs enc) (join name k) (jvalue v)
| R_object : forall name fs enc k fs' enc' f x,
    In (k, JObj fs' enc') fs -> fst (mlookup m (join name k)) = TyObject ->
    reach m (join name k) (JObj fs' enc') f x ->
    reach m name (JObj fs enc) f x
| R_tag : forall name fs enc k els enc' tfs tenc kn,
    In (k, JArr els enc') fs -> fst (mlookup m (join name k)) = TyTags ->
    In (JObj tfs tenc) els -> dig tfs [107; 101; 121] = Some kn ->
    reach m name (JObj fs enc) (join name k ++ Dot :: jbytes kn)
          (match dig tfs [118; 97; 108; 117; 101] with Some n => jvalue n | None => None end)
| R_nested : forall name fs enc k els enc' e f x,
    In (k, JArr els enc') fs -> fst (mlookup m (join name k)) = TyNested ->
    In e els -> reach m (join name k) e f x ->
    reach m name (JObj fs enc) f x.

(* the value as the tokenizer of each title sees it (earlier tokenizers lower-case in place) *)
Fixpoint seen_by (is_letter is_number : N -> bool) (to_lower : N -> N) (c : icfg) (all : list mtype)
  (v : list N) : list (mtype * list N) :=
  match all with
  | [] => []
  | (title, ty, mx) :: rest =>
    if has_tokenizer ty then
      ((title, ty, mx), v) :: seen_by is_letter is_number to_lower c rest
                                (snd (tokenize_full is_letter is_number to_lower ty c mx v))
    else seen_by is_letter is_number to_lower c rest v
  end.

Definition field_tokens (meta : list token) (key : list N) : list (list N) :=
  map snd (filter (fun t : token => list_eqb_N (fst t) key) meta).

(* ------------------------------------------------------------------ the other filter forms of SeqQL *)
(* parser/seqql_filter.go parseSeqQLFieldFilter: the case rule is fixed BEFORE the form is looked at —
   `_exists_` forces case sensitivity for the range form, the in(...) form and the plain form alike. *)
Definition eff_sens (is_exists sens : bool) : bool := is_exists || sens.

Section Forms.
  Variables (is_letter is_number : N -> bool) (to_lower : N -> N).

  (* parseFilterIn: every member goes through the same parseFulltextSearchFilter with the same type and
     case rule; the result is the OR of the members *)
  Fixpoint query_in (t : ttype) (sens : bool) (ms : list (list N)) : option (list (list (list term))) :=
    match ms with
    | [] => Some []
    | s :: r =>
      match query_lits is_letter is_number to_lower t sens s, query_in t sens r with
      | Some l, Some ls => Some (l :: ls)
      | _, _ => None
      end
    end.

  (* parseSeqQLTokenRange / parseRangeTerm: both bounds through parseSeqQLKeyword with the same case rule;
     exactly one term each *)
  Definition range_term (sens : bool) (s : list N) : option term :=
    match qkw to_lower sens s with [t] => Some t | _ => None end.
End Forms.

Definition in_finds (members : list (list (list term))) (toks : list (list N)) : bool :=
  existsb (fun lits => query_finds lits toks) members.

(* Go string comparison *)
Fixpoint bytes_le (a b : list N) : bool :=
  match a, b with
  | [], _ => true
  | _ :: _, [] => false
  | x :: a', y :: b' => if x <? y then true else if y <? x then false else bytes_le a' b'
  end.

(* pattern.rangeTextSearch with both bounds included *)
Definition range_finds (from to : term) (toks : list (list N)) : bool :=
  match from, to with
  | TText f, TText t => existsb (fun tok => bytes_le f tok && bytes_le tok t) toks
  | _, _ => nonempty toks
  end.
