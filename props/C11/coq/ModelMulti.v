(* C11 — multi-type fields, specification side. No proofs in this file.
   proxy/bulk/indexer.go index(): the loop over tokenTypes.All hands the SAME value slice to the tokenizer of
   every title; the tokenizers lower-case in place (tokenizer.go toLowerTryInplace writes into s when the lower
   case of a rune has the same UTF-8 length, and abandons the loop for bytes.Map — a fresh slice — at the first
   rune whose length changes, leaving the buffer half converted). ModelDoc.index_types threads that mutation.
   [index_types_pure] is what the property wants: every title's tokenizer applied to the ORIGINAL value. *)
From C11 Require Export Model ModelDoc.

Section Oracles.
  Variables (is_letter is_number : N -> bool) (to_lower : N -> N).

  Definition index_types_pure (c : icfg) (all : list mtype) (key v : list N) : list token :=
    flat_map (fun mt : mtype =>
      let '(title, ty, mx) := mt in
      if has_tokenizer ty then
        map (pair (title_of title key)) (fst (tokenize_full is_letter is_number to_lower ty c mx v))
        ++ [(K_EXISTS, title_of title key)]
      else []) all.
End Oracles.

(* in-place lower-casing of one decoded segment, as the loop of toLowerTryInplace writes it: an ASCII byte through
   toLowerMap, a multi-byte rune re-encoded when its lower case has the same length, anything else untouched *)
Definition lowseg (to_lower : N -> N) (sg : seg) : list N :=
  if first_byte (snd sg) <? 128 then [ascii_lower (first_byte (snd sg))]
  else if Nat.eqb (rune_len (to_lower (fst sg))) (length (snd sg)) then encode (to_lower (fst sg))
  else snd sg.

(* a buffer in which the segments selected by sel were lower-cased in place (sel shorter than l: the rest untouched) *)
Fixpoint apply_low (to_lower : N -> N) (sel : list bool) (l : list seg) : list N :=
  match l with
  | [] => []
  | sg :: l' =>
    match sel with
    | [] => raws l
    | b :: sel' => (if b then lowseg to_lower sg else snd sg) ++ apply_low to_lower sel' l'
    end
  end.
