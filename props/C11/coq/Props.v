(* C11 — property theorems. Nothing but statements closed by `exact <lemma>` (lemmas in Proofs*.v),
   `Print Assumptions` under each, and the non-vacuity / refutation examples.
   All statements are about the model instantiated with the Unicode tables of the Go toolchain
   (Consts.v): go_is_letter, go_is_number, go_to_lower. *)
From Coq Require Import List Bool NArith.
From C11 Require Import Model ModelDoc ModelMulti ModelLex ModelWire CaseDefs ProofsText ProofsPath ProofsSpec ProofsGo ProofsLex ProofsLexGo ProofsWire ProofsMulti ProofsMultiKw.
Open Scope N_scope.

(* Lower-casing agrees on both sides for EVERY byte string (valid UTF-8 or not, including runes whose
   lower case has another width): the in-place loop of the tokenizers with its bytes.Map fallback
   gives what strings.ToLower gives on the query side's re-encoding of the string. *)
Theorem C11_lower_sides_agree :
  forall s, lower_ip go_to_lower s = str_to_lower go_to_lower (sanitize s).
Proof. exact go_lower_sides_agree. Qed.
Print Assumptions C11_lower_sides_agree.

(* The whole value of a keyword field within the size limit: the tokenizer emits exactly one token,
   the query literal built from the value is exactly that one text term, and the query finds it.
   Hypotheses: the value holds no U+E000 (the parser's private wildcard rune; with it the literal
   is a wildcard pattern), and case-insensitive mode or valid UTF-8. *)
Theorem C11_keyword_findable :
  forall c fmax v,
    (length v <= limit_of (max_tok c) fmax)%nat ->
    has_rune WildcardRune v = false -> (cs c = false \/ valid_utf8 v = true) ->
    exists t, fst (kw_tokenize go_to_lower c fmax v) = [t] /\ qkw go_to_lower (cs c) v = [TText t] /\
              query_finds [qkw go_to_lower (cs c) v] (fst (kw_tokenize go_to_lower c fmax v)) = true.
Proof. exact go_kw_findable. Qed.
Print Assumptions C11_keyword_findable.

(* Any keyword value, any limits: skipped entirely, or indexed under exactly the token that the query
   made from the part within the limit produces (partial indexing). The hypothesis "valid UTF-8" of the
   case-sensitive mode is about the cut part: the cut must not split a rune. *)
Theorem C11_keyword_oversize_consistent :
  forall c fmax v,
    let p := indexed_part TyKeyword c fmax v in
    if skipped TyKeyword c fmax v then fst (kw_tokenize go_to_lower c fmax v) = []
    else exists t, fst (kw_tokenize go_to_lower c fmax v) = [t] /\
         (has_rune WildcardRune p = false -> (cs c = false \/ valid_utf8 p = true) ->
          qkw go_to_lower (cs c) p = [TText t] /\ lit_matches (qkw go_to_lower (cs c) p) t = true).
Proof. exact go_kw_consistent. Qed.
Print Assumptions C11_keyword_oversize_consistent.

(* Text fields, any value, any limits. With p = the part of the value within maxFieldValueLength
   (the whole value unless partial indexing cuts it):
   (1) the tokenizer's byte-level scan (ASCII table fast path, decoded slow path, lower-casing skipped or
       done in place per word) emits exactly the rune-level words of p that fit MaxTokenSize, lower-cased
       unless case-sensitive  [lem:same_token_class is the ASCII half of this];
   (2) the query built from ANY single word of p is one literal with one text term, byte-equal to the
       token of that word, and finds it when the word was indexed;
   (3) the query built from the whole of p splits on exactly the index side's separators.
   No UTF-8 validity hypothesis: an invalid byte is a separator on both sides. *)
Theorem C11_text_words_findable :
  forall c fmax v, v <> [] ->
    let p := indexed_part TyText c fmax v in
    let toks := fst (text_tokenize go_is_letter go_is_number go_to_lower c fmax v) in
    if skipped TyText c fmax v then toks = []
    else
      toks = map (go_word_token c) (filter (sizeok c) (words_of go_is_letter go_is_number (segs p) []))
      /\ (forall w, In w (words_of go_is_letter go_is_number (segs p) []) ->
            qtext go_is_letter go_is_number go_to_lower (cs c) w = [[TText (go_word_token c w)]]
            /\ (sizeok c w = true ->
                query_finds (qtext go_is_letter go_is_number go_to_lower (cs c) w) toks = true))
      /\ (has_rune WildcardRune p = false -> words_of go_is_letter go_is_number (segs p) [] <> [] ->
            qtext go_is_letter go_is_number go_to_lower (cs c) p =
            map (fun w => [TText (go_word_token c w)]) (words_of go_is_letter go_is_number (segs p) [])).
Proof. exact go_text_consistent. Qed.
Print Assumptions C11_text_words_findable.

Example C11_text_nonvacuous :
  let c := ICfg false false 72 32768 in
  let v := [75; 226; 132; 170; 95; 195; 128; 66; 32; 217; 163; 120; 42; 121] in
  skipped TyText c 0 v = false /\
  words_of go_is_letter go_is_number (segs (indexed_part TyText c 0 v)) [] =
    [[75; 226; 132; 170; 95; 195; 128; 66]; [217; 163; 120; 42; 121]] /\
  fst (text_tokenize go_is_letter go_is_number go_to_lower c 0 v) =
    [[107; 107; 95; 195; 160; 98]; [217; 163; 120; 42; 121]] /\
  has_rune WildcardRune (indexed_part TyText c 0 v) = false.
Proof. exact text_nonvacuous. Qed.

(* Path fields, any value, any limits. With p = the part of the value within the size limit: the
   tokenizer emits nothing (skipped) or exactly one token per leading path of p cut at a separator plus
   one for p itself, each lower-cased unless case-sensitive — although the code lower-cases the
   prefixes in place on the shared buffer, or through the bytes.Map fallback leaving a half-converted
   buffer behind. The query built from any of these paths is exactly the corresponding token and finds
   it (same hypotheses as for keyword fields, on that path). *)
Theorem C11_path_prefix_findable :
  forall c fmax v,
    let p := indexed_part TyPath c fmax v in
    let toks := fst (path_tokenize go_to_lower c fmax v) in
    if skipped TyPath c fmax v then toks = []
    else
      toks = map (go_ptok c) (path_prefixes [] p ++ [p])
      /\ (forall q, In q (path_prefixes [] p ++ [p]) ->
            has_rune WildcardRune q = false -> (cs c = false \/ valid_utf8 q = true) ->
            qkw go_to_lower (cs c) q = [TText (go_ptok c q)] /\
            query_finds [qkw go_to_lower (cs c) q] toks = true).
Proof. exact go_path_consistent. Qed.
Print Assumptions C11_path_prefix_findable.

Example C11_path_nonvacuous :
  let c := ICfg false false 72 32768 in
  let v := [47; 86; 97; 114; 47; 76; 195; 150; 71; 47; 196; 176; 120] in
  skipped TyPath c 0 v = false /\
  path_prefixes [] (indexed_part TyPath c 0 v) = [[47; 86; 97; 114]; [47; 86; 97; 114; 47; 76; 195; 150; 71]] /\
  fst (path_tokenize go_to_lower c 0 v) =
    [[47; 118; 97; 114]; [47; 118; 97; 114; 47; 108; 195; 182; 103];
     [47; 118; 97; 114; 47; 108; 195; 182; 103; 47; 105; 120]] /\
  has_rune WildcardRune v = false.
Proof. exact path_nonvacuous. Qed.

(* Field existence: the indexer stores the title (field name or multi-type title, raw bytes) under
   `_exists_`; the parser forces case sensitivity on that field, so for a valid UTF-8 title (titles are
   mapping keys) the query term is the title byte for byte and finds the token, whatever the
   configured case sensitivity. *)
Theorem C11_exists_findable :
  forall title,
    has_rune WildcardRune title = false -> valid_utf8 title = true ->
    qkw go_to_lower true title = [TText title] /\ query_finds [qkw go_to_lower true title] [title] = true.
Proof. exact go_exists_term. Qed.
Print Assumptions C11_exists_findable.

(* The hypothesis "case-insensitive or valid UTF-8" cannot be dropped: known finding cs-invalid-utf8
   (DESIGN section 9, #13), witness replayed on the real code by the driver. *)
Example C11_keyword_cs_invalid_refuted :
  exists c fmax v,
    (length v <= limit_of (max_tok c) fmax)%nat /\ has_rune WildcardRune v = false /\ cs c = true /\
    query_finds [qkw go_to_lower (cs c) v] (fst (kw_tokenize go_to_lower c fmax v)) = false.
Proof. exact kw_cs_invalid_refuted. Qed.

Example C11_cut_rune_witness :
  exists c fmax v,
    cs c = true /\ partial c = true /\ valid_utf8 v = true /\
    skipped TyKeyword c fmax v = false /\
    let p := indexed_part TyKeyword c fmax v in
    valid_utf8 p = false /\
    query_finds [qkw go_to_lower (cs c) p] (fst (kw_tokenize go_to_lower c fmax v)) = false.
Proof. exact cut_rune_witness. Qed.

Example C11_cut_rune_case_insensitive_found :
  let c := ICfg false true 4 32768 in
  let v := [97; 98; 99; 195; 169; 100] in
  let p := indexed_part TyKeyword c 0 v in
  valid_utf8 p = false /\
  query_finds [qkw go_to_lower (cs c) p] (fst (kw_tokenize go_to_lower c 0 v)) = true.
Proof. exact cut_rune_ci_found. Qed.

Example C11_keyword_nonvacuous :
  let c := ICfg false false 72 32768 in
  let v := [196; 176; 120] in
  (length v <= limit_of (max_tok c) 0)%nat /\ has_rune WildcardRune v = false /\
  fst (kw_tokenize go_to_lower c 0 v) = [[105; 120]] /\ qkw go_to_lower (cs c) v = [TText [105; 120]].
Proof. exact kw_nonvacuous. Qed.

(* ================================================================= phase 2 *)

(* The indexer's traversal. `reach m [] doc f x`: walking the document the way the property describes it
   (into objects, tag arrays {key,value}, nested arrays; names joined by dots) meets field f with value
   bytes x. Then ONE meta of the document (the parent's, or the one created for the nested element)
   holds, for EVERY title of f's mapping entry whose type has a tokenizer (multi-type fields):
   `_exists_:<title>`, and all tokens of that title's tokenizer applied to the value as this tokenizer sees
   it — so every query that finds the value among the tokenizer's own tokens (the theorems above) finds
   it in the document under that title. *)
Theorem C11_flatten_findable :
  forall m c doc f x, reach m [] doc f x ->
    exists meta, In meta (doc_metas go_is_letter go_is_number go_to_lower m c doc) /\
      (forall title ty mx, In (title, ty, mx) (snd (mlookup m f)) -> has_tokenizer ty = true ->
         In (K_EXISTS, title_of title f) meta /\ In (title_of title f) (field_tokens meta K_EXISTS)) /\
      (forall v, x = Some v ->
         forall title ty mx v',
           In ((title, ty, mx), v') (seen_by go_is_letter go_is_number go_to_lower c (snd (mlookup m f)) v) ->
           incl (fst (tokenize_full go_is_letter go_is_number go_to_lower ty c mx v'))
                (field_tokens meta (title_of title f)) /\
           (forall lits,
              query_finds lits (fst (tokenize_full go_is_letter go_is_number go_to_lower ty c mx v')) = true ->
              query_finds lits (field_tokens meta (title_of title f)) = true)).
Proof. exact go_flatten_findable. Qed.
Print Assumptions C11_flatten_findable.

(* "the value as this tokenizer sees it": the tokenizers lower-case in place and index() hands the same
   slice to the tokenizer of the next title. The first title with a tokenizer sees the value itself; in
   case-sensitive mode every title does.
   NOT PROVED (named gap, C11_multitype_later_titles): in case-insensitive mode the tokens of a LATER
   title computed from the half lower-cased value equal the tokens computed from the original value
   (needs: tokens are invariant under in-place lower-casing of a prefix, for arbitrary cut positions;
   the model does thread the mutation and the correspondence run checks it on multi-type documents). *)
Theorem C11_flatten_value_seen_partial :
  forall c all v,
    (forall mt v', hd_error (seen_by go_is_letter go_is_number go_to_lower c all v) = Some (mt, v') -> v' = v) /\
    (cs c = true ->
     forall mt v', In (mt, v') (seen_by go_is_letter go_is_number go_to_lower c all v) -> v' = v).
Proof. exact go_seen_value. Qed.
Print Assumptions C11_flatten_value_seen_partial.

(* Legacy parser (ParseQuery): []rune conversion up front, rune-by-rune builders with unicode.ToLower per
   rune. Keyword: same statement as for SeqQL, WITHOUT the U+E000 hypothesis. Valid UTF-8 is needed in
   case-sensitive mode only (same known finding); in case-insensitive mode invalid bytes are U+FFFD on
   both sides. *)
Theorem C11_legacy_keyword_findable :
  forall c fmax v,
    let p := indexed_part TyKeyword c fmax v in
    if skipped TyKeyword c fmax v then fst (kw_tokenize go_to_lower c fmax v) = []
    else exists t, fst (kw_tokenize go_to_lower c fmax v) = [t] /\
         ((cs c = false \/ valid_utf8 p = true) ->
          lq_kw go_to_lower (cs c) p = [[TText t]] /\
          query_finds (lq_kw go_to_lower (cs c) p) (fst (kw_tokenize go_to_lower c fmax v)) = true).
Proof. exact go_legacy_kw_consistent. Qed.
Print Assumptions C11_legacy_keyword_findable.

Theorem C11_legacy_text_words_findable :
  forall c fmax v, v <> [] ->
    let p := indexed_part TyText c fmax v in
    let toks := fst (text_tokenize go_is_letter go_is_number go_to_lower c fmax v) in
    if skipped TyText c fmax v then toks = []
    else
      toks = map (go_word_token c) (filter (sizeok c) (words_of go_is_letter go_is_number (segs p) []))
      /\ (forall w, In w (words_of go_is_letter go_is_number (segs p) []) ->
            lq_text go_is_letter go_is_number go_to_lower (cs c) w = [[TText (go_word_token c w)]]
            /\ (sizeok c w = true ->
                query_finds (lq_text go_is_letter go_is_number go_to_lower (cs c) w) toks = true))
      /\ (words_of go_is_letter go_is_number (segs p) [] <> [] ->
            lq_text go_is_letter go_is_number go_to_lower (cs c) p =
            map (fun w => [TText (go_word_token c w)]) (words_of go_is_letter go_is_number (segs p) [])).
Proof. exact go_legacy_text_consistent. Qed.
Print Assumptions C11_legacy_text_words_findable.

Theorem C11_legacy_path_prefix_findable :
  forall c fmax v,
    let p := indexed_part TyPath c fmax v in
    let toks := fst (path_tokenize go_to_lower c fmax v) in
    if skipped TyPath c fmax v then toks = []
    else
      toks = map (go_ptok c) (path_prefixes [] p ++ [p])
      /\ (forall q, In q (path_prefixes [] p ++ [p]) -> (cs c = false \/ valid_utf8 q = true) ->
            lq_kw go_to_lower (cs c) q = [[TText (go_ptok c q)]] /\
            query_finds (lq_kw go_to_lower (cs c) q) toks = true).
Proof. exact go_legacy_path_consistent. Qed.
Print Assumptions C11_legacy_path_prefix_findable.

(* The executable field walk the spec checker of the document cases uses (CaseDefs.reach_list) lists only
   fields that [reach] reaches: what the run checks on the real indexer's output ("every field of the
   document, every title with a tokenizer: `_exists_:title` is in some meta") is an instance of
   C11_flatten_findable. *)
Theorem C11_spec_walk_sound :
  forall m doc f x, In (f, x) (reach_list m [] doc) -> reach m [] doc f x.
Proof. exact reach_list_sound_top. Qed.
Print Assumptions C11_spec_walk_sound.

Example C11_flatten_nonvacuous :
  reach ex_mapping [] ex_doc [111; 46; 120] (Some [65; 98]) /\
  reach ex_mapping [] ex_doc [116; 103; 46; 97] (Some [67; 32; 100]) /\
  reach ex_mapping [] ex_doc [110; 115; 46; 118] (Some [69; 47; 102]) /\
  doc_metas go_is_letter go_is_number go_to_lower ex_mapping (ICfg false false 72 32768) ex_doc =
    [ [(K_ALL, []); ([111; 46; 120], [97; 98]); (K_EXISTS, [111; 46; 120]);
       ([116; 103; 46; 97], [99]); ([116; 103; 46; 97], [100]); (K_EXISTS, [116; 103; 46; 97])];
      [(K_ALL, []); ([110; 115; 46; 118], [101; 47; 102]); (K_EXISTS, [110; 115; 46; 118]);
       ([110; 115; 46; 118; 46; 116], [101]); ([110; 115; 46; 118; 46; 116], [102]); (K_EXISTS, [110; 115; 46; 118; 46; 116]);
       ([111; 46; 120], [97; 98]); (K_EXISTS, [111; 46; 120]);
       ([116; 103; 46; 97], [99]); ([116; 103; 46; 97], [100]); (K_EXISTS, [116; 103; 46; 97])] ].
Proof. exact flatten_nonvacuous. Qed.

Example C11_legacy_invalid_utf8_witness :
  let v := [97; 98; 255; 99; 100] in
  query_finds (lq_kw go_to_lower false v) (fst (kw_tokenize go_to_lower (ICfg false false 72 32768) 0 v)) = true /\
  query_finds (lq_kw go_to_lower true v) (fst (kw_tokenize go_to_lower (ICfg true false 72 32768) 0 v)) = false.
Proof. exact legacy_invalid_witness. Qed.

(* ================================================================= phase 3: the other filter forms *)

(* in(...) form, every field type, every case rule, any other members around the value: the member made
   from v is exactly the plain form's query for v, and the in-query finds whatever the plain query finds. *)
Theorem C11_in_form_uniform :
  forall t sens ms k v members,
    nth_error ms k = Some v -> query_in go_is_letter go_is_number go_to_lower t sens ms = Some members ->
    exists lits, query_lits go_is_letter go_is_number go_to_lower t sens v = Some lits /\
                 nth_error members k = Some lits /\ length members = length ms /\
                 (forall toks, query_finds lits toks = true -> in_finds members toks = true).
Proof. exact go_in_form_uniform. Qed.
Print Assumptions C11_in_form_uniform.

Theorem C11_keyword_in_findable :
  forall c fmax v ms k members,
    (length v <= limit_of (max_tok c) fmax)%nat ->
    has_rune WildcardRune v = false -> (cs c = false \/ valid_utf8 v = true) ->
    nth_error ms k = Some v ->
    query_in go_is_letter go_is_number go_to_lower TyKeyword (cs c) ms = Some members ->
    nth_error members k = Some [qkw go_to_lower (cs c) v] /\
    in_finds members (fst (kw_tokenize go_to_lower c fmax v)) = true.
Proof. exact go_keyword_in_findable. Qed.
Print Assumptions C11_keyword_in_findable.

Theorem C11_text_words_in_findable :
  forall c fmax v w ms k members,
    v <> [] -> skipped TyText c fmax v = false ->
    In w (words_of go_is_letter go_is_number (segs (indexed_part TyText c fmax v)) []) -> sizeok c w = true ->
    nth_error ms k = Some w ->
    query_in go_is_letter go_is_number go_to_lower TyText (cs c) ms = Some members ->
    nth_error members k = Some [[TText (go_word_token c w)]] /\
    in_finds members (fst (text_tokenize go_is_letter go_is_number go_to_lower c fmax v)) = true.
Proof. exact go_text_in_findable. Qed.
Print Assumptions C11_text_words_in_findable.

Theorem C11_path_prefix_in_findable :
  forall c fmax v q ms k members,
    skipped TyPath c fmax v = false ->
    In q (path_prefixes [] (indexed_part TyPath c fmax v) ++ [indexed_part TyPath c fmax v]) ->
    has_rune WildcardRune q = false -> (cs c = false \/ valid_utf8 q = true) ->
    nth_error ms k = Some q ->
    query_in go_is_letter go_is_number go_to_lower TyPath (cs c) ms = Some members ->
    nth_error members k = Some [[TText (go_ptok c q)]] /\
    in_finds members (fst (path_tokenize go_to_lower c fmax v)) = true.
Proof. exact go_path_in_findable. Qed.
Print Assumptions C11_path_prefix_in_findable.

(* `_exists_` in EVERY form (plain, range bounds, in members): the case rule is the forced one whatever the
   configured case sensitivity, so the term is the title byte for byte and the document is found. *)
Theorem C11_exists_findable_all_forms :
  forall sens title,
    has_rune WildcardRune title = false -> valid_utf8 title = true ->
    let e := eff_sens true sens in
    qkw go_to_lower e title = [TText title] /\
    range_term go_to_lower e title = Some (TText title) /\
    (forall ms k members toks, nth_error ms k = Some title ->
       query_in go_is_letter go_is_number go_to_lower TyKeyword e ms = Some members -> In title toks ->
       nth_error members k = Some [[TText title]] /\ in_finds members toks = true).
Proof. exact go_exists_forms. Qed.
Print Assumptions C11_exists_findable_all_forms.

(* range form with both bounds made from the value *)
Theorem C11_range_form_findable :
  forall sens v t toks,
    qkw go_to_lower sens v = [TText t] ->
    range_term go_to_lower sens v = Some (TText t) /\
    (In t toks -> range_finds (TText t) (TText t) toks = true).
Proof. exact go_range_form_uniform. Qed.
Print Assumptions C11_range_form_findable.

(* why the forced rule matters (the regression the run now catches): `_exists_:in(traceID)` *)
Example C11_exists_in_without_rule_refuted :
  let title := [116; 114; 97; 99; 101; 73; 68] in
  query_in go_is_letter go_is_number go_to_lower TyKeyword (eff_sens true false) [title] = Some [[[TText title]]] /\
  query_in go_is_letter go_is_number go_to_lower TyKeyword false [title] = Some [[[TText [116; 114; 97; 99; 101; 105; 100]]]] /\
  in_finds [[[TText [116; 114; 97; 99; 101; 105; 100]]]] [title] = false.
Proof. exact exists_in_without_rule_refuted. Qed.

(* ================================================================= phase 4: from the value to the query TEXT *)

(* FULL STATEMENT AIMED AT (C11_quote_roundtrip): for every valid UTF-8 v, EVERY style st of ModelLex.render (double,
   single, back quote with the spliced double-quoted back quote, bare, double with any escape choices) and the legacy
   quoted form, at every position of a query, lexing `render st v` yields the literal whose term list is [text v].
   PROVED below for the double- and the single-quoted style (ParseSeqQL) and, at lexer level, for the back-quoted
   style on values without a back quote; the spliced back-quoted form, the bare and escape-choice
   styles and the legacy scanner (ModelLex.quoted_terms / bare_terms) are modelled and executed against the real
   lexer / parsers on every run (classes lex, qtext, roundtrip), their round trip is NOT proved.

   unquotePrefix (fast path, slow path with unquoteChar / strconv.UnquoteChar, remIdx arithmetic) undoes the
   renderer exactly: whatever follows the closing quote is returned untouched as the rest of the query. *)
Theorem C11_unquote_roundtrip_partial :
  forall q v rest, (q = 34 \/ q = 39) -> valid_utf8 v = true ->
    unquote_prefix (render_q q v ++ rest) = ROk (Some (v, rest)).
Proof. exact go_unquote_render. Qed.
Print Assumptions C11_unquote_roundtrip_partial.

(* lexer.Next standing at the rendered literal — at ANY position of ANY query (rest and the SpaceSkipped flag are
   arbitrary; Next depends on nothing but the query tail): exactly ONE token, quoted (so never a keyword, `in`, `to`,
   a range or list delimiter), whose text is v byte for byte — no wildcard rune although v may contain `*`, no split
   at spaces, quotes, backslashes, brackets or `|` — and the lexer continues right behind the closing quote. *)
Theorem C11_quote_roundtrip_partial :
  forall q v rest sp fuel, (q = 34 \/ q = 39) -> valid_utf8 v = true ->
    next go_is_space go_is_letter go_is_digit (S fuel) (render_q q v ++ rest) sp = ROk (mkTok v true false sp, rest).
Proof. exact go_next_render_q. Qed.
Print Assumptions C11_quote_roundtrip_partial.

(* The back-quoted style, for EVERY byte string without a back quote (valid UTF-8 or not: raw strings are not
   unescaped, an asterisk stays an asterisk): one quoted raw token whose text is v, at any position. (A value WITH back
   quotes is rendered as several tokens spliced with a double-quoted back quote; that composite is not proved.) *)
Theorem C11_quote_roundtrip_raw_partial :
  forall v rest sp fuel, contains_byte 96 v = false ->
    next go_is_space go_is_letter go_is_digit (S fuel) (render_raw v ++ rest) sp = ROk (mkTok v true true sp, rest).
Proof. exact go_next_render_raw. Qed.
Print Assumptions C11_quote_roundtrip_raw_partial.

(* The whole way for the plain form `name:<literal>`: ParseSeqQL's model (lexer, composite token, field filter, case
   rule, parseSeqQLKeyword / parseSeqQLText) on the TEXT gives the literals the term-level model makes of v itself.
   name_ok: a bare ASCII field name ([A-Za-z0-9_.]+) other than `not`. *)
Theorem C11_plain_query_text_partial :
  forall ftype sens q n v t lits,
    (q = 34 \/ q = 39) -> name_ok n = true -> valid_utf8 v = true -> ftype n = t -> searchable t = true ->
    m_query t (sens || list_eqb_N n K_EXISTS) v = Some lits ->
    m_seqql_text ftype sens (n ++ 58 :: render_q q v) = ROk (QPlain lits).
Proof. exact go_seqql_plain_text. Qed.
Print Assumptions C11_plain_query_text_partial.

(* End to end over query TEXT (partial: plain form, double/single style): for every keyword value within the limit
   (valid UTF-8, no U+E000) the text `name:<quoted v>` — lexed, unquoted and parsed by the model — is one literal with
   the one text term that the keyword tokenizer's model indexed. *)
Theorem C11_keyword_findable_text_partial :
  forall c fmax v q n ftype,
    (length v <= limit_of (max_tok c) fmax)%nat -> has_rune WildcardRune v = false -> valid_utf8 v = true ->
    (q = 34 \/ q = 39) -> name_ok n = true -> list_eqb_N n K_EXISTS = false -> ftype n = TyKeyword ->
    exists t, fst (kw_tokenize go_to_lower c fmax v) = [t] /\
              m_seqql_text ftype (cs c) (n ++ 58 :: render_q q v) = ROk (QPlain [[TText t]]) /\
              query_finds [[TText t]] (fst (kw_tokenize go_to_lower c fmax v)) = true.
Proof. exact go_keyword_findable_text. Qed.
Print Assumptions C11_keyword_findable_text_partial.

(* every word of the indexed part of a text value that fits MaxTokenSize: the text `name:<quoted w>` parses to the one
   term that is among the text tokenizer's tokens *)
Theorem C11_text_words_findable_text_partial :
  forall c fmax v w q n ftype,
    v <> [] -> skipped TyText c fmax v = false ->
    In w (words_of go_is_letter go_is_number (segs (indexed_part TyText c fmax v)) []) -> sizeok c w = true ->
    valid_utf8 w = true ->
    (q = 34 \/ q = 39) -> name_ok n = true -> list_eqb_N n K_EXISTS = false -> ftype n = TyText ->
    m_seqql_text ftype (cs c) (n ++ 58 :: render_q q w) = ROk (QPlain [[TText (go_word_token c w)]]) /\
    In (go_word_token c w) (fst (text_tokenize go_is_letter go_is_number go_to_lower c fmax v)) /\
    query_finds [[TText (go_word_token c w)]] (fst (text_tokenize go_is_letter go_is_number go_to_lower c fmax v)) = true.
Proof. exact go_text_words_findable_text. Qed.
Print Assumptions C11_text_words_findable_text_partial.

(* every leading path (and the whole indexed part) of a path value *)
Theorem C11_path_prefix_findable_text_partial :
  forall c fmax v p q n ftype,
    skipped TyPath c fmax v = false ->
    In p (path_prefixes [] (indexed_part TyPath c fmax v) ++ [indexed_part TyPath c fmax v]) ->
    has_rune WildcardRune p = false -> valid_utf8 p = true ->
    (q = 34 \/ q = 39) -> name_ok n = true -> list_eqb_N n K_EXISTS = false -> ftype n = TyPath ->
    m_seqql_text ftype (cs c) (n ++ 58 :: render_q q p) = ROk (QPlain [[TText (go_ptok c p)]]) /\
    In (go_ptok c p) (fst (path_tokenize go_to_lower c fmax v)) /\
    query_finds [[TText (go_ptok c p)]] (fst (path_tokenize go_to_lower c fmax v)) = true.
Proof. exact go_path_prefix_findable_text. Qed.
Print Assumptions C11_path_prefix_findable_text_partial.

(* `_exists_:<quoted title>` as text, whatever the configured case sensitivity *)
Theorem C11_exists_findable_text_partial :
  forall sens title q ftype,
    has_rune WildcardRune title = false -> valid_utf8 title = true -> (q = 34 \/ q = 39) -> ftype K_EXISTS = TyKeyword ->
    m_seqql_text ftype sens (K_EXISTS ++ 58 :: render_q q title) = ROk (QPlain [[TText title]]).
Proof. exact go_exists_findable_text. Qed.
Print Assumptions C11_exists_findable_text_partial.

(* hypotheses witnessed: a keyword value with a space, an asterisk, a double quote and an upper-case letter *)
Example C11_text_roundtrip_nonvacuous :
  let v := [65; 32; 42; 98; 34; 99] in
  let ft := case_ftype [102] TyKeyword in
  valid_utf8 v = true /\ name_ok [102] = true /\ has_rune WildcardRune v = false /\
  render_q 34 v = [34; 65; 32; 92; 42; 98; 92; 34; 99; 34] /\
  m_seqql_text ft false ([102] ++ 58 :: render_q 34 v) = ROk (QPlain [[TText [97; 32; 42; 98; 34; 99]]]) /\
  fst (kw_tokenize go_to_lower (ICfg false false 72 32768) 0 v) = [[97; 32; 42; 98; 34; 99]].
Proof. exact text_roundtrip_nonvacuous. Qed.

(* valid UTF-8 cannot be dropped from the round trip: the slow path of unquotePrefix turns an invalid byte into U+FFFD
   (first line: the value holds an asterisk), the fast path keeps it (second line) and parseSeqQLKeyword re-encodes it;
   in case-sensitive mode the indexed token keeps the raw byte (known finding cs-invalid-utf8, replayed by the driver) *)
Example C11_invalid_utf8_roundtrip_witness :
  let v := [97; 42; 255] in
  m_lex ([102; 58] ++ render_q 34 v) =
    ROk [mkTok [102] false false false; mkTok [58] false false false; mkTok [97; 42; 239; 191; 189] true false false] /\
  m_lex ([102; 58] ++ render_q 34 [97; 255]) =
    ROk [mkTok [102] false false false; mkTok [58] false false false; mkTok [97; 255] true false false] /\
  m_seqql_text (case_ftype [102] TyKeyword) true ([102; 58] ++ render_q 34 [97; 255]) = ROk (QPlain [[TText [97; 239; 191; 189]]]) /\
  fst (kw_tokenize go_to_lower (ICfg true false 72 32768) 0 [97; 255]) = [[97; 255]].
Proof. exact invalid_utf8_roundtrip_witness. Qed.

(* ================================================================= phase 5: the wiring configuration -> tokenizers / query side *)

(* All theorems above are stated for ONE configuration record c used on both sides (the tokenizers run with c, the query
   side with cs c). The binary has no such record: cmd/seq-db copies three flags into bulk.IngestorConfig and one of them
   into conf.CaseSensitive; NewIngestor passes the fields POSITIONALLY (an int and two adjacent bools) to three
   constructors and files the results in a map keyed by mapping type, from which index() picks the tokenizer.
   ModelWire.wire transcribes that chain. For EVERY start-up configuration: each of the three tokenizers runs with the
   configuration's own case mode, partial-indexing flag and token size (the text tokenizer with
   consts.MaxTextFieldValueLength as its default field length), the parsers read the same case mode, and the map holds
   under every mapping type the tokenizer of that type (no tokenizer for object / tags / nested / noop). *)
Theorem C11_wiring_consistent :
  forall f,
    let w := wire f in
    (cs (keyword_cfg w) = flagCaseSensitive f /\ partial (keyword_cfg w) = flagPartialFieldIndexing f /\
     max_tok (keyword_cfg w) = flagMaxTokenSize f) /\
    (cs (text_cfg w) = flagCaseSensitive f /\ partial (text_cfg w) = flagPartialFieldIndexing f /\
     max_tok (text_cfg w) = flagMaxTokenSize f /\ def_field (text_cfg w) = MaxTextFieldValueLength) /\
    (cs (path_cfg w) = flagCaseSensitive f /\ partial (path_cfg w) = flagPartialFieldIndexing f /\
     max_tok (path_cfg w) = flagMaxTokenSize f) /\
    query_cfg w = flagCaseSensitive f /\
    (forall ty, match binary_tokenizers f ty with
                | Some (TkKeyword _) => ty = TyKeyword
                | Some (TkText _) => ty = TyText
                | Some (TkPath _) => ty = TyPath
                | Some TkExists => ty = TyExists
                | None => has_tokenizer ty = false
                end).
Proof. exact wiring_consistent. Qed.
Print Assumptions C11_wiring_consistent.

(* Hence the bulk path of the binary started with flags f — the indexer's traversal with the tokenizer looked up in the
   MAP for every title (ModelWire.doc_metas_w / index_types_w / tk_tokenize over the structs the constructors built) —
   and its query side ARE the one-configuration model under flags_cfg f: for every mapping, document, type, per-field
   size and value. Every theorem of phases 1-4 therefore speaks about every configuration the binary can be started
   with (instantiate c := flags_cfg f). *)
Theorem C11_wired_equals_model :
  forall f,
    (forall m doc, go_binary_doc_metas f m doc = doc_metas go_is_letter go_is_number go_to_lower m (flags_cfg f) doc) /\
    (forall ty fmax v, go_binary_tokenize f ty fmax v = tokenize go_is_letter go_is_number go_to_lower ty (flags_cfg f) fmax v) /\
    (forall ty s, go_binary_query false f ty s = query_lits go_is_letter go_is_number go_to_lower ty (cs (flags_cfg f)) s) /\
    (forall ty s, go_binary_query true f ty s = lquery_lits go_is_letter go_is_number go_to_lower ty (cs (flags_cfg f)) s).
Proof. exact go_wired_equals_model. Qed.
Print Assumptions C11_wired_equals_model.

(* The three findability statements written out for the wired binary (SeqQL): tokens = what the tokenizer found in the
   map emits, query = what the parser makes under conf.CaseSensitive as main() set it. *)
Theorem C11_wired_keyword_findable :
  forall f fmax v,
    let c := flags_cfg f in
    let p := indexed_part TyKeyword c fmax v in
    if skipped TyKeyword c fmax v then go_binary_tokenize f TyKeyword fmax v = []
    else exists t, go_binary_tokenize f TyKeyword fmax v = [t] /\
         (has_rune WildcardRune p = false -> (flagCaseSensitive f = false \/ valid_utf8 p = true) ->
          go_binary_query false f TyKeyword p = Some [[TText t]] /\
          query_finds [[TText t]] (go_binary_tokenize f TyKeyword fmax v) = true).
Proof. exact go_wired_keyword_findable. Qed.
Print Assumptions C11_wired_keyword_findable.

Theorem C11_wired_text_words_findable :
  forall f fmax v, v <> [] ->
    let c := flags_cfg f in
    let p := indexed_part TyText c fmax v in
    let toks := go_binary_tokenize f TyText fmax v in
    if skipped TyText c fmax v then toks = []
    else toks = map (go_word_token c) (filter (sizeok c) (words_of go_is_letter go_is_number (segs p) []))
         /\ (forall w, In w (words_of go_is_letter go_is_number (segs p) []) ->
               go_binary_query false f TyText w = Some [[TText (go_word_token c w)]] /\
               (sizeok c w = true -> query_finds [[TText (go_word_token c w)]] toks = true)).
Proof. exact go_wired_text_findable. Qed.
Print Assumptions C11_wired_text_words_findable.

Theorem C11_wired_path_prefix_findable :
  forall f fmax v,
    let c := flags_cfg f in
    let p := indexed_part TyPath c fmax v in
    let toks := go_binary_tokenize f TyPath fmax v in
    if skipped TyPath c fmax v then toks = []
    else toks = map (go_ptok c) (path_prefixes [] p ++ [p])
         /\ (forall q, In q (path_prefixes [] p ++ [p]) ->
               has_rune WildcardRune q = false -> (flagCaseSensitive f = false \/ valid_utf8 q = true) ->
               go_binary_query false f TyPath q = Some [[TText (go_ptok c q)]] /\
               query_finds [[TText (go_ptok c q)]] toks = true).
Proof. exact go_wired_path_findable. Qed.
Print Assumptions C11_wired_path_prefix_findable.

(* the traversal theorem for the wired binary: every reached field has `_exists_:<title>` and its tokenizer's tokens
   (the tokenizer the MAP holds for the title's type) in one meta of what the bulk path hands to the store *)
Theorem C11_wired_flatten_findable :
  forall f m doc fld x, reach m [] doc fld x ->
    let c := flags_cfg f in
    exists meta, In meta (go_binary_doc_metas f m doc) /\
      (forall title ty mx, In (title, ty, mx) (snd (mlookup m fld)) -> has_tokenizer ty = true ->
         In (K_EXISTS, title_of title fld) meta /\ In (title_of title fld) (field_tokens meta K_EXISTS)) /\
      (forall v, x = Some v ->
         forall title ty mx v',
           In ((title, ty, mx), v') (seen_by go_is_letter go_is_number go_to_lower c (snd (mlookup m fld)) v) ->
           incl (fst (tokenize_full go_is_letter go_is_number go_to_lower ty c mx v'))
                (field_tokens meta (title_of title fld)) /\
           (forall lits,
              query_finds lits (fst (tokenize_full go_is_letter go_is_number go_to_lower ty c mx v')) = true ->
              query_finds lits (field_tokens meta (title_of title fld)) = true)).
Proof. exact go_wired_flatten_findable. Qed.
Print Assumptions C11_wired_flatten_findable.

(* the hypotheses are inhabited and the wiring is not the identity on records: keyword/path tokenizers carry no field
   length; flags 8 / case-sensitive / partial: a 10-byte value is indexed by its case-preserved 8-byte prefix *)
Example C11_wiring_nonvacuous :
  let f := Flags 8 true true in
  wire f = (ICfg true true 8 0, ICfg true true 8 32768, ICfg true true 8 0, true) /\
  go_binary_tokenize f TyKeyword 0 [65; 98; 99; 100; 101; 102; 103; 104; 105; 106] = [[65; 98; 99; 100; 101; 102; 103; 104]] /\
  go_binary_query false f TyKeyword [65; 98] = Some [[TText [65; 98]]].
Proof. exact wiring_nonvacuous. Qed.

(* The consistency is a fact about THIS call chain, not about the types: with the two adjacent bool arguments of
   NewPathTokenizer exchanged (seeded change C11-m10; it compiles and changes nothing while both flags are equal) the
   path tokenizer's case mode is the partial-indexing flag. --case-sensitive, value "/Api/V1": tokens "/api", "/api/v1";
   the query made from the value's own leading path "/Api" keeps its case and finds nothing (it does under the real
   wiring). *)
Example C11_wiring_swapped_path_refuted :
  let f := Flags 72 true false in
  let v := [47; 65; 112; 105; 47; 86; 49] in
  cs (path_cfg (wire_swapped_path f)) <> flagCaseSensitive f /\
  skipped TyPath (flags_cfg f) 0 v = false /\
  In [47; 65; 112; 105] (path_prefixes [] v ++ [v]) /\
  go_swapped_tokenize f TyPath 0 v = [[47; 97; 112; 105]; [47; 97; 112; 105; 47; 118; 49]] /\
  go_binary_query false f TyPath [47; 65; 112; 105] = Some [[TText [47; 65; 112; 105]]] /\
  query_finds [[TText [47; 65; 112; 105]]] (go_swapped_tokenize f TyPath 0 v) = false /\
  query_finds [[TText [47; 65; 112; 105]]] (go_binary_tokenize f TyPath 0 v) = true.
Proof. exact swapped_path_refuted. Qed.

(* --partial-indexing --max-token-size 8, value "/api/v1/users": skipped instead of indexed by its prefix *)
Example C11_wiring_swapped_path_oversize_refuted :
  let f := Flags 8 false true in
  let v := [47; 97; 112; 105; 47; 118; 49; 47; 117; 115; 101; 114; 115] in
  skipped TyPath (flags_cfg f) 0 v = false /\
  go_swapped_tokenize f TyPath 0 v = [] /\
  go_binary_tokenize f TyPath 0 v = [[47; 97; 112; 105]; [47; 97; 112; 105; 47; 118; 49]; [47; 97; 112; 105; 47; 118; 49; 47]].
Proof. exact swapped_path_oversize_refuted. Qed.

(* ================================================================= multi-type fields *)
(* FULL STATEMENT AIMED AT (C11_multitype_inplace_invariant), NOT PROVED:
     forall c all key v, index_types go_is_letter go_is_number go_to_lower c all key (Some v)
                         = index_types_pure go_is_letter go_is_number go_to_lower c all key v
   (the tokens of every title are those its tokenizer produces on the ORIGINAL value, although index() hands the
   buffer the earlier titles lower-cased in place / left half converted to every later title). ModelDoc.index_types
   models the threading; the run checks the equation on the real bulk processor against the real tokenizers run on
   fresh copies of the original value (class multitype, spec checker), including length-changing lower-case runes,
   invalid bytes and cuts inside a rune. What is proved is the case-sensitive half and the first title
   (C11_flatten_value_seen_partial above). *)

(* PROVED towards it (session 3 follow-up) — step (a) of the invariant, for EVERY byte string, invalid bytes included:
   rewriting any selection of the decoded segments in place the way the loop of toLowerTryInplace does (an ASCII byte
   through toLowerMap, a multi-byte rune re-encoded when its lower case has the same UTF-8 length, a stray byte and a
   rune whose lower case has another length left alone) keeps the UTF-8 segmentation of the whole buffer: decoding the
   rewritten buffer gives segment by segment the same boundaries, and each rune is the original one or its lower case
   — also for a stray lead byte whose following bytes were rewritten (its failing byte stays a failing byte), which
   was the stated blocker. The buffer has the same length. *)
Theorem C11_inplace_lowercase_keeps_segments :
  forall s sel,
    Forall2 (fun sg sg' : seg => length (snd sg') = length (snd sg) /\
                                 (fst sg' = fst sg \/ fst sg' = go_to_lower (fst sg)))
            (segs s) (segs (apply_low go_to_lower sel (segs s))) /\
    length (apply_low go_to_lower sel (segs s)) = length s.
Proof. exact go_inplace_keeps_segments. Qed.
Print Assumptions C11_inplace_lowercase_keeps_segments.

(* ... and the buffer that toLowerTryInplace leaves behind (model: snd (lower_full s); the loop ran to the end, or was
   abandoned at the first rune whose lower case has another length / the first stray byte, where the code returns the
   freshly allocated bytes.Map result and does NOT write it back into the shared buffer) is such a rewriting. *)
Theorem C11_inplace_buffer_keeps_segments :
  forall s,
    Forall2 (fun sg sg' : seg => length (snd sg') = length (snd sg) /\
                                 (fst sg' = fst sg \/ fst sg' = go_to_lower (fst sg)))
            (segs s) (segs (snd (lower_full go_to_lower s))) /\
    length (snd (lower_full go_to_lower s)) = length s.
Proof. exact go_lower_full_buffer_keeps_segments. Qed.
Print Assumptions C11_inplace_buffer_keeps_segments.

(* STILL MISSING for C11_multitype_inplace_invariant: (b1) the same alignment across a size-limit cut
   (segs (firstn n buffer) against segs (firstn n original), a cut inside a rune leaves stray bytes in both) and across
   the re-appended tail; (b2) for each tokenizer, that its tokens depend on the value only through boundaries,
   lower-cased runes and rune classes (needs is_letter / is_number invariant under to_lower, checkable over the dumped
   table), and that path_loop / text_loop leave buffers of the above form. *)

(* First complete instance of the invariant (partial: KEYWORD and EXISTS titles, value within every keyword title's size
   limit so that no cut occurs; EVERY byte string, any title order, case-sensitive or not, partial indexing on or off):
   the tokens the indexer emits for the titles of a multi-type field — threading the buffer that earlier titles
   lower-cased in place or left half converted — are exactly every title's tokenizer applied to the ORIGINAL value.
   Missing for the full C11_multitype_inplace_invariant: text and path titles (their loops' buffers and their
   dependence on boundaries / classes; C11_rune_classes_invariant_under_lowercase below is the class half) and values
   beyond a limit (cut inside a rune). *)
Theorem C11_multitype_inplace_invariant_keyword_within_limits :
  forall c all key v,
    (forall title ty mx, In (title, ty, mx) all -> has_tokenizer ty = true ->
       (ty = TyKeyword /\ (length v <= limit_of (max_tok c) mx)%nat) \/ ty = TyExists) ->
    index_types go_is_letter go_is_number go_to_lower c all key (Some v) =
    index_types_pure go_is_letter go_is_number go_to_lower c all key v.
Proof. exact go_multitype_kw_within_limits_in. Qed.
Print Assumptions C11_multitype_inplace_invariant_keyword_within_limits.

(* unicode.IsLetter / IsNumber / IsSpace of the Go toolchain are invariant under unicode.ToLower, for every rune
   (checked over the dumped lower-case table): word boundaries cannot move when a buffer is lower-cased *)
Theorem C11_rune_classes_invariant_under_lowercase :
  forall r,
    go_is_letter (go_to_lower r) = go_is_letter r /\ go_is_number (go_to_lower r) = go_is_number r /\
    go_is_space (go_to_lower r) = go_is_space r.
Proof. exact go_class_lower. Qed.
Print Assumptions C11_rune_classes_invariant_under_lowercase.

(* hypotheses witnessed: two keyword titles and an exists title on a value with a length-changing rune (U+0130), a
   length-preserving one (U+00D6) and a stray byte; the second title sees the half-converted buffer *)
Example C11_multitype_keyword_nonvacuous :
  let c := ICfg false false 72 32768 in
  let all := [([], TyKeyword, 0); ([107; 46; 116], TyKeyword, 20); ([107; 46; 101], TyExists, 0)] in
  let v := [65; 195; 150; 196; 176; 255; 66] in
  index_types go_is_letter go_is_number go_to_lower c all [107] (Some v) =
  index_types_pure go_is_letter go_is_number go_to_lower c all [107] v /\
  snd (kw_tokenize go_to_lower c 0 v) = [97; 195; 182; 196; 176; 255; 66].
Proof. exact multitype_keyword_nonvacuous. Qed.
