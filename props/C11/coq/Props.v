(* C11 — property theorems. Nothing but statements closed by `exact <lemma>` (lemmas in Proofs*.v),
   `Print Assumptions` under each, and the non-vacuity / refutation examples.
   All statements are about the model instantiated with the Unicode tables of the Go toolchain
   (Consts.v): go_is_letter, go_is_number, go_to_lower. *)
From Coq Require Import List Bool NArith.
From C11 Require Import Model ProofsText ProofsPath ProofsGo.
Open Scope N_scope.

(* Lower-casing agrees on both sides for EVERY byte string (valid UTF-8 or not, including runes whose
   lower case has another width): the in-place loop of the tokenizers with its bytes.Map fallback
   gives what strings.ToLower gives on the query side's re-encoding of the string. *)
Theorem C11_lower_sides_agree :
  forall s, lower_ip go_to_lower s = str_to_lower go_to_lower (sanitize s).
Proof. exact go_lower_sides_agree. Qed.
Print Assumptions C11_lower_sides_agree.

(* The whole value of a keyword field within the size limit: the tokenizer emits exactly one token,
   the query literal built from the value is exactly that one text term, and the query finds it.
   Hypotheses: the value holds no U+E000 (the parser's private wildcard rune; with it the literal
   is a wildcard pattern), and case-insensitive mode or valid UTF-8. *)
Theorem C11_keyword_findable :
  forall c fmax v,
    (length v <= limit_of (max_tok c) fmax)%nat ->
    has_rune WildcardRune v = false -> (cs c = false \/ valid_utf8 v = true) ->
    exists t, fst (kw_tokenize go_to_lower c fmax v) = [t] /\ qkw go_to_lower (cs c) v = [TText t] /\
              query_finds [qkw go_to_lower (cs c) v] (fst (kw_tokenize go_to_lower c fmax v)) = true.
Proof. exact go_kw_findable. Qed.
Print Assumptions C11_keyword_findable.

(* Any keyword value, any limits: skipped entirely, or indexed under exactly the token that the query
   made from the part within the limit produces (partial indexing). The hypothesis "valid UTF-8" of the
   case-sensitive mode is about the cut part: the cut must not split a rune. *)
Theorem C11_keyword_oversize_consistent :
  forall c fmax v,
    let p := indexed_part TyKeyword c fmax v in
    if skipped TyKeyword c fmax v then fst (kw_tokenize go_to_lower c fmax v) = []
    else exists t, fst (kw_tokenize go_to_lower c fmax v) = [t] /\
         (has_rune WildcardRune p = false -> (cs c = false \/ valid_utf8 p = true) ->
          qkw go_to_lower (cs c) p = [TText t] /\ lit_matches (qkw go_to_lower (cs c) p) t = true).
Proof. exact go_kw_consistent. Qed.
Print Assumptions C11_keyword_oversize_consistent.

(* Text fields, any value, any limits. With p = the part of the value within maxFieldValueLength
   (the whole value unless partial indexing cuts it):
   (1) the tokenizer's byte-level scan (ASCII table fast path, decoded slow path, lower-casing skipped or
       done in place per word) emits exactly the rune-level words of p that fit MaxTokenSize, lower-cased
       unless case-sensitive  [lem:same_token_class is the ASCII half of this];
   (2) the query built from ANY single word of p is one literal with one text term, byte-equal to the
       token of that word, and finds it when the word was indexed;
   (3) the query built from the whole of p splits on exactly the index side's separators.
   No UTF-8 validity hypothesis: an invalid byte is a separator on both sides. *)
Theorem C11_text_words_findable :
  forall c fmax v, v <> [] ->
    let p := indexed_part TyText c fmax v in
    let toks := fst (text_tokenize go_is_letter go_is_number go_to_lower c fmax v) in
    if skipped TyText c fmax v then toks = []
    else
      toks = map (go_word_token c) (filter (sizeok c) (words_of go_is_letter go_is_number (segs p) []))
      /\ (forall w, In w (words_of go_is_letter go_is_number (segs p) []) ->
            qtext go_is_letter go_is_number go_to_lower (cs c) w = [[TText (go_word_token c w)]]
            /\ (sizeok c w = true ->
                query_finds (qtext go_is_letter go_is_number go_to_lower (cs c) w) toks = true))
      /\ (has_rune WildcardRune p = false -> words_of go_is_letter go_is_number (segs p) [] <> [] ->
            qtext go_is_letter go_is_number go_to_lower (cs c) p =
            map (fun w => [TText (go_word_token c w)]) (words_of go_is_letter go_is_number (segs p) [])).
Proof. exact go_text_consistent. Qed.
Print Assumptions C11_text_words_findable.

Example C11_text_nonvacuous :
  let c := ICfg false false 72 32768 in
  let v := [75; 226; 132; 170; 95; 195; 128; 66; 32; 217; 163; 120; 42; 121] in
  skipped TyText c 0 v = false /\
  words_of go_is_letter go_is_number (segs (indexed_part TyText c 0 v)) [] =
    [[75; 226; 132; 170; 95; 195; 128; 66]; [217; 163; 120; 42; 121]] /\
  fst (text_tokenize go_is_letter go_is_number go_to_lower c 0 v) =
    [[107; 107; 95; 195; 160; 98]; [217; 163; 120; 42; 121]] /\
  has_rune WildcardRune (indexed_part TyText c 0 v) = false.
Proof. exact text_nonvacuous. Qed.

(* Path fields, any value, any limits. With p = the part of the value within the size limit: the
   tokenizer emits nothing (skipped) or exactly one token per leading path of p cut at a separator plus
   one for p itself, each lower-cased unless case-sensitive — although the code lower-cases the
   prefixes in place on the shared buffer, or through the bytes.Map fallback leaving a half-converted
   buffer behind. The query built from any of these paths is exactly the corresponding token and finds
   it (same hypotheses as for keyword fields, on that path). *)
Theorem C11_path_prefix_findable :
  forall c fmax v,
    let p := indexed_part TyPath c fmax v in
    let toks := fst (path_tokenize go_to_lower c fmax v) in
    if skipped TyPath c fmax v then toks = []
    else
      toks = map (go_ptok c) (path_prefixes [] p ++ [p])
      /\ (forall q, In q (path_prefixes [] p ++ [p]) ->
            has_rune WildcardRune q = false -> (cs c = false \/ valid_utf8 q = true) ->
            qkw go_to_lower (cs c) q = [TText (go_ptok c q)] /\
            query_finds [qkw go_to_lower (cs c) q] toks = true).
Proof. exact go_path_consistent. Qed.
Print Assumptions C11_path_prefix_findable.

Example C11_path_nonvacuous :
  let c := ICfg false false 72 32768 in
  let v := [47; 86; 97; 114; 47; 76; 195; 150; 71; 47; 196; 176; 120] in
  skipped TyPath c 0 v = false /\
  path_prefixes [] (indexed_part TyPath c 0 v) = [[47; 86; 97; 114]; [47; 86; 97; 114; 47; 76; 195; 150; 71]] /\
  fst (path_tokenize go_to_lower c 0 v) =
    [[47; 118; 97; 114]; [47; 118; 97; 114; 47; 108; 195; 182; 103];
     [47; 118; 97; 114; 47; 108; 195; 182; 103; 47; 105; 120]] /\
  has_rune WildcardRune v = false.
Proof. exact path_nonvacuous. Qed.

(* Field existence: the indexer stores the title (field name or multi-type title, raw bytes) under
   `_exists_`; the parser forces case sensitivity on that field, so for a valid UTF-8 title (titles are
   mapping keys) the query term is the title byte for byte and finds the token, whatever the
   configured case sensitivity. *)
Theorem C11_exists_findable :
  forall title,
    has_rune WildcardRune title = false -> valid_utf8 title = true ->
    qkw go_to_lower true title = [TText title] /\ query_finds [qkw go_to_lower true title] [title] = true.
Proof. exact go_exists_term. Qed.
Print Assumptions C11_exists_findable.

(* The hypothesis "case-insensitive or valid UTF-8" cannot be dropped: known finding cs-invalid-utf8
   (DESIGN section 9, #13), witness replayed on the real code by the driver. *)
Example C11_keyword_cs_invalid_refuted :
  exists c fmax v,
    (length v <= limit_of (max_tok c) fmax)%nat /\ has_rune WildcardRune v = false /\ cs c = true /\
    query_finds [qkw go_to_lower (cs c) v] (fst (kw_tokenize go_to_lower c fmax v)) = false.
Proof. exact kw_cs_invalid_refuted. Qed.

Example C11_cut_rune_witness :
  exists c fmax v,
    cs c = true /\ partial c = true /\ valid_utf8 v = true /\
    skipped TyKeyword c fmax v = false /\
    let p := indexed_part TyKeyword c fmax v in
    valid_utf8 p = false /\
    query_finds [qkw go_to_lower (cs c) p] (fst (kw_tokenize go_to_lower c fmax v)) = false.
Proof. exact cut_rune_witness. Qed.

Example C11_cut_rune_case_insensitive_found :
  let c := ICfg false true 4 32768 in
  let v := [97; 98; 99; 195; 169; 100] in
  let p := indexed_part TyKeyword c 0 v in
  valid_utf8 p = false /\
  query_finds [qkw go_to_lower (cs c) p] (fst (kw_tokenize go_to_lower c 0 v)) = true.
Proof. exact cut_rune_ci_found. Qed.

Example C11_keyword_nonvacuous :
  let c := ICfg false false 72 32768 in
  let v := [196; 176; 120] in
  (length v <= limit_of (max_tok c) 0)%nat /\ has_rune WildcardRune v = false /\
  fst (kw_tokenize go_to_lower c 0 v) = [[105; 120]] /\ qkw go_to_lower (cs c) v = [TText [105; 120]].
Proof. exact kw_nonvacuous. Qed.
