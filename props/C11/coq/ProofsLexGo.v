(* C11 — the query-text lemmas instantiated with the tables of the Go toolchain, and the findability theorems
   restated end to end over query TEXT. *)
From Coq Require Import Lia.
From C11 Require Import Model ModelDoc ModelLex CaseDefs ProofsUtf8 ProofsLower ProofsText ProofsPath ProofsTables
  ProofsGo ProofsLex.
Open Scope N_scope.

Definition go_tok := is_token_rune go_is_letter go_is_digit.

Lemma go_name_tok : forall b, name_byte b = true -> go_tok b = true.
Proof.
  intros b H. assert (Hb : b < 128) by (unfold name_byte, is_alnum_ascii in H; brk; try lia; discriminate).
  pose proof (below_128 (fun c => implb (name_byte c) (go_tok c))) as P.
  assert (Hc : forallb (fun c => implb (name_byte c) (go_tok c)) (map N.of_nat (seq 0 128)) = true)
    by (vm_compute; reflexivity).
  specialize (P Hc b Hb). cbv beta in P. rewrite H in P. exact P.
Qed.

Lemma go_name_space : forall b, name_byte b = true -> go_is_space b = false.
Proof.
  intros b H. assert (Hb : b < 128) by (unfold name_byte, is_alnum_ascii in H; brk; try lia; discriminate).
  pose proof (below_128 (fun c => implb (name_byte c) (negb (go_is_space c)))) as P.
  assert (Hc : forallb (fun c => implb (name_byte c) (negb (go_is_space c))) (map N.of_nat (seq 0 128)) = true)
    by (vm_compute; reflexivity).
  specialize (P Hc b Hb). cbv beta in P. rewrite H in P. apply negb_true_iff. exact P.
Qed.

Lemma go_colon : go_is_space 58 = false /\ go_tok 58 = false.
Proof. split; vm_compute; reflexivity. Qed.

Lemma go_quotes : forall q, qok q -> go_is_space q = false /\ go_tok q = false.
Proof. intros q [->| ->]; split; vm_compute; reflexivity. Qed.

(* lexer.Next standing at a literal rendered in the double- or single-quoted style: one quoted token whose text
   is the value; the tail is whatever follows the closing quote (any position in any query) *)
Lemma go_next_render_q : forall q v rest sp f, qok q -> valid_utf8 v = true ->
  next go_is_space go_is_letter go_is_digit (S f) (render_q q v ++ rest) sp = ROk (mkTok v true false sp, rest).
Proof.
  intros q v rest sp f Hq Hv. destruct (go_quotes q Hq) as [Hs Ht].
  apply (next_render_q go_is_space go_is_letter go_is_digit q Hq Hs Ht); assumption.
Qed.

Lemma go_unquote_render : forall q v rest, qok q -> valid_utf8 v = true ->
  unquote_prefix (render_q q v ++ rest) = ROk (Some (v, rest)).
Proof. intros. apply unquote_render; assumption. Qed.

(* the back-quoted style on ANY byte string without a back quote *)
Lemma go_next_render_raw : forall v rest sp f, contains_byte 96 v = false ->
  next go_is_space go_is_letter go_is_digit (S f) (render_raw v ++ rest) sp = ROk (mkTok v true true sp, rest).
Proof.
  intros. apply (next_render_raw go_is_space go_is_letter go_is_digit); try assumption; vm_compute; reflexivity.
Qed.

(* ParseSeqQL on the text `name:<quoted v>`: the literals the term-level model makes of v itself *)
Lemma go_seqql_plain_text : forall ftype sens q n v t lits,
  qok q -> name_ok n = true -> valid_utf8 v = true -> ftype n = t -> searchable t = true ->
  m_query t (sens || list_eqb_N n K_EXISTS) v = Some lits ->
  m_seqql_text ftype sens (n ++ 58 :: render_q q v) = ROk (QPlain lits).
Proof.
  intros ftype sens q n v t lits Hq Hn Hv Hft Hs Hl.
  unfold m_seqql_text, seqql_filter_text.
  assert (Hsn : simple_name n = true) by (unfold name_ok in Hn; apply andb_true_iff in Hn; tauto).
  rewrite (lex_plain_q go_is_space go_is_letter go_is_digit go_name_tok go_name_space go_colon go_quotes q n v Hq Hsn Hv).
  cbn [rbind].
  apply (single_filter_plain go_is_space go_is_letter go_is_digit go_is_number go_to_lower go_name_tok (proj2 go_colon)
           ftype sens n v t lits Hn Hft Hs Hl).
Qed.

(* ------------------------------------------------------------------ end to end over query text *)
Lemma go_keyword_findable_text : forall c fmax v q n ftype,
  (length v <= limit_of (max_tok c) fmax)%nat -> has_rune WildcardRune v = false -> valid_utf8 v = true ->
  qok q -> name_ok n = true -> list_eqb_N n K_EXISTS = false -> ftype n = TyKeyword ->
  exists t, fst (kw_tokenize go_to_lower c fmax v) = [t] /\
            m_seqql_text ftype (cs c) (n ++ 58 :: render_q q v) = ROk (QPlain [[TText t]]) /\
            query_finds [[TText t]] (fst (kw_tokenize go_to_lower c fmax v)) = true.
Proof.
  intros c fmax v q n ftype Hl Hw Hv Hq Hn Hne Hft.
  destruct (go_kw_findable c fmax v Hl Hw (or_intror Hv)) as [t [H1 [H2 H3]]].
  exists t. split; [exact H1|]. split.
  - apply (go_seqql_plain_text ftype (cs c) q n v TyKeyword); try assumption; try reflexivity.
    rewrite Hne, orb_false_r. unfold m_query, query_lits. rewrite H2. reflexivity.
  - rewrite H2 in H3. exact H3.
Qed.

Lemma go_text_words_findable_text : forall c fmax v w q n ftype,
  v <> [] -> skipped TyText c fmax v = false ->
  In w (words_of go_is_letter go_is_number (segs (indexed_part TyText c fmax v)) []) -> sizeok c w = true ->
  valid_utf8 w = true ->
  qok q -> name_ok n = true -> list_eqb_N n K_EXISTS = false -> ftype n = TyText ->
  m_seqql_text ftype (cs c) (n ++ 58 :: render_q q w) = ROk (QPlain [[TText (go_word_token c w)]]) /\
  In (go_word_token c w) (fst (text_tokenize go_is_letter go_is_number go_to_lower c fmax v)) /\
  query_finds [[TText (go_word_token c w)]] (fst (text_tokenize go_is_letter go_is_number go_to_lower c fmax v)) = true.
Proof.
  intros c fmax v w q n ftype Hv Hsk Hin Hsz Hvw Hq Hn Hne Hft.
  pose proof (go_text_consistent c fmax v Hv) as H. cbv zeta in H. rewrite Hsk in H.
  destruct H as [Htoks [Hw _]]. destruct (Hw w Hin) as [Hqt Hfind]. specialize (Hfind Hsz).
  split; [|split].
  - apply (go_seqql_plain_text ftype (cs c) q n w TyText); try assumption; try reflexivity.
    rewrite Hne, orb_false_r. unfold m_query, query_lits. rewrite Hqt. reflexivity.
  - rewrite Htoks. apply in_map. apply filter_In. split; assumption.
  - rewrite Hqt in Hfind. exact Hfind.
Qed.

Lemma go_path_prefix_findable_text : forall c fmax v p q n ftype,
  skipped TyPath c fmax v = false ->
  In p (path_prefixes [] (indexed_part TyPath c fmax v) ++ [indexed_part TyPath c fmax v]) ->
  has_rune WildcardRune p = false -> valid_utf8 p = true ->
  qok q -> name_ok n = true -> list_eqb_N n K_EXISTS = false -> ftype n = TyPath ->
  m_seqql_text ftype (cs c) (n ++ 58 :: render_q q p) = ROk (QPlain [[TText (go_ptok c p)]]) /\
  In (go_ptok c p) (fst (path_tokenize go_to_lower c fmax v)) /\
  query_finds [[TText (go_ptok c p)]] (fst (path_tokenize go_to_lower c fmax v)) = true.
Proof.
  intros c fmax v p q n ftype Hsk Hin Hw Hvp Hq Hn Hne Hft.
  pose proof (go_path_consistent c fmax v) as H. cbv zeta in H. rewrite Hsk in H.
  destruct H as [Htoks Hall]. destruct (Hall p Hin Hw (or_intror Hvp)) as [Hqk Hfind].
  split; [|split].
  - apply (go_seqql_plain_text ftype (cs c) q n p TyPath); try assumption; try reflexivity.
    rewrite Hne, orb_false_r. unfold m_query, query_lits. rewrite Hqk. reflexivity.
  - rewrite Htoks. apply in_map. exact Hin.
  - rewrite Hqk in Hfind. exact Hfind.
Qed.

(* `_exists_:<quoted title>` — the forced case rule applies to the text form as well *)
Lemma go_exists_findable_text : forall sens title q ftype,
  has_rune WildcardRune title = false -> valid_utf8 title = true -> qok q -> ftype K_EXISTS = TyKeyword ->
  m_seqql_text ftype sens (K_EXISTS ++ 58 :: render_q q title) = ROk (QPlain [[TText title]]).
Proof.
  intros sens title q ftype Hw Hv Hq Hft.
  apply (go_seqql_plain_text ftype sens q K_EXISTS title TyKeyword); try assumption; try reflexivity.
  replace (list_eqb_N K_EXISTS K_EXISTS) with true by reflexivity. rewrite orb_true_r.
  unfold m_query, query_lits. destruct (go_exists_term title Hw Hv) as [H _]. rewrite H. reflexivity.
Qed.

(* non-vacuity: a keyword field, value with a space, an asterisk, a double quote and an upper-case letter *)
Lemma text_roundtrip_nonvacuous :
  let v := [65; 32; 42; 98; 34; 99] in
  let ft := case_ftype [102] TyKeyword in
  valid_utf8 v = true /\ name_ok [102] = true /\ has_rune WildcardRune v = false /\
  render_q 34 v = [34; 65; 32; 92; 42; 98; 92; 34; 99; 34] /\
  m_seqql_text ft false ([102] ++ 58 :: render_q 34 v) = ROk (QPlain [[TText [97; 32; 42; 98; 34; 99]]]) /\
  fst (kw_tokenize go_to_lower (ICfg false false 72 32768) 0 v) = [[97; 32; 42; 98; 34; 99]].
Proof. vm_compute. repeat split; reflexivity. Qed.

(* what holds for a value that is NOT valid UTF-8: the slow path of unquotePrefix re-encodes an invalid byte as
   U+FFFD (the value contains a backslash / asterisk / quote), the fast path keeps it — either way
   parseSeqQLKeyword makes U+FFFD of it, which in case-sensitive mode is not the indexed token
   (known finding cs-invalid-utf8) *)
Lemma invalid_utf8_roundtrip_witness :
  let v := [97; 42; 255] in
  m_lex ([102; 58] ++ render_q 34 v) =
    ROk [mkTok [102] false false false; mkTok [58] false false false; mkTok [97; 42; 239; 191; 189] true false false] /\
  m_lex ([102; 58] ++ render_q 34 [97; 255]) =
    ROk [mkTok [102] false false false; mkTok [58] false false false; mkTok [97; 255] true false false] /\
  m_seqql_text (case_ftype [102] TyKeyword) true ([102; 58] ++ render_q 34 [97; 255]) = ROk (QPlain [[TText [97; 239; 191; 189]]]) /\
  fst (kw_tokenize go_to_lower (ICfg true false 72 32768) 0 [97; 255]) = [[97; 255]].
Proof. vm_compute. repeat split; reflexivity. Qed.
