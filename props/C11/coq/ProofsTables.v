(* C11 — the oracle hypotheses of the generic lemmas, proved for the tables dumped from Go
   (Consts.v) by computation. Re-checked whenever `hC11 -consts` produces other tables. *)
From Coq Require Import List Bool NArith ZArith Lia ZifyN ZifyBool ZifyNat.
From C11 Require Import Model.
Open Scope N_scope.

Lemma lget_in : forall t x v, lget t x = Some v -> In (x, v) (lelems t).
Proof.
  induction t as [|l IHl k w r IHr]; intros x v H; [discriminate|].
  cbn in H. cbn [lelems]. apply in_or_app.
  destruct (x <? k) eqn:E1; [left; auto|].
  destruct (k <? x) eqn:E2; [right; right; auto|].
  right. left. inversion H; subst. f_equal. lia.
Qed.

Definition fixed_in (t : ltree) (v : N) : bool :=
  match lget t v with None => true | Some v' => v' =? v end.

Lemma lower_of_idem : forall t,
  forallb (fun kv : N * N => fixed_in t (snd kv)) (lelems t) = true ->
  forall r, lower_of t (lower_of t r) = lower_of t r.
Proof.
  intros t H r. unfold lower_of at 2 3. destruct (lget t r) as [v|] eqn:E.
  - apply lget_in in E. rewrite forallb_forall in H. specialize (H _ E). cbn in H.
    unfold fixed_in in H. unfold lower_of. destruct (lget t v) as [v'|]; [|reflexivity].
    apply N.eqb_eq in H. assumption.
  - unfold lower_of. rewrite E. reflexivity.
Qed.

Lemma go_to_lower_idem : forall r, go_to_lower (go_to_lower r) = go_to_lower r.
Proof. apply lower_of_idem. vm_compute. reflexivity. Qed.

Lemma below_128 : forall (P : N -> bool),
  forallb P (map N.of_nat (seq 0 128)) = true -> forall c, c < 128 -> P c = true.
Proof.
  intros P H c Hc. rewrite forallb_forall in H. apply H.
  apply in_map_iff. exists (N.to_nat c). split; [lia|]. apply in_seq. lia.
Qed.

Lemma go_to_lower_ascii : forall c, c < 128 -> go_to_lower c = ascii_lower c.
Proof.
  intros c Hc. apply N.eqb_eq.
  apply (below_128 (fun c => go_to_lower c =? ascii_lower c)); [vm_compute; reflexivity|assumption].
Qed.

(* lem:same_token_class, ASCII half: the isTextToken table of the tokenizer is the restriction of the
   rune classes the parser uses *)
Lemma go_class_ascii : forall c, c < 128 -> go_is_letter c || go_is_number c = is_alnum_ascii c.
Proof.
  intros c Hc. apply eqb_prop.
  apply (below_128 (fun c => Bool.eqb (go_is_letter c || go_is_number c) (is_alnum_ascii c)));
    [vm_compute; reflexivity|assumption].
Qed.

Lemma go_fffd_not_word : is_word_rune go_is_letter go_is_number RuneError = false.
Proof. vm_compute. reflexivity. Qed.

Lemma go_wild_not_word : is_word_rune go_is_letter go_is_number WildcardRune = false.
Proof. vm_compute. reflexivity. Qed.
