(* C11 — lower-casing: toLowerTryInplace (index side) = bytes.Map(unicode.ToLower) = strings.ToLower
   (query side), and the keyword theorems. *)
From Coq Require Import List Bool NArith ZArith Lia ZifyN ZifyBool ZifyNat.
From C11 Require Import Model ProofsUtf8.
Open Scope N_scope.

Lemma list_eqb_N_eq : forall a b : list N, list_eqb_N a b = true -> a = b.
Proof.
  unfold list_eqb_N.
  induction a as [|x a IHa]; destruct b as [|y b]; cbn; intros H; try discriminate; try reflexivity.
  apply andb_true_iff in H. destruct H as [H1 H2]. apply N.eqb_eq in H1. f_equal; auto.
Qed.

Lemma list_eqb_N_refl : forall a : list N, list_eqb_N a a = true.
Proof. unfold list_eqb_N. induction a; cbn; [reflexivity|]. rewrite N.eqb_refl, IHa. reflexivity. Qed.

Section Lower.
  Variable to_lower : N -> N.
  (* oracle hypotheses; proved for Go's tables in ProofsTables.v *)
  Hypothesis H_ascii_lower : forall c, c < 128 -> to_lower c = ascii_lower c.
  Hypothesis H_idem : forall r, to_lower (to_lower r) = to_lower r.

  Definition ml (l : list seg) : list N := concat (map (fun sg : seg => encode (to_lower (fst sg))) l).

  Lemma map_lower_ml : forall s, map_lower to_lower s = ml (segs s).
  Proof. reflexivity. Qed.

  Lemma ascii_lower_lt : forall c, c < 128 -> ascii_lower c < 128.
  Proof. intros. unfold ascii_lower, is_upper_ascii. destruct ((65 <=? c) && (c <=? 90)) eqn:E; lia. Qed.

  Lemma ascii_lower_idem : forall c, ascii_lower (ascii_lower c) = ascii_lower c.
  Proof.
    intros. unfold ascii_lower, is_upper_ascii.
    destruct ((65 <=? c) && (c <=? 90)) eqn:E; [|rewrite E; reflexivity].
    destruct ((65 <=? c + 32) && (c + 32 <=? 90)) eqn:E2; lia.
  Qed.

  Lemma map_lower_ascii_cons : forall b t, b < 128 ->
    map_lower to_lower (b :: t) = ascii_lower b :: map_lower to_lower t.
  Proof.
    intros. rewrite !map_lower_ml, segs_ascii by assumption. unfold ml. cbn [map concat fst].
    rewrite H_ascii_lower, encode_ascii by (try apply ascii_lower_lt; assumption). reflexivity.
  Qed.

  Lemma map_lower_encode_app : forall r t, valid_rune r = true ->
    map_lower to_lower (encode r ++ t) = encode (to_lower r) ++ map_lower to_lower t.
  Proof. intros. rewrite !map_lower_ml, segs_encode by assumption. reflexivity. Qed.

  (* the in-place loop: either it ran to the end and produced the mapped string, or it stopped at a
     rune whose width changes and bytes.Map over the half-converted buffer still gives the mapped
     string *)
  Lemma lower_mut_spec : forall l, is_segs l ->
    let (m, f) := lower_mut to_lower l in
    (if f then map_lower to_lower m else m) = ml l.
  Proof.
    induction l as [|[r raw] rest IH]; intros Hs; [reflexivity|].
    pose proof (is_segs_inv _ _ _ Hs) as [E Hrest].
    specialize (IH Hrest).
    pose proof (step_first_byte _ _ _ _ E) as [Hasc Hnasc].
    cbn [lower_mut].
    destruct (first_byte raw <? 128) eqn:Hfb.
    - destruct (Hasc eq_refl) as [-> Hr]. cbn [first_byte].
      destruct (lower_mut to_lower rest) as [m f].
      unfold ml. cbn [map concat fst]. fold (ml rest).
      rewrite (H_ascii_lower r Hr), (encode_ascii (ascii_lower r)) by (apply ascii_lower_lt; assumption).
      destruct f.
      + rewrite map_lower_ascii_cons by (apply ascii_lower_lt; assumption).
        rewrite ascii_lower_idem, IH. reflexivity.
      + rewrite IH. reflexivity.
    - destruct (Nat.eqb (rune_len (to_lower r)) (length raw)) eqn:Hw.
      + apply Nat.eqb_eq in Hw.
        assert (Hv : valid_rune (to_lower r) = true).
        { apply rune_len_valid. rewrite Hw. pose proof (step_app _ _ _ _ E) as [_ Hne].
          destruct raw; [congruence|discriminate]. }
        destruct (lower_mut to_lower rest) as [m f].
        unfold ml. cbn [map concat fst]. fold (ml rest).
        destruct f.
        * rewrite map_lower_encode_app by assumption. rewrite H_idem, IH. reflexivity.
        * rewrite IH. reflexivity.
      + rewrite map_lower_ml. rewrite <- (raws_cons r raw rest). rewrite Hs. reflexivity.
  Qed.

  (* toLowerTryInplace = bytes.Map(unicode.ToLower), for every byte string *)
  Lemma lower_ip_map_lower : forall s, lower_ip to_lower s = map_lower to_lower s.
  Proof.
    intros s. unfold lower_ip, lower_full.
    pose proof (lower_mut_spec (segs s) (is_segs_segs s)) as H.
    destruct (lower_mut to_lower (segs s)) as [m f]. cbn [fst]. exact H.
  Qed.

  (* strings.ToLower: the ASCII fast path agrees with the general path *)
  Lemma map_lower_all_ascii : forall s, all_ascii s = true -> map_lower to_lower s = map ascii_lower s.
  Proof.
    induction s as [|b t IH]; intros H; [reflexivity|].
    cbn in H. apply andb_true_iff in H. destruct H as [Hb Ht].
    rewrite map_lower_ascii_cons by lia. cbn [map]. rewrite IH by assumption. reflexivity.
  Qed.

  Lemma str_to_lower_map_lower : forall s, str_to_lower to_lower s = map_lower to_lower s.
  Proof.
    intros s. unfold str_to_lower. destruct (all_ascii s) eqn:E; [|reflexivity].
    symmetry. apply map_lower_all_ascii. assumption.
  Qed.

  (* invalid bytes are U+FFFD for both mappers: re-encoding first changes nothing *)
  Lemma map_lower_sanitize : forall s, map_lower to_lower (sanitize s) = map_lower to_lower s.
  Proof.
    intros s. rewrite !map_lower_ml, sanitize_segs. unfold ml. rewrite map_map. reflexivity.
  Qed.

  (* index-side lower-casing of ANY byte string = query-side lower-casing of its re-encoding *)
  Lemma lower_sides_agree : forall s, lower_ip to_lower s = str_to_lower to_lower (sanitize s).
  Proof.
    intros. rewrite lower_ip_map_lower, str_to_lower_map_lower, map_lower_sanitize. reflexivity.
  Qed.

  (* ---------------------------------------------------------------- keyword query side *)

  Lemma qkw_loop_nowild : forall sens l cur,
    existsb (fun sg : seg => fst sg =? WildcardRune) l = false ->
    qkw_loop to_lower sens l cur = flush to_lower sens (cur ++ concat (map (fun sg : seg => encode (fst sg)) l)).
  Proof.
    induction l as [|[r raw] l IH]; intros cur H.
    - cbn. rewrite app_nil_r. reflexivity.
    - cbn in H. apply orb_false_iff in H. destruct H as [Hr Hl].
      cbn [qkw_loop]. rewrite Hr. rewrite IH by assumption. cbn [map concat fst].
      rewrite app_assoc. reflexivity.
  Qed.

  Lemma sanitize_nonempty : forall s, s <> [] -> nonempty (sanitize s) = true.
  Proof.
    intros s Hs. unfold sanitize. rewrite segs_step.
    destruct (step s) as [[[r raw] rest]|] eqn:E.
    - cbn [map concat fst]. pose proof (encode_nonempty r). destruct (encode r); [congruence|reflexivity].
    - apply step_nil in E. congruence.
  Qed.

  Lemma qkw_nowild : forall sens s, has_rune WildcardRune s = false ->
    qkw to_lower sens s = [TText (qlower to_lower sens (sanitize s))].
  Proof.
    intros sens s H. unfold qkw. destruct s as [|b t] eqn:Es; [destruct sens; reflexivity|]. rewrite <- Es in *.
    rewrite qkw_loop_nowild by exact H. cbn [app]. fold (sanitize s). unfold flush.
    rewrite sanitize_nonempty by (subst; discriminate). reflexivity.
  Qed.

  (* the token lower_if produces for a byte string is the text term of the query made from it *)
  Lemma lower_if_query : forall c p,
    has_rune WildcardRune p = false -> (cs c = false \/ valid_utf8 p = true) ->
    qkw to_lower (cs c) p = [TText (fst (lower_if to_lower c p))].
  Proof.
    intros c p Hw Hv. rewrite qkw_nowild by assumption. unfold lower_if, qlower.
    destruct (cs c) eqn:Ecs.
    - destruct Hv as [Hv|Hv]; [discriminate|]. rewrite valid_utf8_sanitize by assumption. reflexivity.
    - fold (lower_ip to_lower p). rewrite lower_sides_agree. reflexivity.
  Qed.

  (* KeywordTokenizer: nothing (skipped) or exactly one token, the one the query for the indexed part
     of the value produces *)
  Lemma kw_consistent : forall c fmax v,
    let p := indexed_part TyKeyword c fmax v in
    if skipped TyKeyword c fmax v then fst (kw_tokenize to_lower c fmax v) = []
    else exists t, fst (kw_tokenize to_lower c fmax v) = [t] /\
         (has_rune WildcardRune p = false -> (cs c = false \/ valid_utf8 p = true) ->
          qkw to_lower (cs c) p = [TText t] /\ lit_matches (qkw to_lower (cs c) p) t = true).
  Proof.
    intros c fmax v p. unfold skipped, kw_tokenize.
    destruct (Nat.ltb (limit_of (max_tok c) fmax) (length v) && negb (partial c)) eqn:E; [reflexivity|].
    subst p. unfold indexed_part.
    destruct (lower_if to_lower c (firstn (limit_of (max_tok c) fmax) v)) as [t m] eqn:El.
    exists t. split; [reflexivity|]. intros Hw Hv.
    rewrite (lower_if_query c _ Hw Hv), El. cbn [fst]. split; [reflexivity|].
    cbn [lit_matches]. apply list_eqb_N_refl.
  Qed.

  (* `_exists_:<title>`: the query side always runs case-sensitively on this field, so the term is the
     title itself, byte for byte *)
  Lemma exists_term : forall title,
    has_rune WildcardRune title = false -> valid_utf8 title = true ->
    qkw to_lower true title = [TText title] /\ query_finds [qkw to_lower true title] [title] = true.
  Proof.
    intros title Hw Hv. rewrite qkw_nowild by assumption. unfold qlower.
    rewrite valid_utf8_sanitize by assumption. split; [reflexivity|].
    unfold query_finds. cbn. rewrite list_eqb_N_refl. reflexivity.
  Qed.

  Lemma firstn_all_le : forall (v : list N) n, (length v <= n)%nat -> firstn n v = v.
  Proof. intros. apply firstn_all2. assumption. Qed.

  (* the whole value of a keyword field, within the size limit *)
  Lemma kw_findable : forall c fmax v,
    (length v <= limit_of (max_tok c) fmax)%nat ->
    has_rune WildcardRune v = false -> (cs c = false \/ valid_utf8 v = true) ->
    exists t, fst (kw_tokenize to_lower c fmax v) = [t] /\ qkw to_lower (cs c) v = [TText t] /\
              query_finds [qkw to_lower (cs c) v] (fst (kw_tokenize to_lower c fmax v)) = true.
  Proof.
    intros c fmax v Hlen Hw Hv.
    pose proof (kw_consistent c fmax v) as H. cbv zeta in H.
    assert (Hs : skipped TyKeyword c fmax v = false).
    { unfold skipped. apply andb_false_iff. left. apply Nat.ltb_ge. assumption. }
    rewrite Hs in H. destruct H as [t [Ht Hq]].
    unfold indexed_part in Hq. rewrite firstn_all_le in Hq by assumption.
    destruct (Hq Hw Hv) as [Hq1 Hq2].
    exists t. repeat split; try assumption.
    rewrite Ht. unfold query_finds. cbn. rewrite Hq2. reflexivity.
  Qed.
End Lower.
