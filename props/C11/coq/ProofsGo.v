(* C11 — the generic lemmas instantiated with the tables of the Go toolchain (no hypothesis left). *)
From Coq Require Import List Bool NArith.
From C11 Require Import Model ModelDoc ProofsUtf8 ProofsLower ProofsText ProofsPath ProofsDoc ProofsLegacy ProofsForms ProofsTables.
Open Scope N_scope.

Definition go_lower_sides_agree := lower_sides_agree go_to_lower go_to_lower_ascii go_to_lower_idem.
Definition go_lower_ip_map_lower := lower_ip_map_lower go_to_lower go_to_lower_ascii go_to_lower_idem.
Definition go_kw_findable := kw_findable go_to_lower go_to_lower_ascii go_to_lower_idem.
Definition go_kw_consistent := kw_consistent go_to_lower go_to_lower_ascii go_to_lower_idem.

Definition go_exists_term := exists_term go_to_lower.
Definition go_word_token := word_token go_to_lower.
Definition go_text_consistent :=
  text_consistent go_is_letter go_is_number go_to_lower go_to_lower_ascii go_to_lower_idem go_class_ascii
    go_fffd_not_word.

(* non-vacuity of the text theorem: "Straße_ÀB ٣x*y" with a width-changing rune, a non-ASCII digit, '_' and '*' *)
Lemma text_nonvacuous :
  let c := ICfg false false 72 32768 in
  let v := [75; 226; 132; 170; 95; 195; 128; 66; 32; 217; 163; 120; 42; 121] in
  skipped TyText c 0 v = false /\
  words_of go_is_letter go_is_number (segs (indexed_part TyText c 0 v)) [] =
    [[75; 226; 132; 170; 95; 195; 128; 66]; [217; 163; 120; 42; 121]] /\
  fst (text_tokenize go_is_letter go_is_number go_to_lower c 0 v) =
    [[107; 107; 95; 195; 160; 98]; [217; 163; 120; 42; 121]] /\
  has_rune WildcardRune (indexed_part TyText c 0 v) = false.
Proof. vm_compute. repeat split; reflexivity. Qed.

Definition go_ptok := ptok go_to_lower.
Definition go_path_consistent := path_consistent go_to_lower go_to_lower_ascii go_to_lower_idem.

(* non-vacuity of the path theorem: "/Var/L\u00d6G/\u0130x", case-insensitive: the in-place lower-casing of the
   first prefixes runs before the later ones are cut; the last component holds a width-changing rune *)
Lemma path_nonvacuous :
  let c := ICfg false false 72 32768 in
  let v := [47; 86; 97; 114; 47; 76; 195; 150; 71; 47; 196; 176; 120] in
  skipped TyPath c 0 v = false /\
  path_prefixes [] (indexed_part TyPath c 0 v) = [[47; 86; 97; 114]; [47; 86; 97; 114; 47; 76; 195; 150; 71]] /\
  fst (path_tokenize go_to_lower c 0 v) =
    [[47; 118; 97; 114]; [47; 118; 97; 114; 47; 108; 195; 182; 103];
     [47; 118; 97; 114; 47; 108; 195; 182; 103; 47; 105; 120]] /\
  has_rune WildcardRune v = false.
Proof. vm_compute. repeat split; reflexivity. Qed.

(* defect #13 (known finding cs-invalid-utf8): case-sensitive, value "ab\xffcd" *)
Lemma kw_cs_invalid_refuted :
  exists c fmax v,
    (length v <= limit_of (max_tok c) fmax)%nat /\ has_rune WildcardRune v = false /\ cs c = true /\
    query_finds [qkw go_to_lower (cs c) v] (fst (kw_tokenize go_to_lower c fmax v)) = false.
Proof.
  exists (ICfg true false 72 32768), 0, [97; 98; 255; 99; 100]. vm_compute. repeat split; try reflexivity.
  apply Nat.leb_le. reflexivity.
Qed.

(* ex:C11_cut_rune_witness: case-sensitive, partial indexing, MaxTokenSize 4, value "abcéd":
   the indexed prefix "abc\xc3" is not found by the query made from it *)
Lemma cut_rune_witness :
  exists c fmax v,
    cs c = true /\ partial c = true /\ valid_utf8 v = true /\
    skipped TyKeyword c fmax v = false /\
    let p := indexed_part TyKeyword c fmax v in
    valid_utf8 p = false /\
    query_finds [qkw go_to_lower (cs c) p] (fst (kw_tokenize go_to_lower c fmax v)) = false.
Proof.
  exists (ICfg true true 4 32768), 0, [97; 98; 99; 195; 169; 100]. vm_compute. repeat split; reflexivity.
Qed.

(* the same cut in case-insensitive mode is found (both sides render the cut byte as U+FFFD) *)
Lemma cut_rune_ci_found :
  let c := ICfg false true 4 32768 in
  let v := [97; 98; 99; 195; 169; 100] in
  let p := indexed_part TyKeyword c 0 v in
  valid_utf8 p = false /\
  query_finds [qkw go_to_lower (cs c) p] (fst (kw_tokenize go_to_lower c 0 v)) = true.
Proof. vm_compute. split; reflexivity. Qed.

(* the hypotheses of the keyword theorem are satisfiable with a width-changing rune:
   "İx" (I with dot above; its lower case "i" is one byte shorter), case-insensitive *)
Lemma kw_nonvacuous :
  let c := ICfg false false 72 32768 in
  let v := [196; 176; 120] in
  (length v <= limit_of (max_tok c) 0)%nat /\ has_rune WildcardRune v = false /\
  fst (kw_tokenize go_to_lower c 0 v) = [[105; 120]] /\ qkw go_to_lower (cs c) v = [TText [105; 120]].
Proof. vm_compute. repeat split; try reflexivity. apply Nat.leb_le. reflexivity. Qed.

(* ---------------------------------------------------------------- phase 2: flattening, legacy parser *)
Definition go_flatten_findable := flatten_findable go_is_letter go_is_number go_to_lower.
Definition go_seen_by_first := seen_by_first go_is_letter go_is_number go_to_lower.
Definition go_seen_by_cs := seen_by_cs go_is_letter go_is_number go_to_lower.

Lemma go_seen_value : forall c all v,
  (forall mt v', hd_error (seen_by go_is_letter go_is_number go_to_lower c all v) = Some (mt, v') -> v' = v) /\
  (cs c = true -> forall mt v', In (mt, v') (seen_by go_is_letter go_is_number go_to_lower c all v) -> v' = v).
Proof.
  intros. split.
  - intros. eapply go_seen_by_first; eauto.
  - intros Hc mt v' H. eapply go_seen_by_cs; eauto.
Qed.

Definition go_legacy_kw_consistent :=
  legacy_kw_consistent go_to_lower go_to_lower_ascii go_to_lower_idem.
Definition go_legacy_path_consistent :=
  legacy_path_consistent go_to_lower go_to_lower_ascii go_to_lower_idem.
Definition go_legacy_text_consistent :=
  legacy_text_consistent go_is_letter go_is_number go_to_lower go_to_lower_ascii go_to_lower_idem go_class_ascii
    go_fffd_not_word.

(* a document with an object, a tag array and a nested array whose element holds a multi-type field:
   {"o":{"x":"Ab"},"tg":[{"key":"a","value":"C d"}],"ns":[{"v":"E/f"}]} *)
Definition ex_mapping : mapping :=
  [([111], (TyObject, [([], TyObject, 0)]));
   ([111; 46; 120], (TyKeyword, [([], TyKeyword, 0)]));
   ([116; 103], (TyTags, [([], TyTags, 0)]));
   ([116; 103; 46; 97], (TyText, [([], TyText, 0)]));
   ([110; 115], (TyNested, [([], TyNested, 0)]));
   ([110; 115; 46; 118], (TyKeyword, [([110; 115; 46; 118], TyKeyword, 0); ([110; 115; 46; 118; 46; 116], TyText, 5)]))].
Definition ex_doc : jval :=
  JObj [([111], JObj [([120], JLeaf (Some [65; 98]))] [123; 125]);
        ([116; 103], JArr [JObj [([107; 101; 121], JLeaf (Some [97])); ([118; 97; 108; 117; 101], JLeaf (Some [67; 32; 100]))] [123; 125]] [91; 93]);
        ([110; 115], JArr [JObj [([118], JLeaf (Some [69; 47; 102]))] [123; 125]] [91; 93])] [123; 125].

Lemma flatten_nonvacuous :
  reach ex_mapping [] ex_doc [111; 46; 120] (Some [65; 98]) /\
  reach ex_mapping [] ex_doc [116; 103; 46; 97] (Some [67; 32; 100]) /\
  reach ex_mapping [] ex_doc [110; 115; 46; 118] (Some [69; 47; 102]) /\
  doc_metas go_is_letter go_is_number go_to_lower ex_mapping (ICfg false false 72 32768) ex_doc =
    [ [(K_ALL, []); ([111; 46; 120], [97; 98]); (K_EXISTS, [111; 46; 120]);
       ([116; 103; 46; 97], [99]); ([116; 103; 46; 97], [100]); (K_EXISTS, [116; 103; 46; 97])];
      [(K_ALL, []); ([110; 115; 46; 118], [101; 47; 102]); (K_EXISTS, [110; 115; 46; 118]);
       ([110; 115; 46; 118; 46; 116], [101]); ([110; 115; 46; 118; 46; 116], [102]); (K_EXISTS, [110; 115; 46; 118; 46; 116]);
       ([111; 46; 120], [97; 98]); (K_EXISTS, [111; 46; 120]);
       ([116; 103; 46; 97], [99]); ([116; 103; 46; 97], [100]); (K_EXISTS, [116; 103; 46; 97])] ].
Proof.
  split; [|split; [|split]].
  - eapply R_object with (k := [111]) (fs' := [([120], JLeaf (Some [65; 98]))]); [cbn; auto|reflexivity|].
    apply (R_field ex_mapping [111] [([120], JLeaf (Some [65; 98]))] [123; 125] [120] (JLeaf (Some [65; 98]))); [cbn; auto|exact I].
  - eapply R_tag with (k := [116; 103]) (enc' := [91; 93]) (tenc := [123; 125]) (kn := JLeaf (Some [97]))
      (tfs := [([107; 101; 121], JLeaf (Some [97])); ([118; 97; 108; 117; 101], JLeaf (Some [67; 32; 100]))]);
      [cbn; auto|reflexivity|cbn; auto|reflexivity].
  - eapply R_nested with (k := [110; 115]) (e := JObj [([118], JLeaf (Some [69; 47; 102]))] [123; 125]);
      [cbn; auto|reflexivity|cbn; auto|].
    apply (R_field ex_mapping [110; 115] [([118], JLeaf (Some [69; 47; 102]))] [123; 125] [118] (JLeaf (Some [69; 47; 102]))); [cbn; auto|exact I].
  - vm_compute. reflexivity.
Qed.

(* legacy parser: "ab\xffcd" is found in case-insensitive mode (both sides render the byte as U+FFFD), not in
   case-sensitive mode (the same known finding cs-invalid-utf8) *)
Lemma legacy_invalid_witness :
  let v := [97; 98; 255; 99; 100] in
  query_finds (lq_kw go_to_lower false v) (fst (kw_tokenize go_to_lower (ICfg false false 72 32768) 0 v)) = true /\
  query_finds (lq_kw go_to_lower true v) (fst (kw_tokenize go_to_lower (ICfg true false 72 32768) 0 v)) = false.
Proof. vm_compute. split; reflexivity. Qed.

(* ---------------------------------------------------------------- phase 3: in(...) and range forms *)
Definition go_in_form_uniform := in_form_uniform go_is_letter go_is_number go_to_lower.
Definition go_range_form_uniform := range_form_uniform go_to_lower.
Definition go_exists_forms := exists_forms go_is_letter go_is_number go_to_lower.

Notation go_query_in := (query_in go_is_letter go_is_number go_to_lower).

Lemma go_keyword_in_findable : forall c fmax v ms k members,
  (length v <= limit_of (max_tok c) fmax)%nat ->
  has_rune WildcardRune v = false -> (cs c = false \/ valid_utf8 v = true) ->
  nth_error ms k = Some v -> go_query_in TyKeyword (cs c) ms = Some members ->
  nth_error members k = Some [qkw go_to_lower (cs c) v] /\
  in_finds members (fst (kw_tokenize go_to_lower c fmax v)) = true.
Proof.
  intros c fmax v ms k members Hl Hw Hv Hk Hin.
  destruct (go_kw_findable c fmax v Hl Hw Hv) as [t [_ [_ Hf]]].
  destruct (go_in_form_uniform TyKeyword (cs c) ms k v members Hk Hin) as [lits [H1 [H2 [_ H4]]]].
  cbn [query_lits] in H1. inversion H1; subst lits. split; [exact H2|]. apply H4. exact Hf.
Qed.

Lemma go_text_in_findable : forall c fmax v w ms k members,
  v <> [] -> skipped TyText c fmax v = false ->
  In w (words_of go_is_letter go_is_number (segs (indexed_part TyText c fmax v)) []) -> sizeok c w = true ->
  nth_error ms k = Some w -> go_query_in TyText (cs c) ms = Some members ->
  nth_error members k = Some [[TText (go_word_token c w)]] /\
  in_finds members (fst (text_tokenize go_is_letter go_is_number go_to_lower c fmax v)) = true.
Proof.
  intros c fmax v w ms k members Hv Hsk Hw Hsz Hk Hin.
  pose proof (go_text_consistent c fmax v Hv) as H. cbv zeta in H. rewrite Hsk in H.
  destruct H as [_ [H _]]. destruct (H w Hw) as [Hq Hf].
  destruct (go_in_form_uniform TyText (cs c) ms k w members Hk Hin) as [lits [H1 [H2 [_ H4]]]].
  cbn [query_lits] in H1. inversion H1; subst lits. rewrite Hq in H2. split; [exact H2|].
  apply H4. apply Hf. exact Hsz.
Qed.

Lemma go_path_in_findable : forall c fmax v q ms k members,
  skipped TyPath c fmax v = false ->
  In q (path_prefixes [] (indexed_part TyPath c fmax v) ++ [indexed_part TyPath c fmax v]) ->
  has_rune WildcardRune q = false -> (cs c = false \/ valid_utf8 q = true) ->
  nth_error ms k = Some q -> go_query_in TyPath (cs c) ms = Some members ->
  nth_error members k = Some [[TText (go_ptok c q)]] /\
  in_finds members (fst (path_tokenize go_to_lower c fmax v)) = true.
Proof.
  intros c fmax v q ms k members Hsk Hq Hw Hv Hk Hin.
  pose proof (go_path_consistent c fmax v) as H. cbv zeta in H. rewrite Hsk in H.
  destruct H as [_ H]. destruct (H q Hq Hw Hv) as [Ht Hf].
  destruct (go_in_form_uniform TyPath (cs c) ms k q members Hk Hin) as [lits [H1 [H2 [_ H4]]]].
  cbn [query_lits] in H1. inversion H1; subst lits. rewrite Ht in H2. split; [exact H2|].
  apply H4. exact Hf.
Qed.

(* the regression of phase 3 as a model statement: without the forced case rule the in-form of `_exists_`
   produces another term than the indexed title *)
Lemma exists_in_without_rule_refuted :
  let title := [116; 114; 97; 99; 101; 73; 68] in      (* "traceID" *)
  go_query_in TyKeyword (eff_sens true false) [title] = Some [[[TText title]]] /\
  go_query_in TyKeyword false [title] = Some [[[TText [116; 114; 97; 99; 101; 105; 100]]]] /\
  in_finds [[[TText [116; 114; 97; 99; 101; 105; 100]]]] [title] = false.
Proof. vm_compute. repeat split; reflexivity. Qed.
