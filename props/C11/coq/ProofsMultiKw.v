From Coq Require Import List Bool NArith Lia.
From C11 Require Import Model ModelDoc ModelMulti ProofsUtf8 ProofsLower ProofsTables ProofsMulti.
Open Scope N_scope.

(* ------------------------------------------------------------------ keyword titles within their limits *)
Section KwInv.
  Variables (is_letter is_number : N -> bool) (to_lower : N -> N).
  Hypothesis H_ascii_lower : forall c, c < 128 -> to_lower c = ascii_lower c.
  Hypothesis H_idem : forall r, to_lower (to_lower r) = to_lower r.
  Hypothesis H_fffd : to_lower RuneError = RuneError.

  Definition krel (sg sg' : seg) : Prop :=
    length (snd sg') = length (snd sg) /\ to_lower (fst sg') = to_lower (fst sg).
  (* the buffer v' stands for the original value v *)
  Definition brel (v v' : list N) : Prop := length v' = length v /\ Forall2 krel (segs v) (segs v').

  Lemma krel_refl_list : forall l, Forall2 krel l l.
  Proof. induction l; constructor; [split; reflexivity|assumption]. Qed.

  Lemma krel_trans_list : forall a b, Forall2 krel a b -> forall c, Forall2 krel b c -> Forall2 krel a c.
  Proof.
    induction 1 as [|x y a b [H1 H2] _ IH]; intros c Hc; inversion Hc as [|y' z b' c' [H3 H4] Hbc]; subst; constructor.
    - split; congruence.
    - apply IH; assumption.
  Qed.

  Lemma brel_refl : forall v, brel v v.
  Proof. intros; split; [reflexivity|apply krel_refl_list]. Qed.

  Lemma brel_trans : forall a b c, brel a b -> brel b c -> brel a c.
  Proof. intros a b c [L1 F1] [L2 F2]. split; [congruence|eapply krel_trans_list; eassumption]. Qed.

  Lemma kept_krel : forall l l', Forall2 (seg_kept to_lower) l l' -> Forall2 krel l l'.
  Proof.
    induction 1 as [|x y l l' [Hl [Hf|Hf]] _ IH]; constructor; try assumption; split; try assumption.
    - rewrite Hf; reflexivity.
    - rewrite Hf. apply H_idem.
  Qed.

  Lemma brel_lower_full : forall s, brel s (snd (lower_full to_lower s)).
  Proof.
    intros s. destruct (lower_full_buffer_keeps_segments to_lower H_ascii_lower H_fffd s) as [HF HL].
    split; [assumption|apply kept_krel; assumption].
  Qed.

  Lemma brel_mlow : forall v v', brel v v' -> map_lower to_lower v' = map_lower to_lower v.
  Proof.
    intros v v' [_ HF]. unfold map_lower. f_equal.
    induction HF as [|x y l l' [_ Hf] _ IH]; [reflexivity|]. cbn [map]. rewrite Hf, IH. reflexivity.
  Qed.

  (* R: what the buffer handed to a later title is, relative to the original value *)
  Definition R (c : icfg) (v v' : list N) : Prop := if cs c then v' = v else brel v v'.

  Lemma kw_step : forall c mx v v', R c v v' -> (length v <= limit_of (max_tok c) mx)%nat ->
    fst (kw_tokenize to_lower c mx v') = fst (kw_tokenize to_lower c mx v) /\
    R c v (snd (kw_tokenize to_lower c mx v')).
  Proof.
    intros c mx v v' HR Hlen. unfold R in *. unfold kw_tokenize, lower_if.
    destruct (cs c) eqn:Hc.
    - subst v'. split; [reflexivity|].
      destruct (Nat.ltb (limit_of (max_tok c) mx) (length v) && negb (partial c)); [reflexivity|].
      cbn [snd]. apply firstn_skipn.
    - destruct HR as [HL HF].
      replace (Nat.ltb (limit_of (max_tok c) mx) (length v')) with false by (symmetry; apply Nat.ltb_ge; lia).
      replace (Nat.ltb (limit_of (max_tok c) mx) (length v)) with false by (symmetry; apply Nat.ltb_ge; lia).
      cbn [andb].
      rewrite (firstn_all2 v') by lia. rewrite (firstn_all2 v) by lia.
      rewrite (skipn_all2 v') by lia.
      pose proof (lower_ip_map_lower to_lower H_ascii_lower H_idem v') as E1.
      pose proof (lower_ip_map_lower to_lower H_ascii_lower H_idem v) as E2.
      unfold lower_ip in E1, E2.
      pose proof (brel_lower_full v') as Hb.
      destruct (lower_full to_lower v') as [t' m']. destruct (lower_full to_lower v) as [t m].
      cbn [fst snd] in *. split.
      + rewrite E1, E2. f_equal. apply brel_mlow. split; assumption.
      + rewrite app_nil_r. eapply brel_trans; [split; eassumption|exact Hb].
  Qed.

  (* every title that has a tokenizer is a keyword title whose limit the value does not exceed, or an exists title *)
  Definition kw_within (c : icfg) (v : list N) (mt : mtype) : Prop :=
    let '(_, ty, mx) := mt in
    has_tokenizer ty = true ->
    (ty = TyKeyword /\ (length v <= limit_of (max_tok c) mx)%nat) \/ ty = TyExists.

  Lemma index_types_kw_within : forall c all key v v', R c v v' -> Forall (kw_within c v) all ->
    index_types is_letter is_number to_lower c all key (Some v') =
    index_types_pure is_letter is_number to_lower c all key v.
  Proof.
    intros c all key v. induction all as [|[[title ty] mx] rest IH]; intros v' HR Hall; [reflexivity|].
    inversion Hall as [|? ? Hmt Hrest]; subst.
    cbn [index_types index_types_pure flat_map]. fold (index_types_pure is_letter is_number to_lower c rest key v).
    destruct (has_tokenizer ty) eqn:Ht; [|apply IH; assumption].
    destruct (Hmt Ht) as [[-> Hlen]| ->].
    - cbn [tokenize_full]. destruct (kw_step c mx v v' HR Hlen) as [Hf Hs].
      destruct (kw_tokenize to_lower c mx v') as [toks buf]. cbn [fst snd] in *.
      rewrite Hf, <- app_assoc. cbn [app]. f_equal. f_equal. apply IH; assumption.
    - cbn [tokenize_full fst snd map app]. f_equal. apply IH; assumption.
  Qed.

  Theorem multitype_kw_within_limits : forall c all key v, Forall (kw_within c v) all ->
    index_types is_letter is_number to_lower c all key (Some v) =
    index_types_pure is_letter is_number to_lower c all key v.
  Proof.
    intros c all key v H. apply index_types_kw_within; [|assumption].
    unfold R. destruct (cs c); [reflexivity|apply brel_refl].
  Qed.
End KwInv.

Definition go_kw_within := kw_within.
Definition go_multitype_kw_within_limits :=
  multitype_kw_within_limits go_is_letter go_is_number go_to_lower go_to_lower_ascii go_to_lower_idem go_to_lower_fffd.

(* ------------------------------------------------------------------ rune classes are invariant under lower-casing *)
From C11 Require Import ModelLex.
Definition class_same (kv : N * N) : bool :=
  Bool.eqb (go_is_letter (snd kv)) (go_is_letter (fst kv)) && Bool.eqb (go_is_number (snd kv)) (go_is_number (fst kv))
  && Bool.eqb (go_is_space (snd kv)) (go_is_space (fst kv)).

Lemma go_class_lower : forall r,
  go_is_letter (go_to_lower r) = go_is_letter r /\ go_is_number (go_to_lower r) = go_is_number r /\
  go_is_space (go_to_lower r) = go_is_space r.
Proof.
  intros r. unfold go_to_lower, lower_of. destruct (lget lower_tree r) as [v|] eqn:E; [|repeat split].
  apply lget_in in E.
  assert (H : forallb class_same (lelems lower_tree) = true) by (vm_compute; reflexivity).
  rewrite forallb_forall in H. specialize (H _ E). unfold class_same in H. cbn [fst snd] in H.
  apply andb_true_iff in H. destruct H as [H H3]. apply andb_true_iff in H. destruct H as [H1 H2].
  apply eqb_prop in H1, H2, H3. repeat split; assumption.
Qed.

Lemma go_multitype_kw_within_limits_in : forall c all key v,
  (forall title ty mx, In (title, ty, mx) all -> has_tokenizer ty = true ->
     (ty = TyKeyword /\ (length v <= limit_of (max_tok c) mx)%nat) \/ ty = TyExists) ->
  index_types go_is_letter go_is_number go_to_lower c all key (Some v) =
  index_types_pure go_is_letter go_is_number go_to_lower c all key v.
Proof.
  intros c all key v H. apply go_multitype_kw_within_limits.
  apply Forall_forall. intros [[title ty] mx] Hin. unfold kw_within. intros Ht. eapply H; eassumption.
Qed.

Lemma multitype_keyword_nonvacuous :
  let c := ICfg false false 72 32768 in
  let all := [([], TyKeyword, 0); ([107; 46; 116], TyKeyword, 20); ([107; 46; 101], TyExists, 0)] in
  let v := [65; 195; 150; 196; 176; 255; 66] in
  index_types go_is_letter go_is_number go_to_lower c all [107] (Some v) =
  index_types_pure go_is_letter go_is_number go_to_lower c all [107] v /\
  snd (kw_tokenize go_to_lower c 0 v) = [97; 195; 182; 196; 176; 255; 66].
Proof. vm_compute. split; reflexivity. Qed.
