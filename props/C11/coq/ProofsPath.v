(* C11 — path fields: PathTokenizer lower-cases every leading path IN PLACE on the shared value
   buffer (or through the bytes.Map fallback, leaving a half-converted buffer); the tokens are
   nevertheless the lower-cased leading paths of the original value. *)
From Coq Require Import List Bool NArith ZArith Lia ZifyN ZifyBool ZifyNat.
From C11 Require Import Model ProofsUtf8 ProofsLower.
Open Scope N_scope.

Definition asciihead (t : list N) : Prop := match t with [] => True | b :: _ => b < 128 end.

Lemma lo_not_ascii : forall b0 sz lo hi c, lead_info b0 = Some (sz, lo, hi) -> c < 128 ->
  negb ((lo <=? c) && (c <=? hi)) = true.
Proof. intros b0 sz lo hi c H Hc. apply lead_info_spec in H. lia. Qed.

Lemma cont_not_ascii : forall c, c < 128 -> negb (cont c) = true.
Proof. intros. unfold cont. lia. Qed.

(* a decoding step is not affected by appending bytes that start with an ASCII byte *)
Lemma step_app_ascii : forall s t r raw rest, asciihead t ->
  step s = Some (r, raw, rest) -> step (s ++ t) = Some (r, raw, rest ++ t).
Proof.
  intros s t r raw rest Ht.
  destruct s as [|b0 t0]; [discriminate|]. cbn [step app].
  destruct (b0 <? 128); [intros H; inversion H; reflexivity|].
  destruct (lead_info b0) as [[[sz lo] hi]|] eqn:Hl; [|intros H; inversion H; reflexivity].
  destruct t0 as [|b1 t1].
  { intros H; inversion H; subst. cbn [app]. destruct t as [|c t']; [reflexivity|].
    cbn in Ht. rewrite (lo_not_ascii _ _ _ _ c Hl Ht). reflexivity. }
  cbn [app].
  destruct (negb ((lo <=? b1) && (b1 <=? hi))); [intros H; inversion H; reflexivity|].
  assert (Hsz : sz = 2%nat \/ sz = 3%nat \/ sz = 4%nat) by (pose proof (lead_info_spec _ _ _ _ Hl); lia).
  destruct Hsz as [->|[->| ->]].
  - intros H; inversion H; reflexivity.
  - destruct t1 as [|b2 t2].
    { intros H; inversion H; subst. cbn [app]. destruct t as [|c t']; [reflexivity|].
      cbn in Ht. rewrite (cont_not_ascii c Ht). reflexivity. }
    cbn [app]. destruct (negb (cont b2)); intros H; inversion H; reflexivity.
  - destruct t1 as [|b2 t2].
    { intros H; inversion H; subst. cbn [app]. destruct t as [|c t']; [reflexivity|].
      cbn in Ht. rewrite (cont_not_ascii c Ht). reflexivity. }
    cbn [app]. destruct (negb (cont b2)); [intros H; inversion H; reflexivity|].
    destruct t2 as [|b3 t3].
    { intros H; inversion H; subst. cbn [app]. destruct t as [|c t']; [reflexivity|].
      cbn in Ht. rewrite (cont_not_ascii c Ht). reflexivity. }
    cbn [app]. destruct (negb (cont b3)); intros H; inversion H; reflexivity.
Qed.

Lemma segs_app_ascii : forall t, asciihead t -> forall s, segs (s ++ t) = segs s ++ segs t.
Proof.
  intros t Ht. induction s as [|s r raw rest E IH] using segs_ind; [reflexivity|].
  rewrite (segs_step (s ++ t)), (step_app_ascii _ _ _ _ _ Ht E), IH.
  rewrite (segs_step s), E. reflexivity.
Qed.

Section Path.
  Variable to_lower : N -> N.
  Hypothesis H_ascii_lower : forall c, c < 128 -> to_lower c = ascii_lower c.
  Hypothesis H_idem : forall r, to_lower (to_lower r) = to_lower r.

  Notation mlow := (map_lower to_lower).

  Lemma map_lower_app_ascii : forall s t, asciihead t -> mlow (s ++ t) = mlow s ++ mlow t.
  Proof.
    intros. unfold map_lower. rewrite segs_app_ascii by assumption. rewrite map_app, concat_app. reflexivity.
  Qed.

  (* whatever state the in-place loop leaves the buffer in, mapping it gives the mapped original *)
  Lemma lower_mut_buffer : forall l, is_segs l -> mlow (fst (lower_mut to_lower l)) = ml to_lower l.
  Proof.
    induction l as [|[r raw] rest IH]; intros Hs; [reflexivity|].
    pose proof (is_segs_inv _ _ _ Hs) as [E Hrest].
    specialize (IH Hrest).
    pose proof (step_first_byte _ _ _ _ E) as [Hasc Hnasc].
    cbn [lower_mut].
    destruct (first_byte raw <? 128) eqn:Hfb.
    - destruct (Hasc eq_refl) as [-> Hr]. cbn [first_byte].
      destruct (lower_mut to_lower rest) as [m f]. cbn [fst] in *.
      rewrite (map_lower_ascii_cons to_lower H_ascii_lower H_idem) by (apply (ascii_lower_lt to_lower H_ascii_lower H_idem); assumption).
      rewrite (ascii_lower_idem to_lower H_ascii_lower H_idem), IH. unfold ml. cbn [map concat fst].
      rewrite (H_ascii_lower r Hr), (encode_ascii (ascii_lower r)) by (apply (ascii_lower_lt to_lower H_ascii_lower H_idem); assumption).
      reflexivity.
    - destruct (Nat.eqb (rune_len (to_lower r)) (length raw)) eqn:Hw.
      + apply Nat.eqb_eq in Hw.
        assert (Hv : valid_rune (to_lower r) = true).
        { apply rune_len_valid. rewrite Hw. pose proof (step_app _ _ _ _ E) as [_ Hne].
          destruct raw; [congruence|discriminate]. }
        destruct (lower_mut to_lower rest) as [m f]. cbn [fst] in *.
        rewrite map_lower_encode_app by assumption. rewrite H_idem, IH. reflexivity.
      + cbn [fst]. rewrite map_lower_ml. rewrite <- (raws_cons r raw rest). rewrite Hs. reflexivity.
  Qed.

  Lemma lower_full_snd : forall s, mlow (snd (lower_full to_lower s)) = mlow s.
  Proof.
    intros s. unfold lower_full.
    pose proof (lower_mut_buffer (segs s) (is_segs_segs s)) as H.
    destruct (lower_mut to_lower (segs s)) as [m f]. cbn [fst snd] in *. rewrite H. reflexivity.
  Qed.

  Definition ptok (c : icfg) (x : list N) : list N := if cs c then x else mlow x.

  Lemma lower_if_fst : forall c x, fst (lower_if to_lower c x) = ptok c x.
  Proof.
    intros. unfold lower_if, ptok. destruct (cs c); [reflexivity|].
    apply (lower_ip_map_lower to_lower H_ascii_lower H_idem).
  Qed.

  (* the mutated buffer pre' stands for the original prefix pre *)
  Definition stands (pre' pre : list N) : Prop :=
    pre' = pre \/
    exists m o w, w <> [] /\ asciihead w /\ pre' = m ++ w /\ pre = o ++ w /\ mlow m = mlow o.

  Lemma stands_mlow : forall a b, stands a b -> mlow a = mlow b.
  Proof.
    intros a b [->|[m [o [w [Hw [Ha [-> [-> Hm]]]]]]]]; [reflexivity|].
    rewrite !map_lower_app_ascii by assumption. rewrite Hm. reflexivity.
  Qed.

  Lemma stands_nonempty : forall a b, stands a b -> nonempty a = nonempty b.
  Proof.
    intros a b [->|[m [o [w [Hw [Ha [-> [-> Hm]]]]]]]]; [reflexivity|].
    destruct w; [congruence|]. destruct m, o; reflexivity.
  Qed.

  Lemma stands_snoc : forall a b x, stands a b -> stands (a ++ [x]) (b ++ [x]).
  Proof.
    intros a b x [->|[m [o [w [Hw [Ha [-> [-> Hm]]]]]]]]; [left; reflexivity|].
    right. exists m, o, (w ++ [x]). repeat split.
    - destruct w; discriminate.
    - destruct w; [congruence|exact Ha].
    - rewrite app_assoc. reflexivity.
    - rewrite app_assoc. reflexivity.
    - assumption.
  Qed.

  Lemma path_loop_ci : forall c, cs c = false -> forall suf pre' pre, stands pre' pre ->
    fst (path_loop to_lower c pre' suf) = map mlow (path_prefixes pre suf) /\
    stands (snd (path_loop to_lower c pre' suf)) (pre ++ suf).
  Proof.
    intros c Hc. induction suf as [|b rest IH]; intros pre' pre Hst.
    - cbn. rewrite app_nil_r. split; [reflexivity|assumption].
    - cbn [path_loop path_prefixes]. rewrite (stands_nonempty _ _ Hst).
      destruct ((b =? Slash) && nonempty pre) eqn:Hb.
      + apply andb_true_iff in Hb. destruct Hb as [Hb _]. apply N.eqb_eq in Hb. subst b.
        unfold lower_if. rewrite Hc.
        pose proof (lower_full_snd pre') as Hsnd.
        pose proof (lower_ip_map_lower to_lower H_ascii_lower H_idem pre') as Hfst.
        unfold lower_ip in Hfst.
        destruct (lower_full to_lower pre') as [t m]. cbn [fst snd] in *.
        assert (Hst' : stands (m ++ [Slash]) (pre ++ [Slash])).
        { right. exists m, pre, [Slash]. repeat split; try discriminate.
          rewrite Hsnd. apply stands_mlow. assumption. }
        specialize (IH _ _ Hst').
        destruct (path_loop to_lower c (m ++ [Slash]) rest) as [ts fin]. cbn [fst snd] in *.
        destruct IH as [IH1 IH2]. split.
        * cbn [map]. rewrite IH1, Hfst. f_equal. apply stands_mlow. assumption.
        * rewrite <- app_assoc in IH2. exact IH2.
      + specialize (IH _ _ (stands_snoc _ _ b Hst)). rewrite <- app_assoc in IH. exact IH.
  Qed.

  Lemma path_loop_cs : forall c, cs c = true -> forall suf pre,
    path_loop to_lower c pre suf = (path_prefixes pre suf, pre ++ suf).
  Proof.
    intros c Hc. induction suf as [|b rest IH]; intros pre.
    - cbn. rewrite app_nil_r. reflexivity.
    - cbn [path_loop path_prefixes]. destruct ((b =? Slash) && nonempty pre).
      + unfold lower_if. rewrite Hc. rewrite IH. rewrite <- app_assoc. reflexivity.
      + rewrite IH. rewrite <- app_assoc. reflexivity.
  Qed.

  (* PathTokenizer.Tokenize: nothing (skipped) or one token per leading path of the indexed part and one
     for the whole part; each is the term of the query made from that path *)
  Lemma path_consistent : forall c fmax v,
    let p := indexed_part TyPath c fmax v in
    let toks := fst (path_tokenize to_lower c fmax v) in
    if skipped TyPath c fmax v then toks = []
    else
      toks = map (ptok c) (path_prefixes [] p ++ [p])
      /\ (forall q, In q (path_prefixes [] p ++ [p]) ->
            has_rune WildcardRune q = false -> (cs c = false \/ valid_utf8 q = true) ->
            qkw to_lower (cs c) q = [TText (ptok c q)] /\
            query_finds [qkw to_lower (cs c) q] toks = true).
  Proof.
    intros c fmax v p toks. subst toks. unfold skipped, path_tokenize.
    destruct (Nat.ltb (limit_of (max_tok c) fmax) (length v) && negb (partial c)) eqn:Esk; [reflexivity|].
    subst p. unfold indexed_part. set (p := firstn (limit_of (max_tok c) fmax) v).
    assert (Htok : fst (let (ts, buf) := path_loop to_lower c [] p in
                        let (t, m) := lower_if to_lower c buf in
                        (ts ++ [t], m ++ skipn (limit_of (max_tok c) fmax) v)) =
                   map (ptok c) (path_prefixes [] p ++ [p])).
    { rewrite map_app. cbn [map]. destruct (cs c) eqn:Hc.
      - rewrite (path_loop_cs c Hc). cbn [app]. unfold lower_if. rewrite Hc. cbn [fst].
        unfold ptok. rewrite Hc. rewrite map_id. reflexivity.
      - pose proof (path_loop_ci c Hc p [] [] (or_introl eq_refl)) as [H1 H2].
        destruct (path_loop to_lower c [] p) as [ts buf]. cbn [fst snd app] in *.
        pose proof (lower_if_fst c buf) as Hf.
        destruct (lower_if to_lower c buf) as [t m]. cbn [fst] in *.
        rewrite H1, Hf. unfold ptok. rewrite Hc. f_equal.
        f_equal. apply stands_mlow. assumption. }
    rewrite Htok. split; [reflexivity|].
    intros q Hin Hw Hv.
    pose proof (lower_if_query to_lower H_ascii_lower H_idem c q Hw Hv) as Hq.
    rewrite lower_if_fst in Hq. split; [exact Hq|].
    unfold query_finds. cbn [forallb]. rewrite andb_true_r. apply existsb_exists.
    exists (ptok c q). split; [apply in_map; assumption|]. rewrite Hq. cbn. apply list_eqb_N_refl.
  Qed.
End Path.
