(* C12 — shape of the generated cases and the two executable verdicts. No proofs. *)
From VLib Require Import CaseLib.
From C12 Require Import Model Lexer Legacy.

Fixpoint ast_eqb (a b : ast) : bool :=
  match a, b with
  | Leaf n, Leaf m => Nat.eqb n m
  | NotN x, NotN y => ast_eqb x y
  | AndN x1 x2, AndN y1 y2 => ast_eqb x1 y1 && ast_eqb x2 y2
  | OrN x1 x2, OrN y1 y2 => ast_eqb x1 y1 && ast_eqb x2 y2
  | NAndN x1 x2, NAndN y1 y2 => ast_eqb x1 y1 && ast_eqb x2 y2
  | _, _ => false
  end.

Definition res_eqb (a b : res ast) : bool :=
  match a, b with
  | Ok x, Ok y => ast_eqb x y
  | Err, Err => true
  | OutOfFuel, OutOfFuel => true
  | _, _ => false
  end.

Definition tok_eqb (a b : tok) : bool :=
  match a, b with
  | TAtom n, TAtom m => Nat.eqb n m
  | TIn x, TIn y => list_eqb Nat.eqb x y
  | TText x, TText y => list_eqb Nat.eqb x y
  | TAnd, TAnd | TOr, TOr | TNot, TNot | TLP, TLP | TRP, TRP | TPipe, TPipe => true
  | _, _ => false
  end.

(* all valuations of atoms 0..k-1 *)
Fixpoint valuations (k : nat) : list (nat -> bool) :=
  match k with
  | 0 => [fun _ => false]
  | S k' => flat_map (fun v => [v; fun n => if Nat.eqb n k' then true else v n]) (valuations k')
  end.

Fixpoint no_notb (t : ast) : bool :=
  match t with
  | Leaf _ => true
  | NotN _ => false
  | AndN l r | OrN l r | NAndN l r => no_notb l && no_notb r
  end.
Definition not_only_at_root (t : ast) : bool :=
  match t with NotN a => no_notb a | _ => no_notb t end.

Definition natoms := 6.

(* stage 3: the AST of the real legacy parser with its tokens in the leaves *)
Inductive itree :=
| ILeaf (t : ltoken)
| INot (a : itree)
| IAnd (l r : itree)
| IOr (l r : itree)
| INAnd (l r : itree).

Inductive case :=
(* expression e rendered by the harness as token list ts (full = every composite parenthesised,
   otherwise minimal) and as text; impl = AST returned by the real parser *)
| CExpr (e : expr) (full : bool) (ts : list tok) (impl : res ast)
(* SeqQL only: the same expression followed by a pipe section (` | fields ...`): ts = rendering
   followed by TPipe; impl = AST of the real ParseSeqQL on the text with the pipe suffix *)
| CExprPipe (e : expr) (full : bool) (ts : list tok) (impl : res ast)
(* arbitrary token list (well-formed or not) *)
| CToks (ts : list tok) (impl : res ast)
(* propagateNot applied directly to tree t: impl = resulting node, flag *)
| CProp (t : ast) (impl : ast) (flag : bool)
(* stage 2: raw query bytes fed to the REAL lexer (token dump impl_toks) and to the real ParseSeqQL
   under a mapping (nilmap / user table / builtin table: field name -> type class as computed by
   the real indexType); impl = shape of the returned AST (every leaf printed as Leaf 0) or Err.
   cls = Unicode classes of the runes of this input as Go's unicode package reports them
   (bit 0 IsSpace, 1 IsLetter, 2 IsDigit, 3 IsNumber): the oracle instance for this case *)
| CLex (input : bytes) (cls : list (N * N)) (nilmap : bool) (user builtin : list (bytes * N))
       (impl_toks : list ltok) (impl : res ast)
(* token list chosen by the generator, rendered to text by the harness (bare / "..." / '...' /
   `...`, escapes, spaces, comments) and lexed by the real lexer *)
(* f:in(e1,..,en) (query qin) and the written-out  f:e1 or .. or f:en  (query qor), possibly
   inside the same context (not / and), both parsed by the real ParseSeqQL under the full mapping;
   impl_in / impl_or = the two ASTs with every distinct literal numbered (same numbering in both) *)
| CInOr (qin qor : bytes) (cls : list (N * N)) (user builtin : list (bytes * N))
        (impl_in impl_or : res ast)
(* one range filter qr = f:[a, b] (any bracket/separator form) and the two plain keyword literals
   qa = f':a, qb = f':b of the same written bounds (f' = f for keyword/path fields and _exists_,
   otherwise a keyword field), all parsed by the real ParseSeqQL with conf.CaseSensitive = cfg;
   impl_r = (From, To) of the returned Range, impl_a / impl_b = Terms of the returned Literals
   (None = error or another node). low = unicode.ToLower of the runes of this case (oracle) *)
| CRange (qr qa qb : bytes) (cls low : list (N * N)) (cfg : bool)
         (impl_r : option (term * term)) (impl_a impl_b : option (list term))
| CRound (expected : list ltok) (input : bytes) (cls : list (N * N)) (impl_toks : list ltok)
(* stage 3: raw query bytes fed to the REAL legacy ParseQuery with conf.CaseSensitive = cfg under a
   mapping (as CLex); impl = the returned AST with its Literal / Range tokens, or Err.
   cls / low = Unicode classes and unicode.ToLower of the runes of this input (oracle instance).
   oe = the expression the generator wrote (None for hostile strings), atoms = the generator's
   reading of the returned leaves (token -> atom number) *)
| CLegacy (input : bytes) (cls low : list (N * N)) (cfg nilmap : bool)
          (user builtin : list (bytes * N)) (impl : res itree)
          (oe : option expr) (atoms : list (ltoken * nat))
(* raw bytes fed to the REAL ParseAggregationFilter: impl = Ok None for (nil, nil) *)
| CAgg (input : bytes) (cls low : list (N * N)) (cfg : bool) (impl : res (option ltoken))
(* nesting regression: the query  pre^n k:v post^n  (pre/post = `(` / `)` or `not ` / nothing) fed to
   the REAL ParseQuery (seqql = false) or ParseSeqQL (true) under the nil mapping; impl_ok = it
   returned a query; impl_max = the real maxNestingDepth (exported constant). eval = false: only
   the constant and the expected outcome by level arithmetic are checked (quick tier), true: the
   byte-level model parses the same bytes *)
| CNest (seqql nots : bool) (n impl_max : N) (impl_ok evalm : bool)
(* nesting regression, FLAT shapes: long queries (exclusion lists  f:a and not f:v0 and not f:v1 ..,
   OR-chains of negated bracket groups, mixes) whose TOTAL number of NOTs / brackets exceeds the
   limit while the deepest sub-expression is at level `level` (<= 4). leaves / negs = number of
   leaves and of NOT + NAND nodes of the returned AST, exp_* = what the generator wrote *)
| CFlat (seqql : bool) (level impl_max : N) (impl_ok : bool) (leaves exp_leaves negs exp_negs : N).

Definition T := mkTok.

Definition ltok_eqb (a b : ltok) : bool :=
  bytes_eqb (t_txt a) (t_txt b) && Bool.eqb (t_quoted a) (t_quoted b)
  && Bool.eqb (t_raw a) (t_raw b) && Bool.eqb (t_space a) (t_space b).

Fixpoint lookupN (k : N) (l : list (N * N)) : option N :=
  match l with
  | [] => None
  | (a, b) :: r => if N.eqb a k then Some b else lookupN k r
  end.
Fixpoint lookupB (k : bytes) (l : list (bytes * N)) : option N :=
  match l with
  | [] => None
  | (a, b) :: r => if bytes_eqb a k then Some b else lookupB k r
  end.

(* class oracle of one case: the table dumped from Go; a rune not in the table has no class *)
Definition cls_bit (tbl : list (N * N)) (bit : N) (r : N) : bool :=
  match lookupN r tbl with Some m => N.testbit m bit | None => false end.

(* indexType: nil mapping = keyword; user mapping; builtin mapping; otherwise not indexed *)
Definition mk_ftype (nilmap : bool) (user builtin : list (bytes * N)) (name : bytes) : N :=
  if nilmap then 1%N
  else match lookupB name user with
       | Some t => t
       | None => match lookupB name builtin with Some t => t | None => 0%N end
       end.

Definition lex_case (cls : list (N * N)) (input : bytes) : R (list ltok) :=
  lex (cls_bit cls 0) (cls_bit cls 1) (cls_bit cls 2) input.

Definition parse_case (cls : list (N * N)) (nilmap : bool) (user builtin : list (bytes * N))
           (input : bytes) : R ast :=
  seqql_parse (cls_bit cls 0) (cls_bit cls 1) (cls_bit cls 2) (cls_bit cls 3)
              (mk_ftype nilmap user builtin) (fun r => r) false (Some max_nesting_depth) input.

Definition toks_agree (m : R (list ltok)) (impl : list ltok) : bool :=
  match m with ROk l => list_eqb ltok_eqb l impl | _ => false end.

Definition rres_eqb (m : R ast) (impl : res ast) : bool :=
  match m, impl with
  | ROk x, Ok y => ast_eqb x y
  | RErr, Err => true
  | _, _ => false
  end.

(* a lexer token that is neither quoted nor empty; only the end token (not listed) is empty *)
Fixpoint erase (t : ast) : ast :=
  match t with
  | Leaf _ => Leaf 0
  | NotN a => NotN (erase a)
  | AndN l r => AndN (erase l) (erase r)
  | OrN l r => OrN (erase l) (erase r)
  | NAndN l r => NAndN (erase l) (erase r)
  end.
Definition erase_res (r : res ast) : res ast :=
  match r with Ok t => Ok (erase t) | Err => Err | OutOfFuel => OutOfFuel end.

Definition term_eqb (a b : term) : bool :=
  match a, b with
  | TmText x, TmText y => bytes_eqb x y
  | TmSym, TmSym => true
  | _, _ => false
  end.
Definition low_fun (low : list (N * N)) (r : N) : N :=
  match lookupN r low with Some x => x | None => r end.
Definition view_eqb {A} (eqb : A -> A -> bool) (m : R A) (impl : option A) : bool :=
  match m, impl with
  | ROk x, Some y => eqb x y
  | RErr, None => true
  | _, _ => false
  end.
Definition pair_term_eqb (a b : term * term) : bool :=
  term_eqb (fst a) (fst b) && term_eqb (snd a) (snd b).
(* the literal has exactly the one term t *)
Definition is_single (t : term) (l : option (list term)) : bool :=
  match l with Some [x] => term_eqb x t | _ => false end.
Definition has_single (l : option (list term)) : bool :=
  match l with Some [_] => true | _ => false end.

Definition ltoken_eqb (a b : ltoken) : bool :=
  match a, b with
  | LLit f1 t1, LLit f2 t2 => bytes_eqb f1 f2 && list_eqb term_eqb t1 t2
  | LRng f1 a1 b1 i1 j1, LRng f2 a2 b2 i2 j2 =>
      bytes_eqb f1 f2 && term_eqb a1 a2 && term_eqb b1 b2 && Bool.eqb i1 i2 && Bool.eqb j1 j2
  | _, _ => false
  end.

(* the model's tree (leaves = indices into its leaf table) against the real tree *)
Fixpoint tree_agrees (lv : list ltoken) (a : ast) (i : itree) : bool :=
  match a, i with
  | Leaf n, ILeaf t => match nth_error lv n with Some t' => ltoken_eqb t' t | None => false end
  | NotN x, INot y => tree_agrees lv x y
  | AndN x1 x2, IAnd y1 y2 => tree_agrees lv x1 y1 && tree_agrees lv x2 y2
  | OrN x1 x2, IOr y1 y2 => tree_agrees lv x1 y1 && tree_agrees lv x2 y2
  | NAndN x1 x2, INAnd y1 y2 => tree_agrees lv x1 y1 && tree_agrees lv x2 y2
  | _, _ => false
  end.

Definition legacy_case (cls low : list (N * N)) (cfg nilmap : bool) (user builtin : list (bytes * N))
           (input : bytes) : R (ast * list ltoken) :=
  legacy_parse (cls_bit cls 0) (cls_bit cls 1) (cls_bit cls 3) (low_fun low) cfg
               (mk_ftype nilmap user builtin) (Some max_nesting_depth) None input.
Definition legacy_lex_case (cls low : list (N * N)) (cfg nilmap : bool) (user builtin : list (bytes * N))
           (input : bytes) : R (list tok * list ltoken) :=
  legacy_lex (cls_bit cls 0) (cls_bit cls 1) (cls_bit cls 3) (low_fun low) cfg
             (mk_ftype nilmap user builtin) input.
Definition agg_case (cls low : list (N * N)) (cfg : bool) (input : bytes) : R (option ltoken) :=
  legacy_agg (cls_bit cls 0) (cls_bit cls 1) (cls_bit cls 3) (low_fun low) cfg input.

Fixpoint lookupT (k : ltoken) (l : list (ltoken * nat)) : option nat :=
  match l with
  | [] => None
  | (a, b) :: r => if ltoken_eqb a k then Some b else lookupT k r
  end.
(* the real tree read with the generator's atom numbers *)
Fixpoint itree_ast (atoms : list (ltoken * nat)) (i : itree) : option ast :=
  match i with
  | ILeaf t => option_map Leaf (lookupT t atoms)
  | INot a => option_map NotN (itree_ast atoms a)
  | IAnd l r => match itree_ast atoms l, itree_ast atoms r with
                | Some x, Some y => Some (AndN x y) | _, _ => None end
  | IOr l r => match itree_ast atoms l, itree_ast atoms r with
               | Some x, Some y => Some (OrN x y) | _, _ => None end
  | INAnd l r => match itree_ast atoms l, itree_ast atoms r with
                 | Some x, Some y => Some (NAndN x y) | _, _ => None end
  end.
Fixpoint ishape (i : itree) : ast :=
  match i with
  | ILeaf _ => Leaf 0
  | INot a => NotN (ishape a)
  | IAnd l r => AndN (ishape l) (ishape r)
  | IOr l r => OrN (ishape l) (ishape r)
  | INAnd l r => NAndN (ishape l) (ishape r)
  end.
(* a Literal always has at least one term *)
Fixpoint ileaves_wf (i : itree) : bool :=
  match i with
  | ILeaf (LLit _ []) => false
  | ILeaf _ => true
  | INot a => ileaves_wf a
  | IAnd l r | IOr l r | INAnd l r => ileaves_wf l && ileaves_wf r
  end.

(* ASCII class oracle for the nesting cases (their inputs are ASCII) *)
Definition nest_space (r : N) : bool := N.eqb r 32.
Definition nest_letter (r : N) : bool := in_range 97 122 r.
Definition nest_digit (r : N) : bool := in_range 48 57 r.
Definition nest_input (nots : bool) (n : nat) : bytes :=
  if nots then concat (repeat [110; 111; 116; 32]%N n) ++ [107; 58; 118]%N
  else repeat 40%N n ++ [107; 58; 118]%N ++ repeat 41%N n.
Definition nest_model_ok (seqql nots : bool) (n : nat) : bool :=
  if seqql then
    match seqql_parse nest_space nest_letter nest_digit nest_digit (fun _ => 1%N) (fun r => r) false
                      (Some max_nesting_depth) (nest_input nots n) with ROk _ => true | _ => false end
  else
    match legacy_parse nest_space nest_letter nest_digit (fun r => r) false (fun _ => 1%N)
                       (Some max_nesting_depth) None (nest_input nots n) with ROk _ => true | _ => false end.

Definition ltok_wf (t : ltok) : bool :=
  t_quoted t || match t_txt t with [] => false | _ => true end.

Definition render_of (full : bool) (e : expr) := if full then render_full e else render_min e.

(* model output = implementation output *)
Definition case_agrees (c : case) : bool :=
  match c with
  | CExpr e full ts impl =>
      list_eqb tok_eqb ts (render_of full e) && res_eqb (parse ts) impl
  | CExprPipe e full ts impl =>
      list_eqb tok_eqb ts (render_of full e ++ [TPipe]) && res_eqb (parse ts) impl
  | CToks ts impl => res_eqb (parse ts) impl
  | CProp t impl flag =>
      let '(m, b) := propagate_not t in ast_eqb m impl && Bool.eqb b flag
  | CLex input cls nilmap user builtin impl_toks impl =>
      toks_agree (lex_case cls input) impl_toks
      && rres_eqb (parse_case cls nilmap user builtin input) impl
      (* the hypotheses of the totality theorems hold for the dumped classes *)
      && negb (cls_bit cls 0 RuneError) && negb (cls_bit cls 1 RuneError)
      && negb (cls_bit cls 2 RuneError)
  | CInOr qin qor cls user builtin impl_in impl_or =>
      rres_eqb (parse_case cls false user builtin qin) (erase_res impl_in)
      && rres_eqb (parse_case cls false user builtin qor) (erase_res impl_or)
  | CRange qr qa qb cls low cfg impl_r impl_a impl_b =>
      let il := cls_bit cls 1 in let id := cls_bit cls 2 in
      view_eqb pair_term_eqb (do l <- lex_case cls qr; range_view il id (low_fun low) cfg l) impl_r
      && view_eqb (list_eqb term_eqb)
                  (do l <- lex_case cls qa; literal_view il id (low_fun low) cfg l) impl_a
      && view_eqb (list_eqb term_eqb)
                  (do l <- lex_case cls qb; literal_view il id (low_fun low) cfg l) impl_b
  | CRound _ input cls impl_toks => toks_agree (lex_case cls input) impl_toks
  | CLegacy input cls low cfg nilmap user builtin impl _ _ =>
      match legacy_case cls low cfg nilmap user builtin input, impl with
      | ROk (a, lv), Ok i =>
          tree_agrees lv a i
          (* the converse of C12_legacy_lex_refines_tokens, tested: the tokenizer accepts what the
             parser accepts, with the same leaf table, and the token-level parser gives the same query *)
          && match legacy_lex_case cls low cfg nilmap user builtin input with
             | ROk (ts, lv2) => res_eqb (parse ts) (Ok a) && list_eqb ltoken_eqb lv lv2
             | _ => false
             end
      | RErr, Err => true
      | _, _ => false
      end
  | CAgg input cls low cfg impl =>
      match agg_case cls low cfg input, impl with
      | ROk a, Ok b => option_eqb ltoken_eqb a b
      | RErr, Err => true
      | _, _ => false
      end
  | CNest seqql nots n impl_max impl_ok evalm =>
      N.eqb impl_max (N.of_nat max_nesting_depth)
      && (if evalm then Bool.eqb (nest_model_ok seqql nots (N.to_nat n)) impl_ok else true)
  | CFlat _ _ impl_max _ _ _ _ _ => N.eqb impl_max (N.of_nat max_nesting_depth)
  end.

(* implementation output satisfies the property (independent of the model's parser) *)
Definition case_spec_ok (c : case) : bool :=
  match c with
  | CExpr e _ _ impl | CExprPipe e _ _ impl =>
      match impl with
      | Ok t => forallb (fun v => Bool.eqb (eval v t) (den v e)) (valuations natoms)
                && not_only_at_root t
      | _ => false
      end
  | CToks _ impl => match impl with Ok t => not_only_at_root t | _ => true end
  | CProp t impl flag =>
      forallb (fun v => Bool.eqb (eval v (wrap (impl, flag))) (eval v t)) (valuations natoms)
      && no_notb impl
  | CLex _ _ _ _ _ impl_toks impl =>
      forallb ltok_wf impl_toks
      && match impl with Ok t => not_only_at_root t | Err => true | OutOfFuel => false end
  | CInOr _ _ _ _ _ impl_in impl_or =>
      (* in(..) selects exactly what the OR of its members written as stand-alone filters selects *)
      match impl_in, impl_or with
      | Ok a, Ok b => forallb (fun v => Bool.eqb (eval v a) (eval v b)) (valuations 8)
      | Err, Err => true
      | _, _ => false
      end
  | CRange _ _ _ _ _ _ impl_r impl_a impl_b =>
      (* a range bound is normalised like a literal: the stored bounds are the single terms of the
         plain literals of the same written values; a range is rejected only if a bound is not a
         single term *)
      match impl_r with
      | Some (f, t) => is_single f impl_a && is_single t impl_b
      | None => negb (has_single impl_a && has_single impl_b)
      end
  | CRound expected _ _ impl_toks => list_eqb ltok_eqb expected impl_toks
  | CLegacy _ _ _ _ _ _ _ impl oe atoms =>
      (* the outcome is a query or an error (a panic / hang is reported by the driver itself); a
         returned query has NOT only at the root and no empty Literal; a generated expression must
         parse to a query with its denotation (truth table over the generator's atoms) *)
      match impl with
      | Ok i => not_only_at_root (ishape i) && ileaves_wf i
                && match oe with
                   | None => true
                   | Some e => match itree_ast atoms i with
                               | Some t => forallb (fun v => Bool.eqb (eval v t) (den v e))
                                                   (valuations natoms)
                               | None => false
                               end
                   end
      | Err => match oe with None => true | Some _ => false end
      | OutOfFuel => false
      end
  | CAgg _ _ _ _ impl =>
      match impl with
      | Ok (Some (LLit _ (_ :: _))) | Ok None | Err => true
      | _ => false
      end
  | CNest _ _ n impl_max impl_ok _ =>
      (* n brackets / NOTs put the leaf at level n + 1: accepted iff n + 1 <= maxNestingDepth *)
      Bool.eqb impl_ok (N.leb (n + 1) impl_max)
  | CFlat _ level impl_max impl_ok leaves exp_leaves negs exp_negs =>
      (* C12_level_is_nesting: only the nesting counts, not the length; and the flat tree is complete *)
      Bool.eqb impl_ok (N.leb level impl_max)
      && (negb impl_ok || (N.eqb leaves exp_leaves && N.eqb negs exp_negs))
  end.

Definition diff_indices (l : list case) : list nat := bad_indices (fun c => negb (case_agrees c)) l.
Definition specfail_indices (l : list case) : list nat := bad_indices (fun c => negb (case_spec_ok c)) l.
