(* C12 — shape of the generated cases and the two executable verdicts. No proofs. *)
From VLib Require Import CaseLib.
From C12 Require Import Model.

Fixpoint ast_eqb (a b : ast) : bool :=
  match a, b with
  | Leaf n, Leaf m => Nat.eqb n m
  | NotN x, NotN y => ast_eqb x y
  | AndN x1 x2, AndN y1 y2 => ast_eqb x1 y1 && ast_eqb x2 y2
  | OrN x1 x2, OrN y1 y2 => ast_eqb x1 y1 && ast_eqb x2 y2
  | NAndN x1 x2, NAndN y1 y2 => ast_eqb x1 y1 && ast_eqb x2 y2
  | _, _ => false
  end.

Definition res_eqb (a b : res ast) : bool :=
  match a, b with
  | Ok x, Ok y => ast_eqb x y
  | Err, Err => true
  | OutOfFuel, OutOfFuel => true
  | _, _ => false
  end.

Definition tok_eqb (a b : tok) : bool :=
  match a, b with
  | TAtom n, TAtom m => Nat.eqb n m
  | TIn x, TIn y => list_eqb Nat.eqb x y
  | TText x, TText y => list_eqb Nat.eqb x y
  | TAnd, TAnd | TOr, TOr | TNot, TNot | TLP, TLP | TRP, TRP => true
  | _, _ => false
  end.

(* all valuations of atoms 0..k-1 *)
Fixpoint valuations (k : nat) : list (nat -> bool) :=
  match k with
  | 0 => [fun _ => false]
  | S k' => flat_map (fun v => [v; fun n => if Nat.eqb n k' then true else v n]) (valuations k')
  end.

Fixpoint no_notb (t : ast) : bool :=
  match t with
  | Leaf _ => true
  | NotN _ => false
  | AndN l r | OrN l r | NAndN l r => no_notb l && no_notb r
  end.
Definition not_only_at_root (t : ast) : bool :=
  match t with NotN a => no_notb a | _ => no_notb t end.

Definition natoms := 6.

Inductive case :=
(* expression e rendered by the harness as token list ts (full = every composite parenthesised,
   otherwise minimal) and as text; impl = AST returned by the real parser *)
| CExpr (e : expr) (full : bool) (ts : list tok) (impl : res ast)
(* arbitrary token list (well-formed or not) *)
| CToks (ts : list tok) (impl : res ast)
(* propagateNot applied directly to tree t: impl = resulting node, flag *)
| CProp (t : ast) (impl : ast) (flag : bool).

Definition render_of (full : bool) (e : expr) := if full then render_full e else render_min e.

(* model output = implementation output *)
Definition case_agrees (c : case) : bool :=
  match c with
  | CExpr e full ts impl =>
      list_eqb tok_eqb ts (render_of full e) && res_eqb (parse ts) impl
  | CToks ts impl => res_eqb (parse ts) impl
  | CProp t impl flag =>
      let '(m, b) := propagate_not t in ast_eqb m impl && Bool.eqb b flag
  end.

(* implementation output satisfies the property (independent of the model's parser) *)
Definition case_spec_ok (c : case) : bool :=
  match c with
  | CExpr e _ _ impl =>
      match impl with
      | Ok t => forallb (fun v => Bool.eqb (eval v t) (den v e)) (valuations natoms)
                && not_only_at_root t
      | _ => false
      end
  | CToks _ impl => match impl with Ok t => not_only_at_root t | _ => true end
  | CProp t impl flag =>
      forallb (fun v => Bool.eqb (eval v (wrap (impl, flag))) (eval v t)) (valuations natoms)
      && no_notb impl
  end.

Definition diff_indices (l : list case) : list nat := bad_indices (fun c => negb (case_agrees c)) l.
Definition specfail_indices (l : list case) : list nat := bad_indices (fun c => negb (case_spec_ok c)) l.
