(* C12 — property theorems. This file contains nothing but the statements, each closed by
   `exact <lemma>` from Proofs.v, with Print Assumptions beneath, and the non-vacuity examples. *)
From C12 Require Import Model Proofs.

(* The rewriting that moves NOT operators (De Morgan / NAND fusion) does not change the selected
   set, and leaves NOT at most at the root — for every tree the parsers can build, every valuation. *)
Theorem C12_propagate_not_sound :
  forall t, no_nand t ->
    (forall v, eval v (finish t) = eval v t) /\ no_not (fst (propagate_not t)).
Proof. exact propagate_not_sound. Qed.
Print Assumptions C12_propagate_not_sound.

(* Every written expression, rendered with minimal parentheses (not > and > or, left associative),
   parses, and the returned query (after NOT propagation) denotes the expression: in(...) is a
   disjunction, several words on a text field are a conjunction. *)
Theorem C12_parse_denotes :
  forall e, exists t, parse (render_min e) = Ok t /\ (forall v, eval v t = den v e)
                      /\ no_not (fst (propagate_not (tree_of e))).
Proof. exact parse_denotes_min. Qed.
Print Assumptions C12_parse_denotes.

(* Same with redundant parentheses around every composite sub-expression. *)
Theorem C12_parse_denotes_full :
  forall e, exists t, parse (render_full e) = Ok t /\ forall v, eval v t = den v e.
Proof. exact parse_denotes_full. Qed.
Print Assumptions C12_parse_denotes_full.

(* Totality at token level: for EVERY token list (balanced or not) the parser returns a query or
   an error; the model's fuel (its only source of non-termination) is never exhausted. *)
Theorem C12_parse_total_tokens : forall ts, parse ts <> OutOfFuel.
Proof. exact parse_total. Qed.
Print Assumptions C12_parse_total_tokens.

(* Whatever parses: the final query is equivalent to the tree built by the grammar. *)
Theorem C12_parse_sound_any :
  forall ts t, parse ts = Ok t -> exists t0, parse_raw ts = Ok t0 /\ forall v, eval v t = eval v t0.
Proof. exact parse_sound_any. Qed.
Print Assumptions C12_parse_sound_any.

(* non-vacuity: a concrete expression with NOT under OR under AND goes through the whole pipeline *)
Example C12_nonvacuous :
  let e := EAnd (EOr (ENot (EAtom 0)) (EIn 1 [2])) (ENot (EOr (EAtom 3) (EText 4 [5]))) in
  parse (render_min e) = Ok (NAndN (OrN (Leaf 3) (AndN (Leaf 4) (Leaf 5)))
                                   (NAndN (NAndN (OrN (Leaf 1) (Leaf 2)) (Leaf 0)) (Leaf 0)))
  \/ exists t, parse (render_min e) = Ok t /\ no_nand (tree_of e).
Proof. right. eexists. split. vm_compute. reflexivity. apply tree_of_no_nand. Qed.
