(* C12 — property theorems. This file contains nothing but the statements, each closed by
   `exact <lemma>` from Proofs.v, with Print Assumptions beneath, and the non-vacuity examples. *)
From C12 Require Import Model Proofs Lexer ProofsLexer Legacy ProofsLegacy ProofsLegacyRef.

(* The rewriting that moves NOT operators (De Morgan / NAND fusion) does not change the selected
   set, and leaves NOT at most at the root — for every tree the parsers can build, every valuation. *)
Theorem C12_propagate_not_sound :
  forall t, no_nand t ->
    (forall v, eval v (finish t) = eval v t) /\ no_not (fst (propagate_not t)).
Proof. exact propagate_not_sound. Qed.
Print Assumptions C12_propagate_not_sound.

(* Every written expression, rendered with minimal parentheses (not > and > or, left associative),
   parses, and the returned query (after NOT propagation) denotes the expression: in(...) is a
   disjunction, several words on a text field are a conjunction. *)
Theorem C12_parse_denotes :
  forall e, exists t, parse (render_min e) = Ok t /\ (forall v, eval v t = den v e)
                      /\ no_not (fst (propagate_not (tree_of e))).
Proof. exact parse_denotes_min. Qed.
Print Assumptions C12_parse_denotes.

(* Same with redundant parentheses around every composite sub-expression. *)
Theorem C12_parse_denotes_full :
  forall e, exists t, parse (render_full e) = Ok t /\ forall v, eval v t = den v e.
Proof. exact parse_denotes_full. Qed.
Print Assumptions C12_parse_denotes_full.

(* SeqQL pipes: the expression followed by `|` and ANY continuation parses to a query denoting the
   expression alone (the OR-chain and the AND-chain are folded at the pipe exactly as at the end of
   input), with minimal and with redundant parentheses. *)
Theorem C12_parse_denotes_pipe :
  forall e s, exists t,
    parse (render_min e ++ TPipe :: s) = Ok t /\ parse (render_full e ++ TPipe :: s) = Ok t /\
    (forall v, eval v t = den v e).
Proof. exact parse_denotes_pipe. Qed.
Print Assumptions C12_parse_denotes_pipe.

(* The parsed filter does not depend on what follows the first top-level pipe: it is the query
   parsed without a pipe section. *)
Theorem C12_pipe_suffix_irrelevant :
  forall e s,
    parse (render_min e ++ TPipe :: s) = parse (render_min e) /\
    parse (render_full e ++ TPipe :: s) = parse (render_full e).
Proof. exact pipe_suffix_irrelevant. Qed.
Print Assumptions C12_pipe_suffix_irrelevant.

(* in(..) is the OR of its members, for member filters of EVERY kind (keyword/path atom, range,
   text value = conjunction of its words - any expression): the token list ( e1 or .. or en ) that
   parseFilterIn / the glue produce parses to a query whose denotation is the disjunction of the
   queries obtained by parsing each member as a stand-alone filter. *)
Theorem C12_in_is_or_of_elements :
  forall e1 es, exists t,
    parse (in_toks e1 es) = Ok t /\
    forall v, eval v t = existsb (fun e => eval v (finish (tree_of e))) (e1 :: es)
              /\ (forall e, parse (render_min e) = Ok (finish (tree_of e))).
Proof. exact in_is_or_of_elements. Qed.
Print Assumptions C12_in_is_or_of_elements.

Theorem C12_in_toks_shape :
  forall e1 es,
    in_toks e1 es = TLP :: (render_min e1 ++ flat_map (fun e => TOr :: render 1 e) es) ++ [TRP].
Proof. exact in_toks_shape. Qed.
Print Assumptions C12_in_toks_shape.

(* Totality at token level: for EVERY token list (balanced or not) the parser returns a query or
   an error; the model's fuel (its only source of non-termination) is never exhausted. *)
Theorem C12_parse_total_tokens : forall ts, parse ts <> OutOfFuel.
Proof. exact parse_total. Qed.
Print Assumptions C12_parse_total_tokens.

(* Whatever parses: the final query is equivalent to the tree built by the grammar. *)
Theorem C12_parse_sound_any :
  forall ts t, parse ts = Ok t -> exists t0, parse_raw ts = Ok t0 /\ forall v, eval v t = eval v t0.
Proof. exact parse_sound_any. Qed.
Print Assumptions C12_parse_sound_any.

(* non-vacuity: a concrete expression with NOT under OR under AND goes through the whole pipeline *)
Example C12_nonvacuous :
  let e := EAnd (EOr (ENot (EAtom 0)) (EIn 1 [2])) (ENot (EOr (EAtom 3) (EText 4 [5]))) in
  parse (render_min e) = Ok (NAndN (OrN (Leaf 3) (AndN (Leaf 4) (Leaf 5)))
                                   (NAndN (NAndN (OrN (Leaf 1) (Leaf 2)) (Leaf 0)) (Leaf 0)))
  \/ exists t, parse (render_min e) = Ok t /\ no_nand (tree_of e).
Proof. right. eexists. split. vm_compute. reflexivity. apply tree_of_no_nand. Qed.

(* ---------------------------------------------------------------------------------------------
   Stage 2: the SeqQL lexer and the glue between lexer and token-level parser, on RAW BYTES.
   Lexer.v models lexer.Next (spaces, comments, simple tokens, the wildcard, the three quote kinds
   with unquotePrefix fast/slow path, strconv.UnquoteChar, utf8.DecodeRuneInString), the field
   filter / in(...) / range / pipes parsers over the lexer's tokens, and ParseSeqQL as their
   composition with the token-level parser above. Go slice expressions with computed indices are
   checked slices (out of range = RPanic); every loop has fuel (exhausted = RFuel).
   Oracles: the Unicode class predicates (any functions that do not classify U+FFFD, which is what
   utf8 returns at the end of the string and for invalid bytes - true of Go's tables and checked on
   every generated case) and the field mapping (any function). *)

(* For ALL byte strings the lexer produces its token list: fuel = length + 1 is never exhausted
   (lex q is by definition lex_all (S (length q)) q) and no slice is out of range. *)
Theorem C12_lex_total :
  forall is_space is_letter is_digit : N -> bool,
    is_space RuneError = false -> is_letter RuneError = false -> is_digit RuneError = false ->
    forall q : bytes, exists ts, lex is_space is_letter is_digit q = ROk ts.
Proof. exact lex_total. Qed.
Print Assumptions C12_lex_total.

(* The reason: one call of Next on a non-empty query tail always returns a token and a strictly
   shorter tail (including the unterminated / escaped-quote cases of unquotePrefix). *)
Theorem C12_lex_next_progress :
  forall is_space is_letter is_digit : N -> bool,
    is_space RuneError = false -> is_letter RuneError = false -> is_digit RuneError = false ->
    forall (q : bytes) (sp : bool), q <> [] ->
    exists t q', next is_space is_letter is_digit (S (length q)) q sp = ROk (t, q')
                 /\ length q' < length q.
Proof. exact next_progress. Qed.
Print Assumptions C12_lex_next_progress.

(* Lexer + glue + token-level parser (C12_parse_total_tokens) on ALL byte strings, ALL mappings:
   the result is a query or an error - never a panic, never out of fuel. *)
Theorem C12_lex_parse_total :
  forall is_space is_letter is_digit : N -> bool,
    is_space RuneError = false -> is_letter RuneError = false -> is_digit RuneError = false ->
    forall (is_number : N -> bool) (ftype : bytes -> N) (to_lower : N -> N) (case_sensitive : bool)
           (maxd : option nat) (q : bytes),
    seqql_parse is_space is_letter is_digit is_number ftype to_lower case_sensitive maxd q = RErr \/
    exists a, seqql_parse is_space is_letter is_digit is_number ftype to_lower case_sensitive maxd q
              = ROk a.
Proof. exact seqql_parse_total. Qed.
Print Assumptions C12_lex_parse_total.

(* Round trip: a list of atoms, written the way the harness writes text values (each preceded by
   a space, in double quotes; atoms free of quote, backslash and asterisk, otherwise ARBITRARY bytes
   including invalid UTF-8, comments signs and spaces), lexes back to exactly those atoms as quoted
   tokens. Class oracle: the space is a space, the double quote is neither space, letter nor digit. *)
Theorem C12_lex_roundtrip_atoms :
  forall is_space is_letter is_digit : N -> bool,
    is_space 32%N = true -> is_space 34%N = false ->
    is_letter 34%N = false -> is_digit 34%N = false ->
    forall ws : list bytes, forallb plain ws = true ->
    lex is_space is_letter is_digit (render_dq ws) = ROk (map dq_tok ws).
Proof. exact lex_render_dq. Qed.
Print Assumptions C12_lex_roundtrip_atoms.

(* Glue: whatever parseFilterIn accepts is  ( m1 or m2 or .. or mn )  where EVERY member mi -
   the first and all later ones alike - is what the stand-alone value filter
   (parseFulltextSearchFilter) of the SAME field type t makes of its tokens: on a text field each
   member is the conjunction of its words, on a keyword/path field one literal. *)
Theorem C12_in_members_uniform :
  forall (is_letter is_digit is_number : N -> bool) (t : N) ts l ts',
    filter_in is_letter is_digit is_number t ts = ROk (l, ts') ->
    exists e1 es, l = TLP :: e1 :: or_members es ++ [TRP] /\
                  Forall (made_by is_letter is_digit is_number t) (e1 :: es).
Proof. exact filter_in_shape. Qed.
Print Assumptions C12_in_members_uniform.

(* A range bound is normalised like a literal. Whenever the range parser accepts  [a, b]  (any
   bracket / separator form, any field type the range accepts, sens = conf.CaseSensitive or the
   field is _exists_), each stored bound is exactly the single term that keyword_terms - the model
   of parseSeqQLKeyword, the function that builds the Terms of the plain literal f:v, including
   the lower-casing of text runs when not case sensitive - produces for the written (unquoted,
   composite) value of that bound. *)
Theorem C12_range_bounds_as_literals :
  forall (is_letter is_digit : N -> bool) (to_lower : N -> N) sens ts a b ts',
    token_range is_letter is_digit to_lower sens ts = ROk (a, b, ts') ->
    exists va ts1 vb ts2,
      parse_composite is_letter is_digit (tl ts) = ROk (va, ts1) /\
      keyword_terms to_lower sens va = ROk [a] /\
      parse_composite is_letter is_digit (tl ts1) = ROk (vb, ts2) /\
      keyword_terms to_lower sens vb = ROk [b] /\ ts' = tl ts2.
Proof. exact range_bounds_as_literals. Qed.
Print Assumptions C12_range_bounds_as_literals.

(* non-vacuity, with ASCII class functions and a mapping k = keyword, t = text:
   k:"a\*b*" and not t:'x y' # c   parses; the unterminated  k:"a\"  lexes to six one-byte tokens
   (the error path of unquotePrefix) and is a parse error, not a panic *)
Definition ex_space (r : N) : bool := N.eqb r 32 || N.eqb r 10 || N.eqb r 9.
Definition ex_letter (r : N) : bool := in_range 97 122 r || in_range 65 90 r.
Definition ex_digit (r : N) : bool := in_range 48 57 r.
Definition ex_ftype (f : bytes) : N :=
  if bytes_eqb f [107%N] then 1%N else if bytes_eqb f [116%N] then 2%N else 0%N.
Definition ex_lower (r : N) : N := if in_range 65 90 r then (r + 32)%N else r.
Example C12_lex_nonvacuous :
  seqql_parse ex_space ex_letter ex_digit ex_digit ex_ftype ex_lower false (Some max_nesting_depth)
    [107; 58; 34; 97; 92; 42; 98; 42; 34; 32; 97; 110; 100; 32; 110; 111; 116; 32;
     116; 58; 39; 120; 32; 121; 39; 32; 35; 32; 99]%N
  = ROk (NAndN (AndN (Leaf 0) (Leaf 0)) (Leaf 0))
  /\ option_map (@length ltok)
       (match lex ex_space ex_letter ex_digit [107; 58; 34; 97; 92; 34]%N with
        | ROk l => Some l | _ => None end) = Some 6
  /\ seqql_parse ex_space ex_letter ex_digit ex_digit ex_ftype ex_lower false None [107; 58; 34; 97; 92; 34]%N = RErr
  (* k:[*, 'Bob'] : the bounds are the wildcard symbol and the folded text bob *)
  /\ (do l <- lex ex_space ex_letter ex_digit [107; 58; 91; 42; 44; 32; 39; 66; 111; 98; 39; 93]%N;
      range_view ex_letter ex_digit ex_lower false l) = ROk (TmSym, TmText [98; 111; 98]%N).
Proof. vm_compute. repeat split. Qed.

(* ---------------------------------------------------------------------------------------------
   Stage 3: the LEGACY parser (ParseQuery) and ParseAggregationFilter on RAW BYTES.
   Legacy.v models []rune(data) (utf8 decoding, U+FFFD for invalid bytes), the tokenParser with its
   rune slice and index (every tp.data[tp.pos] is a checked read, every tp.data[a:b] a checked
   slice, tokens[0] of buildAndTree a checked head, the two explicit panic(..) calls are RPanic),
   skipSpaces / parseSimpleTerm / parseTerms / parseQuotedTerms / parseRangeTerm / parseRange /
   parseLiteral / parseTokenQuery, errorUnexpectedSymbol (which reads tp.cur()), the three term
   builders, parseSubexpr / parseExpr with the depth counter, buildAst + propagateNot, and
   ParseAggregationFilter. Oracles: unicode.IsSpace / IsLetter / IsNumber, unicode.ToLower,
   conf.CaseSensitive and the field mapping - ANY functions, no hypothesis on them. *)

(* For ALL byte strings, ALL class oracles, ToLower functions, case modes and field mappings the
   legacy parser returns a query (with its leaf table) or an error: no checked read / slice / head
   is out of range, no explicit panic is reached, and the fuel - by definition of legacy_parse
   2 * (number of runes) + 3 for parseSubexpr/parseExpr and (remaining runes) + 1 for every inner
   loop - is never exhausted (every successful parseSubexpr consumes at least one rune, every
   iteration of parseExpr's loop an operator and an operand, every inner loop iteration a rune).
   maxd = the nesting limit (any, also None = the code before maxNestingDepth existed); the last
   argument None = the idealised unbounded goroutine stack. For a FINITE stack see
   C12_nesting_bounded below. *)
Theorem C12_legacy_lex_total :
  forall (is_space is_letter is_number : N -> bool) (to_lower : N -> N) (case_sensitive : bool)
         (ftype : bytes -> N) (maxd : option nat) (q : bytes),
    legacy_parse is_space is_letter is_number to_lower case_sensitive ftype maxd None q = RErr \/
    exists a, legacy_parse is_space is_letter is_number to_lower case_sensitive ftype maxd None q
              = ROk a.
Proof. exact legacy_parse_total. Qed.
Print Assumptions C12_legacy_lex_total.

(* The same for ParseAggregationFilter: a Literal, (nil, nil) for an empty filter, or an error. *)
Theorem C12_aggfilter_total :
  forall (is_space is_letter is_number : N -> bool) (to_lower : N -> N) (case_sensitive : bool)
         (q : bytes),
    legacy_agg is_space is_letter is_number to_lower case_sensitive q = RErr \/
    exists a, legacy_agg is_space is_letter is_number to_lower case_sensitive q = ROk a.
Proof. exact legacy_agg_total. Qed.
Print Assumptions C12_aggfilter_total.

(* non-vacuity (ASCII oracles, k = keyword, t = text):
   k:<dq>A b<dq> and not t:x\ y or (k:[a TO *])   (<dq> = double quote) parses to four leaves (the folded literal a b, the two
   words of the text field, the range) under OR(NAND(AND(1,2),0),3);
   k:<dq>a\   (quote and escape unterminated) is an error, not a panic;
   the aggregation filter k:a*B is the literal a, *, b *)
Definition ex_q1 : bytes :=
  [107;58;34;65;32;98;34;32;97;110;100;32;110;111;116;32;116;58;120;92;32;121;32;111;114;32;40;
   107;58;91;97;32;84;79;32;42;93;41]%N.
Example C12_legacy_nonvacuous :
  legacy_parse ex_space ex_letter ex_digit ex_lower false ex_ftype (Some max_nesting_depth) None ex_q1
  = ROk (OrN (NAndN (AndN (Leaf 1) (Leaf 2)) (Leaf 0)) (Leaf 3),
         [LLit [107%N] [TmText [97%N; 32%N; 98%N]]; LLit [116%N] [TmText [120%N]];
          LLit [116%N] [TmText [121%N]]; LRng [107%N] (TmText [97%N]) TmSym true true])
  /\ legacy_parse ex_space ex_letter ex_digit ex_lower false ex_ftype None None [107;58;34;97;92]%N = RErr
  /\ legacy_agg ex_space ex_letter ex_digit ex_lower false [107;58;97;42;66]%N
     = ROk (Some (LLit [107%N] [TmText [97%N]; TmSym; TmText [98%N]])).
Proof. vm_compute. repeat split. Qed.

(* The legacy tokenizer (Legacy.v: ltoks - the same walk over the runes as parseSubexpr/parseExpr,
   sharing every lexical function with them, flattened into the token alphabet of Model.v: `(`,
   `)`, not, and, or, and one TAtom n / TText [n; ..] per field filter, n.. = indices into the leaf
   table) refines to the token-level parser: on EVERY input it accepts (all oracles, all mappings),
   ParseQuery on the raw bytes is exactly the token-level parser of Model.v on the token list - the
   same query (not only the same shape: leaves are indices into the same leaf table) or, for the
   structural errors the tokenizer does not reject (end of input where an operand or `)` is
   expected), the same error. So C12_parse_denotes*, C12_propagate_not_sound and
   C12_parse_total_tokens speak about raw legacy strings. The token-level parser is the GRAMMAR: it
   has no nesting limit, so the statement is about the parser without limit (None None); the parser
   with the limit agrees with it or reports the nesting error: C12_nesting_limit_only_rejects. *)
Theorem C12_legacy_lex_refines_tokens :
  forall (is_space is_letter is_number : N -> bool) (to_lower : N -> N) (case_sensitive : bool)
         (ftype : bytes -> N) (q : bytes) ts lv,
    legacy_lex is_space is_letter is_number to_lower case_sensitive ftype q = ROk (ts, lv) ->
    legacy_parse is_space is_letter is_number to_lower case_sensitive ftype None None q
    = match parse ts with Ok a => ROk (a, lv) | Err => RErr | OutOfFuel => RFuel end.
Proof. exact legacy_refines. Qed.
Print Assumptions C12_legacy_lex_refines_tokens.

(* Corollary: a raw legacy string whose tokens are the minimal rendering of an expression e parses
   to a query denoting e (in the valuation that reads leaf i as entry i of the leaf table). *)
Theorem C12_legacy_raw_denotes :
  forall (is_space is_letter is_number : N -> bool) (to_lower : N -> N) (case_sensitive : bool)
         (ftype : bytes -> N) (q : bytes) e lv,
    legacy_lex is_space is_letter is_number to_lower case_sensitive ftype q = ROk (render_min e, lv) ->
    exists t, legacy_parse is_space is_letter is_number to_lower case_sensitive ftype None None q
              = ROk (t, lv)
              /\ forall v, eval v t = den v e.
Proof. exact legacy_raw_denotes. Qed.
Print Assumptions C12_legacy_raw_denotes.

(* non-vacuity of both hypotheses: the tokenizer accepts ex_q1, and its tokens are the minimal
   rendering of  (0 and not (1 and 2)) or 3  up to the redundant parentheses around the range;
   a string whose tokens ARE a minimal rendering:  k:a or not t:b\ c *)
Example C12_legacy_refines_nonvacuous :
  legacy_lex ex_space ex_letter ex_digit ex_lower false ex_ftype ex_q1
  = ROk ([TAtom 0; TAnd; TNot; TText [1; 2]; TOr; TLP; TAtom 3; TRP],
         [LLit [107%N] [TmText [97%N; 32%N; 98%N]]; LLit [116%N] [TmText [120%N]];
          LLit [116%N] [TmText [121%N]]; LRng [107%N] (TmText [97%N]) TmSym true true])
  /\ fst (match legacy_lex ex_space ex_letter ex_digit ex_lower false ex_ftype
                  [107;58;97;32;111;114;32;110;111;116;32;116;58;98;92;32;99]%N
          with ROk x => x | _ => ([], []) end)
     = render_min (EOr (EAtom 0) (ENot (EText 1 [2]))).
Proof. vm_compute. split; reflexivity. Qed.

(* ---------------------------------------------------------------------------------------------
   Nesting limit (parser/query_parser.go: maxNestingDepth, commit 712b1a1). parseSubexpr counts its
   own frames (qp.level, one per open `(` and per pending NOT) and reports an error beyond the
   limit; parseSeqQLSubexpr does the same with lex.level. Legacy.v carries the level through
   parseSubexpr/parseExpr and has a second parameter, the number of parseSubexpr frames the
   goroutine stack can hold: entering a frame beyond it is the fatal stack overflow (RPanic). *)

(* For ALL byte strings, oracles and mappings: with nesting limit m, a stack that holds m + 1
   frames is never exceeded - the result is a query or an error, whatever the length of the input
   (the frame at level m + 1 exists: it is the one that reports the error). *)
Theorem C12_nesting_bounded :
  forall (is_space is_letter is_number : N -> bool) (to_lower : N -> N) (case_sensitive : bool)
         (ftype : bytes -> N) (m s : nat) (q : bytes), m + 1 <= s ->
    legacy_parse is_space is_letter is_number to_lower case_sensitive ftype (Some m) (Some s) q = RErr \/
    exists a, legacy_parse is_space is_letter is_number to_lower case_sensitive ftype (Some m) (Some s) q
              = ROk a.
Proof. exact legacy_nesting_bounded. Qed.
Print Assumptions C12_nesting_bounded.

(* Anything nested deeper is rejected: a sub-expression entered with m frames already on the stack
   returns the error at once (legacy parser), and the SeqQL walk rejects an operand at that level. *)
Theorem C12_nesting_rejected :
  forall (is_space is_letter is_number : N -> bool) (to_lower : N -> N) (case_sensitive : bool)
         (ftype : bytes -> N) (m : nat) (stack : option nat) data f d pos lv lvl,
    m <= lvl -> over stack (S lvl) = false ->
    bsub is_space is_letter is_number to_lower case_sensitive ftype (Some m) stack data (S f) d pos lv lvl
    = RErr.
Proof. exact bsub_rejects. Qed.
Print Assumptions C12_nesting_rejected.

Theorem C12_nesting_rejected_seqql :
  forall (is_letter is_digit is_number : N -> bool) (ftype : bytes -> N) (to_lower : N -> N)
         (case_sensitive : bool) (maxd : option nat) m f t r depth bases base pending,
    maxd = Some m -> m <= base + pending ->
    glue is_letter is_digit is_number ftype to_lower case_sensitive maxd (S f) (t :: r) depth true
         bases base pending = RErr.
Proof. exact glue_rejects. Qed.
Print Assumptions C12_nesting_rejected_seqql.

(* The limit only rejects: the parser with a limit returns the nesting error or exactly what the
   parser without limit returns (so every theorem about accepted queries carries over). *)
Theorem C12_nesting_limit_only_rejects :
  forall (is_space is_letter is_number : N -> bool) (to_lower : N -> N) (case_sensitive : bool)
         (ftype : bytes -> N) (maxd : option nat) (q : bytes),
    legacy_parse is_space is_letter is_number to_lower case_sensitive ftype maxd None q = RErr \/
    legacy_parse is_space is_letter is_number to_lower case_sensitive ftype maxd None q
    = legacy_parse is_space is_letter is_number to_lower case_sensitive ftype None None q.
Proof. exact legacy_limit_or_v0. Qed.
Print Assumptions C12_nesting_limit_only_rejects.

(* `_v0` = the code before the limit (maxd = None). Its recursion depth grows with the input: on a
   stack of 50 frames the query of 50 brackets around k:v overflows (RPanic), 40 brackets parse;
   with limit 10 both are errors and 9 brackets parse (the leaf is at level 10). SeqQL likewise. *)
Definition legacy_parse_v0 is_space is_letter is_number to_lower case_sensitive ftype stack q :=
  legacy_parse is_space is_letter is_number to_lower case_sensitive ftype None stack q.
Definition ex_nest (n : nat) : bytes := repeat 40%N n ++ [107; 58; 118]%N ++ repeat 41%N n.
Example C12_nesting_v0_unbounded :
  legacy_parse_v0 ex_space ex_letter ex_digit ex_lower false ex_ftype (Some 50) (ex_nest 50) = RPanic
  /\ (exists a, legacy_parse_v0 ex_space ex_letter ex_digit ex_lower false ex_ftype (Some 50) (ex_nest 40)
                = ROk a)
  /\ legacy_parse ex_space ex_letter ex_digit ex_lower false ex_ftype (Some 10) (Some 11) (ex_nest 50) = RErr
  /\ legacy_parse ex_space ex_letter ex_digit ex_lower false ex_ftype (Some 10) (Some 11) (ex_nest 10) = RErr
  /\ (exists a, legacy_parse ex_space ex_letter ex_digit ex_lower false ex_ftype (Some 10) (Some 11)
                             (ex_nest 9) = ROk a)
  /\ seqql_parse ex_space ex_letter ex_digit ex_digit ex_ftype ex_lower false (Some 10) (ex_nest 10) = RErr
  /\ (exists a, seqql_parse ex_space ex_letter ex_digit ex_digit ex_ftype ex_lower false (Some 10)
                            (ex_nest 9) = ROk a)
  /\ (exists a, seqql_parse ex_space ex_letter ex_digit ex_digit ex_ftype ex_lower false None
                            (ex_nest 50) = ROk a).
Proof. vm_compute. repeat split; eexists; reflexivity. Qed.

(* qp.level is STATE of the parser object in the Go code (incremented at the entry of parseSubexpr,
   decremented by the deferred function on every return). legacy_parse_st keeps it as state exactly
   so; legacy_parse passes the level down as the syntactic nesting (one more per enclosing `(` / NOT).
   They are the same function: the level at which a sub-expression is parsed is its nesting depth + 1
   and does not depend on how many siblings, brackets or NOTs were parsed before it - so a query
   is rejected by the limit iff its NESTING exceeds it, however long it is. (This justifies the spec
   formula of the classes nesting-limit and nesting-flat: accepted iff nesting + 1 <= limit.) *)
Theorem C12_level_is_nesting :
  forall (is_space is_letter is_number : N -> bool) (to_lower : N -> N) (case_sensitive : bool)
         (ftype : bytes -> N) (maxd stack : option nat) (q : bytes),
    legacy_parse_st is_space is_letter is_number to_lower case_sensitive ftype maxd stack false q
    = legacy_parse is_space is_letter is_number to_lower case_sensitive ftype maxd stack q.
Proof. exact legacy_level_is_nesting. Qed.
Print Assumptions C12_level_is_nesting.

(* The variant in which the NOT branch returns without the decrement (leak = true) is NOT that
   function: with limit 3 the flat query  k:a and not k:b and not k:c and not k:d  (nesting 2) is
   rejected - every NOT parsed so far counts - while the faithful model accepts it. *)
Example C12_level_leaking_not_refuted :
  let q := [107;58;97;32;97;110;100;32;110;111;116;32;107;58;98;32;97;110;100;32;110;111;116;32;
            107;58;99;32;97;110;100;32;110;111;116;32;107;58;100]%N in
  legacy_parse_st ex_space ex_letter ex_digit ex_lower false ex_ftype (Some 3) None true q = RErr
  /\ (exists a, legacy_parse_st ex_space ex_letter ex_digit ex_lower false ex_ftype (Some 3) None false q
                = ROk a)
  /\ (exists a, legacy_parse ex_space ex_letter ex_digit ex_lower false ex_ftype (Some 3) None q = ROk a).
Proof. vm_compute. repeat split; eexists; reflexivity. Qed.
