(* C12 — token-level model of the SeqQL / legacy query parsers and of propagateNot.
   Mirrors: parser/seqql.go (parseSeqQLFilter, parseSeqQLSubexpr, joinOr),
            parser/query_parser.go (parseExpr, parseSubexpr),
            parser/seqql_filter.go (parseFilterIn: OR fold; text field: buildAndTree),
            parser/ast_node.go (buildAndTree, propagateNot, ParseSeqQL/ParseQuery wrap).
   No proofs in this file. *)
From Coq Require Export List Bool Arith.
Export ListNotations.

(* tokens as the two parsers see them after lexing a field filter as one unit *)
Inductive tok :=
| TAtom (n : nat)                (* field:value on a keyword field -> one Literal *)
| TIn (ns : list nat)            (* field:in(v1,..,vk) *)
| TText (ns : list nat)          (* text field with k words *)
| TAnd | TOr | TNot | TLP | TRP
| TPipe.                        (* `|` : ends the filter; what follows is the pipe section *)

Inductive ast :=
| Leaf (n : nat)
| NotN (a : ast)
| AndN (l r : ast)
| OrN (l r : ast)
| NAndN (l r : ast).             (* (not l) and r — node.NewNAnd(neg, reg) *)

Inductive res (A : Type) := Ok (a : A) | Err | OutOfFuel.
Arguments Ok {A} a. Arguments Err {A}. Arguments OutOfFuel {A}.

Fixpoint eval (v : nat -> bool) (t : ast) : bool :=
  match t with
  | Leaf n => v n
  | NotN a => negb (eval v a)
  | AndN l r => eval v l && eval v r
  | OrN l r => eval v l || eval v r
  | NAndN l r => negb (eval v l) && eval v r
  end.

(* ---- propagateNot (ast_node.go) : returns the rewritten node and the pending NOT ---- *)
Fixpoint propagate_not (t : ast) : ast * bool :=
  match t with
  | Leaf n => (Leaf n, false)
  | NotN a => let '(n, b) := propagate_not a in (n, negb b)
  | OrN l r =>
      let '(l', ln) := propagate_not l in
      let '(r', rn) := propagate_not r in
      if ln || rn then
        (* operator becomes AND, not := true, both flags flipped *)
        let ln2 := negb ln in let rn2 := negb rn in
        if ln2 && rn2 then (OrN l' r', true)          (* unreachable: kept as in the code *)
        else if rn2 then (NAndN r' l', true)
        else if ln2 then (NAndN l' r', true)
        else (AndN l' r', true)
      else (OrN l' r', false)
  | AndN l r =>
      let '(l', ln) := propagate_not l in
      let '(r', rn) := propagate_not r in
      if ln && rn then (OrN l' r', true)
      else if rn then (NAndN r' l', false)
      else if ln then (NAndN l' r', false)
      else (AndN l' r', false)
  | NAndN l r =>
      (* never produced by the parsers; the code treats any non-OR/non-NOT operator like AND
         but keeps the operator when no flag is set *)
      let '(l', ln) := propagate_not l in
      let '(r', rn) := propagate_not r in
      if ln && rn then (OrN l' r', true)
      else if rn then (NAndN r' l', false)
      else if ln then (NAndN l' r', false)
      else (NAndN l' r', false)
  end.

Definition wrap (p : ast * bool) : ast := if snd p then NotN (fst p) else fst p.

Definition finish (t : ast) : ast := wrap (propagate_not t).

(* ---- parser ---- *)
Definition join_or (r : option ast) (c : ast) : ast :=
  match r with None => c | Some l => OrN l c end.

Definition or_fold (n : nat) (ns : list nat) : ast :=
  fold_left (fun a m => OrN a (Leaf m)) ns (Leaf n).
Definition and_fold (n : nat) (ns : list nat) : ast :=
  fold_left (fun a m => AndN a (Leaf m)) ns (Leaf n).

Fixpoint subexpr (fuel depth : nat) (ts : list tok) {struct fuel} : res (ast * list tok) :=
  match fuel with
  | 0 => OutOfFuel
  | S f =>
    match ts with
    | TLP :: r =>
        match filter f (S depth) r with
        | Ok (e, TRP :: r') => Ok (e, r')
        | Ok _ => Err
        | Err => Err
        | OutOfFuel => OutOfFuel
        end
    | TNot :: r =>
        match subexpr f depth r with
        | Ok (c, r') => Ok (NotN c, r')
        | Err => Err
        | OutOfFuel => OutOfFuel
        end
    | TAtom n :: r => Ok (Leaf n, r)
    | TIn (n :: ns) :: r => Ok (or_fold n ns, r)
    | TText (n :: ns) :: r => Ok (and_fold n ns, r)
    | _ => Err
    end
  end
with filter (fuel depth : nat) (ts : list tok) {struct fuel} : res (ast * list tok) :=
  match fuel with
  | 0 => OutOfFuel
  | S f =>
    match subexpr f depth ts with
    | Ok (cur, r) => ploop f depth None cur r
    | Err => Err
    | OutOfFuel => OutOfFuel
    end
  end
with ploop (fuel depth : nat) (acc : option ast) (cur : ast) (ts : list tok) {struct fuel}
  : res (ast * list tok) :=
  match fuel with
  | 0 => OutOfFuel
  | S f =>
    match ts with
    | TAnd :: r =>
        match subexpr f depth r with
        | Ok (n, r') => ploop f depth acc (AndN cur n) r'
        | Err => Err
        | OutOfFuel => OutOfFuel
        end
    | TOr :: r =>
        match subexpr f depth r with
        | Ok (n, r') => ploop f depth (Some (join_or acc cur)) n r'
        | Err => Err
        | OutOfFuel => OutOfFuel
        end
    | [] => Ok (join_or acc cur, [])
    | TRP :: _ => if Nat.ltb 0 depth then Ok (join_or acc cur, ts) else Err
    (* lex.IsKeyword("|") at any depth: same fold of the two accumulators as at end of input *)
    | TPipe :: _ => Ok (join_or acc cur, ts)
    | _ => Err
    end
  end.

Definition fuel_for (ts : list tok) : nat := 2 * length ts + 3.

(* buildAst *)
Definition parse_raw (ts : list tok) : res ast :=
  match filter (fuel_for ts) 0 ts with
  | Ok (e, []) => Ok e
  (* SeqQL: the filter ended at the first top-level `|`; the pipe section that follows is parsed
     separately (parsePipes; Lexer.v: pipes) and does not touch the filter *)
  | Ok (e, TPipe :: _) => Ok e
  | Ok (_, _ :: _) => Err
  | Err => Err
  | OutOfFuel => OutOfFuel
  end.

(* ParseSeqQL / ParseQuery *)
Definition parse (ts : list tok) : res ast :=
  match parse_raw ts with
  | Ok e => Ok (finish e)
  | Err => Err
  | OutOfFuel => OutOfFuel
  end.

(* ---- written expressions and the documented reading ---- *)
Inductive expr :=
| EAtom (n : nat)
| EIn (n : nat) (ns : list nat)
| EText (n : nat) (ns : list nat)
| ENot (e : expr)
| EAnd (a b : expr)
| EOr (a b : expr).

Fixpoint den (v : nat -> bool) (e : expr) : bool :=
  match e with
  | EAtom n => v n
  | EIn n ns => existsb v (n :: ns)
  | EText n ns => forallb v (n :: ns)
  | ENot a => negb (den v a)
  | EAnd a b => den v a && den v b
  | EOr a b => den v a || den v b
  end.

Definition paren (ts : list tok) : list tok := TLP :: ts ++ [TRP].

(* every composite sub-expression parenthesised *)
Fixpoint render_full (e : expr) : list tok :=
  match e with
  | EAtom n => [TAtom n]
  | EIn n ns => [TIn (n :: ns)]
  | EText n ns => [TText (n :: ns)]
  | ENot a => paren (TNot :: render_full a)
  | EAnd a b => paren (render_full a ++ TAnd :: render_full b)
  | EOr a b => paren (render_full a ++ TOr :: render_full b)
  end.

(* minimal parentheses: not > and > or, binary operators left-associative.
   lvl = context: 0 operand position of OR (left) / top, 1 operand of AND (left) or right
   operand of OR, 2 operand of NOT or right operand of AND *)
Fixpoint render (lvl : nat) (e : expr) : list tok :=
  match e with
  | EAtom n => [TAtom n]
  | EIn n ns => [TIn (n :: ns)]
  | EText n ns => [TText (n :: ns)]
  | ENot a => TNot :: render 2 a
  | EAnd a b =>
      let s := render 1 a ++ TAnd :: render 2 b in
      if Nat.leb lvl 1 then s else paren s
  | EOr a b =>
      let s := render 0 a ++ TOr :: render 1 b in
      if Nat.eqb lvl 0 then s else paren s
  end.

Definition render_min (e : expr) : list tok := render 0 e.

(* f:in(e1, .., en) at token level: the parenthesised disjunction ( e1 or .. or en ) — this is
   what parseFilterIn builds (root = OR(root, member)) and what the glue of Lexer.v emits *)
Definition in_expr (e1 : expr) (es : list expr) : expr := fold_left EOr es e1.
Definition in_toks (e1 : expr) (es : list expr) : list tok := paren (render_min (in_expr e1 es)).
