(* C12 stage 2 — byte/rune-level model of the SeqQL lexer and of the glue between the lexer and the
   token-level parser of Model.v.   NO proofs in this file.

   Mirrors parser/seqql.go        lexer.Next, nextToken, unquotePrefix, needUnquote, unquoteChar,
                                  IsKeyword/IsKeywords/IsEnd, ParseSeqQL (pipes, final IsEnd check)
           parser/seqql_filter.go parseSeqQLFieldFilter, parseFulltextSearchFilter, parseFilterIn,
                                  parseCompositeToken, isCompositeToken, parseSeqQLKeyword (term count),
                                  parseSeqQLText (literal count)
           parser/token_range.go  parseSeqQLTokenRange, parseRangeTerm
           parser/seqql_pipes.go  parsePipes, parsePipeFields, parseFieldList
           parser/query_parser.go indexType (as the oracle [ftype])
           unicode/utf8           DecodeRuneInString, AppendRune, ValidRune
           strconv                UnquoteChar, QuotedPrefix (back-quote case)
   Oracles (Section variables, never axioms): the Unicode class predicates unicode.IsSpace /
   IsLetter / IsDigit / IsNumber and the field mapping (indexType).  A Go slice expression with a
   computed index is modelled by a CHECKED slice: out of range = RPanic. *)
From Coq Require Export List Bool Arith NArith.
From C12 Require Export Model.
Export ListNotations.

Definition bytes := list N.

(* `level > limit` for an optional nesting limit (None = no limit) *)
Definition over (o : option nat) (n : nat) : bool :=
  match o with Some x => Nat.ltb x n | None => false end.
(* parser/query_parser.go: const maxNestingDepth, shared by both parsers; every nesting case of the
   correspondence run compares it with the constant exported by parser/export_verif_c12b.go *)
Definition max_nesting_depth : nat := 100 * 100.

(* outcome: value | parse error | Go runtime panic | model fuel exhausted *)
Inductive R (A : Type) := ROk (a : A) | RErr | RPanic | RFuel.
Arguments ROk {A} a. Arguments RErr {A}. Arguments RPanic {A}. Arguments RFuel {A}.

Definition rbind {A B} (m : R A) (f : A -> R B) : R B :=
  match m with ROk a => f a | RErr => RErr | RPanic => RPanic | RFuel => RFuel end.
Notation "'do' x <- m ; f" := (rbind m (fun x => f))
  (at level 200, x pattern, m at level 100, f at level 200, right associativity).

(* ---------------------------------------------------------------- bytes, slices *)
Definition beq (a b : N) : bool := N.eqb a b.
Definition in_range (lo hi x : N) : bool := N.leb lo x && N.leb x hi.

Fixpoint bytes_eqb (a b : bytes) : bool :=
  match a, b with
  | [], [] => true
  | x :: a', y :: b' => N.eqb x y && bytes_eqb a' b'
  | _, _ => false
  end.

(* s[n:] *)
Definition slice_from (n : nat) (s : bytes) : R bytes :=
  if Nat.leb n (length s) then ROk (skipn n s) else RPanic.
(* s[:n] *)
Definition slice_to (n : nat) (s : bytes) : R bytes :=
  if Nat.leb n (length s) then ROk (firstn n s) else RPanic.
(* s[a:b] *)
Definition slice (a b : nat) (s : bytes) : R bytes :=
  if Nat.leb a b && Nat.leb b (length s) then ROk (firstn (b - a) (skipn a s)) else RPanic.

(* strings.IndexByte *)
Fixpoint index_byte (b : N) (s : bytes) : option nat :=
  match s with
  | [] => None
  | x :: t => if N.eqb x b then Some 0
              else match index_byte b t with Some n => Some (S n) | None => None end
  end.

Definition contains_byte (b : N) (s : bytes) : bool :=
  match index_byte b s with Some _ => true | None => false end.

(* ---------------------------------------------------------------- utf8 *)
Definition RuneError : N := 65533%N.
Definition wildcardRune : N := 57344%N.       (* U+E000 *)
Definition wildcard_bytes : bytes := [238; 128; 128]%N.

Definition cont (b : N) : bool := in_range 128 191 b.

(* utf8.DecodeRuneInString: (rune, width); every failure is (RuneError, 1); empty is (RuneError, 0) *)
Definition decode (s : bytes) : N * nat :=
  match s with
  | [] => (RuneError, 0)
  | b0 :: t =>
    if N.ltb b0 128 then (b0, 1)
    else if N.ltb b0 194 then (RuneError, 1)
    else if N.ltb b0 224 then
      match t with
      | b1 :: _ => if cont b1 then (((N.modulo b0 32) * 64 + N.modulo b1 64)%N, 2) else (RuneError, 1)
      | _ => (RuneError, 1)
      end
    else if N.ltb b0 240 then
      let lo := if N.eqb b0 224 then 160%N else 128%N in
      let hi := if N.eqb b0 237 then 159%N else 191%N in
      match t with
      | b1 :: b2 :: _ =>
          if in_range lo hi b1 && cont b2
          then ((((N.modulo b0 16) * 64 + N.modulo b1 64) * 64 + N.modulo b2 64)%N, 3)
          else (RuneError, 1)
      | _ => (RuneError, 1)
      end
    else if N.ltb b0 245 then
      let lo := if N.eqb b0 240 then 144%N else 128%N in
      let hi := if N.eqb b0 244 then 143%N else 191%N in
      match t with
      | b1 :: b2 :: b3 :: _ =>
          if in_range lo hi b1 && cont b2 && cont b3
          then (((((N.modulo b0 8) * 64 + N.modulo b1 64) * 64 + N.modulo b2 64) * 64
                + N.modulo b3 64)%N, 4)
          else (RuneError, 1)
      | _ => (RuneError, 1)
      end
    else (RuneError, 1)
  end.

Definition valid_rune (v : N) : bool :=
  N.ltb v 55296 || (N.ltb 57343 v && N.leb v 1114111).

(* utf8.AppendRune(nil, r) *)
Definition encode_rune (r0 : N) : bytes :=
  let r := if valid_rune r0 then r0 else RuneError in
  if N.ltb r 128 then [r]
  else if N.ltb r 2048 then [192 + r / 64; 128 + N.modulo r 64]%N
  else if N.ltb r 65536 then [224 + r / 4096; 128 + N.modulo (r / 64) 64; 128 + N.modulo r 64]%N
  else [240 + r / 262144; 128 + N.modulo (r / 4096) 64; 128 + N.modulo (r / 64) 64;
        128 + N.modulo r 64]%N.

(* ---------------------------------------------------------------- strconv.UnquoteChar *)
Definition unhex (c : N) : option N :=
  if in_range 48 57 c then Some (c - 48)%N
  else if in_range 97 102 c then Some (c - 97 + 10)%N
  else if in_range 65 70 c then Some (c - 65 + 10)%N
  else None.

Fixpoint hexval (n : nat) (s : bytes) (v : N) : option (N * bytes) :=
  match n with
  | 0 => Some (v, s)
  | S n' => match s with
            | [] => None
            | c :: t => match unhex c with Some x => hexval n' t (v * 16 + x)%N | None => None end
            end
  end.

Definition octdigit (c : N) : option N := if in_range 48 55 c then Some (c - 48)%N else None.

(* returns (value, tail); None = ErrSyntax *)
Definition strconv_unquote_char (s : bytes) (quote : N) : option (N * bytes) :=
  match s with
  | [] => None
  | c :: t =>
    if N.eqb c quote && (N.eqb quote 39 || N.eqb quote 34) then None
    else if N.leb 128 c then let '(r, sz) := decode s in Some (r, skipn sz s)
    else if negb (N.eqb c 92) then Some (c, t)
    else match t with
         | [] => None
         | c1 :: s2 =>
           if N.eqb c1 97 then Some (7%N, s2)           (* \a *)
           else if N.eqb c1 98 then Some (8%N, s2)      (* \b *)
           else if N.eqb c1 102 then Some (12%N, s2)    (* \f *)
           else if N.eqb c1 110 then Some (10%N, s2)    (* \n *)
           else if N.eqb c1 114 then Some (13%N, s2)    (* \r *)
           else if N.eqb c1 116 then Some (9%N, s2)     (* \t *)
           else if N.eqb c1 118 then Some (11%N, s2)    (* \v *)
           else if N.eqb c1 120 then hexval 2 s2 0%N    (* \xHH: single byte value *)
           else if N.eqb c1 117 || N.eqb c1 85 then     (* \uHHHH, \UHHHHHHHH *)
             match hexval (if N.eqb c1 117 then 4 else 8) s2 0%N with
             | Some (v, s3) => if valid_rune v then Some (v, s3) else None
             | None => None
             end
           else if in_range 48 55 c1 then
             match s2 with
             | d1 :: d2 :: s3 =>
                 match octdigit d1, octdigit d2 with
                 | Some x1, Some x2 =>
                     let v := (((c1 - 48) * 8 + x1) * 8 + x2)%N in
                     if N.ltb 255 v then None else Some (v, s3)
                 | _, _ => None
                 end
             | _ => None
             end
           else if N.eqb c1 92 then Some (92%N, s2)
           else if N.eqb c1 39 || N.eqb c1 34 then
             if N.eqb c1 quote then Some (c1, s2) else None
           else None
         end
  end.

(* seqql.go: unquoteChar — `\*` is an asterisk, a bare `*` is the wildcard rune *)
Definition unquote_char (s : bytes) (quote : N) : option (N * bytes) :=
  match s with
  | c :: t =>
    if N.eqb c 42 then Some (wildcardRune, t)
    else match t with
         | c1 :: t1 => if N.eqb c 92 && N.eqb c1 42 then Some (42%N, t1)
                       else strconv_unquote_char s quote
         | [] => strconv_unquote_char s quote
         end
  | [] => strconv_unquote_char s quote
  end.

Definition need_unquote (s : bytes) : bool := contains_byte 92 s || contains_byte 42 s.

(* slow path loop of unquotePrefix: returns (prefix, b, remIdx) at loop exit *)
Fixpoint uq_loop (fuel : nat) (quote : N) (prefix b : bytes) (remIdx : nat)
  : R (bytes * bytes * nat) :=
  match fuel with
  | 0 => RFuel
  | S f =>
    match prefix with
    | [] => ROk (prefix, b, remIdx)
    | c :: pt =>
      if N.eqb c quote then ROk (prefix, b, remIdx)
      else match unquote_char prefix quote with
           | None => uq_loop f quote pt (b ++ [92%N]) (S remIdx)
           | Some (ch, tail) =>
               uq_loop f quote tail (b ++ encode_rune ch) (remIdx + (length prefix - length tail))
           end
    end
  end.

(* unquotePrefix: ROk None = ErrSyntax, ROk (Some (out, rem)) *)
Definition unquote_prefix (q : bytes) : R (option (bytes * bytes)) :=
  if Nat.ltb (length q) 2 then ROk None else
  match q with
  | [] => ROk None
  | quote :: q1 =>
    if negb (N.eqb quote 34 || N.eqb quote 96 || N.eqb quote 39) then ROk None else
    match index_byte quote q1 with
    | None => ROk None
    | Some e =>
      let en := S e in
      do content <- slice 1 en q;
      if negb (need_unquote content) then
        do rem <- slice_from (S en) q; ROk (Some (content, rem))
      else
        do st <- uq_loop (S (length q1)) quote q1 [] 1;
        let '(prefix, b, remIdx) := st in
        let remIdx := S remIdx in
        match prefix with
        | [] => ROk None
        | c :: _ => if negb (N.eqb c quote) then ROk None
                    else do rem <- slice_from remIdx q; ROk (Some (b, rem))
        end
    end
  end.

(* strconv.QuotedPrefix on a back-quoted prefix: the prefix including both quotes *)
Definition quoted_prefix_raw (q : bytes) : R (option bytes) :=
  if Nat.ltb (length q) 2 then ROk None else
  match q with
  | [] => ROk None
  | quote :: q1 =>
    match index_byte quote q1 with
    | None => ROk None
    | Some e => do p <- slice_to (e + 2) q; ROk (Some p)
    end
  end.

(* ---------------------------------------------------------------- lexer *)
(* parser.Term: a text run or the wildcard symbol `*` *)
Inductive term := TmText (d : bytes) | TmSym.

Record ltok := mkTok { t_txt : bytes; t_quoted : bool; t_raw : bool; t_space : bool }.

Section Lex.
  Variables is_space is_letter is_digit is_number : N -> bool.

  Definition is_token_rune (r : N) : bool :=
    is_letter r || is_digit r || N.eqb r 95 || N.eqb r 46.

  (* lex.nextToken(size) *)
  Definition next_token (size : nat) (q : bytes) (sp : bool) : R (ltok * bytes) :=
    do t <- slice_to size q;
    do q' <- slice_from size q;
    ROk (mkTok t false false sp, q').

  (* for unicode.IsSpace(r) { q = q[size:]; r, size = decode(q); SpaceSkipped = true } *)
  Fixpoint skip_spaces (fuel : nat) (q : bytes) (sp : bool) : R (bytes * bool) :=
    match fuel with
    | 0 => RFuel
    | S f => let '(r, sz) := decode q in
             if is_space r then skip_spaces f (skipn sz q) true else ROk (q, sp)
    end.

  (* for isTokenRune(r) { tokenLen += size; r, size = decode(q[tokenLen:]) }   rest = q[tokenLen:] *)
  Fixpoint scan_token (fuel : nat) (rest : bytes) (tokenLen : nat) : R nat :=
    match fuel with
    | 0 => RFuel
    | S f => let '(r, sz) := decode rest in
             if is_token_rune r then scan_token f (skipn sz rest) (tokenLen + sz) else ROk tokenLen
    end.

  (* lexer.Next: q = query tail, sp = SpaceSkipped so far (false on entry). Result: token, new tail *)
  Fixpoint next (fuel : nat) (q : bytes) (sp : bool) : R (ltok * bytes) :=
    match fuel with
    | 0 => RFuel
    | S f =>
      let '(r0, sz0) := decode q in
      if N.eqb r0 RuneError then next_token sz0 q sp
      else
        do st <- skip_spaces (S (length q)) q sp;
        let '(q1, sp1) := st in
        let '(r, sz) := decode q1 in
        if N.eqb r 35 then                                     (* comment *)
          do q1t <- slice_from 1 q1;
          match index_byte 10 q1t with
          | None => next f [] sp1
          | Some n => do q2 <- slice_from (n + 1) q1; next f q2 sp1
          end
        else
          do tokenLen <- scan_token (S (length q1)) q1 0;
          if Nat.ltb 0 tokenLen then next_token tokenLen q1 sp1
          else if N.eqb r 42 then
            do q2 <- slice_from sz q1; ROk (mkTok wildcard_bytes false false sp1, q2)
          else if N.eqb r 39 || N.eqb r 34 then
            do u <- unquote_prefix q1;
            match u with
            | None => next_token 1 q1 sp1
            | Some (out, rem) => ROk (mkTok out true false sp1, rem)
            end
          else if N.eqb r 96 then
            do u <- quoted_prefix_raw q1;
            match u with
            | None => next_token 1 q1 sp1
            | Some qp =>
                do t <- slice 1 (length qp - 1) qp;
                do q2 <- slice_from (length qp) q1;
                ROk (mkTok t true true sp1, q2)
            end
          else next_token sz q1 sp1
    end.

  (* lex.IsEnd() after a Next *)
  Definition is_end (t : ltok) (q : bytes) : bool :=
    match q, t_txt t with [], [] => negb (t_quoted t) | _, _ => false end.

  (* the token stream: Next until IsEnd (the end token itself is not listed) *)
  Fixpoint lex_all (fuel : nat) (q : bytes) : R (list ltok) :=
    match fuel with
    | 0 => RFuel
    | S f =>
      do st <- next (S (length q)) q false;
      let '(t, q') := st in
      if is_end t q' then ROk []
      else do ts <- lex_all f q'; ROk (t :: ts)
    end.

  Definition lex (q : bytes) : R (list ltok) := lex_all (S (length q)) q.

  (* ---------------------------------------------------------------- keywords *)
  (* strings.EqualFold against an ASCII keyword: ASCII case folding plus the two non-ASCII runes
     whose simple-fold orbit contains an ASCII letter (U+017F -> s, U+212A -> k) *)
  Fixpoint fold_norm (s : bytes) : bytes :=
    match s with
    | [] => []
    | c :: t =>
      let dflt := (if in_range 65 90 c then (c + 32)%N else c) :: fold_norm t in
      match t with
      | c1 :: t1 =>
        if N.eqb c 197 && N.eqb c1 191 then 115%N :: fold_norm t1
        else match t1 with
             | c2 :: t2 => if N.eqb c 226 && N.eqb c1 132 && N.eqb c2 170
                           then 107%N :: fold_norm t2 else dflt
             | [] => dflt
             end
      | [] => dflt
      end
    end.

  Definition end_tok : ltok := mkTok [] false false false.
  Definition cur (ts : list ltok) : ltok := match ts with [] => end_tok | t :: _ => t end.

  (* lex.IsKeyword(kw) for a lower-case ASCII / symbol keyword *)
  Definition is_kw (kw : bytes) (t : ltok) : bool :=
    negb (t_quoted t) && bytes_eqb (fold_norm (t_txt t)) kw.
  Definition is_kws (kws : list bytes) (t : ltok) : bool := existsb (fun k => is_kw k t) kws.

  Definition kw_and : bytes := [97; 110; 100]%N.
  Definition kw_or : bytes := [111; 114]%N.
  Definition kw_not : bytes := [110; 111; 116]%N.
  Definition kw_in : bytes := [105; 110]%N.
  Definition kw_to : bytes := [116; 111]%N.
  Definition kw_fields : bytes := [102; 105; 101; 108; 100; 115]%N.
  Definition kw_except : bytes := [101; 120; 99; 101; 112; 116]%N.
  Definition kw_lp : bytes := [40]%N.
  Definition kw_rp : bytes := [41]%N.
  Definition kw_lb : bytes := [91]%N.
  Definition kw_rb : bytes := [93]%N.
  Definition kw_comma : bytes := [44]%N.
  Definition kw_colon : bytes := [58]%N.
  Definition kw_pipe : bytes := [124]%N.

  (* ---------------------------------------------------------------- composite tokens *)
  Definition is_composite (t : ltok) : bool :=
    if is_kw [] t then false
    else match t_txt t with
         | [] => true
         | txt =>
           let '(r, sz) := decode txt in
           let has_more := Nat.ltb 1 (length (skipn sz txt)) in
           if has_more || t_quoted t then true
           else is_token_rune r || N.eqb r 45 || N.eqb r 42 || N.eqb r wildcardRune
         end.

  (* for ; !SpaceSkipped && isCompositeToken; Next { b.WriteString(Token) } *)
  Fixpoint join_composite (ts : list ltok) (acc : bytes) : bytes * list ltok :=
    match ts with
    | [] => (acc, [])
    | t :: r => if negb (t_space t) && is_composite t then join_composite r (acc ++ t_txt t)
                else (acc, ts)
    end.

  (* parseCompositeToken *)
  Definition parse_composite (ts : list ltok) : R (bytes * list ltok) :=
    let c := cur ts in
    if is_kw [] c then RErr
    else if negb (is_composite c) then RErr
    else ROk (join_composite (tl ts) (t_txt c)).

  (* strings.ReplaceAll(s, string(wildcardRune), "*") *)
  Fixpoint replace_wild (s : bytes) : bytes :=
    match s with
    | [] => []
    | c :: t =>
      match t with
      | c1 :: c2 :: t2 => if N.eqb c 238 && N.eqb c1 128 && N.eqb c2 128
                          then 42%N :: replace_wild t2 else c :: replace_wild t
      | _ => c :: replace_wild t
      end
    end.

  (* len(terms) of parseSeqQLKeyword(token): runs of non-wildcard runes and wildcard runes.
     have = "b is non-empty" *)
  Fixpoint kw_terms_loop (fuel : nat) (s : bytes) (have : bool) (n : nat) : R nat :=
    match fuel with
    | 0 => RFuel
    | S f =>
      match s with
      | [] => ROk (if have then S n else n)
      | _ => let '(r, sz) := decode s in
             if N.eqb r wildcardRune
             then kw_terms_loop f (skipn sz s) false (S (if have then S n else n))
             else kw_terms_loop f (skipn sz s) true n
      end
    end.
  Definition kw_terms (s : bytes) : R nat :=
    match s with [] => ROk 1 | _ => kw_terms_loop (S (length s)) s false 0 end.

  (* len(tokens) of parseSeqQLText(token): term = "term.Data non-empty", curt = "current.Terms
     non-empty", n = len(tokens) *)
  Fixpoint text_lits_loop (fuel : nat) (s : bytes) (term curt : bool) (n : nat) : R nat :=
    match fuel with
    | 0 => RFuel
    | S f =>
      match s with
      | [] => let curt := curt || term in
              let n := if curt then S n else n in
              ROk (if Nat.eqb n 0 then 1 else n)
      | _ => let '(r, sz) := decode s in
             let s' := skipn sz s in
             if is_letter r || is_number r || N.eqb r 95 || N.eqb r 42
             then text_lits_loop f s' true curt n
             else
               let curt := curt || term in
               if N.eqb r wildcardRune then text_lits_loop f s' false true n
               else if curt then text_lits_loop f s' false false (S n)
                    else text_lits_loop f s' false false n
      end
    end.
  Definition text_lits (s : bytes) : R nat :=
    match s with [] => ROk 1 | _ => text_lits_loop (S (length s)) s false false 0 end.

  (* ---------------------------------------------------------------- field filter *)
  (* indexType(mapping, field): 0 noop (not indexed), 1 keyword or path, 2 text,
     3 any other type (exists, object, tags, nested) *)
  Variable ftype : bytes -> N.

  (* unicode.ToLower (rune-wise, as strings.ToLower applies it) and conf.CaseSensitive *)
  Variable to_lower : N -> N.
  Variable case_sensitive : bool.

  (* strings.ToLower on a (valid UTF-8) term text: every rune mapped and re-encoded *)
  Fixpoint lower_loop (fuel : nat) (s acc : bytes) : R bytes :=
    match fuel with
    | 0 => RFuel
    | S f =>
      match s with
      | [] => ROk acc
      | _ => let '(r, sz) := decode s in lower_loop f (skipn sz s) (acc ++ encode_rune (to_lower r))
      end
    end.
  Definition lower (s : bytes) : R bytes := lower_loop (S (length s)) s [].

  (* newTextTermCaseSensitive(data, sens) *)
  Definition text_term (sens : bool) (d : bytes) : R term :=
    if sens then ROk (TmText d) else do l <- lower d; ROk (TmText l).

  (* `if data := b.String(); data != "" { terms = append(terms, text term) }` *)
  Definition flush_term (sens : bool) (buf : bytes) (acc : list term) : R (list term) :=
    match buf with
    | [] => ROk acc
    | _ => do t <- text_term sens buf; ROk (acc ++ [t])
    end.

  (* parseSeqQLKeyword(token, sens): the Terms of a keyword/path literal, and of a range bound *)
  Fixpoint keyword_terms_loop (fuel : nat) (sens : bool) (s buf : bytes) (acc : list term)
    : R (list term) :=
    match fuel with
    | 0 => RFuel
    | S f =>
      match s with
      | [] => flush_term sens buf acc
      | _ => let '(r, sz) := decode s in
             if N.eqb r wildcardRune then
               do acc1 <- flush_term sens buf acc;
               keyword_terms_loop f sens (skipn sz s) [] (acc1 ++ [TmSym])
             else keyword_terms_loop f sens (skipn sz s) (buf ++ encode_rune r) acc
      end
    end.
  Definition keyword_terms (sens : bool) (s : bytes) : R (list term) :=
    match s with
    | [] => ROk [TmText []]
    | _ => keyword_terms_loop (S (length s)) sens s [] []
    end.

  (* caseSensitive of parseSeqQLFieldFilter: the configuration, or the field _exists_ *)
  Definition exists_name : bytes := [95; 101; 120; 105; 115; 116; 115; 95]%N.
  Definition field_sens (name : bytes) : bool := case_sensitive || bytes_eqb name exists_name.

  (* parseFulltextSearchFilter: one token of the token-level alphabet *)
  Definition fulltext (t : N) (ts : list ltok) : R (tok * list ltok) :=
    do st <- parse_composite ts;
    let '(value, ts') := st in
    if N.eqb t 1 then
      do _ <- kw_terms value; ROk (TAtom 0, ts')
    else if N.eqb t 2 then
      do k <- text_lits value; ROk (TText (repeat 0 k), ts')
    else RErr.

  (* for lex.IsKeyword(",") { Next; parseFulltextSearchFilter; root = OR(root, it) } *)
  Fixpoint in_loop (fuel : nat) (t : N) (ts : list ltok) (acc : list tok) : R (list tok * list ltok) :=
    match fuel with
    | 0 => RFuel
    | S f =>
      if is_kw kw_comma (cur ts) then
        do st <- fulltext t (tl ts);
        let '(e, ts') := st in
        in_loop f t ts' (acc ++ [TOr; e])
      else ROk (acc, ts)
    end.

  (* parseFilterIn (after `in` was consumed): the OR of the members, written at token level as
     the parenthesised disjunction  ( m1 or m2 or ... )  *)
  Definition filter_in (t : N) (ts : list ltok) : R (list tok * list ltok) :=
    if negb (is_kw kw_lp (cur ts)) then RErr else
    let ts1 := tl ts in
    if is_kw kw_rp (cur ts1) then RErr else
    do st <- fulltext t ts1;
    let '(e, ts2) := st in
    do st2 <- in_loop (S (length ts2)) t ts2 [e];
    let '(es, ts3) := st2 in
    if negb (is_kw kw_rp (cur ts3)) then RErr
    else ROk (TLP :: es ++ [TRP], tl ts3).

  (* parseRangeTerm: the bound is the single term parseSeqQLKeyword makes of the value *)
  Definition range_bound (sens : bool) (value : bytes) : R term :=
    do terms <- keyword_terms sens value;
    match terms with
    | [t] => ROk t
    | [] => ROk (TmText [])
    | _ => RErr
    end.
  Definition range_term (sens : bool) (ts : list ltok) : R (term * list ltok) :=
    do st <- parse_composite ts;
    let '(value, ts') := st in
    do t <- range_bound sens value;
    ROk (t, ts').

  (* parseSeqQLTokenRange: From, To and the rest (IncludeFrom / IncludeTo are not modelled) *)
  Definition token_range (sens : bool) (ts : list ltok) : R (term * term * list ltok) :=
    if negb (is_kws [kw_lp; kw_lb] (cur ts)) then RErr else
    do st1 <- range_term sens (tl ts);
    let '(from, ts1) := st1 in
    if negb (is_kws [kw_comma; kw_to] (cur ts1)) then RErr else
    do st2 <- range_term sens (tl ts1);
    let '(to, ts2) := st2 in
    if negb (is_kws [kw_rp; kw_rb] (cur ts2)) then RErr else
    ROk (from, to, tl ts2).

  (* parseSeqQLFieldFilter *)
  Definition field_filter (ts : list ltok) : R (list tok * list ltok) :=
    do st <- parse_composite ts;
    let '(name0, ts1) := st in
    let name := replace_wild name0 in
    match name with
    | [] => RErr
    | _ =>
      let t := ftype name in
      if N.eqb t 0 then RErr
      else if negb (is_kw kw_colon (cur ts1)) then RErr
      else
        let ts2 := tl ts1 in
        if is_kw [] (cur ts2) then RErr
        else if is_kws [kw_lb; kw_lp] (cur ts2) then
          do st3 <- token_range (field_sens name) ts2; let '(_, ts3) := st3 in ROk ([TAtom 0], ts3)
        else if is_kw kw_in (cur ts2) then filter_in t (tl ts2)
        else do st2 <- fulltext t ts2; let '(e, ts3) := st2 in ROk ([e], ts3)
    end.

  (* views used by the correspondence: the bounds of a query that is one range filter  f:[a, b]
     and the terms of a query that is one keyword literal  f:v *)
  Definition range_view (lts : list ltok) : R (term * term) :=
    do st <- parse_composite lts;
    let '(name0, ts1) := st in
    let name := replace_wild name0 in
    if negb (is_kw kw_colon (cur ts1)) then RErr else
    do st3 <- token_range (field_sens name) (tl ts1);
    let '(b, rest) := st3 in
    match rest with [] => ROk b | _ => RErr end.
  Definition literal_view (lts : list ltok) : R (list term) :=
    do st <- parse_composite lts;
    let '(name0, ts1) := st in
    let name := replace_wild name0 in
    if negb (is_kw kw_colon (cur ts1)) then RErr else
    do st2 <- parse_composite (tl ts1);
    let '(value, rest) := st2 in
    match rest with [] => keyword_terms (field_sens name) value | _ => RErr end.

  (* ---------------------------------------------------------------- pipes *)
  (* parseFieldList: for !IsKeywords("|", "") { composite; if "," { Next; trailing = true } } *)
  Fixpoint field_list (fuel : nat) (ts : list ltok) (nfields : nat) (trailing : bool)
    : R (list ltok) :=
    match fuel with
    | 0 => RFuel
    | S f =>
      if is_kws [kw_pipe; []] (cur ts) then
        if trailing then RErr else if Nat.eqb nfields 0 then RErr else ROk ts
      else
        do st <- parse_composite ts;
        let '(_, ts1) := st in
        if is_kw kw_comma (cur ts1) then field_list f (tl ts1) (S nfields) true
        else field_list f ts1 (S nfields) false
    end.

  (* parsePipes: for !IsEnd { expect "|"; Next; "fields" [except] list; at most one fields pipe } *)
  Fixpoint pipes (fuel : nat) (ts : list ltok) (nfilters : nat) : R (list ltok) :=
    match fuel with
    | 0 => RFuel
    | S f =>
      match ts with
      | [] => ROk []
      | _ =>
        if negb (is_kw kw_pipe (cur ts)) then RErr else
        let ts1 := tl ts in
        if is_kw kw_fields (cur ts1) then
          let ts2 := tl ts1 in
          let ts3 := if is_kw kw_except (cur ts2) then tl ts2 else ts2 in
          do ts4 <- field_list (S (length ts3)) ts3 0 false;
          if Nat.ltb 1 (S nfilters) then RErr else pipes f ts4 (S nfilters)
        else RErr
      end
    end.

  (* ---------------------------------------------------------------- glue *)
  (* Walks the lexer tokens the way parseSeqQLFilter / parseSeqQLSubexpr do (operand position /
     operator position, parenthesis depth) and produces the token-level alphabet of Model.v:
     every field filter becomes TAtom / TText / a parenthesised disjunction; a range is one TAtom;
     `*` alone at depth 0 is one TAtom; a (well-formed) pipe section becomes the terminator TPipe,
     at which the token-level parser folds its accumulators (ParseSeqQL's final IsEnd check is the
     RPanic below). operand = true: a sub-expression is expected. *)
  (* maxd = maxNestingDepth of parseSeqQLSubexpr (None = the code before the limit, `_v0`).
     The walk tracks lex.level: bases = the levels to return to at each open `(`, base = frames of
     the enclosing groups (their `(` and the NOTs in front of them), pending = NOTs in front of the
     current operand; every operand position is an entry of parseSeqQLSubexpr at level
     base + pending + 1, rejected beyond the limit. in(..) is not a sub-expression: no level. *)
  Variable maxd : option nat.

  Fixpoint glue (fuel : nat) (ts : list ltok) (depth : nat) (operand : bool)
           (bases : list nat) (base pending : nat) : R (list tok) :=
    match fuel with
    | 0 => RFuel
    | S f =>
      match ts with
      | [] => ROk []
      | t :: r =>
        if operand then
          let lvl := S (base + pending) in
          if over maxd lvl then RErr else
          if is_kw wildcard_bytes t && Nat.eqb depth 0 then
            do l <- glue f r depth false bases base 0; ROk (TAtom 0 :: l)
          else if is_kw kw_lp t then
            do l <- glue f r (S depth) true (base :: bases) lvl 0; ROk (TLP :: l)
          else if is_kw kw_not t then
            do l <- glue f r depth true bases base (S pending); ROk (TNot :: l)
          else
            do st <- field_filter ts;
            let '(toks, ts') := st in
            do l <- glue f ts' depth false bases base 0; ROk (toks ++ l)
        else
          if is_kw kw_and t then do l <- glue f r depth true bases base 0; ROk (TAnd :: l)
          else if is_kw kw_or t then do l <- glue f r depth true bases base 0; ROk (TOr :: l)
          else if is_kw kw_rp t then
            do l <- glue f r (pred depth) false (tl bases) (hd 0 bases) 0; ROk (TRP :: l)
          else if is_kw kw_pipe t then
            do rest <- pipes (S (length ts)) ts 0;
            match rest with [] => ROk [TPipe] | _ => RPanic end
          else RErr
      end
    end.

  (* ParseSeqQL on raw bytes: lexer, glue, token-level parser of Model.v *)
  Definition seqql_parse (q : bytes) : R ast :=
    do lts <- lex q;
    do ts <- glue (S (length lts)) lts 0 true [] 0 0;
    match parse ts with
    | Ok a => ROk a
    | Err => RErr
    | OutOfFuel => RFuel
    end.
End Lex.

(* ---------------------------------------------------------------- rendering (round trip) *)
(* the way the harness writes a text atom:  "v1 v2"  — here a list of such atoms, each preceded by
   one space; plain = free of the quote, the backslash and the asterisk *)
Definition plain (w : bytes) : bool :=
  negb (contains_byte 34 w) && negb (contains_byte 92 w) && negb (contains_byte 42 w).
Fixpoint render_dq (ws : list bytes) : bytes :=
  match ws with
  | [] => []
  | w :: r => 32%N :: 34%N :: w ++ 34%N :: render_dq r
  end.
Definition dq_tok (w : bytes) : ltok := mkTok w true false true.

