(* C12 stage 3 — the legacy tokenizer refines to the token-level parser of Model.v:
   on every input the tokenizer accepts, ParseQuery (rune-level model) = parse (token list). *)
From Coq Require Import Lia.
From C12 Require Import Model Lexer Legacy Proofs ProofsLexer ProofsLegacy.

(* fuel-free "runs to r" relations of the token-level parser (r is not OutOfFuel) *)
Definition SubR (d : nat) (ts : list tok) (r : res (ast * list tok)) : Prop :=
  exists f, subexpr f d ts = r /\ r <> OutOfFuel.
Definition FilR (d : nat) (ts : list tok) (r : res (ast * list tok)) : Prop :=
  exists f, filter f d ts = r /\ r <> OutOfFuel.
Definition LoopR (d : nat) (acc : option ast) (cur : ast) (ts : list tok)
           (r : res (ast * list tok)) : Prop :=
  exists f, ploop f d acc cur ts = r /\ r <> OutOfFuel.

Lemma sub_stable : forall f f' d ts r, subexpr f d ts = r -> r <> OutOfFuel -> f <= f' ->
  subexpr f' d ts = r.
Proof. intros f f' d ts r H Hn Hle. destruct (mono_le f f' Hle) as [Hs _].
  rewrite Hs; [exact H | rewrite H; exact Hn]. Qed.
Lemma fil_stable : forall f f' d ts r, filter f d ts = r -> r <> OutOfFuel -> f <= f' ->
  filter f' d ts = r.
Proof. intros f f' d ts r H Hn Hle. destruct (mono_le f f' Hle) as [_ [Hs _]].
  rewrite Hs; [exact H | rewrite H; exact Hn]. Qed.
Lemma loop_stable : forall f f' d acc c ts r, ploop f d acc c ts = r -> r <> OutOfFuel -> f <= f' ->
  ploop f' d acc c ts = r.
Proof. intros f f' d acc c ts r H Hn Hle. destruct (mono_le f f' Hle) as [_ [_ Hs]].
  rewrite Hs; [exact H | rewrite H; exact Hn]. Qed.

Lemma SubR_nil : forall d, SubR d [] Err.
Proof. intros d. exists 1. split; [reflexivity | discriminate]. Qed.
Lemma SubR_lp_ok : forall d r e r', FilR (S d) r (Ok (e, TRP :: r')) -> SubR d (TLP :: r) (Ok (e, r')).
Proof. intros d r e r' [f [Hf _]]. exists (S f). rewrite subexpr_S. cbv beta iota. rewrite Hf.
  split; [reflexivity | discriminate]. Qed.
Lemma SubR_lp_err : forall d r, FilR (S d) r Err -> SubR d (TLP :: r) Err.
Proof. intros d r [f [Hf _]]. exists (S f). rewrite subexpr_S. cbv beta iota. rewrite Hf.
  split; [reflexivity | discriminate]. Qed.
Lemma SubR_lp_end : forall d r e, FilR (S d) r (Ok (e, [])) -> SubR d (TLP :: r) Err.
Proof. intros d r e [f [Hf _]]. exists (S f). rewrite subexpr_S. cbv beta iota. rewrite Hf.
  split; [reflexivity | discriminate]. Qed.
Lemma SubR_not_ok : forall d r c r', SubR d r (Ok (c, r')) -> SubR d (TNot :: r) (Ok (NotN c, r')).
Proof. intros d r c r' [f [Hf _]]. exists (S f). rewrite subexpr_S. cbv beta iota. rewrite Hf.
  split; [reflexivity | discriminate]. Qed.
Lemma SubR_not_err : forall d r, SubR d r Err -> SubR d (TNot :: r) Err.
Proof. intros d r [f [Hf _]]. exists (S f). rewrite subexpr_S. cbv beta iota. rewrite Hf.
  split; [reflexivity | discriminate]. Qed.
Lemma SubR_leaf : forall d n k r,
  SubR d (leaf_tok n (S k) :: r) (Ok (and_fold n (seq (S n) k), r)).
Proof. intros d n k r. exists 1. split; [| discriminate].
  destruct k; reflexivity. Qed.
Lemma FilR_ok : forall d ts c r res, SubR d ts (Ok (c, r)) -> LoopR d None c r res -> FilR d ts res.
Proof. intros d ts c r res [f1 [H1 N1]] [f2 [H2 N2]]. exists (S (Nat.max f1 f2)). rewrite filter_S.
  rewrite (sub_stable f1 (Nat.max f1 f2) d ts _ H1 N1) by lia.
  split; [apply (loop_stable f2); [exact H2 | exact N2 | lia] | exact N2]. Qed.
Lemma FilR_err : forall d ts, SubR d ts Err -> FilR d ts Err.
Proof. intros d ts [f [Hf _]]. exists (S f). rewrite filter_S. rewrite Hf.
  split; [reflexivity | discriminate]. Qed.
Lemma LoopR_and : forall d acc c r n r' res, SubR d r (Ok (n, r')) ->
  LoopR d acc (AndN c n) r' res -> LoopR d acc c (TAnd :: r) res.
Proof. intros d acc c r n r' res [f1 [H1 N1]] [f2 [H2 N2]]. exists (S (Nat.max f1 f2)).
  rewrite ploop_S. cbv beta iota.
  rewrite (sub_stable f1 (Nat.max f1 f2) d r _ H1 N1) by lia.
  split; [apply (loop_stable f2); [exact H2 | exact N2 | lia] | exact N2]. Qed.
Lemma LoopR_and_err : forall d acc c r, SubR d r Err -> LoopR d acc c (TAnd :: r) Err.
Proof. intros d acc c r [f [Hf _]]. exists (S f). rewrite ploop_S. cbv beta iota. rewrite Hf.
  split; [reflexivity | discriminate]. Qed.
Lemma LoopR_or : forall d acc c r n r' res, SubR d r (Ok (n, r')) ->
  LoopR d (Some (join_or acc c)) n r' res -> LoopR d acc c (TOr :: r) res.
Proof. intros d acc c r n r' res [f1 [H1 N1]] [f2 [H2 N2]]. exists (S (Nat.max f1 f2)).
  rewrite ploop_S. cbv beta iota.
  rewrite (sub_stable f1 (Nat.max f1 f2) d r _ H1 N1) by lia.
  split; [apply (loop_stable f2); [exact H2 | exact N2 | lia] | exact N2]. Qed.
Lemma LoopR_or_err : forall d acc c r, SubR d r Err -> LoopR d acc c (TOr :: r) Err.
Proof. intros d acc c r [f [Hf _]]. exists (S f). rewrite ploop_S. cbv beta iota. rewrite Hf.
  split; [reflexivity | discriminate]. Qed.
Lemma LoopR_nil : forall d acc c, LoopR d acc c [] (Ok (join_or acc c, [])).
Proof. intros. exists 1. split; [reflexivity | discriminate]. Qed.
Lemma LoopR_rp : forall d acc c r, 0 < d -> LoopR d acc c (TRP :: r) (Ok (join_or acc c, TRP :: r)).
Proof. intros d acc c r Hd. exists 1. split; [| discriminate]. rewrite ploop_S. cbv beta iota.
  destruct d; [lia | reflexivity]. Qed.

Lemma FilR_fuel_for : forall d ts r, FilR d ts r -> filter (fuel_for ts) d ts = r.
Proof.
  intros d ts r [f [Hf Hn]].
  destruct (Nat.le_ge_cases f (fuel_for ts)) as [Hle | Hge].
  - apply (fil_stable f); assumption.
  - destruct (mono_le (fuel_for ts) f Hge) as [_ [Mf _]].
    rewrite <- (Mf d ts (filter_fuel_for_total d ts)). exact Hf.
Qed.

Lemma rbind_ok : forall A B (m : R A) (f : A -> R B) x,
  rbind m f = ROk x -> exists a, m = ROk a /\ f a = ROk x.
Proof. intros A B m f x H. destruct m; simpl in H; try discriminate. eauto. Qed.

Section Refine.
  Variables is_space is_letter is_number : N -> bool.
  Variable to_lower : N -> N.
  Variable case_sensitive : bool.
  Variable ftype : bytes -> N.
  Variable data : runes.

  Notation L := (length data).
  Notation cur := (cur data).
  Notation eof := (eof data).
  Notation skip_sp := (skip_sp is_space data).
  Notation simple_term := (simple_term is_space data).
  Notation settled := (settled is_space data).
  Notation ltoks := (ltoks is_space is_letter is_number to_lower case_sensitive ftype data).
  (* the parser WITHOUT nesting limit and with an unbounded stack (the `_v0` semantics) *)
  Notation bsub := (bsub is_space is_letter is_number to_lower case_sensitive ftype None None data).
  Notation bexpr := (bexpr is_space is_letter is_number to_lower case_sensitive ftype None None data).
  Notation bloop := (bloop is_space is_letter is_number to_lower case_sensitive ftype None None data).
  Notation field_operand :=
    (field_operand is_space is_letter is_number to_lower case_sensitive ftype data).

  Notation err_unexpected := (Legacy.err_unexpected is_space data).

  Lemma bsub_S : forall f depth pos lv lvl, bsub (S f) depth pos lv lvl =
        if eof pos then RErr else
        do c <- cur pos;
        if N.eqb c 40 then
          do p1 <- skip_sp (S pos);
          do st <- bexpr f (S depth) p1 lv (S lvl);
          let '((e, lv2), p2) := st in
          if eof p2 then RErr else
          do c2 <- cur p2;
          if negb (N.eqb c2 41) then err_unexpected p2
          else do p3 <- skip_sp (S p2); ROk ((e, lv2), p3)
        else
          do st <- simple_term pos;
          let '(name, p1) := st in
          if eq_fold_ascii name kw_not_r then
            do st2 <- bsub f depth p1 lv (S lvl);
            let '((ch, lv2), p2) := st2 in
            ROk ((NotN ch, lv2), p2)
          else
            do st2 <- field_operand name p1 lv;
            let '((k, lv2), p2) := st2 in
            do e <- and_tree (length lv) k;
            ROk ((e, lv2), p2).
  Proof. reflexivity. Qed.

  Lemma bexpr_S : forall f depth pos lv lvl, bexpr (S f) depth pos lv lvl =
        do st <- bsub f depth pos lv lvl;
        let '((high, lv2), p) := st in
        bloop f depth None high p lv2 lvl.
  Proof. reflexivity. Qed.

  Lemma bloop_S : forall f depth low high pos lv lvl, bloop (S f) depth low high pos lv lvl =
        do st <- simple_term pos;
        let '(op, p1) := st in
        let lop := map to_lower op in
        if runes_eqb lop kw_and_r then
          do st2 <- bsub f depth p1 lv lvl;
          let '((rgt, lv2), p2) := st2 in
          bloop f depth low (AndN high rgt) p2 lv2 lvl
        else if runes_eqb lop kw_or_r then
          do st2 <- bsub f depth p1 lv lvl;
          let '((rgt, lv2), p2) := st2 in
          bloop f depth (Some (join_or low high)) rgt p2 lv2 lvl
        else
          match op with
          | [] =>
            do fin <- (if eof p1 then ROk true
                       else do c <- cur p1; ROk (N.eqb c 41 && Nat.ltb 0 depth));
            if fin then ROk ((join_or low high, lv), p1) else err_unexpected p1
          | _ => RErr
          end.
  Proof. reflexivity. Qed.

  Lemma skip_loop_ne : forall fuel pos, skip_loop is_space data fuel pos <> RErr.
  Proof.
    induction fuel as [|f IH]; intros pos; simpl; [discriminate|].
    destruct (eof pos); [discriminate|]. unfold Legacy.cur. destruct (nth_error data pos) as [a|]; simpl; try discriminate.
    destruct (is_space a); [apply IH | discriminate].
  Qed.
  Lemma word_loop_ne : forall fuel pos, word_loop is_space data fuel pos <> RErr.
  Proof.
    induction fuel as [|f IH]; intros pos; simpl; [discriminate|].
    destruct (eof pos); [discriminate|]. unfold Legacy.cur. destruct (nth_error data pos) as [a|]; simpl; try discriminate.
    destruct (is_space a || special a); [discriminate | apply IH].
  Qed.
  Lemma simple_term_ne : forall pos, simple_term pos <> RErr.
  Proof.
    intros pos. unfold Legacy.simple_term.
    pose proof (word_loop_ne (lfuel data pos) pos) as H1.
    destruct (word_loop is_space data (lfuel data pos) pos) as [fin| | |]; simpl; try discriminate;
      try congruence.
    pose proof (skip_loop_ne (lfuel data fin) fin) as H2. unfold Legacy.skip_sp.
    destruct (skip_loop is_space data (lfuel data fin) fin) as [p| | |]; simpl; try discriminate;
      try congruence.
    unfold slice. destruct (Nat.leb pos fin && Nat.leb fin (length data)); simpl; discriminate.
  Qed.

  Lemma simple_term_spec : forall pos, pos <= L ->
    exists w p, simple_term pos = ROk (w, p) /\ simple_post is_space data pos (w, p).
  Proof.
    intros pos Hle. pose proof (simple_term_ok is_space data pos Hle) as H.
    pose proof (simple_term_ne pos) as Hne.
    destruct (simple_term pos) as [[w p]| | |]; simpl in H; try contradiction; try congruence; eauto.
  Qed.

  (* at the end of input, or on a special symbol while settled: the empty word, pos unchanged *)
  Lemma simple_term_stop : forall pos, pos <= L -> settled pos ->
    (eof pos = true \/ exists c, nth_error data pos = Some c /\ special c = true) ->
    simple_term pos = ROk ([], pos).
  Proof.
    intros pos Hle Hs Hc. destruct (simple_term_spec pos Hle) as [w [p [Hst [Hp [Hsp [Hnil Hstop]]]]]].
    assert (w = []).
    { destruct Hc as [He | [c [Hn Hspc]]].
      - apply eof_true in He. destruct w; [reflexivity | simpl in Hp; lia].
      - apply (Hstop c Hn). rewrite Hspc. apply Bool.orb_true_r. }
    subst w. rewrite (Hnil eq_refl Hs) in Hst. exact Hst.
  Qed.

  Definition at_end (d p : nat) : Prop := eof p = true \/ (cur p = ROk 41%N /\ 0 < d).

  Definition ref_rel (d : nat) (lvf : list ltoken) (r : R ((ast * list ltoken) * nat))
             (Rel : res (ast * list tok) -> Prop) (extra : nat -> Prop) : Prop :=
    match r with
    | ROk ((e, lv'), p') =>
        exists F' ts2, ltoks F' d false p' lv' = ROk (ts2, lvf) /\ Rel (Ok (e, ts2)) /\
                       p' <= L /\ settled p' /\ extra p'
    | RErr => Rel Err
    | _ => True
    end.

  Lemma ref_all : forall f,
    (forall d pos lv lvl F ts lvf, pos <= L -> settled pos ->
       ltoks F d true pos lv = ROk (ts, lvf) ->
       ref_rel d lvf (bsub f d pos lv lvl) (SubR d ts) (fun _ => True)) /\
    (forall d pos lv lvl F ts lvf, pos <= L -> settled pos ->
       ltoks F d true pos lv = ROk (ts, lvf) ->
       ref_rel d lvf (bexpr f d pos lv lvl) (FilR d ts) (at_end d)) /\
    (forall d low high pos lv lvl F ts lvf, pos <= L -> settled pos ->
       ltoks F d false pos lv = ROk (ts, lvf) ->
       ref_rel d lvf (bloop f d low high pos lv lvl) (LoopR d low high ts) (at_end d)).
  Proof.
    induction f as [|f [IHs [IHe IHl]]].
    { repeat split; intros; exact I. }
    split; [| split].
    - (* parseSubexpr *)
      intros d pos lv lvl F ts lvf Hle Hs H.
      destruct F as [|F0]; [discriminate|]. cbn [Legacy.ltoks] in H. rewrite bsub_S. revert H.
      destruct (eof pos) eqn:E.
      { intros H. inversion H; subst. apply SubR_nil. }
      pose proof (eof_false data _ E Hle) as Hlt. destruct (cur_ok data _ Hlt) as [c [Hc Hn]].
      rewrite Hc. cbn [rbind]. destruct (N.eqb c 40) eqn:E40.
      { pose proof (skip_sp_ok is_space data (S pos) Hlt) as Hsk.
        destruct (skip_sp (S pos)) as [p1| | |]; cbn [rbind]; simpl in Hsk; try discriminate;
          try contradiction.
        destruct Hsk as [Hp1 [Hs1 _]].
        intros H. apply rbind_ok in H as [[ts' lvf'] [H1 H2]]. simpl in H2. inversion H2; subst.
        assert (Hp1' : p1 <= L) by lia.
        specialize (IHe (S d) p1 lv (S lvl) F0 ts' lvf Hp1' Hs1 H1).
        destruct (bexpr f (S d) p1 lv (S lvl)) as [[[e lv2] p2]| | |]; cbn [rbind]; simpl in IHe;
          [| apply SubR_lp_err; exact IHe | exact I | exact I].
        destruct IHe as [F' [ts2 [Ht [Hrel [Hp2 [Hs2 Hend]]]]]].
        destruct F' as [|F1]; [discriminate|]. cbn [Legacy.ltoks] in Ht.
        destruct (eof p2) eqn:E2.
        { rewrite (simple_term_stop p2 Hp2 Hs2 (or_introl E2)) in Ht.
          cbn [rbind map runes_eqb kw_and_r kw_or_r] in Ht.
          rewrite E2 in Ht. inversion Ht; subst. simpl. eapply SubR_lp_end. exact Hrel. }
        assert (Hlt2 : p2 < L) by (apply eof_false; assumption).
        destruct (cur_ok data _ Hlt2) as [c2 [Hc2 Hn2]]. rewrite Hc2. cbn [rbind].
        destruct (N.eqb c2 41) eqn:E41; cbn [negb].
        2:{ exfalso. destruct Hend as [He | [Hc41 _]]; [congruence|].
            rewrite Hc2 in Hc41. inversion Hc41; subst. discriminate. }
        apply N.eqb_eq in E41. subst c2.
        rewrite (simple_term_stop p2 Hp2 Hs2) in Ht by (right; exists 41%N; split; [exact Hn2 | reflexivity]).
        cbn [rbind map runes_eqb kw_and_r kw_or_r] in Ht. rewrite E2, Hc2 in Ht. cbn [rbind] in Ht.
        assert (Hx : (N.eqb 41 41 && Nat.ltb 0 (S d)) = true) by reflexivity. rewrite Hx in Ht.
        pose proof (skip_sp_ok is_space data (S p2) Hlt2) as Hsk3.
        revert Ht.
        destruct (skip_sp (S p2)) as [p3| | |]; cbn [rbind]; simpl in Hsk3; try discriminate;
          try contradiction.
        destruct Hsk3 as [Hp3 [Hs3 _]]. intros Ht.
        apply rbind_ok in Ht as [[ts3 lvf3] [Ht1 Ht2]]. simpl in Ht2. inversion Ht2; subst.
        simpl. exists F1, ts3. split; [exact Ht1|]. split; [apply SubR_lp_ok; exact Hrel|].
        repeat split; auto; lia. }
      destruct (simple_term_spec pos Hle) as [name [p1 [Hst [Hp1 [Hs1 [Hnil _]]]]]].
      rewrite Hst. cbn [rbind]. destruct (eq_fold_ascii name kw_not_r) eqn:En.
      { intros H. apply rbind_ok in H as [[ts' lvf'] [H1 H2]]. simpl in H2. inversion H2; subst.
        assert (Hp1' : p1 <= L) by lia.
        specialize (IHs d p1 lv (S lvl) F0 ts' lvf Hp1' Hs1 H1).
        destruct (bsub f d p1 lv (S lvl)) as [[[ch lv2] p2]| | |]; cbn [rbind]; simpl in IHs;
          [| apply SubR_not_err; exact IHs | exact I | exact I].
        destruct IHs as [F' [ts2 [Ht [Hrel [Hp2 [Hs2 _]]]]]].
        simpl. exists F', ts2. repeat split; auto. apply SubR_not_ok. exact Hrel. }
      assert (Hfo : wp (field_operand name p1 lv)
                       (fun x => p1 < snd x <= L /\ settled (snd x) /\ fst (fst x) <> 0)).
      { apply field_operand_ok; [lia | intros Hn0; rewrite (Hnil Hn0 Hs); exact Hlt]. }
      destruct (field_operand name p1 lv) as [[[k lv2] p2]| | |]; cbn [rbind]; simpl in Hfo;
        try discriminate; try contradiction.
      destruct Hfo as [Hp2 [Hs2 Hk]]. destruct k; [congruence|]. cbn [and_tree rbind].
      intros H. apply rbind_ok in H as [[ts2 lvf2] [H1 H2]]. simpl in H2. inversion H2; subst.
      simpl. exists F0, ts2. repeat split; auto; [| lia]. apply SubR_leaf.
    - (* parseExpr *)
      intros d pos lv lvl F ts lvf Hle Hs H. rewrite bexpr_S.
      specialize (IHs d pos lv lvl F ts lvf Hle Hs H).
      destruct (bsub f d pos lv lvl) as [[[high lv2] p]| | |]; cbn [rbind]; simpl in IHs;
        [| apply FilR_err; exact IHs | exact I | exact I].
      destruct IHs as [F' [ts2 [Ht [Hrel [Hp [Hs2 _]]]]]].
      specialize (IHl d None high p lv2 lvl F' ts2 lvf Hp Hs2 Ht).
      destruct (bloop f d None high p lv2 lvl) as [[[e lv3] p3]| | |]; simpl in *; auto.
      + destruct IHl as [F'' [ts3 [Ht3 [Hrel3 Hrest]]]]. exists F'', ts3. repeat split; try tauto.
        eapply FilR_ok; eassumption.
      + eapply FilR_ok; eassumption.
    - (* the loop of parseExpr *)
      intros d low high pos lv lvl F ts lvf Hle Hs H0. pose proof H0 as H.
      destruct F as [|F0]; [discriminate|]. cbn [Legacy.ltoks] in H. rewrite bloop_S. revert H.
      destruct (simple_term_spec pos Hle) as [op [p1 [Hst [Hp1 [Hs1 [Hnil _]]]]]].
      rewrite Hst. cbn [rbind]. cbv zeta.
      destruct (runes_eqb (map to_lower op) kw_and_r) eqn:Ea.
      { intros H. apply rbind_ok in H as [[ts' lvf'] [H1 H2]]. simpl in H2. inversion H2; subst.
        assert (Hp1' : p1 <= L) by lia.
        specialize (IHs d p1 lv lvl F0 ts' lvf Hp1' Hs1 H1).
        destruct (bsub f d p1 lv lvl) as [[[rgt lv2] p2]| | |]; cbn [rbind]; simpl in IHs;
          [| apply LoopR_and_err; exact IHs | exact I | exact I].
        destruct IHs as [F' [ts2 [Ht [Hrel [Hp2 [Hs2 _]]]]]].
        specialize (IHl d low (AndN high rgt) p2 lv2 lvl F' ts2 lvf Hp2 Hs2 Ht).
        destruct (bloop f d low (AndN high rgt) p2 lv2 lvl) as [[[e lv3] p3]| | |]; simpl in *; auto.
        + destruct IHl as [F'' [ts3 [Ht3 [Hrel3 Hrest]]]]. exists F'', ts3. repeat split; try tauto.
          eapply LoopR_and; eassumption.
        + eapply LoopR_and; eassumption. }
      destruct (runes_eqb (map to_lower op) kw_or_r) eqn:Eo.
      { intros H. apply rbind_ok in H as [[ts' lvf'] [H1 H2]]. simpl in H2. inversion H2; subst.
        assert (Hp1' : p1 <= L) by lia.
        specialize (IHs d p1 lv lvl F0 ts' lvf Hp1' Hs1 H1).
        destruct (bsub f d p1 lv lvl) as [[[rgt lv2] p2]| | |]; cbn [rbind]; simpl in IHs;
          [| apply LoopR_or_err; exact IHs | exact I | exact I].
        destruct IHs as [F' [ts2 [Ht [Hrel [Hp2 [Hs2 _]]]]]].
        specialize (IHl d (Some (join_or low high)) rgt p2 lv2 lvl F' ts2 lvf Hp2 Hs2 Ht).
        destruct (bloop f d (Some (join_or low high)) rgt p2 lv2 lvl) as [[[e lv3] p3]| | |];
          simpl in *; auto.
        + destruct IHl as [F'' [ts3 [Ht3 [Hrel3 Hrest]]]]. exists F'', ts3. repeat split; try tauto.
          eapply LoopR_or; eassumption.
        + eapply LoopR_or; eassumption. }
      destruct op as [|o op]; [| intros H; discriminate].
      assert (p1 = pos) by (apply Hnil; [reflexivity | exact Hs]). subst p1.
      destruct (eof pos) eqn:E1.
      { intros H. inversion H; subst. simpl. exists (S F0), []. repeat split; auto.
        - apply LoopR_nil.
        - left. exact E1. }
      assert (Hlt1 : pos < L) by (apply eof_false; assumption).
      destruct (cur_ok data _ Hlt1) as [c [Hc Hn]]. rewrite Hc. cbn [rbind].
      destruct (N.eqb c 41 && Nat.ltb 0 d) eqn:Ec.
      + intros H. apply Bool.andb_true_iff in Ec as [Ec1 Ec2].
        apply N.eqb_eq in Ec1. subst c. apply Nat.ltb_lt in Ec2.
        apply rbind_ok in H as [p2 [Hk H]]. apply rbind_ok in H as [[ts' lvf'] [H1 H2]].
        simpl in H2. inversion H2; subst.
        simpl. exists (S F0), (TRP :: ts'). repeat split; auto.
        * apply LoopR_rp. exact Ec2.
        * right. split; [exact Hc | exact Ec2].
      + rewrite (err_unexpected_ok is_space data _ pos Hlt1). intros H. discriminate.
  Qed.
End Refine.

(* ---------------------------------------------------------------- limit vs no limit *)
(* the parser with a nesting limit / a finite stack either stops early (error at the limit, or the
   stack overflow) or computes exactly what the unlimited parser computes *)
Definition lim_rel {A} (r r0 : R A) : Prop := r = RErr \/ r = RPanic \/ r = r0.
Lemma lim_refl : forall A (m : R A), lim_rel m m.
Proof. intros. right. right. reflexivity. Qed.
Lemma lim_bind : forall A B (m m0 : R A) (f f0 : A -> R B),
  lim_rel m m0 -> (forall a, lim_rel (f a) (f0 a)) -> lim_rel (rbind m f) (rbind m0 f0).
Proof.
  intros A B m m0 f f0 [H | [H | H]] Hf; subst; simpl; unfold lim_rel; auto.
  destruct m0; simpl; auto. apply Hf.
Qed.

Section LimRel.
  Variables is_space is_letter is_number : N -> bool.
  Variable to_lower : N -> N.
  Variable case_sensitive : bool.
  Variable ftype : bytes -> N.
  Variables maxd stack : option nat.
  Variable data : runes.
  Notation cur := (cur data).
  Notation eof := (eof data).
  Notation skip_sp := (skip_sp is_space data).
  Notation simple_term := (simple_term is_space data).
  Notation err_unexpected := (Legacy.err_unexpected is_space data).
  Notation field_operand :=
    (field_operand is_space is_letter is_number to_lower case_sensitive ftype data).
  Notation gsub := (bsub is_space is_letter is_number to_lower case_sensitive ftype maxd stack data).
  Notation gexpr := (bexpr is_space is_letter is_number to_lower case_sensitive ftype maxd stack data).
  Notation gloop := (bloop is_space is_letter is_number to_lower case_sensitive ftype maxd stack data).
  Notation bsub := (bsub is_space is_letter is_number to_lower case_sensitive ftype None None data).
  Notation bexpr := (bexpr is_space is_letter is_number to_lower case_sensitive ftype None None data).
  Notation bloop := (bloop is_space is_letter is_number to_lower case_sensitive ftype None None data).

  Lemma bsub_Sg : forall f depth pos lv lvl, gsub (S f) depth pos lv lvl =
        if over stack (S lvl) then RPanic else
        if over maxd (S lvl) then RErr else
        if eof pos then RErr else
        do c <- cur pos;
        if N.eqb c 40 then
          do p1 <- skip_sp (S pos);
          do st <- gexpr f (S depth) p1 lv (S lvl);
          let '((e, lv2), p2) := st in
          if eof p2 then RErr else
          do c2 <- cur p2;
          if negb (N.eqb c2 41) then err_unexpected p2
          else do p3 <- skip_sp (S p2); ROk ((e, lv2), p3)
        else
          do st <- simple_term pos;
          let '(name, p1) := st in
          if eq_fold_ascii name kw_not_r then
            do st2 <- gsub f depth p1 lv (S lvl);
            let '((ch, lv2), p2) := st2 in
            ROk ((NotN ch, lv2), p2)
          else
            do st2 <- field_operand name p1 lv;
            let '((k, lv2), p2) := st2 in
            do e <- and_tree (length lv) k;
            ROk ((e, lv2), p2).
  Proof. reflexivity. Qed.

  Lemma bexpr_Sg : forall f depth pos lv lvl, gexpr (S f) depth pos lv lvl =
        do st <- gsub f depth pos lv lvl;
        let '((high, lv2), p) := st in
        gloop f depth None high p lv2 lvl.
  Proof. reflexivity. Qed.

  Lemma bloop_Sg : forall f depth low high pos lv lvl, gloop (S f) depth low high pos lv lvl =
        do st <- simple_term pos;
        let '(op, p1) := st in
        let lop := map to_lower op in
        if runes_eqb lop kw_and_r then
          do st2 <- gsub f depth p1 lv lvl;
          let '((rgt, lv2), p2) := st2 in
          gloop f depth low (AndN high rgt) p2 lv2 lvl
        else if runes_eqb lop kw_or_r then
          do st2 <- gsub f depth p1 lv lvl;
          let '((rgt, lv2), p2) := st2 in
          gloop f depth (Some (join_or low high)) rgt p2 lv2 lvl
        else
          match op with
          | [] =>
            do fin <- (if eof p1 then ROk true
                       else do c <- cur p1; ROk (N.eqb c 41 && Nat.ltb 0 depth));
            if fin then ROk ((join_or low high, lv), p1) else err_unexpected p1
          | _ => RErr
          end.
  Proof. reflexivity. Qed.


  Lemma lim_all : forall f,
    (forall d pos lv lvl lvl0, lim_rel (gsub f d pos lv lvl) (bsub f d pos lv lvl0)) /\
    (forall d pos lv lvl lvl0, lim_rel (gexpr f d pos lv lvl) (bexpr f d pos lv lvl0)) /\
    (forall d low high pos lv lvl lvl0,
       lim_rel (gloop f d low high pos lv lvl) (bloop f d low high pos lv lvl0)).
  Proof.
    induction f as [|f [IHs [IHe IHl]]].
    { repeat split; intros; apply lim_refl. }
    split; [| split].
    - intros d pos lv lvl lvl0. rewrite bsub_Sg.
      rewrite (bsub_S is_space is_letter is_number to_lower case_sensitive ftype data).
      destruct (over stack (S lvl)); [right; left; reflexivity|].
      destruct (over maxd (S lvl)); [left; reflexivity|].
      destruct (eof pos); [apply lim_refl|].
      apply lim_bind; [apply lim_refl | intros c].
      destruct (N.eqb c 40).
      { apply lim_bind; [apply lim_refl | intros p1].
        apply lim_bind; [apply IHe | intros [[e lv2] p2]; apply lim_refl]. }
      apply lim_bind; [apply lim_refl | intros [name p1]].
      destruct (eq_fold_ascii name kw_not_r); [| apply lim_refl].
      apply lim_bind; [apply IHs | intros [[ch lv2] p2]; apply lim_refl].
    - intros d pos lv lvl lvl0. rewrite bexpr_Sg.
      rewrite (bexpr_S is_space is_letter is_number to_lower case_sensitive ftype data).
      apply lim_bind; [apply IHs | intros [[high lv2] p]; apply IHl].
    - intros d low high pos lv lvl lvl0. rewrite bloop_Sg.
      rewrite (bloop_S is_space is_letter is_number to_lower case_sensitive ftype data).
      apply lim_bind; [apply lim_refl | intros [op p1]]. cbv zeta.
      destruct (runes_eqb (map to_lower op) kw_and_r).
      { apply lim_bind; [apply IHs | intros [[rgt lv2] p2]; apply IHl]. }
      destruct (runes_eqb (map to_lower op) kw_or_r).
      { apply lim_bind; [apply IHs | intros [[rgt lv2] p2]; apply IHl]. }
      apply lim_refl.
  Qed.

  (* ---------------------------------------------------------------- the level is the nesting *)
  Notation ssub := (ssub is_space is_letter is_number to_lower case_sensitive ftype maxd stack data false).
  Notation sexpr := (sexpr is_space is_letter is_number to_lower case_sensitive ftype maxd stack data false).
  Notation sloop := (sloop is_space is_letter is_number to_lower case_sensitive ftype maxd stack data false).

  Lemma ssub_S : forall f depth pos lv lvl, ssub (S f) depth pos lv lvl =
        if over stack (S lvl) then RPanic else
        if over maxd (S lvl) then RErr else
        if eof pos then RErr else
        do c <- cur pos;
        if N.eqb c 40 then
          do p1 <- skip_sp (S pos);
          do st <- sexpr f (S depth) p1 lv (S lvl);
          let '(((e, lv2), p2), l2) := st in
          if eof p2 then RErr else
          do c2 <- cur p2;
          if negb (N.eqb c2 41) then err_unexpected p2
          else do p3 <- skip_sp (S p2); ROk (((e, lv2), p3), pred l2)
        else
          do st <- simple_term pos;
          let '(name, p1) := st in
          if eq_fold_ascii name kw_not_r then
            do st2 <- ssub f depth p1 lv (S lvl);
            let '(((ch, lv2), p2), l2) := st2 in
            ROk (((NotN ch, lv2), p2), pred l2)
          else
            do st2 <- field_operand name p1 lv;
            let '((k, lv2), p2) := st2 in
            do e <- and_tree (length lv) k;
            ROk (((e, lv2), p2), lvl).
  Proof. reflexivity. Qed.

  Lemma sexpr_S : forall f depth pos lv lvl, sexpr (S f) depth pos lv lvl =
        do st <- ssub f depth pos lv lvl;
        let '(((high, lv2), p), l1) := st in
        sloop f depth None high p lv2 l1.
  Proof. reflexivity. Qed.

  Lemma sloop_S : forall f depth low high pos lv lvl, sloop (S f) depth low high pos lv lvl =
        do st <- simple_term pos;
        let '(op, p1) := st in
        let lop := map to_lower op in
        if runes_eqb lop kw_and_r then
          do st2 <- ssub f depth p1 lv lvl;
          let '(((rgt, lv2), p2), l2) := st2 in
          sloop f depth low (AndN high rgt) p2 lv2 l2
        else if runes_eqb lop kw_or_r then
          do st2 <- ssub f depth p1 lv lvl;
          let '(((rgt, lv2), p2), l2) := st2 in
          sloop f depth (Some (join_or low high)) rgt p2 lv2 l2
        else
          match op with
          | [] =>
            do fin <- (if eof p1 then ROk true
                       else do c <- cur p1; ROk (N.eqb c 41 && Nat.ltb 0 depth));
            if fin then ROk (((join_or low high, lv), p1), lvl) else err_unexpected p1
          | _ => RErr
          end.
  Proof. reflexivity. Qed.

  (* the result of the nesting-parameter model, with the level the state is left at *)
  Definition tag {A} (lvl : nat) (r : R A) : R (A * nat) := do x <- r; ROk (x, lvl).

  Lemma err_unexpected_bind : forall A B p (f : A -> R B),
    rbind (err_unexpected p) f = err_unexpected p.
  Proof.
    intros A B p f. unfold Legacy.err_unexpected.
    destruct (simple_term p) as [[w p']| | |]; cbn [rbind]; try reflexivity.
    destruct w; cbn [rbind]; try reflexivity.
    destruct (cur p); reflexivity.
  Qed.

  (* qp.level kept as state and restored on every return = the level passed down as the nesting
     (one more per enclosing `(` / NOT): the level at which a sub-expression is parsed does not depend
     on what was parsed before it, and each function leaves the level as it found it *)
  Lemma st_all : forall f,
    (forall d pos lv lvl, ssub f d pos lv lvl = tag lvl (gsub f d pos lv lvl)) /\
    (forall d pos lv lvl, sexpr f d pos lv lvl = tag lvl (gexpr f d pos lv lvl)) /\
    (forall d low high pos lv lvl,
       sloop f d low high pos lv lvl = tag lvl (gloop f d low high pos lv lvl)).
  Proof.
    induction f as [|f [IHs [IHe IHl]]].
    { repeat split; intros; reflexivity. }
    split; [| split].
    - intros d pos lv lvl. rewrite ssub_S, bsub_Sg. unfold tag.
      destruct (over stack (S lvl)); [reflexivity|].
      destruct (over maxd (S lvl)); [reflexivity|].
      destruct (eof pos); [reflexivity|].
      destruct (cur pos) as [c| | |]; cbn [rbind]; try reflexivity.
      destruct (N.eqb c 40).
      { destruct (skip_sp (S pos)) as [p1| | |]; cbn [rbind]; try reflexivity.
        rewrite IHe. unfold tag.
        destruct (gexpr f (S d) p1 lv (S lvl)) as [[[e lv2] p2]| | |]; cbn [rbind]; try reflexivity.
        destruct (eof p2); [reflexivity|].
        destruct (cur p2) as [c2| | |]; cbn [rbind]; try reflexivity.
        destruct (negb (N.eqb c2 41)); [rewrite err_unexpected_bind; reflexivity|].
        destruct (skip_sp (S p2)) as [p3| | |]; cbn [rbind]; reflexivity. }
      destruct (simple_term pos) as [[name p1]| | |]; cbn [rbind]; try reflexivity.
      destruct (eq_fold_ascii name kw_not_r).
      { rewrite IHs. unfold tag.
        destruct (gsub f d p1 lv (S lvl)) as [[[ch lv2] p2]| | |]; cbn [rbind]; reflexivity. }
      destruct (field_operand name p1 lv) as [[[k lv2] p2]| | |]; cbn [rbind]; try reflexivity.
      destruct (and_tree (length lv) k); cbn [rbind]; reflexivity.
    - intros d pos lv lvl. rewrite sexpr_S, bexpr_Sg. rewrite IHs. unfold tag.
      destruct (gsub f d pos lv lvl) as [[[high lv2] p]| | |]; cbn [rbind]; try reflexivity.
      rewrite IHl. reflexivity.
    - intros d low high pos lv lvl. rewrite sloop_S, bloop_Sg.
      destruct (simple_term pos) as [[op p1]| | |]; cbn [rbind]; try reflexivity.
      cbv zeta.
      destruct (runes_eqb (map to_lower op) kw_and_r).
      { rewrite IHs. unfold tag.
        destruct (gsub f d p1 lv lvl) as [[[rgt lv2] p2]| | |]; cbn [rbind]; try reflexivity.
        rewrite IHl. reflexivity. }
      destruct (runes_eqb (map to_lower op) kw_or_r).
      { rewrite IHs. unfold tag.
        destruct (gsub f d p1 lv lvl) as [[[rgt lv2] p2]| | |]; cbn [rbind]; try reflexivity.
        rewrite IHl. reflexivity. }
      destruct op; [| reflexivity].
      unfold tag.
      destruct (eof p1); cbn [rbind].
      + reflexivity.
      + destruct (cur p1) as [c| | |]; cbn [rbind]; try reflexivity.
        destruct (N.eqb c 41 && Nat.ltb 0 d); [reflexivity|].
        rewrite err_unexpected_bind. reflexivity.
  Qed.
End LimRel.

Lemma legacy_limit_or_v0 :
  forall (is_space is_letter is_number : N -> bool) (to_lower : N -> N) (case_sensitive : bool)
         (ftype : bytes -> N) (maxd : option nat) (q : bytes),
    legacy_parse is_space is_letter is_number to_lower case_sensitive ftype maxd None q = RErr \/
    legacy_parse is_space is_letter is_number to_lower case_sensitive ftype maxd None q
    = legacy_parse is_space is_letter is_number to_lower case_sensitive ftype None None q.
Proof.
  intros. unfold legacy_parse. destruct (runes_of q) as [data| | |]; cbn [rbind]; auto.
  unfold build_ast.
  pose proof (skip_sp_ok is_space data 0 (Nat.le_0_l _)) as Hsk.
  destruct (skip_sp is_space data 0) as [p0| | |]; cbn [rbind]; auto.
  simpl in Hsk. destruct Hsk as [Hp0 [Hs0 _]].
  destruct (lim_all is_space is_letter is_number to_lower case_sensitive ftype maxd None data
                    (pfuel data)) as [_ [He _]].
  destruct (He 0 p0 [] 0 0) as [H | [H | H]]; rewrite H; cbn [rbind].
  - left. reflexivity.
  - exfalso.
    destruct (parse_all is_space is_letter is_number to_lower case_sensitive ftype maxd None
                        (stack_ok_none maxd) data (pfuel data)) as [_ [Ht _]].
    assert (Hw : wp (bexpr is_space is_letter is_number to_lower case_sensitive ftype maxd None data
                           (pfuel data) 0 p0 [] 0) (fun _ => True)).
    { eapply wp_mono; [apply Ht; [lia | exact Hs0 | unfold pfuel; lia | apply lvl_inv_0] |].
      intros; exact I. }
    rewrite H in Hw. exact Hw.
  - right. reflexivity.
Qed.

Lemma legacy_refines :
  forall (is_space is_letter is_number : N -> bool) (to_lower : N -> N) (case_sensitive : bool)
         (ftype : bytes -> N) (q : bytes) ts lv,
    legacy_lex is_space is_letter is_number to_lower case_sensitive ftype q = ROk (ts, lv) ->
    legacy_parse is_space is_letter is_number to_lower case_sensitive ftype None None q
    = match parse ts with Ok a => ROk (a, lv) | Err => RErr | OutOfFuel => RFuel end.
Proof.
  intros is_space is_letter is_number to_lower cs ftype q ts lv H.
  unfold legacy_lex, legacy_parse in *.
  destruct (runes_of q) as [data| | |]; cbn [rbind] in *; try discriminate.
  unfold legacy_tokens in H. unfold build_ast.
  pose proof (skip_sp_ok is_space data 0 (Nat.le_0_l _)) as Hsk.
  destruct (skip_sp is_space data 0) as [p0| | |]; cbn [rbind] in *; simpl in Hsk; try discriminate.
  destruct Hsk as [Hp0 [Hs0 _]]. assert (Hp0' : p0 <= length data) by lia.
  destruct (ref_all is_space is_letter is_number to_lower cs ftype data (pfuel data)) as [_ [He _]].
  specialize (He 0 p0 [] 0 (pfuel data) ts lv Hp0' Hs0 H).
  destruct (parse_all is_space is_letter is_number to_lower cs ftype None None (stack_ok_none None) data (pfuel data)) as [_ [Ht _]].
  assert (Hfuel : 2 * (length data - p0) + 2 <= pfuel data) by (unfold pfuel; lia).
  specialize (Ht 0 p0 [] 0 Hp0' Hs0 Hfuel (lvl_inv_0 None)).
  destruct (bexpr is_space is_letter is_number to_lower cs ftype None None data (pfuel data) 0 p0 [] 0)
    as [[[e lv'] p]| | |]; cbn [rbind]; simpl in He, Ht; try contradiction.
  - destruct He as [F' [ts2 [Hl [Hrel [Hp [Hs Hend]]]]]].
    destruct Hend as [Heof | [_ Hd]]; [| lia].
    destruct F' as [|F1]; [discriminate|]. cbn [Legacy.ltoks] in Hl.
    rewrite (simple_term_stop is_space data p Hp Hs (or_introl Heof)) in Hl.
    cbn [rbind map runes_eqb kw_and_r kw_or_r] in Hl. rewrite Heof in Hl. inversion Hl; subst.
    apply FilR_fuel_for in Hrel. unfold parse, parse_raw. rewrite Hrel. reflexivity.
  - apply FilR_fuel_for in He. unfold parse, parse_raw. rewrite He. reflexivity.
Qed.

(* hence the denotation theorem of the token level applies to raw legacy strings *)
Lemma legacy_raw_denotes :
  forall (is_space is_letter is_number : N -> bool) (to_lower : N -> N) (case_sensitive : bool)
         (ftype : bytes -> N) (q : bytes) e lv,
    legacy_lex is_space is_letter is_number to_lower case_sensitive ftype q = ROk (render_min e, lv) ->
    exists t, legacy_parse is_space is_letter is_number to_lower case_sensitive ftype None None q
              = ROk (t, lv)
              /\ forall v, eval v t = den v e.
Proof.
  intros is_space is_letter is_number to_lower cs ftype q e lv H.
  destruct (parse_denotes_min e) as [t [Hp [Hd _]]].
  exists t. split; [| exact Hd]. rewrite (legacy_refines _ _ _ _ _ _ _ _ _ H). rewrite Hp. reflexivity.
Qed.

(* ParseQuery with qp.level as restored state = ParseQuery with the level as nesting parameter *)
Lemma legacy_level_is_nesting :
  forall (is_space is_letter is_number : N -> bool) (to_lower : N -> N) (case_sensitive : bool)
         (ftype : bytes -> N) (maxd stack : option nat) (q : bytes),
    legacy_parse_st is_space is_letter is_number to_lower case_sensitive ftype maxd stack false q
    = legacy_parse is_space is_letter is_number to_lower case_sensitive ftype maxd stack q.
Proof.
  intros. unfold legacy_parse_st, legacy_parse.
  destruct (runes_of q) as [data| | |]; cbn [rbind]; try reflexivity.
  unfold build_ast_st, build_ast.
  destruct (skip_sp is_space data 0) as [p0| | |]; cbn [rbind]; try reflexivity.
  destruct (st_all is_space is_letter is_number to_lower case_sensitive ftype maxd stack data
                   (pfuel data)) as [_ [He _]].
  rewrite He. unfold tag.
  destruct (bexpr is_space is_letter is_number to_lower case_sensitive ftype maxd stack data
                  (pfuel data) 0 p0 [] 0) as [[[e lv] p]| | |]; reflexivity.
Qed.
