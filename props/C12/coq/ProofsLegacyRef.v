(* C12 stage 3 — the legacy tokenizer refines to the token-level parser of Model.v:
   on every input the tokenizer accepts, ParseQuery (rune-level model) = parse (token list). *)
From Coq Require Import Lia.
From C12 Require Import Model Lexer Legacy Proofs ProofsLexer ProofsLegacy.

(* fuel-free "runs to r" relations of the token-level parser (r is not OutOfFuel) *)
Definition SubR (d : nat) (ts : list tok) (r : res (ast * list tok)) : Prop :=
  exists f, subexpr f d ts = r /\ r <> OutOfFuel.
Definition FilR (d : nat) (ts : list tok) (r : res (ast * list tok)) : Prop :=
  exists f, filter f d ts = r /\ r <> OutOfFuel.
Definition LoopR (d : nat) (acc : option ast) (cur : ast) (ts : list tok)
           (r : res (ast * list tok)) : Prop :=
  exists f, ploop f d acc cur ts = r /\ r <> OutOfFuel.

Lemma sub_stable : forall f f' d ts r, subexpr f d ts = r -> r <> OutOfFuel -> f <= f' ->
  subexpr f' d ts = r.
Proof. intros f f' d ts r H Hn Hle. destruct (mono_le f f' Hle) as [Hs _].
  rewrite Hs; [exact H | rewrite H; exact Hn]. Qed.
Lemma fil_stable : forall f f' d ts r, filter f d ts = r -> r <> OutOfFuel -> f <= f' ->
  filter f' d ts = r.
Proof. intros f f' d ts r H Hn Hle. destruct (mono_le f f' Hle) as [_ [Hs _]].
  rewrite Hs; [exact H | rewrite H; exact Hn]. Qed.
Lemma loop_stable : forall f f' d acc c ts r, ploop f d acc c ts = r -> r <> OutOfFuel -> f <= f' ->
  ploop f' d acc c ts = r.
Proof. intros f f' d acc c ts r H Hn Hle. destruct (mono_le f f' Hle) as [_ [_ Hs]].
  rewrite Hs; [exact H | rewrite H; exact Hn]. Qed.

Lemma SubR_nil : forall d, SubR d [] Err.
Proof. intros d. exists 1. split; [reflexivity | discriminate]. Qed.
Lemma SubR_lp_ok : forall d r e r', FilR (S d) r (Ok (e, TRP :: r')) -> SubR d (TLP :: r) (Ok (e, r')).
Proof. intros d r e r' [f [Hf _]]. exists (S f). rewrite subexpr_S. cbv beta iota. rewrite Hf.
  split; [reflexivity | discriminate]. Qed.
Lemma SubR_lp_err : forall d r, FilR (S d) r Err -> SubR d (TLP :: r) Err.
Proof. intros d r [f [Hf _]]. exists (S f). rewrite subexpr_S. cbv beta iota. rewrite Hf.
  split; [reflexivity | discriminate]. Qed.
Lemma SubR_lp_end : forall d r e, FilR (S d) r (Ok (e, [])) -> SubR d (TLP :: r) Err.
Proof. intros d r e [f [Hf _]]. exists (S f). rewrite subexpr_S. cbv beta iota. rewrite Hf.
  split; [reflexivity | discriminate]. Qed.
Lemma SubR_not_ok : forall d r c r', SubR d r (Ok (c, r')) -> SubR d (TNot :: r) (Ok (NotN c, r')).
Proof. intros d r c r' [f [Hf _]]. exists (S f). rewrite subexpr_S. cbv beta iota. rewrite Hf.
  split; [reflexivity | discriminate]. Qed.
Lemma SubR_not_err : forall d r, SubR d r Err -> SubR d (TNot :: r) Err.
Proof. intros d r [f [Hf _]]. exists (S f). rewrite subexpr_S. cbv beta iota. rewrite Hf.
  split; [reflexivity | discriminate]. Qed.
Lemma SubR_leaf : forall d n k r,
  SubR d (leaf_tok n (S k) :: r) (Ok (and_fold n (seq (S n) k), r)).
Proof. intros d n k r. exists 1. split; [| discriminate].
  destruct k; reflexivity. Qed.
Lemma FilR_ok : forall d ts c r res, SubR d ts (Ok (c, r)) -> LoopR d None c r res -> FilR d ts res.
Proof. intros d ts c r res [f1 [H1 N1]] [f2 [H2 N2]]. exists (S (Nat.max f1 f2)). rewrite filter_S.
  rewrite (sub_stable f1 (Nat.max f1 f2) d ts _ H1 N1) by lia.
  split; [apply (loop_stable f2); [exact H2 | exact N2 | lia] | exact N2]. Qed.
Lemma FilR_err : forall d ts, SubR d ts Err -> FilR d ts Err.
Proof. intros d ts [f [Hf _]]. exists (S f). rewrite filter_S. rewrite Hf.
  split; [reflexivity | discriminate]. Qed.
Lemma LoopR_and : forall d acc c r n r' res, SubR d r (Ok (n, r')) ->
  LoopR d acc (AndN c n) r' res -> LoopR d acc c (TAnd :: r) res.
Proof. intros d acc c r n r' res [f1 [H1 N1]] [f2 [H2 N2]]. exists (S (Nat.max f1 f2)).
  rewrite ploop_S. cbv beta iota.
  rewrite (sub_stable f1 (Nat.max f1 f2) d r _ H1 N1) by lia.
  split; [apply (loop_stable f2); [exact H2 | exact N2 | lia] | exact N2]. Qed.
Lemma LoopR_and_err : forall d acc c r, SubR d r Err -> LoopR d acc c (TAnd :: r) Err.
Proof. intros d acc c r [f [Hf _]]. exists (S f). rewrite ploop_S. cbv beta iota. rewrite Hf.
  split; [reflexivity | discriminate]. Qed.
Lemma LoopR_or : forall d acc c r n r' res, SubR d r (Ok (n, r')) ->
  LoopR d (Some (join_or acc c)) n r' res -> LoopR d acc c (TOr :: r) res.
Proof. intros d acc c r n r' res [f1 [H1 N1]] [f2 [H2 N2]]. exists (S (Nat.max f1 f2)).
  rewrite ploop_S. cbv beta iota.
  rewrite (sub_stable f1 (Nat.max f1 f2) d r _ H1 N1) by lia.
  split; [apply (loop_stable f2); [exact H2 | exact N2 | lia] | exact N2]. Qed.
Lemma LoopR_or_err : forall d acc c r, SubR d r Err -> LoopR d acc c (TOr :: r) Err.
Proof. intros d acc c r [f [Hf _]]. exists (S f). rewrite ploop_S. cbv beta iota. rewrite Hf.
  split; [reflexivity | discriminate]. Qed.
Lemma LoopR_nil : forall d acc c, LoopR d acc c [] (Ok (join_or acc c, [])).
Proof. intros. exists 1. split; [reflexivity | discriminate]. Qed.
Lemma LoopR_rp : forall d acc c r, 0 < d -> LoopR d acc c (TRP :: r) (Ok (join_or acc c, TRP :: r)).
Proof. intros d acc c r Hd. exists 1. split; [| discriminate]. rewrite ploop_S. cbv beta iota.
  destruct d; [lia | reflexivity]. Qed.

Lemma FilR_fuel_for : forall d ts r, FilR d ts r -> filter (fuel_for ts) d ts = r.
Proof.
  intros d ts r [f [Hf Hn]].
  destruct (Nat.le_ge_cases f (fuel_for ts)) as [Hle | Hge].
  - apply (fil_stable f); assumption.
  - destruct (mono_le (fuel_for ts) f Hge) as [_ [Mf _]].
    rewrite <- (Mf d ts (filter_fuel_for_total d ts)). exact Hf.
Qed.

Lemma rbind_ok : forall A B (m : R A) (f : A -> R B) x,
  rbind m f = ROk x -> exists a, m = ROk a /\ f a = ROk x.
Proof. intros A B m f x H. destruct m; simpl in H; try discriminate. eauto. Qed.
