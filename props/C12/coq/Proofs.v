(* C12 — proofs about the token-level parser model (Model.v). *)
From C12 Require Import Model.
From Coq Require Import Lia.

(* ------------------------------------------------------------------ *)
(* Definitions                                                         *)
(* ------------------------------------------------------------------ *)

Fixpoint no_nand (t : ast) : Prop :=
  match t with
  | Leaf _ => True
  | NotN a => no_nand a
  | AndN l r => no_nand l /\ no_nand r
  | OrN l r => no_nand l /\ no_nand r
  | NAndN _ _ => False
  end.

Fixpoint no_not (t : ast) : Prop :=
  match t with
  | Leaf _ => True
  | NotN _ => False
  | AndN l r => no_not l /\ no_not r
  | OrN l r => no_not l /\ no_not r
  | NAndN l r => no_not l /\ no_not r
  end.

(* the AST the parser builds for an expression *)
Fixpoint tree_of (e : expr) : ast :=
  match e with
  | EAtom n => Leaf n
  | EIn n ns => or_fold n ns
  | EText n ns => and_fold n ns
  | ENot a => NotN (tree_of a)
  | EAnd a b => AndN (tree_of a) (tree_of b)
  | EOr a b => OrN (tree_of a) (tree_of b)
  end.

(* ------------------------------------------------------------------ *)
(* propagate_not                                                       *)
(* ------------------------------------------------------------------ *)

Lemma propagate_not_inv : forall t, no_nand t ->
  (forall v, eval v t =
             if snd (propagate_not t) then negb (eval v (fst (propagate_not t)))
             else eval v (fst (propagate_not t)))
  /\ no_not (fst (propagate_not t)).
Proof.
  induction t as [n | a IHa | l IHl r IHr | l IHl r IHr | l IHl r IHr];
    intros Hn; simpl in Hn.
  - simpl. split; [intros v; reflexivity | exact I].
  - specialize (IHa Hn). destruct IHa as [IHe IHnn].
    simpl. destruct (propagate_not a) as [a' b]. simpl in *.
    split; [| exact IHnn].
    intros v. rewrite (IHe v). destruct b; simpl; destruct (eval v a'); reflexivity.
  - destruct Hn as [Hl Hr].
    destruct (IHl Hl) as [IHle IHln]. destruct (IHr Hr) as [IHre IHrn].
    simpl. destruct (propagate_not l) as [l' ln]. destruct (propagate_not r) as [r' rn].
    simpl in *.
    destruct ln, rn; simpl; (split; [intros v; rewrite (IHle v), (IHre v);
      destruct (eval v l'), (eval v r'); reflexivity | split; assumption]).
  - destruct Hn as [Hl Hr].
    destruct (IHl Hl) as [IHle IHln]. destruct (IHr Hr) as [IHre IHrn].
    simpl. destruct (propagate_not l) as [l' ln]. destruct (propagate_not r) as [r' rn].
    simpl in *.
    destruct ln, rn; simpl; (split; [intros v; rewrite (IHle v), (IHre v);
      destruct (eval v l'), (eval v r'); reflexivity | split; assumption]).
  - destruct Hn.
Qed.

Lemma propagate_not_sound : forall t, no_nand t ->
   (forall v, eval v (finish t) = eval v t) /\ no_not (fst (propagate_not t)).
Proof.
  intros t Hn. destruct (propagate_not_inv t Hn) as [He Hnn].
  split; [| exact Hnn].
  intros v. rewrite (He v). unfold finish, wrap.
  destruct (snd (propagate_not t)); reflexivity.
Qed.

(* ------------------------------------------------------------------ *)
(* folds, tree_of                                                      *)
(* ------------------------------------------------------------------ *)

Lemma or_fold_no_nand_gen : forall ns a, no_nand a ->
  no_nand (fold_left (fun a m => OrN a (Leaf m)) ns a).
Proof.
  induction ns as [|m ns IH]; intros a Ha; simpl.
  - exact Ha.
  - apply IH. simpl. split; [exact Ha | exact I].
Qed.

Lemma and_fold_no_nand_gen : forall ns a, no_nand a ->
  no_nand (fold_left (fun a m => AndN a (Leaf m)) ns a).
Proof.
  induction ns as [|m ns IH]; intros a Ha; simpl.
  - exact Ha.
  - apply IH. simpl. split; [exact Ha | exact I].
Qed.

Lemma or_fold_no_nand : forall n ns, no_nand (or_fold n ns).
Proof. intros n ns. unfold or_fold. apply or_fold_no_nand_gen. exact I. Qed.

Lemma and_fold_no_nand : forall n ns, no_nand (and_fold n ns).
Proof. intros n ns. unfold and_fold. apply and_fold_no_nand_gen. exact I. Qed.

Lemma or_fold_eval_gen : forall v ns a,
  eval v (fold_left (fun a m => OrN a (Leaf m)) ns a) = eval v a || existsb v ns.
Proof.
  intros v. induction ns as [|m ns IH]; intros a; simpl.
  - rewrite orb_false_r. reflexivity.
  - rewrite IH. simpl. rewrite orb_assoc. reflexivity.
Qed.

Lemma and_fold_eval_gen : forall v ns a,
  eval v (fold_left (fun a m => AndN a (Leaf m)) ns a) = eval v a && forallb v ns.
Proof.
  intros v. induction ns as [|m ns IH]; intros a; simpl.
  - rewrite andb_true_r. reflexivity.
  - rewrite IH. simpl. rewrite andb_assoc. reflexivity.
Qed.

Lemma tree_of_no_nand : forall e, no_nand (tree_of e).
Proof.
  induction e as [n | n ns | n ns | a IHa | a IHa b IHb | a IHa b IHb]; simpl.
  - exact I.
  - apply or_fold_no_nand.
  - apply and_fold_no_nand.
  - exact IHa.
  - split; assumption.
  - split; assumption.
Qed.

Lemma tree_of_den : forall e v, eval v (tree_of e) = den v e.
Proof.
  induction e as [n | n ns | n ns | a IHa | a IHa b IHb | a IHa b IHb]; intros v; simpl.
  - reflexivity.
  - unfold or_fold. rewrite or_fold_eval_gen. reflexivity.
  - unfold and_fold. rewrite and_fold_eval_gen. reflexivity.
  - rewrite IHa. reflexivity.
  - rewrite IHa, IHb. reflexivity.
  - rewrite IHa, IHb. reflexivity.
Qed.

(* ------------------------------------------------------------------ *)
(* unfolding equations                                                 *)
(* ------------------------------------------------------------------ *)

Lemma subexpr_S : forall f depth ts, subexpr (S f) depth ts =
    match ts with
    | TLP :: r =>
        match filter f (S depth) r with
        | Ok (e, TRP :: r') => Ok (e, r')
        | Ok _ => Err
        | Err => Err
        | OutOfFuel => OutOfFuel
        end
    | TNot :: r =>
        match subexpr f depth r with
        | Ok (c, r') => Ok (NotN c, r')
        | Err => Err
        | OutOfFuel => OutOfFuel
        end
    | TAtom n :: r => Ok (Leaf n, r)
    | TIn (n :: ns) :: r => Ok (or_fold n ns, r)
    | TText (n :: ns) :: r => Ok (and_fold n ns, r)
    | _ => Err
    end.
Proof. reflexivity. Qed.

Lemma filter_S : forall f depth ts, filter (S f) depth ts =
    match subexpr f depth ts with
    | Ok (cur, r) => ploop f depth None cur r
    | Err => Err
    | OutOfFuel => OutOfFuel
    end.
Proof. reflexivity. Qed.

Lemma ploop_S : forall f depth acc cur ts, ploop (S f) depth acc cur ts =
    match ts with
    | TAnd :: r =>
        match subexpr f depth r with
        | Ok (n, r') => ploop f depth acc (AndN cur n) r'
        | Err => Err
        | OutOfFuel => OutOfFuel
        end
    | TOr :: r =>
        match subexpr f depth r with
        | Ok (n, r') => ploop f depth (Some (join_or acc cur)) n r'
        | Err => Err
        | OutOfFuel => OutOfFuel
        end
    | [] => Ok (join_or acc cur, [])
    | TRP :: _ => if Nat.ltb 0 depth then Ok (join_or acc cur, ts) else Err
    | TPipe :: _ => Ok (join_or acc cur, ts)
    | _ => Err
    end.
Proof. reflexivity. Qed.

(* ------------------------------------------------------------------ *)
(* fuel monotonicity                                                   *)
(* ------------------------------------------------------------------ *)

Lemma mono_S : forall f,
  (forall d ts, subexpr f d ts <> OutOfFuel -> subexpr (S f) d ts = subexpr f d ts) /\
  (forall d ts, filter f d ts <> OutOfFuel -> filter (S f) d ts = filter f d ts) /\
  (forall d acc cur ts, ploop f d acc cur ts <> OutOfFuel ->
                        ploop (S f) d acc cur ts = ploop f d acc cur ts).
Proof.
  induction f as [|f [IHs [IHf IHp]]].
  - repeat split; intros; exfalso; apply H; reflexivity.
  - split; [| split].
    + intros d ts H.
      rewrite (subexpr_S (S f) d ts). rewrite (subexpr_S f d ts). rewrite (subexpr_S f d ts) in H.
      destruct ts as [|[n|ns|ns| | | | | | ] r]; cbv beta match in H |- *; try reflexivity.
      * (* TNot *)
        assert (Hx : subexpr f d r <> OutOfFuel)
          by (intro E; apply H; rewrite E; reflexivity).
        rewrite (IHs _ _ Hx). reflexivity.
      * (* TLP *)
        assert (Hx : filter f (S d) r <> OutOfFuel)
          by (intro E; apply H; rewrite E; reflexivity).
        rewrite (IHf _ _ Hx). reflexivity.
    + intros d ts H.
      rewrite (filter_S (S f) d ts). rewrite (filter_S f d ts). rewrite (filter_S f d ts) in H.
      assert (Hx : subexpr f d ts <> OutOfFuel)
        by (intro E; apply H; rewrite E; reflexivity).
      rewrite (IHs _ _ Hx).
      destruct (subexpr f d ts) as [[cur r]| |]; try reflexivity.
      apply IHp. exact H.
    + intros d acc cur ts H.
      rewrite (ploop_S (S f) d acc cur ts). rewrite (ploop_S f d acc cur ts).
      rewrite (ploop_S f d acc cur ts) in H.
      destruct ts as [|[n|ns|ns| | | | | | ] r]; cbv beta match in H |- *; try reflexivity.
      * (* TAnd *)
        assert (Hx : subexpr f d r <> OutOfFuel)
          by (intro E; apply H; rewrite E; reflexivity).
        rewrite (IHs _ _ Hx).
        destruct (subexpr f d r) as [[n r']| |]; try reflexivity.
        apply IHp. exact H.
      * (* TOr *)
        assert (Hx : subexpr f d r <> OutOfFuel)
          by (intro E; apply H; rewrite E; reflexivity).
        rewrite (IHs _ _ Hx).
        destruct (subexpr f d r) as [[n r']| |]; try reflexivity.
        apply IHp. exact H.
Qed.

Lemma mono_le : forall f f', f <= f' ->
  (forall d ts, subexpr f d ts <> OutOfFuel -> subexpr f' d ts = subexpr f d ts) /\
  (forall d ts, filter f d ts <> OutOfFuel -> filter f' d ts = filter f d ts) /\
  (forall d acc cur ts, ploop f d acc cur ts <> OutOfFuel ->
                        ploop f' d acc cur ts = ploop f d acc cur ts).
Proof.
  intros f f' Hle. induction Hle as [|m Hle [IHs [IHf IHp]]].
  - repeat split; intros; reflexivity.
  - destruct (mono_S m) as [Ms [Mf Mp]].
    split; [| split].
    + intros d ts H. rewrite <- (IHs d ts H). apply Ms. rewrite (IHs d ts H). exact H.
    + intros d ts H. rewrite <- (IHf d ts H). apply Mf. rewrite (IHf d ts H). exact H.
    + intros d acc cur ts H. rewrite <- (IHp d acc cur ts H). apply Mp.
      rewrite (IHp d acc cur ts H). exact H.
Qed.

Lemma sub_ok_mono : forall f f' d ts x, subexpr f d ts = Ok x -> f <= f' ->
  subexpr f' d ts = Ok x.
Proof.
  intros f f' d ts x H Hle. destruct (mono_le f f' Hle) as [Hs _].
  rewrite Hs; [exact H | rewrite H; discriminate].
Qed.

Lemma fil_ok_mono : forall f f' d ts x, filter f d ts = Ok x -> f <= f' ->
  filter f' d ts = Ok x.
Proof.
  intros f f' d ts x H Hle. destruct (mono_le f f' Hle) as [_ [Hf _]].
  rewrite Hf; [exact H | rewrite H; discriminate].
Qed.

Lemma loop_ok_mono : forall f f' d acc cur ts x, ploop f d acc cur ts = Ok x -> f <= f' ->
  ploop f' d acc cur ts = Ok x.
Proof.
  intros f f' d acc cur ts x H Hle. destruct (mono_le f f' Hle) as [_ [_ Hp]].
  rewrite Hp; [exact H | rewrite H; discriminate].
Qed.

(* ------------------------------------------------------------------ *)
(* the remaining input never grows                                     *)
(* ------------------------------------------------------------------ *)

Lemma len_all : forall f,
  (forall d ts t r, subexpr f d ts = Ok (t, r) -> length r <= length ts) /\
  (forall d ts t r, filter f d ts = Ok (t, r) -> length r <= length ts) /\
  (forall d acc cur ts t r, ploop f d acc cur ts = Ok (t, r) -> length r <= length ts).
Proof.
  induction f as [|f [IHs [IHf IHp]]].
  - repeat split; intros; discriminate.
  - split; [| split].
    + intros d ts t r H. rewrite subexpr_S in H.
      destruct ts as [|[n|ns|ns| | | | | | ] r0]; cbv beta match in H; try discriminate.
      * inversion H; subst. simpl. lia.
      * destruct ns as [|n ns]; [discriminate|]. inversion H; subst. simpl. lia.
      * destruct ns as [|n ns]; [discriminate|]. inversion H; subst. simpl. lia.
      * destruct (subexpr f d r0) as [[c r']| |] eqn:E; try discriminate.
        inversion H; subst. apply IHs in E. simpl. lia.
      * destruct (filter f (S d) r0) as [[e l]| |] eqn:E; try discriminate.
        destruct l as [|[n|ns|ns| | | | | | ] r']; try discriminate.
        inversion H; subst. apply IHf in E. simpl in *. lia.
    + intros d ts t r H. rewrite filter_S in H.
      destruct (subexpr f d ts) as [[cur r0]| |] eqn:E; try discriminate.
      apply IHs in E. apply IHp in H. lia.
    + intros d acc cur ts t r H. rewrite ploop_S in H.
      destruct ts as [|[n|ns|ns| | | | | | ] r0]; cbv beta match in H; try discriminate.
      * inversion H; subst. simpl. lia.
      * destruct (subexpr f d r0) as [[n r']| |] eqn:E; try discriminate.
        apply IHs in E. apply IHp in H. simpl. lia.
      * destruct (subexpr f d r0) as [[n r']| |] eqn:E; try discriminate.
        apply IHs in E. apply IHp in H. simpl. lia.
      * destruct (Nat.ltb 0 d); [| discriminate]. inversion H; subst. lia.
      * inversion H; subst. lia.
Qed.

(* ------------------------------------------------------------------ *)
(* totality: enough fuel                                               *)
(* ------------------------------------------------------------------ *)

Lemma total_all : forall f,
  (forall d ts, 2 * length ts + 1 <= f -> subexpr f d ts <> OutOfFuel) /\
  (forall d ts, 2 * length ts + 2 <= f -> filter f d ts <> OutOfFuel) /\
  (forall d acc cur ts, 2 * length ts + 1 <= f -> ploop f d acc cur ts <> OutOfFuel).
Proof.
  induction f as [|f [IHs [IHf IHp]]].
  - repeat split; intros; lia.
  - destruct (len_all f) as [Ls [Lf Lp]].
    split; [| split].
    + intros d ts Hle. rewrite subexpr_S.
      destruct ts as [|[n|ns|ns| | | | | | ] r0]; cbv beta match; try discriminate.
      * destruct ns; discriminate.
      * destruct ns; discriminate.
      * simpl in Hle.
        destruct (subexpr f d r0) as [[c r']| |] eqn:E; try discriminate.
        exfalso. apply (IHs d r0); [lia | exact E].
      * simpl in Hle.
        destruct (filter f (S d) r0) as [[e l]| |] eqn:E; try discriminate.
        -- destruct l as [|[n|ns|ns| | | | | | ] r']; discriminate.
        -- exfalso. apply (IHf (S d) r0); [lia | exact E].
    + intros d ts Hle. rewrite filter_S.
      destruct (subexpr f d ts) as [[cur r0]| |] eqn:E; try discriminate.
      * apply IHp. apply Ls in E. lia.
      * exfalso. apply (IHs d ts); [lia | exact E].
    + intros d acc cur ts Hle. rewrite ploop_S.
      destruct ts as [|[n|ns|ns| | | | | | ] r0]; cbv beta match; try discriminate.
      * simpl in Hle.
        destruct (subexpr f d r0) as [[n r']| |] eqn:E; try discriminate.
        -- apply IHp. apply Ls in E. lia.
        -- exfalso. apply (IHs d r0); [lia | exact E].
      * simpl in Hle.
        destruct (subexpr f d r0) as [[n r']| |] eqn:E; try discriminate.
        -- apply IHp. apply Ls in E. lia.
        -- exfalso. apply (IHs d r0); [lia | exact E].
      * destruct (Nat.ltb 0 d); discriminate.
Qed.

Lemma filter_fuel_for_total : forall d ts, filter (fuel_for ts) d ts <> OutOfFuel.
Proof.
  intros d ts. destruct (total_all (fuel_for ts)) as [_ [Tf _]].
  apply Tf. unfold fuel_for. lia.
Qed.

Lemma parse_raw_total : forall ts, parse_raw ts <> OutOfFuel.
Proof.
  intros ts. unfold parse_raw.
  pose proof (filter_fuel_for_total 0 ts) as Ht.
  destruct (filter (fuel_for ts) 0 ts) as [[e l]| |].
  - destruct l as [|[n|ns|ns| | | | | | ] l]; discriminate.
  - discriminate.
  - exfalso. apply Ht. reflexivity.
Qed.

Lemma parse_total : forall ts, parse ts <> OutOfFuel.
Proof.
  intros ts. unfold parse.
  pose proof (parse_raw_total ts) as Ht.
  destruct (parse_raw ts) as [e| |].
  - discriminate.
  - discriminate.
  - exfalso. apply Ht. reflexivity.
Qed.

(* ------------------------------------------------------------------ *)
(* the parser never builds NAndN                                       *)
(* ------------------------------------------------------------------ *)

Definition no_nand_opt (o : option ast) : Prop :=
  match o with None => True | Some a => no_nand a end.

Lemma join_or_no_nand : forall acc cur, no_nand_opt acc -> no_nand cur ->
  no_nand (join_or acc cur).
Proof.
  intros [a|] cur Ha Hc; simpl in *.
  - split; assumption.
  - exact Hc.
Qed.

Lemma nonand_all : forall f,
  (forall d ts t r, subexpr f d ts = Ok (t, r) -> no_nand t) /\
  (forall d ts t r, filter f d ts = Ok (t, r) -> no_nand t) /\
  (forall d acc cur ts t r, ploop f d acc cur ts = Ok (t, r) ->
      no_nand_opt acc -> no_nand cur -> no_nand t).
Proof.
  induction f as [|f [IHs [IHf IHp]]].
  - repeat split; intros; discriminate.
  - split; [| split].
    + intros d ts t r H. rewrite subexpr_S in H.
      destruct ts as [|[n|ns|ns| | | | | | ] r0]; cbv beta match in H; try discriminate.
      * inversion H; subst. exact I.
      * destruct ns as [|n ns]; [discriminate|]. inversion H; subst. apply or_fold_no_nand.
      * destruct ns as [|n ns]; [discriminate|]. inversion H; subst. apply and_fold_no_nand.
      * destruct (subexpr f d r0) as [[c r']| |] eqn:E; try discriminate.
        inversion H; subst. apply IHs in E. exact E.
      * destruct (filter f (S d) r0) as [[e l]| |] eqn:E; try discriminate.
        destruct l as [|[n|ns|ns| | | | | | ] r']; try discriminate.
        inversion H; subst. apply IHf in E. exact E.
    + intros d ts t r H. rewrite filter_S in H.
      destruct (subexpr f d ts) as [[cur r0]| |] eqn:E; try discriminate.
      apply IHs in E. apply IHp in H; [exact H | exact I | exact E].
    + intros d acc cur ts t r H Ha Hc. rewrite ploop_S in H.
      destruct ts as [|[n|ns|ns| | | | | | ] r0]; cbv beta match in H; try discriminate.
      * inversion H; subst. apply join_or_no_nand; assumption.
      * destruct (subexpr f d r0) as [[n r']| |] eqn:E; try discriminate.
        apply IHs in E. apply IHp in H; [exact H | exact Ha | simpl; split; assumption].
      * destruct (subexpr f d r0) as [[n r']| |] eqn:E; try discriminate.
        apply IHs in E. apply IHp in H; [exact H | | exact E].
        simpl. apply join_or_no_nand; assumption.
      * destruct (Nat.ltb 0 d); [| discriminate]. inversion H; subst.
        apply join_or_no_nand; assumption.
      * inversion H; subst. apply join_or_no_nand; assumption.
Qed.

Lemma parse_raw_no_nand : forall ts t, parse_raw ts = Ok t -> no_nand t.
Proof.
  intros ts t H. unfold parse_raw in H.
  destruct (filter (fuel_for ts) 0 ts) as [[e l]| |] eqn:E; try discriminate.
  destruct (nonand_all (fuel_for ts)) as [_ [Nf _]].
  apply Nf in E.
  destruct l as [|[n|ns|ns| | | | | | ] l]; try discriminate; inversion H; subst; exact E.
Qed.

(* ------------------------------------------------------------------ *)
(* fuel-free "succeeds with" relations and their rules                 *)
(* ------------------------------------------------------------------ *)

Definition SubOk (d : nat) (ts : list tok) (x : ast * list tok) : Prop :=
  exists f, subexpr f d ts = Ok x.
Definition FilOk (d : nat) (ts : list tok) (x : ast * list tok) : Prop :=
  exists f, filter f d ts = Ok x.
Definition LoopOk (d : nat) (acc : option ast) (cur : ast) (ts : list tok)
           (x : ast * list tok) : Prop :=
  exists f, ploop f d acc cur ts = Ok x.
Definition StartOk (d : nat) (acc : option ast) (ts : list tok) (x : ast * list tok) : Prop :=
  exists n r, SubOk d ts (n, r) /\ LoopOk d acc n r x.

Lemma SubOk_atom : forall d n r, SubOk d (TAtom n :: r) (Leaf n, r).
Proof. intros d n r. exists 1. reflexivity. Qed.

Lemma SubOk_in : forall d n ns r, SubOk d (TIn (n :: ns) :: r) (or_fold n ns, r).
Proof. intros d n ns r. exists 1. reflexivity. Qed.

Lemma SubOk_text : forall d n ns r, SubOk d (TText (n :: ns) :: r) (and_fold n ns, r).
Proof. intros d n ns r. exists 1. reflexivity. Qed.

Lemma SubOk_not : forall d r c r', SubOk d r (c, r') -> SubOk d (TNot :: r) (NotN c, r').
Proof.
  intros d r c r' [f Hf]. exists (S f). rewrite subexpr_S. cbv beta match.
  rewrite Hf. reflexivity.
Qed.

Lemma SubOk_lp : forall d r e r', FilOk (S d) r (e, TRP :: r') -> SubOk d (TLP :: r) (e, r').
Proof.
  intros d r e r' [f Hf]. exists (S f). rewrite subexpr_S. cbv beta match.
  rewrite Hf. reflexivity.
Qed.

Lemma FilOk_start : forall d ts x, StartOk d None ts x -> FilOk d ts x.
Proof.
  intros d ts x [n [r [[f1 H1] [f2 H2]]]].
  exists (S (Nat.max f1 f2)). rewrite filter_S.
  rewrite (sub_ok_mono f1 (Nat.max f1 f2) d ts (n, r) H1) by lia.
  apply (loop_ok_mono f2); [exact H2 | lia].
Qed.

Lemma LoopOk_and : forall d acc cur r n r' x,
  SubOk d r (n, r') -> LoopOk d acc (AndN cur n) r' x -> LoopOk d acc cur (TAnd :: r) x.
Proof.
  intros d acc cur r n r' x [f1 H1] [f2 H2].
  exists (S (Nat.max f1 f2)). rewrite ploop_S. cbv beta match.
  rewrite (sub_ok_mono f1 (Nat.max f1 f2) d r (n, r') H1) by lia.
  apply (loop_ok_mono f2); [exact H2 | lia].
Qed.

Lemma LoopOk_or : forall d acc cur r n r' x,
  SubOk d r (n, r') -> LoopOk d (Some (join_or acc cur)) n r' x ->
  LoopOk d acc cur (TOr :: r) x.
Proof.
  intros d acc cur r n r' x [f1 H1] [f2 H2].
  exists (S (Nat.max f1 f2)). rewrite ploop_S. cbv beta match.
  rewrite (sub_ok_mono f1 (Nat.max f1 f2) d r (n, r') H1) by lia.
  apply (loop_ok_mono f2); [exact H2 | lia].
Qed.

Lemma LoopOk_nil : forall d acc cur t, t = join_or acc cur -> LoopOk d acc cur [] (t, []).
Proof. intros d acc cur t Ht. subst t. exists 1. reflexivity. Qed.

Lemma LoopOk_rp : forall d acc cur r t, t = join_or acc cur ->
  LoopOk (S d) acc cur (TRP :: r) (t, TRP :: r).
Proof. intros d acc cur r t Ht. subst t. exists 1. reflexivity. Qed.

Lemma LoopOk_pipe : forall d acc cur r t, t = join_or acc cur ->
  LoopOk d acc cur (TPipe :: r) (t, TPipe :: r).
Proof. intros d acc cur r t Ht. subst t. exists 1. reflexivity. Qed.

(* any successful run agrees with the run at fuel_for *)
Lemma FilOk_fuel_for : forall d ts x, FilOk d ts x -> filter (fuel_for ts) d ts = Ok x.
Proof.
  intros d ts x [f Hf].
  destruct (Nat.le_ge_cases f (fuel_for ts)) as [Hle | Hge].
  - apply (fil_ok_mono f); assumption.
  - destruct (mono_le (fuel_for ts) f Hge) as [_ [Mf _]].
    rewrite <- (Mf d ts (filter_fuel_for_total d ts)). exact Hf.
Qed.

(* ------------------------------------------------------------------ *)
(* render_min round trip                                               *)
(* ------------------------------------------------------------------ *)

(* state of the OR loop after having read (render 0 e) *)
Definition st0 (e : expr) : option ast * ast :=
  match e with
  | EOr a b => (Some (tree_of a), tree_of b)
  | _ => (None, tree_of e)
  end.

Lemma st0_join : forall e, tree_of e = join_or (fst (st0 e)) (snd (st0 e)).
Proof. intros e. destruct e; reflexivity. Qed.

Definition P2 (e : expr) : Prop :=
  forall d rest, SubOk d (render 2 e ++ rest) (tree_of e, rest).
Definition P1 (e : expr) : Prop :=
  forall d acc rest x, LoopOk d acc (tree_of e) rest x ->
                       StartOk d acc (render 1 e ++ rest) x.
Definition P0 (e : expr) : Prop :=
  forall d rest x, LoopOk d (fst (st0 e)) (snd (st0 e)) rest x ->
                   StartOk d None (render 0 e ++ rest) x.

Lemma P2_P1 : forall e, render 1 e = render 2 e -> P2 e -> P1 e.
Proof.
  intros e Hr H2 d acc rest x HL. rewrite Hr.
  exists (tree_of e), rest. split; [apply H2 | exact HL].
Qed.

Lemma P1_P0 : forall e, render 0 e = render 1 e -> st0 e = (None, tree_of e) -> P1 e -> P0 e.
Proof.
  intros e Hr Hs H1 d rest x HL. rewrite Hs in HL. simpl in HL.
  rewrite Hr. apply H1. exact HL.
Qed.

Lemma P0_P2 : forall e, render 2 e = paren (render 0 e) -> P0 e -> P2 e.
Proof.
  intros e Hr H0 d rest. rewrite Hr. unfold paren.
  change ((TLP :: render 0 e ++ [TRP]) ++ rest) with (TLP :: ((render 0 e ++ [TRP]) ++ rest)).
  rewrite <- app_assoc.
  change ([TRP] ++ rest) with (TRP :: rest).
  apply SubOk_lp. apply FilOk_start. apply H0.
  apply LoopOk_rp. apply st0_join.
Qed.

Lemma render_all : forall e, P2 e /\ P1 e /\ P0 e.
Proof.
  induction e as [n | n ns | n ns | a IHa | a IHa b IHb | a IHa b IHb].
  - assert (H2 : P2 (EAtom n)) by (intros d rest; apply SubOk_atom).
    assert (H1 : P1 (EAtom n)) by (apply P2_P1; [reflexivity | exact H2]).
    split; [exact H2 | split; [exact H1 |]].
    apply P1_P0; [reflexivity | reflexivity | exact H1].
  - assert (H2 : P2 (EIn n ns)) by (intros d rest; apply SubOk_in).
    assert (H1 : P1 (EIn n ns)) by (apply P2_P1; [reflexivity | exact H2]).
    split; [exact H2 | split; [exact H1 |]].
    apply P1_P0; [reflexivity | reflexivity | exact H1].
  - assert (H2 : P2 (EText n ns)) by (intros d rest; apply SubOk_text).
    assert (H1 : P1 (EText n ns)) by (apply P2_P1; [reflexivity | exact H2]).
    split; [exact H2 | split; [exact H1 |]].
    apply P1_P0; [reflexivity | reflexivity | exact H1].
  - destruct IHa as [A2 [A1 A0]].
    assert (H2 : P2 (ENot a)).
    { intros d rest.
      change (render 2 (ENot a) ++ rest) with (TNot :: (render 2 a ++ rest)).
      change (tree_of (ENot a)) with (NotN (tree_of a)).
      apply SubOk_not. apply A2. }
    assert (H1 : P1 (ENot a)) by (apply P2_P1; [reflexivity | exact H2]).
    split; [exact H2 | split; [exact H1 |]].
    apply P1_P0; [reflexivity | reflexivity | exact H1].
  - destruct IHa as [A2 [A1 A0]]. destruct IHb as [B2 [B1 B0]].
    assert (H1 : P1 (EAnd a b)).
    { intros d acc rest x HL.
      change (render 1 (EAnd a b)) with (render 1 a ++ TAnd :: render 2 b).
      rewrite <- app_assoc.
      change ((TAnd :: render 2 b) ++ rest) with (TAnd :: (render 2 b ++ rest)).
      apply A1. apply (LoopOk_and d acc (tree_of a) _ (tree_of b) rest x).
      - apply B2.
      - exact HL. }
    assert (H0 : P0 (EAnd a b)) by (apply P1_P0; [reflexivity | reflexivity | exact H1]).
    split; [| split; [exact H1 | exact H0]].
    apply P0_P2; [reflexivity | exact H0].
  - destruct IHa as [A2 [A1 A0]]. destruct IHb as [B2 [B1 B0]].
    assert (H0 : P0 (EOr a b)).
    { intros d rest x HL.
      change (fst (st0 (EOr a b))) with (Some (tree_of a)) in HL.
      change (snd (st0 (EOr a b))) with (tree_of b) in HL.
      change (render 0 (EOr a b)) with (render 0 a ++ TOr :: render 1 b).
      rewrite <- app_assoc.
      change ((TOr :: render 1 b) ++ rest) with (TOr :: (render 1 b ++ rest)).
      apply A0.
      destruct (B1 d (Some (tree_of a)) rest x HL) as [n [r' [HS HL']]].
      apply (LoopOk_or d _ _ _ n r' x).
      - exact HS.
      - rewrite <- st0_join. exact HL'. }
    assert (H2 : P2 (EOr a b)) by (apply P0_P2; [reflexivity | exact H0]).
    split; [exact H2 | split; [| exact H0]].
    apply P2_P1; [reflexivity | exact H2].
Qed.

Lemma parse_raw_render_min : forall e, parse_raw (render_min e) = Ok (tree_of e).
Proof.
  intros e. destruct (render_all e) as [_ [_ H0]].
  unfold parse_raw, render_min.
  assert (HF : FilOk 0 (render 0 e) (tree_of e, [])).
  { apply FilOk_start. rewrite <- (app_nil_r (render 0 e)). apply H0.
    apply LoopOk_nil. apply st0_join. }
  rewrite (FilOk_fuel_for _ _ _ HF). reflexivity.
Qed.

(* ------------------------------------------------------------------ *)
(* render_full round trip                                              *)
(* ------------------------------------------------------------------ *)

Lemma render_full_sub : forall e d rest,
  SubOk d (render_full e ++ rest) (tree_of e, rest).
Proof.
  induction e as [n | n ns | n ns | a IHa | a IHa b IHb | a IHa b IHb]; intros d rest.
  - apply SubOk_atom.
  - apply SubOk_in.
  - apply SubOk_text.
  - change (render_full (ENot a)) with (TLP :: (TNot :: render_full a) ++ [TRP]).
    change ((TLP :: (TNot :: render_full a) ++ [TRP]) ++ rest)
      with (TLP :: TNot :: ((render_full a ++ [TRP]) ++ rest)).
    rewrite <- app_assoc. change ([TRP] ++ rest) with (TRP :: rest).
    apply SubOk_lp. apply FilOk_start.
    exists (NotN (tree_of a)), (TRP :: rest). split.
    + apply SubOk_not. apply IHa.
    + apply LoopOk_rp. reflexivity.
  - change (render_full (EAnd a b))
      with (TLP :: (render_full a ++ TAnd :: render_full b) ++ [TRP]).
    change ((TLP :: (render_full a ++ TAnd :: render_full b) ++ [TRP]) ++ rest)
      with (TLP :: (((render_full a ++ TAnd :: render_full b) ++ [TRP]) ++ rest)).
    rewrite <- !app_assoc.
    change ((TAnd :: render_full b) ++ [TRP] ++ rest)
      with (TAnd :: (render_full b ++ TRP :: rest)).
    apply SubOk_lp. apply FilOk_start.
    exists (tree_of a), (TAnd :: render_full b ++ TRP :: rest). split.
    + apply IHa.
    + apply (LoopOk_and _ _ _ _ (tree_of b) (TRP :: rest)).
      * apply IHb.
      * apply LoopOk_rp. reflexivity.
  - change (render_full (EOr a b))
      with (TLP :: (render_full a ++ TOr :: render_full b) ++ [TRP]).
    change ((TLP :: (render_full a ++ TOr :: render_full b) ++ [TRP]) ++ rest)
      with (TLP :: (((render_full a ++ TOr :: render_full b) ++ [TRP]) ++ rest)).
    rewrite <- !app_assoc.
    change ((TOr :: render_full b) ++ [TRP] ++ rest)
      with (TOr :: (render_full b ++ TRP :: rest)).
    apply SubOk_lp. apply FilOk_start.
    exists (tree_of a), (TOr :: render_full b ++ TRP :: rest). split.
    + apply IHa.
    + apply (LoopOk_or _ _ _ _ (tree_of b) (TRP :: rest)).
      * apply IHb.
      * apply LoopOk_rp. reflexivity.
Qed.

Lemma parse_raw_render_full : forall e, parse_raw (render_full e) = Ok (tree_of e).
Proof.
  intros e. unfold parse_raw.
  assert (HF : FilOk 0 (render_full e) (tree_of e, [])).
  { apply FilOk_start. exists (tree_of e), []. split.
    - rewrite <- (app_nil_r (render_full e)) at 1. apply render_full_sub.
    - apply LoopOk_nil. reflexivity. }
  rewrite (FilOk_fuel_for _ _ _ HF). reflexivity.
Qed.

(* ------------------------------------------------------------------ *)
(* a pipe section after the expression                                 *)
(* ------------------------------------------------------------------ *)

Lemma parse_raw_render_min_pipe : forall e s,
  parse_raw (render_min e ++ TPipe :: s) = Ok (tree_of e).
Proof.
  intros e s. destruct (render_all e) as [_ [_ H0]].
  unfold parse_raw, render_min.
  assert (HF : FilOk 0 (render 0 e ++ TPipe :: s) (tree_of e, TPipe :: s)).
  { apply FilOk_start. apply H0. apply LoopOk_pipe. apply st0_join. }
  rewrite (FilOk_fuel_for _ _ _ HF). reflexivity.
Qed.

Lemma parse_raw_render_full_pipe : forall e s,
  parse_raw (render_full e ++ TPipe :: s) = Ok (tree_of e).
Proof.
  intros e s. unfold parse_raw.
  assert (HF : FilOk 0 (render_full e ++ TPipe :: s) (tree_of e, TPipe :: s)).
  { apply FilOk_start. exists (tree_of e), (TPipe :: s). split.
    - apply render_full_sub.
    - apply LoopOk_pipe. reflexivity. }
  rewrite (FilOk_fuel_for _ _ _ HF). reflexivity.
Qed.

(* ------------------------------------------------------------------ *)
(* end-to-end statements                                               *)
(* ------------------------------------------------------------------ *)

Lemma parse_denotes_min : forall e, exists t,
  parse (render_min e) = Ok t /\ (forall v, eval v t = den v e) /\
  no_not (fst (propagate_not (tree_of e))).
Proof.
  intros e. exists (finish (tree_of e)).
  destruct (propagate_not_sound (tree_of e) (tree_of_no_nand e)) as [He Hn].
  split; [| split].
  - unfold parse. rewrite parse_raw_render_min. reflexivity.
  - intros v. rewrite He. apply tree_of_den.
  - exact Hn.
Qed.

Lemma parse_denotes_full : forall e, exists t,
  parse (render_full e) = Ok t /\ forall v, eval v t = den v e.
Proof.
  intros e. exists (finish (tree_of e)).
  destruct (propagate_not_sound (tree_of e) (tree_of_no_nand e)) as [He _].
  split.
  - unfold parse. rewrite parse_raw_render_full. reflexivity.
  - intros v. rewrite He. apply tree_of_den.
Qed.

Lemma parse_sound_any : forall ts t, parse ts = Ok t ->
  exists t0, parse_raw ts = Ok t0 /\ forall v, eval v t = eval v t0.
Proof.
  intros ts t H. unfold parse in H.
  destruct (parse_raw ts) as [e| |] eqn:E; try discriminate.
  inversion H; subst. exists e. split; [reflexivity |].
  destruct (propagate_not_sound e (parse_raw_no_nand ts e E)) as [He _].
  exact He.
Qed.

(* the filter of `e | <pipe section>`: parses, denotes e, for EVERY continuation after the pipe *)
Lemma parse_denotes_pipe : forall e s, exists t,
  parse (render_min e ++ TPipe :: s) = Ok t /\ parse (render_full e ++ TPipe :: s) = Ok t /\
  (forall v, eval v t = den v e).
Proof.
  intros e s. exists (finish (tree_of e)).
  destruct (propagate_not_sound (tree_of e) (tree_of_no_nand e)) as [He _].
  split; [| split].
  - unfold parse. rewrite parse_raw_render_min_pipe. reflexivity.
  - unfold parse. rewrite parse_raw_render_full_pipe. reflexivity.
  - intros v. rewrite He. apply tree_of_den.
Qed.

(* what follows the first top-level pipe does not influence the parsed filter; it is the query
   parsed without any pipe section *)
Lemma pipe_suffix_irrelevant : forall e s,
  parse (render_min e ++ TPipe :: s) = parse (render_min e) /\
  parse (render_full e ++ TPipe :: s) = parse (render_full e).
Proof.
  intros e s. unfold parse.
  rewrite parse_raw_render_min_pipe, parse_raw_render_min,
          parse_raw_render_full_pipe, parse_raw_render_full.
  split; reflexivity.
Qed.

(* ------------------------------------------------------------------ *)
(* in(..) is the OR of its members                                     *)
(* ------------------------------------------------------------------ *)
Lemma den_in_expr : forall v es e1, den v (in_expr e1 es) = existsb (den v) (e1 :: es).
Proof.
  intros v. unfold in_expr. induction es as [|e es IH]; intros e1; simpl.
  - rewrite orb_false_r. reflexivity.
  - rewrite IH. simpl. rewrite orb_assoc. reflexivity.
Qed.

Lemma paren_render0_sub : forall e d rest,
  SubOk d (paren (render 0 e) ++ rest) (tree_of e, rest).
Proof.
  intros e d rest. destruct (render_all e) as [_ [_ H0]]. unfold paren.
  change ((TLP :: render 0 e ++ [TRP]) ++ rest) with (TLP :: ((render 0 e ++ [TRP]) ++ rest)).
  rewrite <- app_assoc. change ([TRP] ++ rest) with (TRP :: rest).
  apply SubOk_lp. apply FilOk_start. apply H0. apply LoopOk_rp. apply st0_join.
Qed.

Lemma parse_raw_paren_min : forall e, parse_raw (paren (render_min e)) = Ok (tree_of e).
Proof.
  intros e. unfold parse_raw, render_min.
  assert (HF : FilOk 0 (paren (render 0 e)) (tree_of e, [])).
  { apply FilOk_start. exists (tree_of e), []. split.
    - rewrite <- (app_nil_r (paren (render 0 e))). apply paren_render0_sub.
    - apply LoopOk_nil. reflexivity. }
  rewrite (FilOk_fuel_for _ _ _ HF). reflexivity.
Qed.

Lemma existsb_den_finish : forall v l,
  existsb (den v) l = existsb (fun e => eval v (finish (tree_of e))) l.
Proof.
  intros v. induction l as [|e l IH]; simpl; [reflexivity|].
  destruct (propagate_not_sound _ (tree_of_no_nand e)) as [He _].
  rewrite He, tree_of_den, IH. reflexivity.
Qed.

Lemma in_is_or_of_elements : forall e1 es, exists t,
  parse (in_toks e1 es) = Ok t /\
  forall v, eval v t = existsb (fun e => eval v (finish (tree_of e))) (e1 :: es)
            /\ (forall e, parse (render_min e) = Ok (finish (tree_of e))).
Proof.
  intros e1 es. exists (finish (tree_of (in_expr e1 es))). split.
  - unfold parse, in_toks. rewrite parse_raw_paren_min. reflexivity.
  - intros v. split.
    + destruct (propagate_not_sound _ (tree_of_no_nand (in_expr e1 es))) as [He _].
      rewrite He, tree_of_den, den_in_expr.
      apply existsb_den_finish.
    + intros e. unfold parse. rewrite parse_raw_render_min. reflexivity.
Qed.


Lemma render0_fold_or : forall es x,
  render 0 (fold_left EOr es x) = render 0 x ++ flat_map (fun e => TOr :: render 1 e) es.
Proof.
  induction es as [|e es IH]; intros x; simpl.
  - rewrite app_nil_r. reflexivity.
  - rewrite IH. simpl. rewrite <- app_assoc. reflexivity.
Qed.

Lemma in_toks_shape : forall e1 es,
  in_toks e1 es = TLP :: (render_min e1 ++ flat_map (fun e => TOr :: render 1 e) es) ++ [TRP].
Proof. intros e1 es. unfold in_toks, paren, render_min, in_expr. rewrite render0_fold_or. reflexivity. Qed.
