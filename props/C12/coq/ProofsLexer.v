(* C12 stage 2 — proofs about the byte-level lexer model and the glue (Lexer.v):
   every loop consumes at least one byte / one token, no checked slice is out of range. *)
From C12 Require Import Model Lexer Proofs.
From Coq Require Import Lia.

Ltac split_ifs :=
  repeat match goal with
  | |- context [if ?c then _ else _] => destruct c
  | |- context [match ?l with [] => _ | _ :: _ => _ end] => destruct l
  end.

(* ------------------------------------------------------------------ slices *)
Lemma slice_from_ok : forall n s, n <= length s -> slice_from n s = ROk (skipn n s).
Proof.
  intros n s H. unfold slice_from. apply Nat.leb_le in H. rewrite H. reflexivity.
Qed.

Lemma slice_to_ok : forall n s, n <= length s -> slice_to n s = ROk (firstn n s).
Proof.
  intros n s H. unfold slice_to. apply Nat.leb_le in H. rewrite H. reflexivity.
Qed.

Lemma slice_ok : forall a b s, a <= b -> b <= length s ->
  slice a b s = ROk (firstn (b - a) (skipn a s)).
Proof.
  intros a b s H1 H2. unfold slice. apply Nat.leb_le in H1. apply Nat.leb_le in H2.
  rewrite H1, H2. reflexivity.
Qed.

Lemma index_byte_lt : forall b s n, index_byte b s = Some n -> n < length s.
Proof.
  intros b. induction s as [|x t IH]; intros n H; simpl in H.
  - discriminate.
  - destruct (N.eqb x b).
    + inversion H; subst. simpl. lia.
    + destruct (index_byte b t) as [m|] eqn:E; [| discriminate].
      inversion H; subst. specialize (IH m eq_refl). simpl. lia.
Qed.

Lemma tl_length : forall (A : Type) (l : list A), length (tl l) <= length l.
Proof. intros A l. destruct l; simpl; lia. Qed.

(* ------------------------------------------------------------------ utf8 *)
Lemma decode_size : forall s,
  snd (decode s) <= length s /\ (s <> [] -> 1 <= snd (decode s)).
Proof.
  intros s. unfold decode. destruct s as [|b0 t].
  - simpl. split; [lia | intros H; exfalso; apply H; reflexivity].
  - split_ifs; simpl; split; intros; lia.
Qed.

Lemma decode_nil : decode [] = (RuneError, 0).
Proof. reflexivity. Qed.

Lemma decode_le : forall s r sz, decode s = (r, sz) -> sz <= length s.
Proof. intros s r sz H. pose proof (decode_size s) as D. rewrite H in D. simpl in D. lia. Qed.

Lemma decode_pos : forall s r sz, decode s = (r, sz) -> s <> [] -> 1 <= sz.
Proof.
  intros s r sz H Hn. pose proof (decode_size s) as D. rewrite H in D. simpl in D.
  apply D. exact Hn.
Qed.

Lemma decode_skip_lt : forall s r sz, decode s = (r, sz) -> s <> [] ->
  length (skipn sz s) < length s.
Proof.
  intros s r sz H Hn. pose proof (decode_le _ _ _ H). pose proof (decode_pos _ _ _ H Hn).
  rewrite skipn_length. destruct s; [exfalso; apply Hn; reflexivity | cbn [length] in *; lia].
Qed.

(* ------------------------------------------------------------------ unquoteChar *)
Lemma hexval_len : forall n s v v' s', hexval n s v = Some (v', s') -> length s' <= length s.
Proof.
  induction n as [|n IH]; intros s v v' s' H; simpl in H.
  - inversion H; subst. lia.
  - destruct s as [|c t]; [discriminate|].
    destruct (unhex c) as [x|]; [| discriminate].
    apply IH in H. simpl. lia.
Qed.

Lemma strconv_unquote_char_len : forall s quote ch tail,
  strconv_unquote_char s quote = Some (ch, tail) -> length tail < length s.
Proof.
  intros s quote ch tail H. unfold strconv_unquote_char in H.
  destruct s as [|c t]; [discriminate|].
  destruct (N.eqb c quote && (N.eqb quote 39 || N.eqb quote 34)); [discriminate|].
  destruct (N.leb 128 c).
  { destruct (decode (c :: t)) as [r sz] eqn:E. inversion H; subst.
    apply (decode_skip_lt _ _ _ E). discriminate. }
  destruct (negb (N.eqb c 92)).
  { inversion H; subst. simpl. lia. }
  destruct t as [|c1 s2]; [discriminate|].
  repeat match type of H with
  | (if ?c then _ else _) = _ => destruct c
  end;
  try (inversion H; subst; simpl; lia); try discriminate.
  - apply hexval_len in H. simpl. lia.
  - destruct (hexval _ s2 0%N) as [[v s3]|] eqn:E; [| discriminate].
    destruct (valid_rune v); [| discriminate]. inversion H; subst.
    apply hexval_len in E. simpl. lia.
  - destruct s2 as [|d1 [|d2 s3]]; try discriminate.
    destruct (octdigit d1); [| discriminate]. destruct (octdigit d2); [| discriminate].
    match type of H with (if ?c then _ else _) = _ => destruct c end; [discriminate|].
    inversion H; subst. simpl. lia.
Qed.

Lemma unquote_char_len : forall s quote ch tail,
  unquote_char s quote = Some (ch, tail) -> length tail < length s.
Proof.
  intros s quote ch tail H. unfold unquote_char in H.
  destruct s as [|c t].
  - apply strconv_unquote_char_len in H. exact H.
  - destruct (N.eqb c 42).
    + inversion H; subst. simpl. lia.
    + destruct t as [|c1 t1].
      * apply strconv_unquote_char_len in H. exact H.
      * destruct (N.eqb c 92 && N.eqb c1 42).
        -- inversion H; subst. simpl. lia.
        -- apply strconv_unquote_char_len in H. exact H.
Qed.

Lemma uq_loop_ok : forall f quote prefix b remIdx, length prefix < f ->
  exists p' b' r', uq_loop f quote prefix b remIdx = ROk (p', b', r')
                   /\ r' + length p' = remIdx + length prefix
                   /\ (p' = [] \/ exists c rest, p' = c :: rest).
Proof.
  induction f as [|f IH]; intros quote prefix b remIdx Hlen; [lia|].
  simpl. destruct prefix as [|c pt].
  - exists [], b, remIdx. split; [reflexivity | split; [reflexivity | left; reflexivity]].
  - destruct (N.eqb c quote).
    + exists (c :: pt), b, remIdx. split; [reflexivity | split; [reflexivity |]].
      right. exists c, pt. reflexivity.
    + destruct (unquote_char (c :: pt) quote) as [[ch tail]|] eqn:E.
      * apply unquote_char_len in E.
        destruct (IH quote tail (b ++ encode_rune ch)
                     (remIdx + (length (c :: pt) - length tail))) as [p' [b' [r' [H1 [H2 H3]]]]].
        { cbn [length] in *. lia. }
        exists p', b', r'. split; [exact H1 | split; [| exact H3]]. cbn [length] in *. lia.
      * destruct (IH quote pt (b ++ [92%N]) (S remIdx)) as [p' [b' [r' [H1 [H2 H3]]]]].
        { cbn [length] in *. lia. }
        exists p', b', r'. split; [exact H1 | split; [| exact H3]]. cbn [length] in *. lia.
Qed.

(* unquotePrefix never panics, and on success the remaining query is strictly shorter *)
Lemma unquote_prefix_ok : forall q,
  unquote_prefix q = ROk None \/
  exists out rem, unquote_prefix q = ROk (Some (out, rem)) /\ length rem < length q.
Proof.
  intros q. unfold unquote_prefix.
  destruct (Nat.ltb (length q) 2); [left; reflexivity|].
  destruct q as [|quote q1]; [left; reflexivity|].
  destruct (negb (N.eqb quote 34 || N.eqb quote 96 || N.eqb quote 39)); [left; reflexivity|].
  destruct (index_byte quote q1) as [e|] eqn:E; [| left; reflexivity].
  apply index_byte_lt in E.
  rewrite (slice_ok 1 (S e) (quote :: q1)) by (simpl; lia).
  cbn [rbind].
  destruct (negb (need_unquote _)).
  - rewrite (slice_from_ok (S (S e)) (quote :: q1)) by (simpl; lia).
    cbn [rbind]. right. eexists. eexists. split; [reflexivity|].
    rewrite skipn_length. simpl. lia.
  - destruct (uq_loop_ok (S (length q1)) quote q1 [] 1) as [p' [b' [r' [H1 [H2 H3]]]]]; [lia|].
    rewrite H1. cbn [rbind].
    destruct p' as [|c rest]; [left; reflexivity|].
    destruct (negb (N.eqb c quote)); [left; reflexivity|].
    rewrite (slice_from_ok (S r') (quote :: q1)) by (cbn [length] in *; lia).
    cbn [rbind]. right. eexists. eexists. split; [reflexivity|].
    rewrite skipn_length. cbn [length] in *. lia.
Qed.

Lemma quoted_prefix_raw_ok : forall q,
  quoted_prefix_raw q = ROk None \/
  exists qp, quoted_prefix_raw q = ROk (Some qp) /\ 2 <= length qp /\ length qp <= length q.
Proof.
  intros q. unfold quoted_prefix_raw.
  destruct (Nat.ltb (length q) 2); [left; reflexivity|].
  destruct q as [|quote q1]; [left; reflexivity|].
  destruct (index_byte quote q1) as [e|] eqn:E; [| left; reflexivity].
  apply index_byte_lt in E.
  rewrite (slice_to_ok (e + 2) (quote :: q1)) by (simpl; lia).
  cbn [rbind]. right. eexists. split; [reflexivity|].
  rewrite firstn_length. simpl length. lia.
Qed.

(* ------------------------------------------------------------------ lexer.Next *)
Section LexTotal.
  Variables is_space is_letter is_digit : N -> bool.
  Hypothesis space_err : is_space RuneError = false.
  Hypothesis letter_err : is_letter RuneError = false.
  Hypothesis digit_err : is_digit RuneError = false.

  Lemma token_rune_err : is_token_rune is_letter is_digit RuneError = false.
  Proof. unfold is_token_rune. rewrite letter_err, digit_err. reflexivity. Qed.

  Lemma next_token_ok : forall size q sp, size <= length q ->
    next_token size q sp = ROk (mkTok (firstn size q) false false sp, skipn size q).
  Proof.
    intros size q sp H. unfold next_token.
    rewrite (slice_to_ok _ _ H), (slice_from_ok _ _ H). reflexivity.
  Qed.

  Lemma skip_spaces_ok : forall f q sp, length q < f ->
    exists q1 sp1, skip_spaces is_space f q sp = ROk (q1, sp1) /\ length q1 <= length q.
  Proof.
    induction f as [|f IH]; intros q sp H; [lia|].
    simpl. destruct (decode q) as [r sz] eqn:E.
    destruct (is_space r) eqn:Es.
    - assert (Hn : q <> []).
      { intros ->. rewrite decode_nil in E. inversion E; subst. rewrite space_err in Es.
        discriminate. }
      pose proof (decode_skip_lt _ _ _ E Hn) as Hl.
      destruct (IH (skipn sz q) true) as [q1 [sp1 [H1 H2]]]; [lia|].
      exists q1, sp1. split; [exact H1 | lia].
    - exists q, sp. split; [reflexivity | lia].
  Qed.

  Lemma scan_token_ok : forall f rest tl, length rest < f ->
    exists n, scan_token is_letter is_digit f rest tl = ROk n /\ tl <= n /\ n <= tl + length rest.
  Proof.
    induction f as [|f IH]; intros rest tl H; [lia|].
    simpl. destruct (decode rest) as [r sz] eqn:E.
    destruct (is_token_rune is_letter is_digit r) eqn:Et.
    - assert (Hn : rest <> []).
      { intros ->. rewrite decode_nil in E. inversion E; subst.
        rewrite token_rune_err in Et. discriminate. }
      pose proof (decode_skip_lt _ _ _ E Hn) as Hl.
      pose proof (decode_le _ _ _ E) as Hle.
      destruct (IH (skipn sz rest) (tl + sz)) as [n [H1 [H2 H3]]]; [lia|].
      exists n. split; [exact H1|]. rewrite skipn_length in H3. lia.
    - exists tl. split; [reflexivity | lia].
  Qed.

  Definition next_post (q : bytes) (t : ltok) (q' : bytes) : Prop :=
    length q' <= length q /\ (q <> [] -> length q' < length q) /\
    (q = [] -> is_end t q' = true).

  Lemma next_ok : forall f q sp, length q < f ->
    exists t q', next is_space is_letter is_digit f q sp = ROk (t, q') /\ next_post q t q'.
  Proof.
    induction f as [|f IH]; intros q sp Hf; [lia|].
    cbn [next].
    destruct (decode q) as [r0 sz0] eqn:E0.
    destruct (N.eqb r0 RuneError) eqn:Er0.
    { pose proof (decode_le _ _ _ E0) as Hle.
      rewrite (next_token_ok _ _ _ Hle). eexists. eexists. split; [reflexivity|].
      unfold next_post. rewrite skipn_length. split; [lia | split].
      - intros Hn. pose proof (decode_pos _ _ _ E0 Hn).
        destruct q; [exfalso; apply Hn; reflexivity | cbn [length] in *; lia].
      - intros ->. simpl in Hle. assert (Hz : sz0 = 0) by lia. subst sz0. reflexivity. }
    assert (Hq : q <> []).
    { intros ->. rewrite decode_nil in E0. inversion E0; subst. discriminate. }
    destruct (skip_spaces_ok (S (length q)) q sp) as [q1 [sp1 [Hs Hl1]]]; [lia|].
    rewrite Hs. cbn [rbind].
    destruct (decode q1) as [r sz] eqn:E.
    pose proof (decode_le _ _ _ E) as Hsz.
    assert (Hlenq : 0 < length q) by (destruct q; [exfalso; apply Hq; reflexivity | simpl; lia]).
    destruct (N.eqb r 35) eqn:Ehash.
    { (* comment *)
      assert (Hq1 : q1 <> []).
      { intros ->. rewrite decode_nil in E. inversion E; subst. discriminate. }
      assert (Hl : 1 <= length q1) by (destruct q1; [exfalso; apply Hq1; reflexivity | simpl; lia]).
      rewrite (slice_from_ok 1 q1 Hl). cbn [rbind].
      destruct (index_byte 10 (skipn 1 q1)) as [n|] eqn:Ei.
      - apply index_byte_lt in Ei. rewrite skipn_length in Ei.
        rewrite (slice_from_ok (n + 1) q1) by lia. cbn [rbind].
        destruct (IH (skipn (n + 1) q1) sp1) as [t [q' [H1 [H2 [H3 H4]]]]].
        { rewrite skipn_length. lia. }
        exists t, q'. split; [exact H1|]. rewrite skipn_length in H2.
        unfold next_post. split; [lia | split; [intros _; lia | intros Hc; contradiction]].
      - destruct (IH [] sp1) as [t [q' [H1 [H2 [H3 H4]]]]]; [simpl; lia|].
        exists t, q'. split; [exact H1|]. simpl in H2.
        unfold next_post. split; [lia | split; [intros _; lia | intros Hc; contradiction]]. }
    destruct (scan_token_ok (S (length q1)) q1 0) as [n [Hn [_ Hn2]]]; [lia|].
    rewrite Hn. cbn [rbind]. simpl in Hn2.
    destruct (Nat.ltb 0 n) eqn:En.
    { apply Nat.ltb_lt in En. rewrite (next_token_ok _ _ _ Hn2).
      eexists. eexists. split; [reflexivity|].
      unfold next_post. rewrite skipn_length.
      split; [lia | split; [intros _; lia | intros Hc; contradiction]]. }
    assert (Hdflt : forall k, 1 <= k -> k <= length q1 ->
       exists t q', next_token k q1 sp1 = ROk (t, q') /\ next_post q t q').
    { intros k Hk1 Hk2. rewrite (next_token_ok _ _ _ Hk2). eexists. eexists.
      split; [reflexivity|]. unfold next_post. rewrite skipn_length.
      split; [lia | split; [intros _; lia | intros Hc; contradiction]]. }
    destruct (N.eqb r 42) eqn:Estar.
    { assert (Hq1 : q1 <> []).
      { intros ->. rewrite decode_nil in E. inversion E; subst. discriminate. }
      pose proof (decode_pos _ _ _ E Hq1) as Hp.
      rewrite (slice_from_ok sz q1 Hsz). cbn [rbind].
      eexists. eexists. split; [reflexivity|].
      unfold next_post. rewrite skipn_length.
      split; [lia | split; [intros _; lia | intros Hc; contradiction]]. }
    destruct (N.eqb r 39 || N.eqb r 34) eqn:Equote.
    { assert (Hq1 : q1 <> []).
      { intros ->. rewrite decode_nil in E. inversion E; subst. discriminate. }
      assert (Hl : 1 <= length q1) by (destruct q1; [exfalso; apply Hq1; reflexivity | simpl; lia]).
      destruct (unquote_prefix_ok q1) as [Hu | [out [rem [Hu Hr]]]]; rewrite Hu; cbn [rbind].
      - apply Hdflt; lia.
      - eexists. eexists. split; [reflexivity|].
        unfold next_post. split; [lia | split; [intros _; lia | intros Hc; contradiction]]. }
    destruct (N.eqb r 96) eqn:Eback.
    { assert (Hq1 : q1 <> []).
      { intros ->. rewrite decode_nil in E. inversion E; subst. discriminate. }
      assert (Hl : 1 <= length q1) by (destruct q1; [exfalso; apply Hq1; reflexivity | simpl; lia]).
      destruct (quoted_prefix_raw_ok q1) as [Hu | [qp [Hu [Hr1 Hr2]]]]; rewrite Hu; cbn [rbind].
      - apply Hdflt; lia.
      - rewrite (slice_ok 1 (length qp - 1) qp) by lia. cbn [rbind].
        rewrite (slice_from_ok (length qp) q1 Hr2). cbn [rbind].
        eexists. eexists. split; [reflexivity|].
        unfold next_post. rewrite skipn_length.
        split; [lia | split; [intros _; lia | intros Hc; contradiction]]. }
    (* default: one rune; q1 may be empty here (only spaces were left) *)
    rewrite (next_token_ok _ _ _ Hsz). eexists. eexists. split; [reflexivity|].
    unfold next_post. rewrite skipn_length.
    split; [lia | split; [| intros Hc; contradiction]].
    intros _. destruct q1 as [|x q1'].
    - simpl. lia.
    - assert (Hp : 1 <= sz) by (apply (decode_pos _ _ _ E); discriminate).
      cbn [length] in *. lia.
  Qed.

  Lemma lex_all_ok : forall f q, length q < f ->
    exists ts, lex_all is_space is_letter is_digit f q = ROk ts.
  Proof.
    induction f as [|f IH]; intros q Hf; [lia|].
    cbn [lex_all].
    destruct (next_ok (S (length q)) q false) as [t [q' [Hn [H1 [H2 H3]]]]]; [lia|].
    rewrite Hn. cbn [rbind].
    destruct (is_end t q') eqn:Ee.
    - exists []. reflexivity.
    - assert (Hq : q <> []).
      { intros Hc. discriminate (H3 Hc). }
      destruct (IH q') as [ts Hts]; [specialize (H2 Hq); lia|].
      rewrite Hts. cbn [rbind]. eexists. reflexivity.
  Qed.

  Lemma lex_total : forall q, exists ts, lex is_space is_letter is_digit q = ROk ts.
  Proof. intros q. unfold lex. apply lex_all_ok. lia. Qed.

  Lemma next_progress : forall q sp, q <> [] ->
    exists t q', next is_space is_letter is_digit (S (length q)) q sp = ROk (t, q')
                 /\ length q' < length q.
  Proof.
    intros q sp Hq. destruct (next_ok (S (length q)) q sp) as [t [q' [H [_ [H2 _]]]]]; [lia|].
    exists t, q'. split; [exact H | apply H2; exact Hq].
  Qed.

  (* ------------------------------------------------------------------ glue *)
  Variable is_number : N -> bool.
  Variable ftype : bytes -> N.
  Variable to_lower : N -> N.
  Variable case_sensitive : bool.

  Notation is_comp := (is_composite is_letter is_digit).
  Notation pcomp := (parse_composite is_letter is_digit).

  Lemma join_composite_len : forall ts acc,
    length (snd (join_composite is_letter is_digit ts acc)) <= length ts.
  Proof.
    induction ts as [|t r IH]; intros acc; simpl.
    - lia.
    - destruct (negb (t_space t) && is_comp t).
      + specialize (IH (acc ++ t_txt t)). lia.
      + simpl. lia.
  Qed.

  Lemma parse_composite_ok : forall ts,
    pcomp ts = RErr \/ exists v ts', pcomp ts = ROk (v, ts') /\ length ts' < length ts.
  Proof.
    intros ts. unfold parse_composite.
    destruct ts as [|t r].
    - left. reflexivity.
    - cbn [cur tl]. destruct (is_kw [] t); [left; reflexivity|].
      destruct (negb (is_comp t)); [left; reflexivity|].
      right. pose proof (join_composite_len r (t_txt t)) as H.
      destruct (join_composite is_letter is_digit r (t_txt t)) as [v ts'].
      exists v, ts'. split; [reflexivity | simpl in H; simpl; lia].
  Qed.

  Lemma kw_terms_loop_ok : forall f s have n, length s < f ->
    exists k, kw_terms_loop f s have n = ROk k.
  Proof.
    induction f as [|f IH]; intros s have n H; [lia|].
    simpl. destruct s as [|c t].
    - eexists. reflexivity.
    - destruct (decode (c :: t)) as [r sz] eqn:E.
      assert (Hl : length (skipn sz (c :: t)) < length (c :: t))
        by (apply (decode_skip_lt _ _ _ E); discriminate).
      destruct (N.eqb r wildcardRune); apply IH; cbn [length] in *; lia.
  Qed.

  Lemma kw_terms_ok : forall s, exists k, kw_terms s = ROk k.
  Proof.
    intros s. unfold kw_terms. destruct s; [eexists; reflexivity|].
    apply kw_terms_loop_ok. lia.
  Qed.

  Lemma text_lits_loop_ok : forall f s term curt n, length s < f ->
    exists k, text_lits_loop is_letter is_number f s term curt n = ROk k.
  Proof.
    induction f as [|f IH]; intros s term curt n H; [lia|].
    simpl. destruct s as [|c t].
    - eexists. reflexivity.
    - destruct (decode (c :: t)) as [r sz] eqn:E.
      assert (Hl : length (skipn sz (c :: t)) < length (c :: t))
        by (apply (decode_skip_lt _ _ _ E); discriminate).
      split_ifs; apply IH; cbn [length] in *; lia.
  Qed.

  Lemma text_lits_ok : forall s, exists k, text_lits is_letter is_number s = ROk k.
  Proof.
    intros s. unfold text_lits. destruct s; [eexists; reflexivity|].
    apply text_lits_loop_ok. lia.
  Qed.

  Notation ftext := (fulltext is_letter is_digit is_number).

  Lemma fulltext_ok : forall t ts,
    ftext t ts = RErr \/ exists e ts', ftext t ts = ROk (e, ts') /\ length ts' < length ts.
  Proof.
    intros t ts. unfold fulltext.
    destruct (parse_composite_ok ts) as [H | [v [ts' [H Hl]]]]; rewrite H; cbn [rbind].
    - left. reflexivity.
    - destruct (N.eqb t 1).
      + destruct (kw_terms_ok v) as [k Hk]. rewrite Hk. cbn [rbind].
        right. eexists. eexists. split; [reflexivity | exact Hl].
      + destruct (N.eqb t 2).
        * destruct (text_lits_ok v) as [k Hk]. rewrite Hk. cbn [rbind].
          right. eexists. eexists. split; [reflexivity | exact Hl].
        * left. reflexivity.
  Qed.

  Lemma in_loop_ok : forall f t ts acc, length ts < f ->
    in_loop is_letter is_digit is_number f t ts acc = RErr \/
    exists es ts', in_loop is_letter is_digit is_number f t ts acc = ROk (es, ts')
                   /\ length ts' <= length ts.
  Proof.
    induction f as [|f IH]; intros t ts acc H; [lia|].
    cbn [in_loop]. destruct (is_kw kw_comma (cur ts)).
    - pose proof (tl_length _ ts) as Ht.
      destruct (fulltext_ok t (tl ts)) as [Hf | [e [ts' [Hf Hl]]]]; rewrite Hf; cbn [rbind].
      + left. reflexivity.
      + destruct (IH t ts' (acc ++ [TOr; e])) as [Hi | [es [ts2 [Hi Hl2]]]]; [lia | |].
        * left. exact Hi.
        * right. exists es, ts2. split; [exact Hi | lia].
    - right. eexists. eexists. split; [reflexivity | lia].
  Qed.

  Lemma filter_in_ok : forall t ts,
    filter_in is_letter is_digit is_number t ts = RErr \/
    exists l ts', filter_in is_letter is_digit is_number t ts = ROk (l, ts')
                  /\ length ts' <= length ts.
  Proof.
    intros t ts. unfold filter_in.
    destruct (negb (is_kw kw_lp (cur ts))); [left; reflexivity|].
    destruct (is_kw kw_rp (cur (tl ts))); [left; reflexivity|].
    pose proof (tl_length _ ts) as Ht.
    destruct (fulltext_ok t (tl ts)) as [Hf | [e [ts2 [Hf Hl]]]]; rewrite Hf; cbn [rbind].
    - left. reflexivity.
    - destruct (in_loop_ok (S (length ts2)) t ts2 [e]) as [Hi | [es [ts3 [Hi Hl3]]]]; [lia | |];
        rewrite Hi; cbn [rbind].
      + left. reflexivity.
      + destruct (negb (is_kw kw_rp (cur ts3))); [left; reflexivity|].
        right. eexists. eexists. split; [reflexivity|].
        pose proof (tl_length _ ts3). lia.
  Qed.

  Lemma lower_loop_ok : forall f s acc, length s < f ->
    exists l, lower_loop to_lower f s acc = ROk l.
  Proof.
    induction f as [|f IH]; intros s acc H; [lia|].
    simpl. destruct s as [|c t]; [eexists; reflexivity|].
    destruct (decode (c :: t)) as [r sz] eqn:E.
    assert (Hl : length (skipn sz (c :: t)) < length (c :: t))
      by (apply (decode_skip_lt _ _ _ E); discriminate).
    apply IH. cbn [length] in *. lia.
  Qed.

  Lemma text_term_ok : forall sens d, exists t, text_term to_lower sens d = ROk t.
  Proof.
    intros sens d. unfold text_term. destruct sens; [eexists; reflexivity|].
    unfold lower. destruct (lower_loop_ok (S (length d)) d []) as [l Hl]; [lia|].
    rewrite Hl. cbn [rbind]. eexists. reflexivity.
  Qed.

  Lemma flush_term_ok : forall sens buf acc, exists l, flush_term to_lower sens buf acc = ROk l.
  Proof.
    intros sens buf acc. unfold flush_term. destruct buf as [|c b]; [eexists; reflexivity|].
    destruct (text_term_ok sens (c :: b)) as [t Ht]. rewrite Ht. cbn [rbind]. eexists. reflexivity.
  Qed.

  Lemma keyword_terms_loop_ok : forall f sens s buf acc, length s < f ->
    exists l, keyword_terms_loop to_lower f sens s buf acc = ROk l.
  Proof.
    induction f as [|f IH]; intros sens s buf acc H; [lia|].
    cbn [keyword_terms_loop]. destruct s as [|c t]; [apply flush_term_ok|].
    destruct (decode (c :: t)) as [r sz] eqn:E.
    assert (Hl : length (skipn sz (c :: t)) < length (c :: t))
      by (apply (decode_skip_lt _ _ _ E); discriminate).
    destruct (N.eqb r wildcardRune).
    - destruct (flush_term_ok sens buf acc) as [a1 Ha]. rewrite Ha. cbn [rbind].
      apply IH. cbn [length] in *. lia.
    - apply IH. cbn [length] in *. lia.
  Qed.

  Lemma keyword_terms_ok : forall sens s, exists l, keyword_terms to_lower sens s = ROk l.
  Proof.
    intros sens s. unfold keyword_terms. destruct s; [eexists; reflexivity|].
    apply keyword_terms_loop_ok. lia.
  Qed.

  Lemma encode_rune_nonempty : forall r, encode_rune r <> [].
  Proof. intros r. unfold encode_rune. split_ifs; discriminate. Qed.

  Lemma keyword_terms_loop_nonempty : forall f sens s buf acc l,
    keyword_terms_loop to_lower f sens s buf acc = ROk l ->
    (s <> [] \/ buf <> [] \/ acc <> []) -> l <> [].
  Proof.
    induction f as [|f IH]; intros sens s buf acc l H Hne; [discriminate|].
    cbn [keyword_terms_loop] in H. destruct s as [|c t].
    - unfold flush_term in H. destruct buf as [|b0 b].
      + inversion H; subst. destruct Hne as [Hc | [Hc | Hc]]; try (exfalso; apply Hc; reflexivity).
        exact Hc.
      + destruct (text_term to_lower sens (b0 :: b)); cbn [rbind] in H; try discriminate.
        inversion H; subst. destruct acc; discriminate.
    - destruct (decode (c :: t)) as [r sz].
      destruct (N.eqb r wildcardRune).
      + destruct (flush_term to_lower sens buf acc) as [a1| | |]; cbn [rbind] in H; try discriminate.
        apply IH in H; [exact H|]. right. right. destruct a1; discriminate.
      + apply IH in H; [exact H|]. right. left.
        pose proof (encode_rune_nonempty r). destruct buf; [simpl; exact H0 | discriminate].
  Qed.

  Lemma keyword_terms_nonempty : forall sens v, keyword_terms to_lower sens v <> ROk [].
  Proof.
    intros sens v H. unfold keyword_terms in H. destruct v as [|c t]; [discriminate|].
    apply keyword_terms_loop_nonempty in H; [apply H; reflexivity | left; discriminate].
  Qed.

  Lemma range_bound_ok : forall sens v,
    range_bound to_lower sens v = RErr \/ exists t, range_bound to_lower sens v = ROk t.
  Proof.
    intros sens v. unfold range_bound.
    destruct (keyword_terms_ok sens v) as [l Hl]. rewrite Hl. cbn [rbind].
    destruct l as [|t [|t2 l]].
    - right. eexists. reflexivity.
    - right. eexists. reflexivity.
    - left. reflexivity.
  Qed.

  Notation rterm := (range_term is_letter is_digit to_lower).
  Notation trange := (token_range is_letter is_digit to_lower).

  Lemma range_term_ok : forall sens ts,
    rterm sens ts = RErr \/
    exists t ts', rterm sens ts = ROk (t, ts') /\ length ts' < length ts.
  Proof.
    intros sens ts. unfold range_term.
    destruct (parse_composite_ok ts) as [H | [v [ts' [H Hl]]]]; rewrite H; cbn [rbind].
    - left. reflexivity.
    - destruct (range_bound_ok sens v) as [Hb | [t Hb]]; rewrite Hb; cbn [rbind].
      + left. reflexivity.
      + right. exists t, ts'. split; [reflexivity | exact Hl].
  Qed.

  Lemma token_range_ok : forall sens ts,
    trange sens ts = RErr \/
    exists a b ts', trange sens ts = ROk (a, b, ts') /\ length ts' <= length ts.
  Proof.
    intros sens ts. unfold token_range.
    destruct (negb (is_kws [kw_lp; kw_lb] (cur ts))); [left; reflexivity|].
    pose proof (tl_length _ ts) as Ht.
    destruct (range_term_ok sens (tl ts)) as [H | [a [ts1 [H Hl1]]]]; rewrite H; cbn [rbind].
    - left. reflexivity.
    - destruct (negb (is_kws [kw_comma; kw_to] (cur ts1))); [left; reflexivity|].
      pose proof (tl_length _ ts1) as Ht1.
      destruct (range_term_ok sens (tl ts1)) as [H2 | [b [ts2 [H2 Hl2]]]]; rewrite H2; cbn [rbind].
      + left. reflexivity.
      + destruct (negb (is_kws [kw_rp; kw_rb] (cur ts2))); [left; reflexivity|].
        right. eexists. eexists. eexists. split; [reflexivity|].
        pose proof (tl_length _ ts2). lia.
  Qed.

  (* a range bound is normalised like a literal: each bound of an accepted range is the single
     term that parseSeqQLKeyword - the function that builds the Terms of the keyword literal f:v
     (literal_view) - makes of the bound's composite value, with the same case rule *)
  Lemma range_bounds_as_literals : forall sens ts a b ts',
    trange sens ts = ROk (a, b, ts') ->
    exists va ts1 vb ts2,
      pcomp (tl ts) = ROk (va, ts1) /\ keyword_terms to_lower sens va = ROk [a] /\
      pcomp (tl ts1) = ROk (vb, ts2) /\ keyword_terms to_lower sens vb = ROk [b] /\
      ts' = tl ts2.
  Proof.
    intros sens ts a b ts' H. unfold token_range in H.
    destruct (negb (is_kws [kw_lp; kw_lb] (cur ts))); [discriminate|].
    unfold range_term in H.
    destruct (pcomp (tl ts)) as [[va ts1]| | |] eqn:E1; cbn [rbind] in H; try discriminate.
    unfold range_bound in H at 1.
    destruct (keyword_terms_ok sens va) as [la Hla]. rewrite Hla in H. cbn [rbind] in H.
    destruct (keyword_terms to_lower sens va) as [la'| | |] eqn:Ka; try discriminate.
    inversion Hla; subst la'. clear Hla.
    pose proof keyword_terms_nonempty as Hne.
    destruct la as [|ta [|ta2 la]]; cbn [rbind] in H; try discriminate.
    { exfalso. apply (Hne sens va). exact Ka. }
    destruct (negb (is_kws [kw_comma; kw_to] (cur ts1))); [discriminate|].
    destruct (pcomp (tl ts1)) as [[vb ts2]| | |] eqn:E2; cbn [rbind] in H; try discriminate.
    unfold range_bound in H.
    destruct (keyword_terms to_lower sens vb) as [lb| | |] eqn:Kb; cbn [rbind] in H; try discriminate.
    destruct lb as [|tb [|tb2 lb]]; cbn [rbind] in H; try discriminate.
    { exfalso. apply (Hne sens vb). exact Kb. }
    destruct (negb (is_kws [kw_rp; kw_rb] (cur ts2))); [discriminate|].
    inversion H; subst.
    exists va, ts1, vb, ts2. repeat split; assumption || reflexivity.
  Qed.

  Notation ffilter := (field_filter is_letter is_digit is_number ftype to_lower case_sensitive).

  Lemma field_filter_ok : forall ts,
    ffilter ts = RErr \/
    exists l ts', ffilter ts = ROk (l, ts') /\ length ts' < length ts.
  Proof.
    intros ts. unfold field_filter.
    destruct (parse_composite_ok ts) as [H | [v [ts1 [H Hl]]]]; rewrite H; cbn [rbind].
    - left. reflexivity.
    - destruct (replace_wild v) as [|n0 nr]; [left; reflexivity|].
      destruct (N.eqb (ftype (n0 :: nr)) 0); [left; reflexivity|].
      destruct (negb (is_kw kw_colon (cur ts1))); [left; reflexivity|].
      pose proof (tl_length _ ts1) as Ht.
      destruct (is_kw [] (cur (tl ts1))); [left; reflexivity|].
      destruct (is_kws [kw_lb; kw_lp] (cur (tl ts1))).
      { destruct (token_range_ok (field_sens case_sensitive (n0 :: nr)) (tl ts1)) as [Hr | [ra [rb [ts3 [Hr Hl3]]]]]; rewrite Hr; cbn [rbind].
        - left. reflexivity.
        - right. eexists. eexists. split; [reflexivity | lia]. }
      destruct (is_kw kw_in (cur (tl ts1))).
      { pose proof (tl_length _ (tl ts1)) as Ht2.
        destruct (filter_in_ok (ftype (n0 :: nr)) (tl (tl ts1))) as [Hr | [l [ts3 [Hr Hl3]]]].
        - left. exact Hr.
        - right. exists l, ts3. split; [exact Hr | lia]. }
      destruct (fulltext_ok (ftype (n0 :: nr)) (tl ts1)) as [Hr | [e [ts3 [Hr Hl3]]]];
        rewrite Hr; cbn [rbind].
      + left. reflexivity.
      + right. eexists. eexists. split; [reflexivity | lia].
  Qed.

  Lemma field_list_ok : forall f ts nf tr, length ts < f ->
    field_list is_letter is_digit f ts nf tr = RErr \/
    exists ts', field_list is_letter is_digit f ts nf tr = ROk ts' /\ length ts' <= length ts.
  Proof.
    induction f as [|f IH]; intros ts nf tr H; [lia|].
    cbn [field_list].
    destruct (is_kws [kw_pipe; []] (cur ts)).
    - destruct tr; [left; reflexivity|].
      destruct (Nat.eqb nf 0); [left; reflexivity|].
      right. exists ts. split; [reflexivity | lia].
    - destruct (parse_composite_ok ts) as [Hp | [v [ts1 [Hp Hl]]]]; rewrite Hp; cbn [rbind].
      + left. reflexivity.
      + pose proof (tl_length _ ts1) as Ht.
        destruct (is_kw kw_comma (cur ts1)).
        * destruct (IH (tl ts1) (S nf) true) as [Hr | [ts' [Hr Hl2]]]; [lia | |].
          -- left. exact Hr.
          -- right. exists ts'. split; [exact Hr | lia].
        * destruct (IH ts1 (S nf) false) as [Hr | [ts' [Hr Hl2]]]; [lia | |].
          -- left. exact Hr.
          -- right. exists ts'. split; [exact Hr | lia].
  Qed.

  (* parsePipes ends at the end of the query or with an error *)
  Lemma pipes_ok : forall f ts n, length ts < f ->
    pipes is_letter is_digit f ts n = RErr \/ pipes is_letter is_digit f ts n = ROk [].
  Proof.
    induction f as [|f IH]; intros ts n H; [lia|].
    cbn [pipes]. destruct ts as [|t r]; [right; reflexivity|].
    destruct (negb (is_kw kw_pipe (cur (t :: r)))); [left; reflexivity|].
    cbn [tl]. destruct (is_kw kw_fields (cur r)); [| left; reflexivity].
    pose proof (tl_length _ r) as Ht.
    set (ts3 := if is_kw kw_except (cur (tl r)) then tl (tl r) else tl r).
    assert (H3 : length ts3 <= length r).
    { unfold ts3. destruct (is_kw kw_except (cur (tl r))).
      - pose proof (tl_length _ (tl r)). lia.
      - lia. }
    destruct (field_list_ok (S (length ts3)) ts3 0 false) as [Hf | [ts4 [Hf Hl4]]]; [lia | |];
      rewrite Hf; cbn [rbind].
    - left. reflexivity.
    - destruct (Nat.ltb 1 (S n)); [left; reflexivity|].
      apply IH. simpl in H. lia.
  Qed.

  Variable maxd : option nat.
  Notation gl := (glue is_letter is_digit is_number ftype to_lower case_sensitive maxd).

  Lemma glue_ok : forall f ts depth operand bases base pending, length ts < f ->
    gl f ts depth operand bases base pending = RErr \/
    exists l, gl f ts depth operand bases base pending = ROk l.
  Proof.
    induction f as [|f IH]; intros ts depth operand bases base pending H; [lia|].
    cbn [glue]. destruct ts as [|t r]; [right; eexists; reflexivity|].
    assert (Hr : length r < f) by (simpl in H; lia).
    assert (Hrec : forall d o bs b pd (k : list tok -> list tok),
       (do l <- gl f r d o bs b pd; ROk (k l)) = RErr \/
       exists l, (do l <- gl f r d o bs b pd; ROk (k l)) = ROk l).
    { intros d o bs b pd k. destruct (IH r d o bs b pd Hr) as [E | [l E]]; rewrite E; cbn [rbind].
      - left. reflexivity.
      - right. eexists. reflexivity. }
    destruct operand.
    - cbv zeta. destruct (over maxd (S (base + pending))); [left; reflexivity|].
      destruct (is_kw wildcard_bytes t && Nat.eqb depth 0);
        [apply (Hrec depth false bases base 0 (cons (TAtom 0)))|].
      destruct (is_kw kw_lp t);
        [apply (Hrec (S depth) true (base :: bases) (S (base + pending)) 0 (cons TLP))|].
      destruct (is_kw kw_not t); [apply (Hrec depth true bases base (S pending) (cons TNot))|].
      destruct (field_filter_ok (t :: r)) as [Hf | [toks [ts' [Hf Hl]]]]; rewrite Hf; cbn [rbind].
      + left. reflexivity.
      + destruct (IH ts' depth false bases base 0) as [E | [l E]]; [simpl in Hl; lia | |];
          rewrite E; cbn [rbind].
        * left. reflexivity.
        * right. eexists. reflexivity.
    - destruct (is_kw kw_and t); [apply (Hrec depth true bases base 0 (cons TAnd))|].
      destruct (is_kw kw_or t); [apply (Hrec depth true bases base 0 (cons TOr))|].
      destruct (is_kw kw_rp t);
        [apply (Hrec (pred depth) false (tl bases) (hd 0 bases) 0 (cons TRP))|].
      destruct (is_kw kw_pipe t); [| left; reflexivity].
      destruct (pipes_ok (S (length (t :: r))) (t :: r) 0) as [Hp | Hp]; [lia | |];
        rewrite Hp; cbn [rbind].
      + left. reflexivity.
      + right. eexists. reflexivity.
  Qed.

  (* an operand entered with `limit` frames on the stack is rejected *)
  Lemma glue_rejects : forall m f t r depth bases base pending,
    maxd = Some m -> m <= base + pending ->
    gl (S f) (t :: r) depth true bases base pending = RErr.
  Proof.
    intros m f t r depth bases base pending Hm Hle. cbn [glue]. cbv zeta. rewrite Hm.
    assert (E : over (Some m) (S (base + pending)) = true) by (simpl; apply Nat.ltb_lt; lia).
    rewrite E. reflexivity.
  Qed.

  Lemma seqql_parse_total : forall q,
    seqql_parse is_space is_letter is_digit is_number ftype to_lower case_sensitive maxd q = RErr \/
    exists a, seqql_parse is_space is_letter is_digit is_number ftype to_lower case_sensitive maxd q
              = ROk a.
  Proof.
    intros q. unfold seqql_parse.
    destruct (lex_total q) as [lts Hl]. rewrite Hl. cbn [rbind].
    destruct (glue_ok (S (length lts)) lts 0 true [] 0 0) as [Hg | [ts Hg]]; [lia | |];
      rewrite Hg; cbn [rbind].
    - left. reflexivity.
    - pose proof (parse_total ts) as Hp.
      destruct (parse ts) as [a| |].
      + right. exists a. reflexivity.
      + left. reflexivity.
      + exfalso. apply Hp. reflexivity.
  Qed.
End LexTotal.

(* ------------------------------------------------------------------ round trip of quoted atoms *)
Lemma index_byte_app : forall b w rest, index_byte b w = None ->
  index_byte b (w ++ b :: rest) = Some (length w).
Proof.
  intros b. induction w as [|x t IH]; intros rest H; simpl in *.
  - rewrite N.eqb_refl. reflexivity.
  - destruct (N.eqb x b); [discriminate|].
    destruct (index_byte b t) eqn:E; [discriminate|].
    rewrite (IH rest eq_refl). reflexivity.
Qed.

Lemma contains_none : forall b w, contains_byte b w = false -> index_byte b w = None.
Proof. intros b w H. unfold contains_byte in H. destruct (index_byte b w); [discriminate | reflexivity]. Qed.

Lemma firstn_app_exact : forall (w l : bytes), firstn (length w) (w ++ l) = w.
Proof. induction w as [|x t IH]; intros l; simpl; [reflexivity | rewrite IH; reflexivity]. Qed.

Lemma skipn_app_exact : forall (w : bytes) x rest, skipn (S (length w)) (w ++ x :: rest) = rest.
Proof. induction w as [|y t IH]; intros x rest; [reflexivity | apply IH]. Qed.

Lemma unquote_prefix_plain : forall w rest, plain w = true ->
  unquote_prefix (34%N :: w ++ 34%N :: rest) = ROk (Some (w, rest)).
Proof.
  intros w rest Hp. unfold plain in Hp.
  apply andb_prop in Hp. destruct Hp as [Hp H42]. apply andb_prop in Hp. destruct Hp as [H34 H92].
  apply negb_true_iff in H34, H92, H42.
  unfold unquote_prefix.
  assert (Hlen : Nat.ltb (length (34%N :: w ++ 34%N :: rest)) 2 = false).
  { apply Nat.ltb_ge. cbn [length]. rewrite app_length. cbn [length]. lia. }
  rewrite Hlen.
  change (negb (N.eqb 34 34 || N.eqb 34 96 || N.eqb 34 39)) with false. cbv iota.
  rewrite (index_byte_app 34 w rest (contains_none _ _ H34)).
  rewrite slice_ok by (cbn [length]; try rewrite app_length; cbn [length]; lia).
  cbn [rbind].
  replace (firstn (S (length w) - 1) (skipn 1 (34%N :: w ++ 34%N :: rest))) with w.
  2:{ cbn [skipn]. replace (S (length w) - 1) with (length w) by lia.
      rewrite firstn_app_exact. reflexivity. }
  unfold need_unquote. rewrite H92, H42. cbn [orb negb].
  rewrite slice_from_ok by (cbn [length]; try rewrite app_length; cbn [length]; lia).
  cbn [rbind].
  replace (skipn (S (S (length w))) (34%N :: w ++ 34%N :: rest)) with rest.
  2:{ change (skipn (S (S (length w))) (34%N :: w ++ 34%N :: rest))
        with (skipn (S (length w)) (w ++ 34%N :: rest)).
      rewrite skipn_app_exact. reflexivity. }
  reflexivity.
Qed.

Section RT.
  Variables is_space is_letter is_digit : N -> bool.
  Hypothesis sp32 : is_space 32 = true.
  Hypothesis sp34 : is_space 34 = false.
  Hypothesis le34 : is_letter 34 = false.
  Hypothesis di34 : is_digit 34 = false.

  Lemma decode_ascii : forall b t, N.ltb b 128 = true -> decode (b :: t) = (b, 1).
  Proof. intros b t H. unfold decode. rewrite H. reflexivity. Qed.

  Lemma skip_spaces_32_34 : forall f t sp,
    skip_spaces is_space (S (S f)) (32%N :: 34%N :: t) sp = ROk (34%N :: t, true).
  Proof.
    intros f t sp. cbn [skip_spaces].
    rewrite (decode_ascii 32) by reflexivity. cbv beta iota zeta.
    rewrite sp32. cbn [skipn].
    rewrite (decode_ascii 34) by reflexivity. cbv beta iota zeta.
    rewrite sp34. reflexivity.
  Qed.

  Lemma scan_token_34 : forall f t,
    scan_token is_letter is_digit (S f) (34%N :: t) 0 = ROk 0.
  Proof.
    intros f t. cbn [scan_token].
    rewrite (decode_ascii 34) by reflexivity. cbv beta iota zeta.
    unfold is_token_rune. rewrite le34, di34. reflexivity.
  Qed.

  Lemma next_dq : forall w rest sp f, plain w = true ->
    next is_space is_letter is_digit (S f) (32%N :: 34%N :: w ++ 34%N :: rest) sp
    = ROk (dq_tok w, rest).
  Proof.
    intros w rest sp f Hp. cbn [next].
    rewrite (decode_ascii 32) by reflexivity. cbv beta iota zeta.
    change (N.eqb 32 RuneError) with false. cbv iota.
    cbn [length]. rewrite skip_spaces_32_34. cbn [rbind]. cbv beta iota zeta.
    rewrite (decode_ascii 34) by reflexivity. cbv beta iota zeta.
    change (N.eqb 34 35) with false. cbv iota.
    cbn [length]. rewrite scan_token_34. cbn [rbind]. cbv beta iota zeta.
    change (Nat.ltb 0 0) with false. cbv iota.
    change (N.eqb 34 42) with false. cbv iota.
    change (N.eqb 34 39 || N.eqb 34 34) with true. cbv iota.
    rewrite (unquote_prefix_plain w rest Hp). cbn [rbind]. reflexivity.
  Qed.

  Lemma lex_all_render : forall ws f, forallb plain ws = true ->
    length (render_dq ws) < f ->
    lex_all is_space is_letter is_digit f (render_dq ws) = ROk (map dq_tok ws).
  Proof.
    induction ws as [|w r IH]; intros f Hp Hf.
    - destruct f; [simpl in Hf; lia|]. reflexivity.
    - destruct f; [lia|]. simpl in Hp. apply andb_prop in Hp. destruct Hp as [Hw Hr].
      cbn [lex_all render_dq].
      rewrite (next_dq w (render_dq r) false _ Hw). cbn [rbind].
      assert (He : is_end (dq_tok w) (render_dq r) = false).
      { unfold is_end. destruct (render_dq r); destruct w; reflexivity. }
      rewrite He.
      rewrite (IH f Hr).
      + reflexivity.
      + cbn [render_dq length] in Hf. rewrite app_length in Hf. cbn [length] in Hf. lia.
  Qed.

  Lemma lex_render_dq : forall ws, forallb plain ws = true ->
    lex is_space is_letter is_digit (render_dq ws) = ROk (map dq_tok ws).
  Proof. intros ws Hp. unfold lex. apply lex_all_render; [exact Hp | lia]. Qed.
End RT.

(* ------------------------------------------------------------------ in(..): all members alike *)
Section InGlue.
  Variables is_letter is_digit is_number : N -> bool.
  Notation ftext := (fulltext is_letter is_digit is_number).

  (* e is what the stand-alone value filter (parseFulltextSearchFilter with type t) makes of some
     token sequence *)
  Definition made_by (t : N) (e : tok) : Prop := exists seg seg', ftext t seg = ROk (e, seg').

  Definition or_members (es : list tok) : list tok := flat_map (fun e => [TOr; e]) es.

  Lemma in_loop_shape : forall f t ts acc l ts',
    in_loop is_letter is_digit is_number f t ts acc = ROk (l, ts') ->
    exists es, l = acc ++ or_members es /\ Forall (made_by t) es.
  Proof.
    induction f as [|f IH]; intros t ts acc l ts' H; [discriminate|].
    cbn [in_loop] in H. destruct (is_kw kw_comma (cur ts)).
    - destruct (ftext t (tl ts)) as [[e ts1]| | |] eqn:E; cbn [rbind] in H; try discriminate.
      apply IH in H. destruct H as [es [Hl Hf]].
      exists (e :: es). split.
      + rewrite Hl. rewrite <- app_assoc. reflexivity.
      + constructor; [exists (tl ts), ts1; exact E | exact Hf].
    - inversion H; subst. exists []. split; [rewrite app_nil_r; reflexivity | constructor].
  Qed.

  Lemma filter_in_shape : forall t ts l ts',
    filter_in is_letter is_digit is_number t ts = ROk (l, ts') ->
    exists e1 es, l = TLP :: e1 :: or_members es ++ [TRP] /\ Forall (made_by t) (e1 :: es).
  Proof.
    intros t ts l ts' H. unfold filter_in in H.
    destruct (negb (is_kw kw_lp (cur ts))); [discriminate|].
    destruct (is_kw kw_rp (cur (tl ts))); [discriminate|].
    destruct (ftext t (tl ts)) as [[e1 ts2]| | |] eqn:E; cbn [rbind] in H; try discriminate.
    destruct (in_loop is_letter is_digit is_number (S (length ts2)) t ts2 [e1])
      as [[es0 ts3]| | |] eqn:E2; cbn [rbind] in H; try discriminate.
    destruct (negb (is_kw kw_rp (cur ts3))); [discriminate|].
    inversion H; subst.
    apply in_loop_shape in E2. destruct E2 as [es [Hl Hf]].
    exists e1, es. split.
    - rewrite Hl. reflexivity.
    - constructor; [exists (tl ts), ts2; exact E | exact Hf].
  Qed.
End InGlue.
