(* C12 stage 3 — proofs about the rune-level model of the legacy parser (Legacy.v):
   totality (no RPanic, no RFuel) of ParseQuery and ParseAggregationFilter on all byte strings. *)
From Coq Require Import Lia.
From C12 Require Import Model Lexer Legacy Proofs ProofsLexer.

(* weakest precondition over R: the run ends in ROk with Q, or in a parse error *)
Definition wp {A} (m : R A) (Q : A -> Prop) : Prop :=
  match m with ROk a => Q a | RErr => True | RPanic => False | RFuel => False end.

Lemma wp_bind : forall A B (m : R A) (f : A -> R B) Q,
  wp m (fun a => wp (f a) Q) -> wp (rbind m f) Q.
Proof. intros A B m f Q H. destruct m; simpl in *; auto. Qed.

Lemma wp_mono : forall A (m : R A) (P Q : A -> Prop),
  wp m P -> (forall a, P a -> Q a) -> wp m Q.
Proof. intros A m P Q H HPQ. destruct m; simpl in *; auto. Qed.

Lemma wp_total : forall A (m : R A) Q, wp m Q -> m = RErr \/ exists a, m = ROk a.
Proof. intros A m Q H. destruct m; simpl in H; try contradiction; eauto. Qed.

Ltac wpb := apply wp_bind.
Ltac wpm L := eapply wp_mono; [ apply L; solve [ assumption | lia | unfold lfuel, pfuel; lia ] | cbv beta ].

(* ---------------------------------------------------------------- []rune(s) *)
Lemma runes_loop_ok : forall f s, length s < f -> exists rs, runes_loop f s = ROk rs.
Proof.
  induction f as [|f IH]; intros s Hf; [lia|].
  simpl. destruct s as [|b t]; [eexists; reflexivity|].
  destruct (decode (b :: t)) as [r sz] eqn:E.
  pose proof (decode_skip_lt _ _ _ E) as Hlt.
  destruct (IH (skipn sz (b :: t))) as [rs Hrs].
  - assert (length (skipn sz (b :: t)) < length (b :: t)) by (apply Hlt; discriminate). lia.
  - rewrite Hrs. simpl. eexists; reflexivity.
Qed.

Lemma runes_of_ok : forall s, exists rs, runes_of s = ROk rs.
Proof. intros s. apply runes_loop_ok. lia. Qed.

(* the stack can hold the frames the nesting limit admits: limit + 1 (the frame that reports the
   error exists too); an unbounded stack (None) is always fine *)
Definition stack_ok (maxd stack : option nat) : Prop :=
  forall s, stack = Some s -> exists m, maxd = Some m /\ m + 1 <= s.
Definition lvl_inv (maxd : option nat) (lvl : nat) : Prop := forall m, maxd = Some m -> lvl <= m.

Lemma enter_ok : forall maxd stack lvl, stack_ok maxd stack -> lvl_inv maxd lvl ->
  over stack (S lvl) = false.
Proof.
  intros maxd stack lvl Hs Hi. destruct stack as [s|]; [|reflexivity].
  destruct (Hs s eq_refl) as [m [Hm Hle]]. specialize (Hi m Hm). simpl. apply Nat.ltb_ge. lia.
Qed.
Lemma enter_inv : forall maxd lvl, over maxd (S lvl) = false -> lvl_inv maxd (S lvl).
Proof.
  intros [m|] lvl H m' E; inversion E; subst. simpl in H. apply Nat.ltb_ge in H. exact H.
Qed.
Lemma lvl_inv_0 : forall maxd, lvl_inv maxd 0.
Proof. intros maxd m _. lia. Qed.

Section LegacyProofs.
  Variables is_space is_letter is_number : N -> bool.
  Variable to_lower : N -> N.
  Variable case_sensitive : bool.
  Variable ftype : bytes -> N.
  Variables maxd stack : option nat.
  Hypothesis Hstack : stack_ok maxd stack.
  Variable data : runes.

  Notation L := (length data).
  Notation cur := (cur data).
  Notation eof := (eof data).
  Notation skip_sp := (skip_sp is_space data).
  Notation simple_term := (simple_term is_space data).
  Notation err_unexpected := (Legacy.err_unexpected is_space data).

  (* tp.pos stands on a non-space rune or at the end: the state after skipSpaces *)
  Definition settled (pos : nat) : Prop :=
    match nth_error data pos with Some c => is_space c = false | None => True end.

  Lemma cur_ok : forall pos, pos < L -> exists c, cur pos = ROk c /\ nth_error data pos = Some c.
  Proof.
    intros pos H. unfold Legacy.cur. destruct (nth_error data pos) eqn:E; [eauto|].
    apply nth_error_None in E. lia.
  Qed.

  Lemma eof_true : forall pos, eof pos = true -> pos = L.
  Proof. intros pos H. apply Nat.eqb_eq in H. exact H. Qed.
  Lemma eof_false : forall pos, eof pos = false -> pos <= L -> pos < L.
  Proof. intros pos H Hle. apply Nat.eqb_neq in H. lia. Qed.
  Lemma settled_end : settled L.
  Proof. unfold settled. destruct (nth_error data L) eqn:E; [|trivial].
    assert (nth_error data L <> None) by congruence. apply nth_error_Some in H. lia. Qed.

  Lemma skip_loop_ok : forall fuel pos, pos <= L -> L - pos < fuel ->
    wp (skip_loop is_space data fuel pos)
       (fun p => pos <= p <= L /\ settled p /\ (settled pos -> p = pos)).
  Proof.
    induction fuel as [|f IH]; intros pos Hle Hf; [lia|].
    simpl. destruct (eof pos) eqn:E.
    - simpl. apply eof_true in E. subst. repeat split; auto using settled_end.
    - pose proof (eof_false _ E Hle) as Hlt. destruct (cur_ok _ Hlt) as [c [Hc Hn]].
      rewrite Hc. simpl. destruct (is_space c) eqn:Es.
      + wpm (IH (S pos)). intros p [H1 [H2 H3]]. repeat split; try lia; auto.
        intros Hs. unfold settled in Hs. rewrite Hn in Hs. congruence.
      + simpl. repeat split; auto. unfold settled. rewrite Hn. exact Es.
  Qed.

  Lemma skip_sp_ok : forall pos, pos <= L ->
    wp (skip_sp pos) (fun p => pos <= p <= L /\ settled p /\ (settled pos -> p = pos)).
  Proof. intros pos H. apply skip_loop_ok; [exact H | unfold lfuel; lia]. Qed.

  Lemma word_loop_ok : forall fuel pos, pos <= L -> L - pos < fuel ->
    wp (word_loop is_space data fuel pos)
       (fun p => pos <= p <= L /\
                 (forall c, nth_error data pos = Some c -> is_space c || special c = true -> p = pos)).
  Proof.
    induction fuel as [|f IH]; intros pos Hle Hf; [lia|].
    simpl. destruct (eof pos) eqn:E.
    - simpl. split; [apply eof_true in E; lia | auto].
    - pose proof (eof_false _ E Hle) as Hlt. destruct (cur_ok _ Hlt) as [c [Hc Hn]].
      rewrite Hc. simpl. destruct (is_space c || special c) eqn:Es.
      + simpl. split; [lia | auto].
      + wpm (IH (S pos)). intros p [H1 H2]. split; [lia|].
        intros c' Hc' Hs. rewrite Hn in Hc'. inversion Hc'; subst. congruence.
  Qed.

  Lemma slice_len : forall a b (s : runes), a <= b -> b <= length s ->
    exists w, slice a b s = ROk w /\ length w = b - a.
  Proof.
    intros a b s H1 H2. rewrite slice_ok by assumption. eexists; split; [reflexivity|].
    rewrite firstn_length, skipn_length. lia.
  Qed.

  Definition simple_post (pos : nat) (x : runes * nat) : Prop :=
    let '(w, p) := x in
    pos + length w <= p <= L /\ settled p /\
    (w = [] -> settled pos -> p = pos) /\
    (forall c, nth_error data pos = Some c -> is_space c || special c = true -> w = []).

  Lemma simple_term_ok : forall pos, pos <= L -> wp (simple_term pos) (simple_post pos).
  Proof.
    intros pos Hle. unfold Legacy.simple_term. wpb.
    wpm (word_loop_ok (lfuel data pos) pos).
    intros fin [Hf1 Hf2]. wpb. wpm (skip_sp_ok fin).
    intros p [Hp1 [Hp2 Hp3]].
    destruct (slice_len pos fin data) as [w [Hw Hl]]; try lia.
    rewrite Hw. simpl. repeat split; try lia; auto.
    - intros Hnil Hs. subst w. simpl in Hl. assert (fin = pos) by lia. subst fin. auto.
    - intros c Hc Hs. specialize (Hf2 c Hc Hs). subst fin.
      destruct w; [reflexivity | simpl in Hl; lia].
  Qed.

  Lemma err_unexpected_ok : forall A pos, pos < L -> err_unexpected pos = (RErr : R A).
  Proof.
    intros A pos Hlt. unfold Legacy.err_unexpected.
    pose proof (simple_term_ok pos (Nat.lt_le_incl _ _ Hlt)) as H.
    destruct (simple_term pos) as [[w p]| | |]; simpl in *; try contradiction; try reflexivity.
    destruct w; [|reflexivity]. destruct (cur_ok _ Hlt) as [c [Hc _]]. rewrite Hc. reflexivity.
  Qed.

  Lemma wp_err_unexpected : forall A pos (Q : A -> Prop), pos < L -> wp (err_unexpected pos) Q.
  Proof. intros. rewrite err_unexpected_ok by assumption. exact I. Qed.

  (* ---------------------------------------------------------------- literals *)
  Notation terms_loop := (terms_loop is_space is_letter is_number to_lower data).
  Notation quoted_loop := (quoted_loop is_space is_letter is_number to_lower data).

  Lemma terms_loop_ok : forall fuel pos tb, pos <= L -> L - pos < fuel ->
    wp (terms_loop fuel pos tb) (fun x => pos <= snd x <= L).
  Proof.
    induction fuel as [|f IH]; intros pos tb Hle Hf; [lia|].
    simpl. destruct (eof pos) eqn:E; [simpl; lia|].
    pose proof (eof_false _ E Hle) as Hlt. destruct (cur_ok _ Hlt) as [c [Hc Hn]].
    rewrite Hc. simpl.
    destruct (N.eqb c 42).
    { destruct (app_wild tb); [|exact I]. wpm (IH (S pos) b). intros x Hx. lia. }
    destruct (N.eqb c 92).
    { destruct (eof (S pos)) eqn:E1; [exact I|].
      assert (Hlt1 : S pos < L) by (apply eof_false; [exact E1 | lia]).
      destruct (cur_ok _ Hlt1) as [c1 [Hc1 _]]. rewrite Hc1. simpl.
      destruct (negb (is_space c1) && negb (special c1) && negb (graylog_escaped c1)).
      - apply wp_err_unexpected. exact Hlt1.
      - destruct (app_rune is_letter is_number to_lower tb c1); [|exact I].
        wpm (IH (S (S pos)) b). intros x Hx. lia. }
    destruct (is_space c || special c); [simpl; lia|].
    destruct (app_rune is_letter is_number to_lower tb c); [|exact I].
    wpm (IH (S pos) b). intros x Hx. lia.
  Qed.

  Notation parse_terms := (parse_terms is_space is_letter is_number to_lower data).
  Notation parse_quoted := (parse_quoted is_space is_letter is_number to_lower data).

  Lemma parse_terms_ok : forall pos tb, pos <= L ->
    wp (parse_terms pos tb) (fun x => pos <= snd x <= L /\ settled (snd x)).
  Proof.
    intros pos tb Hle. unfold Legacy.parse_terms. wpb.
    wpm (terms_loop_ok (lfuel data pos) pos tb).
    intros [tb' p] Hp. simpl in Hp. wpb. wpm (skip_sp_ok p).
    intros p' [H1 [H2 _]]. simpl. split; [lia | exact H2].
  Qed.

  Lemma quoted_loop_ok : forall fuel pos tb, pos <= L -> L - pos < fuel ->
    wp (quoted_loop fuel pos tb) (fun x => pos < snd x <= L /\ settled (snd x)).
  Proof.
    induction fuel as [|f IH]; intros pos tb Hle Hf; [lia|].
    simpl. destruct (eof pos) eqn:E; [exact I|].
    pose proof (eof_false _ E Hle) as Hlt. destruct (cur_ok _ Hlt) as [c [Hc Hn]].
    rewrite Hc. simpl.
    destruct (N.eqb c 92).
    { destruct (eof (S pos)) eqn:E1; [exact I|].
      assert (Hlt1 : S pos < L) by (apply eof_false; [exact E1 | lia]).
      destruct (cur_ok _ Hlt1) as [c1 [Hc1 _]]. rewrite Hc1. simpl.
      destruct (if quote_escaped c1 then Some tb
                else app_rune is_letter is_number to_lower tb 92%N); [|exact I].
      destruct (app_rune is_letter is_number to_lower b c1); [|exact I].
      wpm (IH (S (S pos)) b0). intros x [Hx Hs]. split; [lia | exact Hs]. }
    destruct (N.eqb c 42).
    { destruct (app_wild tb); [|exact I].
      wpm (IH (S pos) b). intros x [Hx Hs]. split; [lia | exact Hs]. }
    destruct (N.eqb c 34).
    { wpb. wpm (skip_sp_ok (S pos)). intros p [H1 [H2 _]]. simpl. split; [lia|exact H2]. }
    destruct (app_rune is_letter is_number to_lower tb c); [|exact I].
    wpm (IH (S pos) b). intros x [Hx Hs]. split; [lia | exact Hs].
  Qed.

  (* the precondition of parseQuotedTerms (its explicit panic): the current rune is the quote *)
  Lemma parse_quoted_ok : forall pos tb c, pos < L -> nth_error data pos = Some c -> N.eqb c 34 = true ->
    wp (parse_quoted pos tb) (fun x => pos < snd x <= L /\ settled (snd x)).
  Proof.
    intros pos tb c Hlt Hn Hq. unfold Legacy.parse_quoted.
    destruct (cur_ok _ Hlt) as [c' [Hc Hn']]. rewrite Hn in Hn'. inversion Hn'; subst c'.
    rewrite Hc. simpl. rewrite Hq. simpl.
    wpm (quoted_loop_ok (lfuel data (S pos)) (S pos) tb).
    intros x [Hx Hs]. split; [lia | exact Hs].
  Qed.

  Notation range_term := (range_term is_space is_letter is_number to_lower data).
  Notation parse_range := (parse_range is_space is_letter is_number to_lower data).

  Lemma range_term_tail : forall (q : bool) tb p pos, pos <= p <= L -> settled p ->
    wp (if term_data_empty (get_term tb) && negb q
        then (if eof p then RErr else err_unexpected p)
        else ROk (get_term tb, p))
       (fun x : term * nat => pos <= snd x <= L /\ settled (snd x)).
  Proof.
    intros q tb p pos Hp Hs. destruct (term_data_empty (get_term tb) && negb q).
    - destruct (eof p) eqn:E2; [exact I|]. apply wp_err_unexpected. apply eof_false; [exact E2|lia].
    - simpl. split; [lia | exact Hs].
  Qed.

  Lemma range_term_ok : forall pos, pos <= L ->
    wp (range_term pos) (fun x => pos <= snd x <= L /\ settled (snd x)).
  Proof.
    intros pos Hle. unfold Legacy.range_term.
    destruct (eof pos) eqn:E.
    - wpb. simpl. wpb. wpm (parse_terms_ok pos (BSingle false [])).
      intros [tb p] [H1 H2]. simpl in H1, H2. cbv beta iota zeta. apply (range_term_tail false tb p pos); assumption.
    - pose proof (eof_false _ E Hle) as Hlt. destruct (cur_ok _ Hlt) as [c [Hc Hn]].
      rewrite Hc. wpb. simpl. destruct (N.eqb c 34) eqn:Eq.
      + wpb. wpm (parse_quoted_ok pos (BSingle false []) c Hlt Hn Eq).
        intros [tb p] [H1 H2]. simpl in H1, H2. cbv beta iota zeta. apply (range_term_tail true tb p pos); [lia | assumption].
      + wpb. wpm (parse_terms_ok pos (BSingle false [])).
        intros [tb p] [H1 H2]. simpl in H1, H2. cbv beta iota zeta. apply (range_term_tail false tb p pos); assumption.
  Qed.

  (* the precondition of parseRange (its explicit panic): the current rune is [ or { *)
  Lemma parse_range_ok : forall pos c, pos < L -> nth_error data pos = Some c ->
    N.eqb c 91 || N.eqb c 123 = true ->
    wp (parse_range pos) (fun x => pos < snd x <= L /\ settled (snd x)).
  Proof.
    intros pos c Hlt Hn Hb. unfold Legacy.parse_range.
    destruct (cur_ok _ Hlt) as [c' [Hc Hn']]. rewrite Hn in Hn'. inversion Hn'; subst c'.
    rewrite Hc. simpl. wpb.
    assert (Hinc : wp (if N.eqb c 91 then ROk true else if N.eqb c 123 then ROk false else RPanic)
                      (fun _ : bool => True)).
    { destruct (N.eqb c 91); [exact I|]. simpl in Hb. rewrite Hb. exact I. }
    eapply wp_mono; [ exact Hinc | ]. intros incf _. wpb. wpm (skip_sp_ok (S pos)).
    intros p1 [Hp1 _]. wpb. wpm (range_term_ok p1).
    intros [from p2] [Hp2 _]. simpl in Hp2. wpb. wpm (simple_term_ok p2).
    intros [to p3] [Hp3 [Hs3 _]].
    destruct (negb (eq_fold_ascii to kw_to_r)).
    - destruct (eof p3) eqn:E3; [exact I|].
      destruct to; [|exact I]. apply wp_err_unexpected.
      assert (p3 < L) by (apply eof_false; [exact E3 | lia]). simpl in Hp3. lia.
    - wpb. wpm (range_term_ok p3).
      intros [tot p4] [Hp4 _]. simpl in Hp4.
      destruct (eof p4) eqn:E4; [exact I|].
      assert (Hlt4 : p4 < L) by (apply eof_false; [exact E4 | lia]).
      destruct (cur_ok _ Hlt4) as [c4 [Hc4 _]]. rewrite Hc4. simpl. wpb.
      assert (Hinct : wp (if N.eqb c4 93 then ROk true else if N.eqb c4 125 then ROk false
                          else err_unexpected p4) (fun _ : bool => True)).
      { destruct (N.eqb c4 93); [exact I|]. destruct (N.eqb c4 125); [exact I|].
        apply wp_err_unexpected. exact Hlt4. }
      eapply wp_mono; [ exact Hinct | ]. intros inct _. wpb. wpm (skip_sp_ok (S p4)).
      intros p5 [Hp5 [Hs5 _]]. simpl. split; [lia | exact Hs5].
  Qed.

  Notation parse_literal :=
    (parse_literal is_space is_letter is_number to_lower case_sensitive data).
  Notation token_query :=
    (token_query is_space is_letter is_number to_lower case_sensitive data).

  Definition lit_post (pos : nat) (x : list ltoken * nat) : Prop :=
    pos <= snd x <= L /\ settled (snd x) /\ fst x <> [].

  Lemma parse_literal_ok : forall pos field itype, pos <= L ->
    wp (parse_literal pos field itype) (lit_post pos).
  Proof.
    intros pos field itype Hle. unfold Legacy.parse_literal.
    destruct (eof pos) eqn:E; [exact I|].
    pose proof (eof_false _ E Hle) as Hlt. destruct (cur_ok _ Hlt) as [c [Hc Hn]].
    rewrite Hc. simpl.
    destruct (N.eqb c 91 || N.eqb c 123) eqn:Eb.
    { wpb. wpm (parse_range_ok pos c Hlt Hn Eb).
      intros [[[[from to] incf] inct] p] [H1 H2]. simpl in *.
      unfold lit_post. simpl. repeat split; try lia; auto. discriminate. }
    destruct (if N.eqb itype 2 then Some (BTx (lit_sens case_sensitive field) b_empty)
              else if N.eqb itype 1 then Some (BKw (lit_sens case_sensitive field) b_empty)
              else None) as [lb|]; [|exact I].
    destruct (N.eqb c 34) eqn:Eq.
    - wpb. wpm (parse_quoted_ok pos lb c Hlt Hn Eq).
      intros [tb p] [H1 H2]. simpl in *.
      destruct (get_tokens tb) eqn:Et; unfold lit_post; simpl;
        repeat split; try lia; auto; discriminate.
    - wpb. wpm (parse_terms_ok pos lb).
      intros [tb p] [H1 H2]. simpl in *.
      destruct (get_tokens tb) eqn:Et.
      + destruct (Nat.eqb pos p) eqn:Ep.
        * apply wp_err_unexpected. apply Nat.eqb_eq in Ep. subst p. exact Hlt.
        * destruct (slice_len pos p data) as [w [Hw _]]; try lia. rewrite Hw. exact I.
      + unfold lit_post. simpl. repeat split; try lia; auto; discriminate.
  Qed.

  Lemma token_query_ok : forall pos field itype, pos <= L ->
    wp (token_query pos field itype)
       (fun x => pos < snd x <= L /\ settled (snd x) /\ fst x <> []).
  Proof.
    intros pos field itype Hle. unfold Legacy.token_query.
    destruct (eof pos) eqn:E; [exact I|].
    pose proof (eof_false _ E Hle) as Hlt. destruct (cur_ok _ Hlt) as [c [Hc Hn]].
    rewrite Hc. simpl.
    destruct (negb (N.eqb c 58)); [apply wp_err_unexpected; exact Hlt|].
    wpb. wpm (skip_sp_ok (S pos)). intros p [Hp _].
    wpm (parse_literal_ok p field itype).
    intros x [H1 [H2 H3]]. repeat split; try lia; auto.
  Qed.
  Notation field_operand :=
    (field_operand is_space is_letter is_number to_lower case_sensitive ftype data).

  Lemma field_operand_ok : forall name p1 lv, p1 <= L -> (name = [] -> p1 < L) ->
    wp (field_operand name p1 lv)
       (fun x => p1 < snd x <= L /\ settled (snd x) /\ fst (fst x) <> 0).
  Proof.
    intros name p1 lv Hle Hnil. unfold Legacy.field_operand. destruct name as [|c name].
    - apply wp_err_unexpected. auto.
    - destruct (N.eqb (ftype (encode_runes (c :: name))) 0); [exact I|].
      wpb. wpm (token_query_ok p1 (encode_runes (c :: name)) (ftype (encode_runes (c :: name)))).
      intros [toks p2] [H1 [H2 H3]]. simpl in *. repeat split; try lia; auto.
      destruct toks; [congruence | simpl; lia].
  Qed.

  Notation bsub := (bsub is_space is_letter is_number to_lower case_sensitive ftype maxd stack data).
  Notation bexpr := (bexpr is_space is_letter is_number to_lower case_sensitive ftype maxd stack data).
  Notation bloop := (bloop is_space is_letter is_number to_lower case_sensitive ftype maxd stack data).

  Lemma eq_fold_nonempty : forall w kw, kw <> [] -> eq_fold_ascii w kw = true -> w <> [].
  Proof. intros w kw Hk H. destruct w; [destruct kw; [congruence | discriminate] | discriminate]. Qed.
  Lemma runes_eqb_nonempty : forall (op : runes) kw, kw <> [] ->
    runes_eqb (map to_lower op) kw = true -> op <> [].
  Proof. intros op kw Hk H. destruct op; [destruct kw; [congruence | discriminate] | discriminate]. Qed.

  Notation ppost pos :=
    (fun x : (ast * list ltoken) * nat => pos < snd x <= L /\ settled (snd x)).
  Notation lpost pos :=
    (fun x : (ast * list ltoken) * nat => pos <= snd x <= L /\ settled (snd x)).

  (* parseSubexpr / parseExpr with fuel 2 * remaining + c: no panic, no exhausted fuel, every
     successful parseSubexpr consumes input, every iteration of parseExpr's loop consumes an
     operator and an operand *)
  Lemma parse_all : forall f,
    (forall d pos lv lvl, pos <= L -> settled pos -> 2 * (L - pos) + 1 <= f -> lvl_inv maxd lvl ->
       wp (bsub f d pos lv lvl) (ppost pos)) /\
    (forall d pos lv lvl, pos <= L -> settled pos -> 2 * (L - pos) + 2 <= f -> lvl_inv maxd lvl ->
       wp (bexpr f d pos lv lvl) (ppost pos)) /\
    (forall d low high pos lv lvl, pos <= L -> settled pos -> 2 * (L - pos) + 2 <= f ->
       lvl_inv maxd lvl ->
       wp (bloop f d low high pos lv lvl) (lpost pos)).
  Proof.
    induction f as [|f [IHs [IHe IHl]]].
    { repeat split; intros; lia. }
    split; [| split].
    - intros d pos lv lvl Hle Hs Hf Hinv. cbn [Legacy.bsub]. cbv zeta.
      rewrite (enter_ok maxd stack lvl Hstack Hinv).
      destruct (over maxd (S lvl)) eqn:Eo; [exact I|].
      pose proof (enter_inv _ _ Eo) as Hinv'.
      destruct (eof pos) eqn:E; [exact I|].
      pose proof (eof_false _ E Hle) as Hlt. destruct (cur_ok _ Hlt) as [c [Hc Hn]].
      rewrite Hc. cbn [rbind]. destruct (N.eqb c 40).
      { wpb. wpm (skip_sp_ok (S pos)). intros p1 [Hp1 [Hs1 _]]. wpb.
        wpm (IHe (S d) p1 lv (S lvl)). intros [[e lv2] p2] [Hp2 Hs2]. simpl in Hp2, Hs2.
        cbv beta iota.
        destruct (eof p2) eqn:E2; [exact I|].
        assert (Hlt2 : p2 < L) by (apply eof_false; [exact E2 | lia]).
        destruct (cur_ok _ Hlt2) as [c2 [Hc2 _]]. rewrite Hc2. cbn [rbind].
        destruct (negb (N.eqb c2 41)); [apply wp_err_unexpected; exact Hlt2|].
        wpb. wpm (skip_sp_ok (S p2)). intros p3 [Hp3 [Hs3 _]]. simpl. split; [lia | exact Hs3]. }
      wpb. wpm (simple_term_ok pos). intros [name p1] [Hp1 [Hs1 [Hnil _]]].
      destruct (eq_fold_ascii name kw_not_r) eqn:En.
      { assert (Hne : name <> []) by (eapply eq_fold_nonempty; [| exact En]; discriminate).
        assert (pos < p1) by (destruct name; [congruence | simpl in Hp1; lia]).
        wpb. wpm (IHs d p1 lv (S lvl)). intros [[ch lv2] p2] [Hp2 Hs2]. simpl in Hp2, Hs2.
        simpl. split; [lia | exact Hs2]. }
      wpb. eapply wp_mono.
      { apply field_operand_ok; [lia | intros Hn0; rewrite (Hnil Hn0 Hs); exact Hlt]. }
      cbv beta. intros [[k lv2] p2] [Hp2 [Hs2 Hk]]. simpl in Hp2, Hs2, Hk.
      destruct k; [congruence|]. simpl. split; [lia | exact Hs2].
    - intros d pos lv lvl Hle Hs Hf Hinv. cbn [Legacy.bexpr].
      wpb. wpm (IHs d pos lv lvl). intros [[high lv2] p] [Hp Hs']. simpl in Hp, Hs'.
      wpm (IHl d None high p lv2 lvl). intros x [H1 H2]. split; [lia | exact H2].
    - intros d low high pos lv lvl Hle Hs Hf Hinv. cbn [Legacy.bloop].
      wpb. wpm (simple_term_ok pos). intros [op p1] [Hp1 [Hs1 [Hnil _]]].
      cbv zeta.
      destruct (runes_eqb (map to_lower op) kw_and_r) eqn:Ea.
      { assert (Hne : op <> []) by (eapply runes_eqb_nonempty; [| exact Ea]; discriminate).
        assert (pos < p1) by (destruct op; [congruence | simpl in Hp1; lia]).
        wpb. wpm (IHs d p1 lv lvl). intros [[rgt lv2] p2] [Hp2 Hs2]. simpl in Hp2, Hs2.
        wpm (IHl d low (AndN high rgt) p2 lv2 lvl). intros x [H1 H2]. split; [lia | exact H2]. }
      destruct (runes_eqb (map to_lower op) kw_or_r) eqn:Eo.
      { assert (Hne : op <> []) by (eapply runes_eqb_nonempty; [| exact Eo]; discriminate).
        assert (pos < p1) by (destruct op; [congruence | simpl in Hp1; lia]).
        wpb. wpm (IHs d p1 lv lvl). intros [[rgt lv2] p2] [Hp2 Hs2]. simpl in Hp2, Hs2.
        wpm (IHl d (Some (join_or low high)) rgt p2 lv2 lvl).
        intros x [H1 H2]. split; [lia | exact H2]. }
      destruct op; [|exact I].
      simpl in Hp1. destruct (eof p1) eqn:E1.
      { simpl. split; [lia | exact Hs1]. }
      assert (Hlt1 : p1 < L) by (apply eof_false; [exact E1 | lia]).
      destruct (cur_ok _ Hlt1) as [c [Hc _]]. rewrite Hc. cbn [rbind].
      destruct (N.eqb c 41 && Nat.ltb 0 d).
      + simpl. split; [lia | exact Hs1].
      + apply wp_err_unexpected. exact Hlt1.
  Qed.

  Lemma settled_skip0 : wp (skip_sp 0) (fun p => p <= L /\ settled p).
  Proof. wpm (skip_sp_ok 0). intros p [H1 [H2 _]]. split; [lia | exact H2]. Qed.

  Lemma build_ast_ok :
    wp (build_ast is_space is_letter is_number to_lower case_sensitive ftype maxd stack data) (fun _ => True).
  Proof.
    unfold build_ast. wpb. eapply wp_mono; [exact settled_skip0 | cbv beta].
    intros p0 [Hp0 Hs0]. wpb. destruct (parse_all (pfuel data)) as [_ [He _]].
    eapply wp_mono; [ apply (He 0 p0 [] 0); [lia | assumption | unfold pfuel; lia | apply lvl_inv_0] | cbv beta ].
    intros [[e lv] p] _. exact I.
  Qed.

  Lemma agg_filter_ok :
    wp (agg_filter is_space is_letter is_number to_lower case_sensitive data) (fun _ => True).
  Proof.
    unfold agg_filter. wpb. eapply wp_mono; [exact settled_skip0 | cbv beta].
    intros p0 [Hp0 Hs0]. destruct (eof p0) eqn:E; [exact I|].
    assert (Hlt : p0 < L) by (apply eof_false; assumption).
    wpb. wpm (simple_term_ok p0). intros [name p1] [Hp1 [Hs1 [Hnil _]]].
    destruct name as [|c name].
    - apply wp_err_unexpected. rewrite (Hnil eq_refl Hs0). exact Hlt.
    - wpb. wpm (token_query_ok p1 (encode_runes (c :: name)) 1%N).
      intros [toks p2] _. destruct (negb (eof p2)); [exact I|].
      destruct toks as [|[f ts|] [|]]; exact I.
  Qed.
End LegacyProofs.

(* ---------------------------------------------------------------- the theorems *)
Lemma legacy_parse_total_gen :
  forall (is_space is_letter is_number : N -> bool) (to_lower : N -> N) (case_sensitive : bool)
         (ftype : bytes -> N) (maxd stack : option nat) (q : bytes), stack_ok maxd stack ->
    legacy_parse is_space is_letter is_number to_lower case_sensitive ftype maxd stack q = RErr \/
    exists a, legacy_parse is_space is_letter is_number to_lower case_sensitive ftype maxd stack q
              = ROk a.
Proof.
  intros until q. intros Hst. unfold legacy_parse. destruct (runes_of_ok q) as [rs Hrs].
  rewrite Hrs. simpl.
  pose proof (build_ast_ok is_space is_letter is_number to_lower case_sensitive ftype maxd stack
                           Hst rs) as H.
  destruct (build_ast is_space is_letter is_number to_lower case_sensitive ftype maxd stack rs)
    as [[e lv]| | |]; simpl in *; try contradiction; eauto.
Qed.

Lemma stack_ok_none : forall maxd, stack_ok maxd None.
Proof. intros maxd s H. discriminate. Qed.
Lemma stack_ok_some : forall m s, m + 1 <= s -> stack_ok (Some m) (Some s).
Proof. intros m s H s' E. inversion E; subst. eauto. Qed.

(* unbounded stack: any nesting limit, also none (the `_v0` code) *)
Lemma legacy_parse_total :
  forall (is_space is_letter is_number : N -> bool) (to_lower : N -> N) (case_sensitive : bool)
         (ftype : bytes -> N) (maxd : option nat) (q : bytes),
    legacy_parse is_space is_letter is_number to_lower case_sensitive ftype maxd None q = RErr \/
    exists a, legacy_parse is_space is_letter is_number to_lower case_sensitive ftype maxd None q
              = ROk a.
Proof. intros. apply legacy_parse_total_gen. apply stack_ok_none. Qed.

(* a stack of limit + 1 frames suffices, whatever the input *)
Lemma legacy_nesting_bounded :
  forall (is_space is_letter is_number : N -> bool) (to_lower : N -> N) (case_sensitive : bool)
         (ftype : bytes -> N) (m s : nat) (q : bytes), m + 1 <= s ->
    legacy_parse is_space is_letter is_number to_lower case_sensitive ftype (Some m) (Some s) q = RErr \/
    exists a, legacy_parse is_space is_letter is_number to_lower case_sensitive ftype (Some m) (Some s) q
              = ROk a.
Proof. intros. apply legacy_parse_total_gen. apply stack_ok_some. assumption. Qed.

(* a sub-expression entered with `limit` frames already on the stack is rejected at once *)
Lemma bsub_rejects :
  forall (is_space is_letter is_number : N -> bool) (to_lower : N -> N) (case_sensitive : bool)
         (ftype : bytes -> N) (m : nat) (stack : option nat) data f d pos lv lvl,
    m <= lvl -> over stack (S lvl) = false ->
    bsub is_space is_letter is_number to_lower case_sensitive ftype (Some m) stack data (S f) d pos lv lvl
    = RErr.
Proof.
  intros. cbn [bsub]. cbv zeta. rewrite H0.
  assert (E : over (Some m) (S lvl) = true) by (simpl; apply Nat.ltb_lt; lia).
  rewrite E. reflexivity.
Qed.

Lemma legacy_agg_total :
  forall (is_space is_letter is_number : N -> bool) (to_lower : N -> N) (case_sensitive : bool)
         (q : bytes),
    legacy_agg is_space is_letter is_number to_lower case_sensitive q = RErr \/
    exists a, legacy_agg is_space is_letter is_number to_lower case_sensitive q = ROk a.
Proof.
  intros. unfold legacy_agg. destruct (runes_of_ok q) as [rs Hrs]. rewrite Hrs. simpl.
  pose proof (agg_filter_ok is_space is_letter is_number to_lower case_sensitive rs) as H.
  destruct (agg_filter is_space is_letter is_number to_lower case_sensitive rs);
    simpl in *; try contradiction; eauto.
Qed.
