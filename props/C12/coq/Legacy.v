(* C12 stage 3 — rune-level model of the LEGACY query parser and of ParseAggregationFilter on RAW
   BYTES.   NO proofs in this file.

   Mirrors parser/query_parser.go  buildAst, ParseQuery, parseSubexpr, parseExpr (depth counter),
                                   ParseAggregationFilter, indexType (as the oracle [ftype])
           parser/token_parser.go  tokenParser{data []rune, pos int}: cur, eof, space, specialSymbol,
                                   skipSpaces, parseSimpleTerm, parseTerms, parseQuotedTerms,
                                   parseRangeTerm, parseRange, parseLiteral, parseTokenQuery,
                                   errorUnexpectedSymbol (it reads tp.cur())
           parser/token_literal.go specialSymbol / graylogEscapedSymbol / quoteEscapedSymbol tables
           parser/term_builder.go  baseTokenBuilder (finishTextTerm, finishToken, getTokens,
                                   appendRuneInternal, appendSymbolTerm, endsWithSymbol),
                                   keywordTokenBuilder, textTokenBuilder, singleTermBuilder
           parser/ast_node.go      buildAndTree (tokens[0]), propagateNot (Model.v: finish)
           []rune(string)          utf8 decoding, U+FFFD for every invalid byte (Lexer.v: decode)
   The parser state is the rune slice [data] and the index [pos], exactly as in the Go code:
   tp.data[tp.pos] is the CHECKED read [cur] (out of range = RPanic), tp.data[a:b] the checked
   slice of Lexer.v, tokens[0] of buildAndTree a checked head, the two explicit panic(..) calls
   ("quote not found", "range start not found") are RPanic.  Every loop has fuel (RFuel).
   Oracles (Section variables): unicode.IsSpace / IsLetter / IsNumber, unicode.ToLower,
   conf.CaseSensitive, the field mapping. *)
From Coq Require Export List Bool Arith NArith.
From C12 Require Export Model Lexer.
Export ListNotations.

(* a rune string; string(runes) re-encodes every rune (utf8.AppendRune) *)
Definition runes := list N.
Definition encode_runes (rs : runes) : bytes := flat_map encode_rune rs.

(* []rune(s): decode until the string is empty; each step takes >= 1 byte *)
Fixpoint runes_loop (fuel : nat) (s : bytes) : R runes :=
  match fuel with
  | 0 => RFuel
  | S f =>
    match s with
    | [] => ROk []
    | _ => let '(r, sz) := decode s in do t <- runes_loop f (skipn sz s); ROk (r :: t)
    end
  end.
Definition runes_of (s : bytes) : R runes := runes_loop (S (length s)) s.

(* parser.Token of the legacy parser: *Literal or *Range *)
Inductive ltoken :=
| LLit (field : bytes) (terms : list term)
| LRng (field : bytes) (from to : term) (incl_from incl_to : bool).

(* token_literal.go: the three symbol tables *)
Definition special (r : N) : bool :=
  N.eqb r 40 || N.eqb r 41 || N.eqb r 123 || N.eqb r 125 || N.eqb r 91 || N.eqb r 93
  || N.eqb r 42 || N.eqb r 34 || N.eqb r 92 || N.eqb r 58.
Definition graylog_escaped (r : N) : bool := N.eqb r 45 || N.eqb r 47.
Definition quote_escaped (r : N) : bool := N.eqb r 34 || N.eqb r 92 || N.eqb r 42.

Fixpoint runes_eqb (a b : runes) : bool :=
  match a, b with
  | [], [] => true
  | x :: a', y :: b' => N.eqb x y && runes_eqb a' b'
  | _, _ => false
  end.

(* strings.EqualFold(w, kw) for the lower-case ASCII keywords "not" and "to": no rune outside
   ASCII folds to n, o or t, so this is ASCII case folding *)
Fixpoint eq_fold_ascii (w kw : runes) : bool :=
  match w, kw with
  | [], [] => true
  | c :: w', k :: kw' => (N.eqb c k || N.eqb (c + 32) k && in_range 65 90 c) && eq_fold_ascii w' kw'
  | _, _ => false
  end.

(* ---------------------------------------------------------------- term builders *)
(* baseTokenBuilder: tokens (each a Literal's Terms), terms, term *)
Record bstate := mkB { b_tokens : list (list term); b_terms : list term; b_term : bytes }.
Definition b_empty : bstate := mkB [] [] [].

Definition finish_text_term (b : bstate) : bstate :=
  match b_term b with
  | [] => b
  | t => mkB (b_tokens b) (b_terms b ++ [TmText t]) []
  end.

Definition finish_token (b : bstate) : bstate :=
  let b := finish_text_term b in
  match b_terms b with
  | [] => b
  | ts => mkB (b_tokens b ++ [ts]) [] (b_term b)
  end.

Definition append_symbol_term (b : bstate) : bstate :=
  let b := finish_text_term b in mkB (b_tokens b) (b_terms b ++ [TmSym]) (b_term b).

(* endsWithSymbol('*'): len(term) == 0 && len(terms) != 0 && last term is the symbol *)
Definition ends_with_symbol (b : bstate) : bool :=
  match b_term b with
  | [] => match rev (b_terms b) with TmSym :: _ => true | _ => false end
  | _ => false
  end.

Inductive builder :=
| BKw (sens : bool) (b : bstate)          (* keywordTokenBuilder *)
| BTx (sens : bool) (b : bstate)          (* textTokenBuilder *)
| BSingle (wild : bool) (d : bytes).      (* singleTermBuilder *)

Section Legacy.
  Variables is_space is_letter is_number : N -> bool.
  Variable to_lower : N -> N.
  Variable case_sensitive : bool.
  (* indexType(mapping, field): 0 noop, 1 keyword or path, 2 text, 3 exists/object/tags/nested *)
  Variable ftype : bytes -> N.
  (* maxd = the nesting limit of parseSubexpr (Some maxNestingDepth; None = the code before the
     limit was introduced, `_v0`).  stack = how many nested parseSubexpr frames the goroutine stack
     can hold (None = the idealised unbounded stack): entering a frame beyond it is the fatal
     stack overflow, modelled as RPanic. *)
  Variables maxd stack : option nat.

  Definition append_rune_internal (sens : bool) (b : bstate) (r : N) : bstate :=
    let r := if sens then r else to_lower r in
    mkB (b_tokens b) (b_terms b) (b_term b ++ encode_rune r).

  (* isIndexed of the text builder *)
  Definition is_indexed (c : N) : bool :=
    is_letter c || is_number c || N.eqb c 95 || N.eqb c 42.

  (* tb.appendRune: None = the builder's error *)
  Definition app_rune (tb : builder) (r : N) : option builder :=
    match tb with
    | BKw s b => Some (BKw s (append_rune_internal s b r))
    | BTx s b => if is_indexed r then Some (BTx s (append_rune_internal s b r))
                 else Some (BTx s (finish_token b))
    | BSingle w d => if w then None else Some (BSingle w (d ++ encode_rune r))
    end.

  (* tb.appendWildcard *)
  Definition app_wild (tb : builder) : option builder :=
    match tb with
    | BKw s b => if ends_with_symbol b then None else Some (BKw s (append_symbol_term b))
    | BTx s b => let b := if ends_with_symbol b then finish_token b else b in
                 Some (BTx s (append_symbol_term b))
    | BSingle w d => if w then None else match d with [] => Some (BSingle true d) | _ => None end
    end.

  (* lb.getTokens() *)
  Definition get_tokens (tb : builder) : list (list term) :=
    match tb with
    | BKw _ b | BTx _ b => b_tokens (finish_token b)
    | BSingle _ _ => []
    end.

  (* builder.getTerm() *)
  Definition get_term (tb : builder) : term :=
    match tb with
    | BSingle w d => if w then TmSym else TmText d
    | _ => TmText []
    end.
  Definition term_data_empty (t : term) : bool :=
    match t with TmText [] => true | _ => false end.

  (* ---------------------------------------------------------------- tokenParser *)
  Section Data.
    Variable data : runes.

    (* tp.data[tp.pos] *)
    Definition cur (pos : nat) : R N :=
      match nth_error data pos with Some c => ROk c | None => RPanic end.
    (* tp.pos == len(tp.data) *)
    Definition eof (pos : nat) : bool := Nat.eqb pos (length data).

    (* fuel of a loop that advances pos by >= 1 per iteration *)
    Definition lfuel (pos : nat) : nat := S (length data - pos).

    (* for !tp.eof() && tp.space() { tp.pos++ } *)
    Fixpoint skip_loop (fuel pos : nat) : R nat :=
      match fuel with
      | 0 => RFuel
      | S f => if eof pos then ROk pos
               else do c <- cur pos; if is_space c then skip_loop f (S pos) else ROk pos
      end.
    Definition skip_sp (pos : nat) : R nat := skip_loop (lfuel pos) pos.

    (* for !tp.eof() && !tp.space() && !tp.specialSymbol() { tp.pos++ } *)
    Fixpoint word_loop (fuel pos : nat) : R nat :=
      match fuel with
      | 0 => RFuel
      | S f => if eof pos then ROk pos
               else do c <- cur pos;
                    if is_space c || special c then ROk pos else word_loop f (S pos)
      end.

    (* parseSimpleTerm: the word tp.data[start:finish] and the position after skipSpaces *)
    Definition simple_term (pos : nat) : R (runes * nat) :=
      do fin <- word_loop (lfuel pos) pos;
      do p <- skip_sp fin;
      do w <- slice pos fin data;
      ROk (w, p).

    (* errorUnexpectedSymbol at tp.pos = pos: parseSimpleTerm, pos restored, and if the word is
       empty the message prints tp.cur() *)
    Definition err_unexpected {A} (pos : nat) : R A :=
      do st <- simple_term pos;
      let '(w, _) := st in
      match w with
      | [] => do _ <- cur pos; RErr
      | _ => RErr
      end.

    (* parseTerms: the loop `for ; !tp.eof(); tp.pos++`; result = builder and tp.pos at loop exit *)
    Fixpoint terms_loop (fuel pos : nat) (tb : builder) : R (builder * nat) :=
      match fuel with
      | 0 => RFuel
      | S f =>
        if eof pos then ROk (tb, pos) else
        do c <- cur pos;
        if N.eqb c 42 then
          match app_wild tb with None => RErr | Some tb' => terms_loop f (S pos) tb' end
        else if N.eqb c 92 then
          let pos1 := S pos in
          if eof pos1 then RErr else
          do c1 <- cur pos1;
          if negb (is_space c1) && negb (special c1) && negb (graylog_escaped c1)
          then err_unexpected pos1
          else match app_rune tb c1 with None => RErr | Some tb' => terms_loop f (S pos1) tb' end
        else if is_space c || special c then ROk (tb, pos)
        else match app_rune tb c with None => RErr | Some tb' => terms_loop f (S pos) tb' end
      end.
    Definition parse_terms (pos : nat) (tb : builder) : R (builder * nat) :=
      do st <- terms_loop (lfuel pos) pos tb;
      let '(tb', p) := st in
      do p' <- skip_sp p;
      ROk (tb', p').

    (* parseQuotedTerms after the opening quote *)
    Fixpoint quoted_loop (fuel pos : nat) (tb : builder) : R (builder * nat) :=
      match fuel with
      | 0 => RFuel
      | S f =>
        if eof pos then RErr else
        do c <- cur pos;
        if N.eqb c 92 then
          let pos1 := S pos in
          if eof pos1 then RErr else
          do c1 <- cur pos1;
          match (if quote_escaped c1 then Some tb else app_rune tb 92%N) with
          | None => RErr
          | Some tb1 =>
            match app_rune tb1 c1 with
            | None => RErr
            | Some tb2 => quoted_loop f (S pos1) tb2
            end
          end
        else if N.eqb c 42 then
          match app_wild tb with None => RErr | Some tb' => quoted_loop f (S pos) tb' end
        else if N.eqb c 34 then
          do p <- skip_sp (S pos); ROk (tb, p)
        else match app_rune tb c with None => RErr | Some tb' => quoted_loop f (S pos) tb' end
      end.
    Definition parse_quoted (pos : nat) (tb : builder) : R (builder * nat) :=
      do c <- cur pos;
      if negb (N.eqb c 34) then RPanic            (* panic("quote not found") *)
      else quoted_loop (lfuel (S pos)) (S pos) tb.

    (* parseRangeTerm *)
    Definition range_term (pos : nat) : R (term * nat) :=
      do quoted <- (if eof pos then ROk false else do c <- cur pos; ROk (N.eqb c 34));
      do st <- (if quoted then parse_quoted pos (BSingle false [])
                else parse_terms pos (BSingle false []));
      let '(tb, p) := st in
      let t := get_term tb in
      if term_data_empty t && negb quoted then
        if eof p then RErr else err_unexpected p
      else ROk (t, p).

    Definition kw_to_r : runes := [116; 111]%N.
    Definition kw_not_r : runes := [110; 111; 116]%N.
    Definition kw_and_r : runes := [97; 110; 100]%N.
    Definition kw_or_r : runes := [111; 114]%N.

    (* parseRange: (From, To, IncludeFrom, IncludeTo) *)
    Definition parse_range (pos : nat) : R ((term * term * bool * bool) * nat) :=
      do c <- cur pos;
      do incf <- (if N.eqb c 91 then ROk true else if N.eqb c 123 then ROk false
                  else RPanic);                       (* panic("range start not found") *)
      do p1 <- skip_sp (S pos);
      do st1 <- range_term p1;
      let '(from, p2) := st1 in
      do st2 <- simple_term p2;
      let '(to, p3) := st2 in
      if negb (eq_fold_ascii to kw_to_r) then
        if eof p3 then RErr
        else match to with
             | [] => err_unexpected p2               (* tp.pos = toPos *)
             | _ => RErr
             end
      else
        do st3 <- range_term p3;
        let '(tot, p4) := st3 in
        if eof p4 then RErr else
        do c4 <- cur p4;
        do inct <- (if N.eqb c4 93 then ROk true else if N.eqb c4 125 then ROk false
                    else err_unexpected p4);
        do p5 <- skip_sp (S p4);
        ROk ((from, tot, incf, inct), p5).

    Definition lit_sens (field : bytes) : bool := case_sensitive || bytes_eqb field exists_name.

    (* parseLiteral(fieldName, indexType) *)
    Definition parse_literal (pos : nat) (field : bytes) (itype : N) : R (list ltoken * nat) :=
      if eof pos then RErr else
      do c <- cur pos;
      if N.eqb c 91 || N.eqb c 123 then
        do st <- parse_range pos;
        let '((from, to, incf, inct), p) := st in
        ROk ([LRng field from to incf inct], p)
      else
        let sens := lit_sens field in
        match (if N.eqb itype 2 then Some (BTx sens b_empty)
               else if N.eqb itype 1 then Some (BKw sens b_empty) else None) with
        | None => RErr          (* "field has index type .. and cannot be searched by value" *)
        | Some lb =>
          if N.eqb c 34 then
            do st <- parse_quoted pos lb;
            let '(tb, p) := st in
            match get_tokens tb with
            | [] => ROk ([LLit field [TmText []]], p)
            | toks => ROk (map (LLit field) toks, p)
            end
          else
            do st <- parse_terms pos lb;
            let '(tb, p) := st in
            match get_tokens tb with
            | [] => if Nat.eqb pos p then err_unexpected p
                    else do _ <- slice pos p data; RErr       (* string(tp.data[pos:tp.pos]) *)
            | toks => ROk (map (LLit field) toks, p)
            end
        end.

    (* parseTokenQuery *)
    Definition token_query (pos : nat) (field : bytes) (itype : N) : R (list ltoken * nat) :=
      if eof pos then RErr else
      do c <- cur pos;
      if negb (N.eqb c 58) then err_unexpected pos
      else do p <- skip_sp (S pos); parse_literal p field itype.

    (* buildAndTree(tokens): leaves numbered n, n+1, .. in the leaf table; tokens[0] is checked *)
    Definition and_tree (n k : nat) : R ast :=
      match k with
      | 0 => RPanic
      | S k' => ROk (and_fold n (seq (S n) k'))
      end.

    (* one operand that is a field filter: `name` was read by parseSimpleTerm, p1 = tp.pos *)
    Definition field_operand (name : runes) (p1 : nat) (lv : list ltoken)
      : R ((nat * list ltoken) * nat) :=
      match name with
      | [] => err_unexpected p1
      | _ =>
        let field := encode_runes name in
        let t := ftype field in
        if N.eqb t 0 then RErr                         (* unindexed field *)
        else
          do st <- token_query p1 field t;
          let '(toks, p2) := st in
          ROk ((length toks, lv ++ toks), p2)
      end.

    (* parseSubexpr / parseExpr (its first operand) / the `for` loop of parseExpr.
       lv = the leaf table so far: a leaf is Leaf i with i its index in the table.
       lvl = qp.level at the call: the number of parseSubexpr frames already on the stack.
       Result: ((tree, leaf table), tp.pos) *)
    Fixpoint bsub (fuel depth pos : nat) (lv : list ltoken) (lvl : nat) {struct fuel}
      : R ((ast * list ltoken) * nat) :=
      match fuel with
      | 0 => RFuel
      | S f =>
        let lvl' := S lvl in                       (* qp.level++ (the frame exists from here on) *)
        if over stack lvl' then RPanic else
        if over maxd lvl' then RErr else           (* nested deeper than maxNestingDepth levels *)
        if eof pos then RErr else
        do c <- cur pos;
        if N.eqb c 40 then
          do p1 <- skip_sp (S pos);
          do st <- bexpr f (S depth) p1 lv lvl';
          let '((e, lv2), p2) := st in
          if eof p2 then RErr else
          do c2 <- cur p2;
          if negb (N.eqb c2 41) then err_unexpected p2
          else do p3 <- skip_sp (S p2); ROk ((e, lv2), p3)
        else
          do st <- simple_term pos;
          let '(name, p1) := st in
          if eq_fold_ascii name kw_not_r then
            do st2 <- bsub f depth p1 lv lvl';
            let '((ch, lv2), p2) := st2 in
            ROk ((NotN ch, lv2), p2)
          else
            do st2 <- field_operand name p1 lv;
            let '((k, lv2), p2) := st2 in
            do e <- and_tree (length lv) k;
            ROk ((e, lv2), p2)
      end
    with bexpr (fuel depth pos : nat) (lv : list ltoken) (lvl : nat) {struct fuel}
      : R ((ast * list ltoken) * nat) :=
      match fuel with
      | 0 => RFuel
      | S f =>
        do st <- bsub f depth pos lv lvl;
        let '((high, lv2), p) := st in
        bloop f depth None high p lv2 lvl
      end
    with bloop (fuel depth : nat) (low : option ast) (high : ast) (pos : nat) (lv : list ltoken)
           (lvl : nat) {struct fuel} : R ((ast * list ltoken) * nat) :=
      match fuel with
      | 0 => RFuel
      | S f =>
        do st <- simple_term pos;
        let '(op, p1) := st in
        let lop := map to_lower op in                 (* strings.ToLower(operator) *)
        if runes_eqb lop kw_and_r then
          do st2 <- bsub f depth p1 lv lvl;
          let '((rgt, lv2), p2) := st2 in
          bloop f depth low (AndN high rgt) p2 lv2 lvl
        else if runes_eqb lop kw_or_r then
          do st2 <- bsub f depth p1 lv lvl;
          let '((rgt, lv2), p2) := st2 in
          bloop f depth (Some (join_or low high)) rgt p2 lv2 lvl
        else
          match op with
          | [] =>
            do fin <- (if eof p1 then ROk true
                       else do c <- cur p1; ROk (N.eqb c 41 && Nat.ltb 0 depth));
            if fin then ROk ((join_or low high, lv), p1) else err_unexpected p1
          | _ => RErr
          end
      end.

    (* The same three functions written the way the Go code keeps qp.level: as STATE of the long-lived
       parser object, incremented at the entry of parseSubexpr and decremented when it returns
       (`defer func() { qp.level-- }()`); the result carries the level after the return.
       leak = true is the variant in which the NOT branch returns without the decrement. *)
    Fixpoint ssub (leak : bool) (fuel depth pos : nat) (lv : list ltoken) (lvl : nat) {struct fuel}
      : R (((ast * list ltoken) * nat) * nat) :=
      match fuel with
      | 0 => RFuel
      | S f =>
        let lvl' := S lvl in
        if over stack lvl' then RPanic else
        if over maxd lvl' then RErr else
        if eof pos then RErr else
        do c <- cur pos;
        if N.eqb c 40 then
          do p1 <- skip_sp (S pos);
          do st <- sexpr leak f (S depth) p1 lv lvl';
          let '(((e, lv2), p2), l2) := st in
          if eof p2 then RErr else
          do c2 <- cur p2;
          if negb (N.eqb c2 41) then err_unexpected p2
          else do p3 <- skip_sp (S p2); ROk (((e, lv2), p3), pred l2)
        else
          do st <- simple_term pos;
          let '(name, p1) := st in
          if eq_fold_ascii name kw_not_r then
            do st2 <- ssub leak f depth p1 lv lvl';
            let '(((ch, lv2), p2), l2) := st2 in
            ROk (((NotN ch, lv2), p2), if leak then l2 else pred l2)
          else
            do st2 <- field_operand name p1 lv;
            let '((k, lv2), p2) := st2 in
            do e <- and_tree (length lv) k;
            ROk (((e, lv2), p2), pred lvl')
      end
    with sexpr (leak : bool) (fuel depth pos : nat) (lv : list ltoken) (lvl : nat) {struct fuel}
      : R (((ast * list ltoken) * nat) * nat) :=
      match fuel with
      | 0 => RFuel
      | S f =>
        do st <- ssub leak f depth pos lv lvl;
        let '(((high, lv2), p), l1) := st in
        sloop leak f depth None high p lv2 l1
      end
    with sloop (leak : bool) (fuel depth : nat) (low : option ast) (high : ast) (pos : nat)
           (lv : list ltoken) (lvl : nat) {struct fuel} : R (((ast * list ltoken) * nat) * nat) :=
      match fuel with
      | 0 => RFuel
      | S f =>
        do st <- simple_term pos;
        let '(op, p1) := st in
        let lop := map to_lower op in
        if runes_eqb lop kw_and_r then
          do st2 <- ssub leak f depth p1 lv lvl;
          let '(((rgt, lv2), p2), l2) := st2 in
          sloop leak f depth low (AndN high rgt) p2 lv2 l2
        else if runes_eqb lop kw_or_r then
          do st2 <- ssub leak f depth p1 lv lvl;
          let '(((rgt, lv2), p2), l2) := st2 in
          sloop leak f depth (Some (join_or low high)) rgt p2 lv2 l2
        else
          match op with
          | [] =>
            do fin <- (if eof p1 then ROk true
                       else do c <- cur p1; ROk (N.eqb c 41 && Nat.ltb 0 depth));
            if fin then ROk (((join_or low high, lv), p1), lvl) else err_unexpected p1
          | _ => RErr
          end
      end.

    Definition pfuel : nat := 2 * length data + 3.

    (* buildAst on the rune slice *)
    Definition build_ast : R (ast * list ltoken) :=
      do p0 <- skip_sp 0;
      do st <- bexpr pfuel 0 p0 [] 0;
      let '((e, lv), _) := st in ROk (e, lv).

    Definition build_ast_st (leak : bool) : R (ast * list ltoken) :=
      do p0 <- skip_sp 0;
      do st <- sexpr leak pfuel 0 p0 [] 0;
      let '(((e, lv), _), _) := st in ROk (e, lv).

    (* ParseAggregationFilter on the rune slice: ROk None = (nil, nil) *)
    Definition agg_filter : R (option ltoken) :=
      do p0 <- skip_sp 0;
      if eof p0 then ROk None else
      do st <- simple_term p0;
      let '(name, p1) := st in
      match name with
      | [] => err_unexpected p1
      | _ =>
        do st2 <- token_query p1 (encode_runes name) 1%N;
        let '(toks, p2) := st2 in
        if negb (eof p2) then RErr
        else match toks with
             | [LLit f ts] => ROk (Some (LLit f ts))
             | _ => RErr
             end
      end.

    (* ---------------------------------------------------------------- the legacy tokenizer *)
    (* The same walk as parseSubexpr / parseExpr, flattened: operand = a sub-expression is
       expected. It emits the token alphabet of Model.v (a field filter with k literals is
       TAtom n for k = 1, otherwise TText [n; ..; n+k-1]) and the leaf table; it stops with
       RErr at every place where the byte-level parser reports a LEXICAL error (bad literal,
       unknown field, unexpected symbol or word); what remains for the token-level parser are the
       structural errors (end of input where an operand or `)` is expected). *)
    Definition leaf_tok (n k : nat) : tok :=
      match k with
      | 1 => TAtom n
      | _ => TText (seq n k)
      end.

    Fixpoint ltoks (fuel depth : nat) (operand : bool) (pos : nat) (lv : list ltoken)
      : R (list tok * list ltoken) :=
      match fuel with
      | 0 => RFuel
      | S f =>
        if operand then
          if eof pos then ROk ([], lv) else
          do c <- cur pos;
          if N.eqb c 40 then
            do p1 <- skip_sp (S pos);
            do r <- ltoks f (S depth) true p1 lv;
            ROk (TLP :: fst r, snd r)
          else
            do st <- simple_term pos;
            let '(name, p1) := st in
            if eq_fold_ascii name kw_not_r then
              do r <- ltoks f depth true p1 lv; ROk (TNot :: fst r, snd r)
            else
              do st2 <- field_operand name p1 lv;
              let '((k, lv2), p2) := st2 in
              do _ <- and_tree (length lv) k;
              do r <- ltoks f depth false p2 lv2;
              ROk (leaf_tok (length lv) k :: fst r, snd r)
        else
          do st <- simple_term pos;
          let '(op, p1) := st in
          let lop := map to_lower op in
          if runes_eqb lop kw_and_r then
            do r <- ltoks f depth true p1 lv; ROk (TAnd :: fst r, snd r)
          else if runes_eqb lop kw_or_r then
            do r <- ltoks f depth true p1 lv; ROk (TOr :: fst r, snd r)
          else
            match op with
            | [] =>
              if eof p1 then ROk ([], lv) else
              do c <- cur p1;
              if N.eqb c 41 && Nat.ltb 0 depth then
                do p2 <- skip_sp (S p1);
                do r <- ltoks f (pred depth) false p2 lv;
                ROk (TRP :: fst r, snd r)
              else err_unexpected p1
            | _ => RErr
            end
      end.

    Definition legacy_tokens : R (list tok * list ltoken) :=
      do p0 <- skip_sp 0; ltoks pfuel 0 true p0 [].
  End Data.

  (* ParseQuery on raw bytes: []rune(data), buildAst, propagateNot *)
  Definition legacy_parse (q : bytes) : R (ast * list ltoken) :=
    do data <- runes_of q;
    do st <- build_ast data;
    let '(e, lv) := st in ROk (finish e, lv).

  (* ParseQuery with qp.level kept as state (leak: see ssub) *)
  Definition legacy_parse_st (leak : bool) (q : bytes) : R (ast * list ltoken) :=
    do data <- runes_of q;
    do st <- build_ast_st data leak;
    let '(e, lv) := st in ROk (finish e, lv).

  (* ParseAggregationFilter on raw bytes *)
  Definition legacy_agg (q : bytes) : R (option ltoken) :=
    do data <- runes_of q; agg_filter data.

  (* the tokenizer on raw bytes *)
  Definition legacy_lex (q : bytes) : R (list tok * list ltoken) :=
    do data <- runes_of q; legacy_tokens data.
End Legacy.
