"""C12 — query parsing is total and meaning-preserving (DESIGN.md section 7, C12)."""
import vcheck

PROP = "C12"

TRUSTED = [
    "Coq 8.16.1 kernel (coqc), vm_compute for case evaluation; no native_compute",
    "hand-written token-level model props/C12/coq/Model.v of parseSeqQLFilter/parseExpr/propagateNot"
    " (tied to /repo by the correspondence run, not verified code)",
    "hand-written byte-level model props/C12/coq/Lexer.v of lexer.Next (spaces, comments, simple tokens, wildcard,"
    " the three quote kinds, unquotePrefix fast/slow path), utf8.DecodeRuneInString/AppendRune, strconv.UnquoteChar,"
    " EqualFold against ASCII keywords, parseCompositeToken, field filter / in(..) / range / pipes"
    " (tied to /repo by comparing the REAL lexer's token dump and ParseSeqQL's result shape on every generated string)",
    "Go harness harness/cmd/hC12 (generators, AST printer, text rendering of token lists, dump of unicode classes"
    " and of indexType through parser/export_verif_c12.go)",
    "Go's unicode tables (classes, ToLower) enter as per-case data (oracle instance), never as axioms",
    "legacy ParseQuery and ParseAggregationFilter on raw bytes: NOT modelled below token level; fuzzed only",
]
ASSUME = [
    "token-level abstraction (semantics theorems): a field filter (k:v, k:in(..), text field with k words) is one token",
    "stage 2 theorems hold for every class oracle that does not classify U+FFFD as space/letter/digit (true of Go's"
    " tables; checked on every generated case) and for every field mapping",
    "lexer-to-parser glue abstracts values: a keyword/path literal and a range are one leaf in the boolean structure (the range's two bound terms and a keyword literal's terms ARE modelled: keyword_terms with rune-wise ToLower as oracle; IncludeFrom/IncludeTo are not), a text literal is the AND"
    " of its words, in(..) is the parenthesised OR of its members, a well-formed pipe section is the terminator token TPipe (the token-level parser folds its OR/AND accumulators there as at end of input); term contents,"
    " case folding of values and pipe field names are not modelled",
    "raw-byte totality of the legacy parser (ParseQuery) and of ParseAggregationFilter is established by fuzzing only (PARTIAL)",
]
RULE = ("exhaustive: all boolean trees up to the tier's node bound over 3 atoms x minimal/full parentheses x "
        "SeqQL/legacy parser, and (SeqQL) each of them again followed by a pipe section with the same truth-table spec; "
        "random deeper expressions with in(..)/text words (SeqQL: also with a pipe section); mutated token lists; "
        "propagateNot on random trees; stage 2: fixed hostile strings + grammar-derived/mutated/fragment-built raw strings "
        "(three quote kinds, escapes, comments, invalid UTF-8, U+E000, unterminated quotes with escaped quote characters) "
        "through the real lexer and ParseSeqQL under full/nil/empty mapping vs the byte-level model (token texts, flags, "
        "result shape); generated token lists rendered in every quote style and lexed back (spec: the generator's tokens); "
        "f:in(e1..en) on text/path/keyword fields with multi-word members in every position vs the written-out OR of the "
        "members as stand-alone filters (truth table over the numbered literals of both real ASTs); "
        "range filters f:[a, b] (both bracket kinds, `,`/to, plain/quoted/raw/escaped bounds, mixed and non-ASCII case, wildcard ends, "
        "conf.CaseSensitive off and on, _exists_) vs the plain literals f:a, f:b: the stored bounds must be the literals' single terms; "
        "raw-string fuzz of all three entry points over every mapping type. non-trivial = expression has "
        "a NOT and a binary operator / token list parses / tree has NOT and OR / raw string has >= 3 tokens and a quoted "
        "token, a comment or parses / round trip of >= 2 atoms; distinct by input")


def harness_args(tier, seed, outdir):
    return ["-seed", str(seed), "-tier", tier, "-out", outdir]


def main(argv):
    return vcheck.standard_check(PROP, argv, harness_args, TRUSTED, ASSUME, RULE, coqchk=True)
