"""C12 — query parsing is total and meaning-preserving (DESIGN.md section 7, C12)."""
import vcheck

PROP = "C12"

TRUSTED = [
    "Coq 8.16.1 kernel (coqc), vm_compute for case evaluation; no native_compute",
    "hand-written token-level model props/C12/coq/Model.v of parseSeqQLFilter/parseExpr/propagateNot"
    " (tied to /repo by the correspondence run, not verified code)",
    "hand-written byte-level model props/C12/coq/Lexer.v of lexer.Next (spaces, comments, simple tokens, wildcard,"
    " the three quote kinds, unquotePrefix fast/slow path), utf8.DecodeRuneInString/AppendRune, strconv.UnquoteChar,"
    " EqualFold against ASCII keywords, parseCompositeToken, field filter / in(..) / range / pipes"
    " (tied to /repo by comparing the REAL lexer's token dump and ParseSeqQL's result shape on every generated string)",
    "Go harness harness/cmd/hC12 (generators, AST printer, text rendering of token lists, dump of unicode classes"
    " and of indexType through parser/export_verif_c12.go)",
    "Go's unicode tables (classes, ToLower) enter as per-case data (oracle instance), never as axioms",
    "hand-written rune-level model props/C12/coq/Legacy.v of the LEGACY parser and of ParseAggregationFilter:"
    " []rune(data) (utf8 decoding as in Lexer.v), tokenParser{data,pos} with tp.data[tp.pos] / tp.data[a:b] / tokens[0] as"
    " checked operations and the two explicit panic(..) calls as RPanic, skipSpaces, parseSimpleTerm, parseTerms,"
    " parseQuotedTerms, parseRangeTerm, parseRange, parseLiteral, parseTokenQuery, errorUnexpectedSymbol, the keyword /"
    " text / single-term builders (finishTextTerm, finishToken, endsWithSymbol, case folding with unicode.ToLower as oracle),"
    " parseSubexpr/parseExpr with the depth counter, buildAst + propagateNot (tied to /repo by comparing the outcome and the"
    " FULL AST - every Literal's field and terms, every Range's bounds and inclusion flags - of the real ParseQuery /"
    " ParseAggregationFilter with the model on every generated raw string, both case modes, full/nil/empty mapping)",
    "strings.EqualFold(w, \"not\"/\"to\") is modelled as ASCII case folding (no non-ASCII rune folds to n, o or t);"
    " strings.ToLower(operator) as rune-wise unicode.ToLower (oracle); error MESSAGES are not modelled (only ok/error)",
    "nesting limit (commit 712b1a1): Legacy.v carries qp.level through parseSubexpr/parseExpr and rejects beyond the limit;"
    " the SeqQL glue of Lexer.v tracks lex.level (frames of open `(` and pending NOTs) and rejects an operand beyond it;"
    " the limit value is Lexer.v max_nesting_depth = 10000, tied to the code by the boundary cases of class nesting-limit"
    " (limit-1 nested brackets / NOTs accepted, limit rejected, both parsers) - the real constant is deliberately not imported,"
    " so a changed or removed limit is a failing input, not a build failure",
    "the goroutine stack is modelled for the legacy parser as a number of parseSubexpr frames (exceeding it = RPanic);"
    " frame SIZES and the stack use of propagateNot / of the AST consumers are not modelled",
]
ASSUME = [
    "token-level abstraction (semantics theorems): a field filter (k:v, k:in(..), text field with k words) is one token",
    "stage 2 theorems hold for every class oracle that does not classify U+FFFD as space/letter/digit (true of Go's"
    " tables; checked on every generated case) and for every field mapping",
    "lexer-to-parser glue abstracts values: a keyword/path literal and a range are one leaf in the boolean structure (the range's two bound terms and a keyword literal's terms ARE modelled: keyword_terms with rune-wise ToLower as oracle; IncludeFrom/IncludeTo are not), a text literal is the AND"
    " of its words, in(..) is the parenthesised OR of its members, a well-formed pipe section is the terminator token TPipe (the token-level parser folds its OR/AND accumulators there as at end of input); term contents,"
    " case folding of values and pipe field names are not modelled",
    "stage 3 theorems (legacy parser, aggregation filter, tokenizer refinement) hold for ALL class oracles, ToLower"
    " functions, case modes and field mappings - no hypothesis",
    "C12_nesting_bounded: with limit m any stack that holds m+1 parseSubexpr frames suffices for every input (legacy model);"
    " for SeqQL the level check is modelled in the glue and C12_nesting_rejected_seqql states the rejection, the recursion of"
    " the token-level parser itself carries no stack parameter",
    "NOT covered by the limit (known finding fatal-stack-overflow-flat-chain): a flat chain of ~10^7 AND/OR operators builds a"
    " left-deep AST and propagateNot recurses over it until the stack overflows; probed in a child process in the thorough tier",
]
RULE = ("exhaustive: all boolean trees up to the tier's node bound over 3 atoms x minimal/full parentheses x "
        "SeqQL/legacy parser, and (SeqQL) each of them again followed by a pipe section with the same truth-table spec; "
        "random deeper expressions with in(..)/text words (SeqQL: also with a pipe section); mutated token lists; "
        "propagateNot on random trees; stage 2: fixed hostile strings + grammar-derived/mutated/fragment-built raw strings "
        "(three quote kinds, escapes, comments, invalid UTF-8, U+E000, unterminated quotes with escaped quote characters) "
        "through the real lexer and ParseSeqQL under full/nil/empty mapping vs the byte-level model (token texts, flags, "
        "result shape); generated token lists rendered in every quote style and lexed back (spec: the generator's tokens); "
        "f:in(e1..en) on text/path/keyword fields with multi-word members in every position vs the written-out OR of the "
        "members as stand-alone filters (truth table over the numbered literals of both real ASTs); "
        "range filters f:[a, b] (both bracket kinds, `,`/to, plain/quoted/raw/escaped bounds, mixed and non-ASCII case, wildcard ends, "
        "conf.CaseSensitive off and on, _exists_) vs the plain literals f:a, f:b: the stored bounds must be the literals' single terms; "
        "raw-string fuzz of all three entry points over every mapping type; stage 3: hand-written hostile legacy strings "
        "(every error site: unterminated quote, trailing backslash, lone `:`, empty field name, range fragments, duplicate "
        "wildcards, all index types incl. object/tags/nested/exists, invalid UTF-8, non-ASCII spaces and case), every structural "
        "character inserted at / replacing every position of base queries, fragment-built strings, nesting 40..1200 deep, through the "
        "real ParseQuery (full/nil/empty mapping, both case modes) and ParseAggregationFilter vs the rune-level model (outcome and "
        "full AST with tokens; spec: ok or error, NOT only at the root, no empty Literal); grammar-derived expressions written in "
        "varied raw legacy syntax (quoted / spaced / upper-case / path / range / text-with-several-words leaves) with the "
        "truth-table spec against the generator's expression; 100000-deep nesting under recover; class nesting-limit: "
        "maxNestingDepth-1 / maxNestingDepth nested brackets and NOTs (accepted / error; thorough: the bracket cases also through the "
        "byte-level models) and 3000000 of them in a child process (error, process alive; a death is fatal-stack-overflow:<parser>), "
        "both parsers; class nesting-flat: long FLAT queries whose total number of NOTs / bracket pairs exceeds the limit while the "
        "nesting stays <= 4 (exclusion lists with 9998/10000/10050/30000 negations, OR-chain of 10010 negated bracket groups, AND-chain of "
        "10010 bracket groups, a mix with 16000 NOTs) must be accepted by both parsers with the complete flat tree (leaf and NOT/NAND "
        "counts; spec formula justified by C12_level_is_nesting; smaller ones of 30/120 negations also through the model); "
        "thorough only: flat chain of 10^7 OR operators in a child process (known finding). non-trivial = expression has "
        "a NOT and a binary operator / token list parses / tree has NOT and OR / raw string has >= 3 tokens and a quoted "
        "token, a comment or parses / round trip of >= 2 atoms; distinct by input")


def harness_args(tier, seed, outdir):
    return ["-seed", str(seed), "-tier", tier, "-out", outdir]


def main(argv):
    return vcheck.standard_check(PROP, argv, harness_args, TRUSTED, ASSUME, RULE, coqchk=True)
