"""C12 — query parsing is total and meaning-preserving (DESIGN.md section 7, C12)."""
import vcheck

PROP = "C12"

TRUSTED = [
    "Coq 8.16.1 kernel (coqc), vm_compute for case evaluation; no native_compute",
    "hand-written token-level model props/C12/coq/Model.v of parseSeqQLFilter/parseExpr/propagateNot"
    " (tied to /repo by the correspondence run, not verified code)",
    "Go harness harness/cmd/hC12 (generators, AST printer, text rendering of token lists)",
    "rune-level lexer, quoting, range/pipe parsing: NOT modelled; totality on raw strings is fuzzed (test, not proof)",
]
ASSUME = [
    "token-level abstraction: a field filter (k:v, k:in(..), text field with k words) is one token",
    "raw-byte totality (no panic / no hang) is established by fuzzing only (PARTIAL)",
]
RULE = ("exhaustive: all boolean trees up to the tier's node bound over 3 atoms x minimal/full parentheses x "
        "SeqQL/legacy parser; random deeper expressions with in(..)/text words; mutated token lists; "
        "propagateNot on random trees; raw-string fuzz over every mapping type. non-trivial = expression has "
        "a NOT and a binary operator / token list parses / tree has NOT and OR; distinct by input")


def harness_args(tier, seed, outdir):
    return ["-seed", str(seed), "-tier", tier, "-out", outdir]


def main(argv):
    return vcheck.standard_check(PROP, argv, harness_args, TRUSTED, ASSUME, RULE, coqchk=True)
