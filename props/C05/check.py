"""C05 — results are independent of how documents are split over fractions, shards and replicas
(DESIGN.md section 7, C05)."""
import vcheck

PROP = "C05"

TRUSTED = [
    "go2coq translator (harness/cmd/go2coq, semantics coq/lib/GoSem.v): props/C05/coq/Gen.v is regenerated from the Go source of seq.Less, proxy/search Ingestor.paginateIDs on every run; supported subset: integer/boolean expressions over int, int64, uint64, uint32, uint8 and named integer types with explicit wrap-around, truncated signed division, checked division/indexing/slicing/shift counts (Panic), if/else with early return, local assignments, tuples, calls between translated functions, min/max/len, numeric struct fields, fuelled for-loops, range loops as folds; anything else is rejected (red gate). externs: none; the IDSources handed to paginateIDs are opaque integer tags (the translator rejects any inspection of them); slice expressions assume capacity = length. Validated on every run by the gen-* correspondence classes (real function vs generated definition on boundary and random arguments)",
    "Coq 8.16.1 kernel (coqc), vm_compute for case evaluation; no native_compute",
    "hand-written model props/C05/coq/Model.v of MergeQPRs/removeRepetitionsAdvanced, FilterInRange/Sort/Shift, "
    "SearchDocs + calcEnsuredIDsCount, the per-fraction answer of iterateEvalTree, Ingestor.Search merge + paginateIDs "
    "(tied to /repo by the correspondence run, not verified code)",
    "hand-written model props/C05/coq/ModelAgg.v of the field aggregations' mergeable state: SamplesContainer "
    "(NewSamplesContainers, InsertNTimes, Merge; Total, NotExists, Sum, Min, Max as exact integers, the sample reservoir "
    "left out), AggregatableSamples.Merge, what TwoSourceAggregator answers for one fraction (modelled document by "
    "document instead of count-by-source-pair then InsertNTimes), the aggregation part of the SearchDocs loop and of the "
    "proxy merge; and props/C05/coq/ModelDocs.v of searchShard / searchHost (which source id an answer gets, for any "
    "order idx in which the replicas are asked), the fraction name as hint, and the fetch by source and hint "
    "(tied to /repo by the classes aggfield, proxy-aggfield, proxy-docs)",
    "Go harness harness/cmd/hC05 (generators, QPR canonicalisation, in-memory fractions for the high-volume SearchDocs "
    "cases, in-process StoreApiClient adapter around storeapi.GrpcV1.Search and GrpcV1.Fetch (the handler's blocks are "
    "replayed to the proxy's stream reader), numbering of hosts / fraction names / document bodies for the model; with "
    "ShuffleReplicas the driver repeats a request until util.IdxShuffle draws the wanted order, only that run is "
    "recorded) and harness/internal/fracbuild",
    "which documents match the query inside ONE fraction is decided by the harness's own k-in-set oracle; it is "
    "cross-checked on every real case against a real single fraction holding everything (query evaluation is C02's subject)",
]
ASSUME = [
    "IDs are compared without Source/Hint (which of two equal IDs survives the merge is not observable)",
    "counters never reach 2^64 by addition; uint64 decrements (Total, histogram repair) wrap as in Go",
    "aggregation (and all four sums under a cutting limit) equal the single fraction's only when no hit ID is stored twice "
    "(MergeQPRs never repairs an aggregation; a duplicate beyond the cut is never seen: both witnessed by Examples); "
    "Total and histogram with duplicates across fractions are proved equal to one fraction holding every document once "
    "when the limit cuts nothing and no fraction holds an ID twice; the ID list is claimed for every layout including duplicates",
    "Info.IsIntersecting's optional MIDs-distribution refinement is covered by the theorem hypothesis "
    "(dropped fractions have no hit), the model filters by From/To only",
    "limit, offset, size, FractionsPerIteration >= 0 (negative values are rejected by the proxy / config validation)",
    "field aggregations: field values are integers of small magnitude, for which the code's float64 Sum/Min/Max are exact "
    "(the theorems are over exact integers; float rounding of large or fractional sums depends on the merge order and is "
    "NOT covered); no time series (AggBin.MID = 0); quantile samples are not modelled; every stored copy of a document "
    "counts (no duplicate repair in aggregations), so the split-independence of field aggregations is claimed for the "
    "multiset of stored documents",
    "documents: source ids are distinct per host and fraction names distinct per store (NewIngestor, ULID names); which of "
    "several equal IDs (same document on two shards) survives the merge is not determined - the theorem and the checker "
    "accept every reporting shard; a replica that refuses searches still serves fetches",
]
RULE = ("random corpora (1..30 documents, time span 2..60 ms so that borders collide) x random layouts (1..6 fractions: "
        "arbitrary / contiguous / contiguous with strays / one spanning all; optional duplicate copies) x requests (sub-ranges "
        "on document timestamps, limit 0..n+5, both orders, total/histogram/count-aggregation on or off) x "
        "FractionsPerIteration in {all,1,2,3}: real SearchDocs over in-memory fractions (high volume) and over real "
        "active/sealed fractions with a real one-fraction reference; real Ingestor.Search over 1..3 shards x 1..3 replicas "
        "of in-process stores with failing replicas and page walks; the same with ShouldFetch, ShuffleReplicas off and on "
        "(every order of 2 and 3 replicas, refusing replicas before the answering one), every replica ingested separately so "
        "that a hint names a fraction of ONE replica only: every listed ID with the host and fraction it is attributed to and "
        "the delivered document against the stored one; aggregations sum/min/max/avg(v) group by g with documents lacking v "
        "and/or g over real active/sealed fractions (random layouts and layouts where one part of a group holds only "
        "documents without the field, both orders, FractionsPerIteration 0/1/2/3) with a real one-fraction reference and a "
        "direct per-bin computation, and through Ingestor.Search over 1..3 shards; pure MergeQPRs / calcEnsuredIDsCount / "
        "paginateIDs on random QPRs. non-trivial = >= 2 fractions with overlapping ranges and more hits than the limit (search), "
        "duplicates and a cut (merge), a proper prefix ensured, an inner page, a group part without the field (field "
        "aggregations), the answering replica not at the loop position (documents); distinct by input")


def harness_args(tier, seed, outdir):
    return ["-seed", str(seed), "-tier", tier, "-out", outdir]


def main(argv):
    return vcheck.standard_check(PROP, argv, harness_args, TRUSTED, ASSUME, RULE, coqchk=True, gen=True)
