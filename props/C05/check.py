"""C05 — results are independent of how documents are split over fractions, shards and replicas
(DESIGN.md section 7, C05)."""
import vcheck

PROP = "C05"

TRUSTED = [
    "go2coq translator (harness/cmd/go2coq, semantics coq/lib/GoSem.v): props/C05/coq/Gen.v is regenerated from the Go source of seq.Less, proxy/search Ingestor.paginateIDs on every run; supported subset: integer/boolean expressions over int, int64, uint64, uint32, uint8 and named integer types with explicit wrap-around, truncated signed division, checked division/indexing/slicing/shift counts (Panic), if/else with early return, local assignments, tuples, calls between translated functions, min/max/len, numeric struct fields, fuelled for-loops, range loops as folds; anything else is rejected (red gate). externs: none; the IDSources handed to paginateIDs are opaque integer tags (the translator rejects any inspection of them); slice expressions assume capacity = length. Validated on every run by the gen-* correspondence classes (real function vs generated definition on boundary and random arguments)",
    "Coq 8.16.1 kernel (coqc), vm_compute for case evaluation; no native_compute",
    "hand-written model props/C05/coq/Model.v of MergeQPRs/removeRepetitionsAdvanced, FilterInRange/Sort/Shift, "
    "SearchDocs + calcEnsuredIDsCount, the per-fraction answer of iterateEvalTree, Ingestor.Search merge + paginateIDs "
    "(tied to /repo by the correspondence run, not verified code)",
    "Go harness harness/cmd/hC05 (generators, QPR canonicalisation, in-memory fractions for the high-volume SearchDocs "
    "cases, in-process StoreApiClient adapter around storeapi.GrpcV1.Search) and harness/internal/fracbuild",
    "which documents match the query inside ONE fraction is decided by the harness's own k-in-set oracle; it is "
    "cross-checked on every real case against a real single fraction holding everything (query evaluation is C02's subject)",
]
ASSUME = [
    "IDs are compared without Source/Hint (which of two equal IDs survives the merge is not observable)",
    "counters never reach 2^64 by addition; uint64 decrements (Total, histogram repair) wrap as in Go",
    "aggregation (and all four sums under a cutting limit) equal the single fraction's only when no hit ID is stored twice "
    "(MergeQPRs never repairs an aggregation; a duplicate beyond the cut is never seen: both witnessed by Examples); "
    "Total and histogram with duplicates across fractions are proved equal to one fraction holding every document once "
    "when the limit cuts nothing and no fraction holds an ID twice; the ID list is claimed for every layout including duplicates",
    "Info.IsIntersecting's optional MIDs-distribution refinement is covered by the theorem hypothesis "
    "(dropped fractions have no hit), the model filters by From/To only",
    "limit, offset, size, FractionsPerIteration >= 0 (negative values are rejected by the proxy / config validation)",
]
RULE = ("random corpora (1..30 documents, time span 2..60 ms so that borders collide) x random layouts (1..6 fractions: "
        "arbitrary / contiguous / contiguous with strays / one spanning all; optional duplicate copies) x requests (sub-ranges "
        "on document timestamps, limit 0..n+5, both orders, total/histogram/count-aggregation on or off) x "
        "FractionsPerIteration in {all,1,2,3}: real SearchDocs over in-memory fractions (high volume) and over real "
        "active/sealed fractions with a real one-fraction reference; real Ingestor.Search over 1..3 shards x 1..3 replicas "
        "of in-process stores with failing replicas and page walks; pure MergeQPRs / calcEnsuredIDsCount / paginateIDs on "
        "random QPRs. non-trivial = >= 2 fractions with overlapping ranges and more hits than the limit (search), "
        "duplicates and a cut (merge), a proper prefix ensured, an inner page; distinct by input")


def harness_args(tier, seed, outdir):
    return ["-seed", str(seed), "-tier", tier, "-out", outdir]


def main(argv):
    return vcheck.standard_check(PROP, argv, harness_args, TRUSTED, ASSUME, RULE, coqchk=True, gen=True)
