(* C05 — the order on IDs, canonical ordered duplicate-free lists, top-k algebra. *)
From Coq Require Import List Bool Arith NArith Lia Sorting.Sorted Permutation.
From C05 Require Import Model.
Import ListNotations.

(* ------------------------------------------------------------------ the order *)
Lemma id_eqb_eq : forall a b, id_eqb a b = true <-> a = b.
Proof.
  intros [a1 a2] [b1 b2]; unfold id_eqb; simpl. rewrite andb_true_iff, !N.eqb_eq.
  split; [intros [-> ->]; reflexivity | intros H; inversion H; auto].
Qed.

Lemma id_eqb_refl : forall a, id_eqb a a = true.
Proof. intros; apply id_eqb_eq; reflexivity. Qed.

Lemma id_eqb_neq : forall a b, id_eqb a b = false <-> a <> b.
Proof.
  intros a b; split.
  - intros H E. apply id_eqb_eq in E. congruence.
  - intros H. destruct (id_eqb a b) eqn:E; auto. apply id_eqb_eq in E. contradiction.
Qed.

Lemma id_ltb_spec : forall a b,
  id_ltb a b = true <-> (fst a < fst b \/ (fst a = fst b /\ snd a < snd b))%N.
Proof.
  intros [a1 a2] [b1 b2]; unfold id_ltb; simpl.
  destruct (N.eqb_spec a1 b1).
  - rewrite N.ltb_lt. split; [intros; right; auto | intros [H | [_ H]]; [lia | auto]].
  - rewrite N.ltb_lt. split; [intros; left; auto | intros [H | [H _]]; [auto | contradiction]].
Qed.

Lemma id_ltb_false : forall a b,
  id_ltb a b = false <-> (fst b < fst a \/ (fst a = fst b /\ snd b <= snd a))%N.
Proof.
  intros a b. destruct (id_ltb a b) eqn:E.
  - apply id_ltb_spec in E. split; [discriminate | lia].
  - split; auto. intros _.
    assert (~ (fst a < fst b \/ (fst a = fst b /\ snd a < snd b))%N) by (rewrite <- id_ltb_spec; congruence).
    lia.
Qed.

Lemma in_firstn : forall {A} k (l : list A) x, In x (firstn k l) -> In x l.
Proof.
  induction k; intros l x H; simpl in H; [contradiction|].
  destruct l; simpl in *; [contradiction|]. destruct H; auto.
Qed.

Lemma in_skipn : forall {A} k (l : list A) x, In x (skipn k l) -> In x l.
Proof.
  induction k; intros l x H; simpl in H; auto.
  destruct l; simpl in *; [contradiction|]. auto.
Qed.

Section Order.
  Variable o : order.

  Lemma before_irrefl : forall a, before o a a = false.
  Proof. intros a. destruct o; simpl; apply id_ltb_false; lia. Qed.

  Lemma before_trans : forall a b c, before o a b = true -> before o b c = true -> before o a c = true.
  Proof. intros a b c. destruct o; simpl; rewrite !id_ltb_spec; lia. Qed.

  Lemma before_asym : forall a b, before o a b = true -> before o b a = false.
  Proof. intros a b. destruct o; simpl; rewrite id_ltb_spec, id_ltb_false; lia. Qed.

  Lemma before_total : forall a b, before o a b = false -> a <> b -> before o b a = true.
  Proof.
    intros [a1 a2] [b1 b2] H N.
    assert (a1 <> b1 \/ a2 <> b2) by (destruct (N.eq_dec a1 b1); [right; congruence | left; auto]).
    destruct o; simpl in *; rewrite id_ltb_false in H; rewrite id_ltb_spec; simpl in *; lia.
  Qed.

  (* "not after" is transitive *)
  Lemma nb_trans : forall a b c, before o b a = false -> before o c b = false -> before o c a = false.
  Proof. intros a b c. destruct o; simpl; rewrite !id_ltb_false; lia. Qed.

  Lemma lt_le_trans : forall a b c, before o a b = true -> before o c b = false -> before o a c = true.
  Proof. intros a b c. destruct o; simpl; rewrite !id_ltb_spec, id_ltb_false; lia. Qed.

  (* strictly ordered (hence duplicate free) / weakly ordered *)
  Definition SS (l : list ID) : Prop := StronglySorted (fun a b => before o a b = true) l.
  Definition WS (l : list ID) : Prop := StronglySorted (fun a b => before o b a = false) l.

  Lemma SS_nil : SS []. Proof. constructor. Qed.

  Lemma SS_cons_inv : forall x l, SS (x :: l) -> SS l /\ Forall (fun y => before o x y = true) l.
  Proof. intros x l H. inversion H; auto. Qed.

  Lemma SS_NoDup : forall l, SS l -> NoDup l.
  Proof.
    induction l; intros H; constructor; apply SS_cons_inv in H; destruct H as [H1 H2]; auto.
    intros I. rewrite Forall_forall in H2. apply H2 in I. rewrite before_irrefl in I. discriminate.
  Qed.

  Lemma SS_unique : forall a b, SS a -> SS b -> (forall x, In x a <-> In x b) -> a = b.
  Proof.
    induction a as [|x a IH]; intros b Ha Hb E.
    - destruct b as [|y b]; auto. destruct (proj2 (E y) (or_introl eq_refl)).
    - destruct b as [|y b]. { destruct (proj1 (E x) (or_introl eq_refl)). }
      apply SS_cons_inv in Ha. destruct Ha as [Ha Fa].
      apply SS_cons_inv in Hb. destruct Hb as [Hb Fb].
      rewrite Forall_forall in Fa, Fb.
      assert (x = y).
      { destruct (proj1 (E x) (or_introl eq_refl)) as [->|I1]; auto.
        destruct (proj2 (E y) (or_introl eq_refl)) as [->|I2]; auto.
        apply Fb in I1. apply Fa in I2. apply before_asym in I1. congruence. }
      subst y. f_equal. apply IH; auto.
      intros z; split; intros I.
      + destruct (proj1 (E z) (or_intror I)) as [<-|]; auto.
        apply Fa in I. rewrite before_irrefl in I. discriminate.
      + destruct (proj2 (E z) (or_intror I)) as [<-|]; auto.
        apply Fb in I. rewrite before_irrefl in I. discriminate.
  Qed.

  Lemma SS_firstn : forall k l, SS l -> SS (firstn k l).
  Proof.
    induction k; intros l H; simpl. { constructor. }
    destruct l; [constructor|]. apply SS_cons_inv in H. destruct H as [H F].
    constructor; [apply IHk; auto|]. apply Forall_forall. intros y I. rewrite Forall_forall in F. apply F. eapply in_firstn; eauto.
  Qed.
End Order.
