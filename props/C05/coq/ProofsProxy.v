(* C05 — the proxy: one QPR per shard (whichever replica answers), merge, pagination. *)
From Coq Require Import List Bool Arith NArith Lia Sorting.Sorted Permutation.
From C05 Require Import Model ProofsOrder ProofsNorm ProofsSearch Proofs.
Import ListNotations.

Lemma SS_skipn : forall o k l, SS o l -> SS o (skipn k l).
Proof.
  induction k; intros l H; simpl; auto. destruct l; auto. apply IHk. inversion H; auto.
Qed.

Lemma hit_ids_with_limit : forall p l f, hit_ids (with_limit p l) f = hit_ids p f.
Proof. reflexivity. Qed.

Lemma all_hit_ids_with_limit : forall p l fs, all_hit_ids (with_limit p l) fs = all_hit_ids p fs.
Proof. reflexivity. Qed.

(* what a replica searched is a valid preparation of its layout *)
Definition valid_prep (p : params) (layout prepared : list frac) : Prop :=
  exists keep, (forall f, In f layout -> keep f = false -> hit_ids p f = [])
               /\ Permutation prepared (filter keep layout) /\ KS (p_order p) prepared.

(* the replicas of one shard hold the same hits *)
Definition same_hits (p : params) (reps : list (list frac)) : Prop :=
  forall l1 l2, In l1 reps -> In l2 reps -> forall x, In x (all_hit_ids p l1) <-> In x (all_hit_ids p l2).

Lemma all_ok_searches : forall p fpi answers,
  Forall (KS (p_order p)) answers ->
  exists qs, all_ok (map (search_docs p fpi) answers) = Ok qs
    /\ map q_ids qs = map (fun a => topk (p_order p) (p_limit p) (all_hit_ids p a)) answers.
Proof.
  induction answers as [|a l IH]; intros H; simpl.
  - exists []. auto.
  - inversion H; subst. destruct (IH H3) as [qs [E1 E2]].
    destruct (search_docs_ids p fpi a H2) as [r [Hr Hi]].
    rewrite Hr, E1. exists (r :: qs). simpl. rewrite Hi, E2. auto.
Qed.

Lemma in_concat_all_hits : forall p ls x,
  In x (all_hit_ids p (concat ls)) <-> In x (concat (map (all_hit_ids p) ls)).
Proof.
  intros. rewrite in_all_hit_ids, in_concat. split.
  - intros [f [If Ix]]. apply in_concat in If. destruct If as [l [Il If]].
    exists (all_hit_ids p l). split; [apply in_map; auto|]. apply in_all_hit_ids. eauto.
  - intros [h [Ih Ix]]. apply in_map_iff in Ih. destruct Ih as [l [<- Il]].
    apply in_all_hit_ids in Ix. destruct Ix as [f [If Ix]].
    exists f. split; auto. apply in_concat. eauto.
Qed.

Lemma answers_vs_pick : forall p shards answers pick,
  Forall2 (fun reps prepared => exists layout, In layout reps /\ valid_prep p layout prepared) shards answers ->
  Forall2 (fun reps l => In l reps) shards pick ->
  Forall (same_hits p) shards ->
  forall x, In x (concat (map (all_hit_ids p) answers)) <-> In x (concat (map (all_hit_ids p) pick)).
Proof.
  intros p shards answers pick H1. revert pick.
  induction H1 as [|reps prepared shards answers [layout [Il [keep [K1 [K2 K3]]]]] H1 IH];
    intros pick H2 H3 x; inversion H2; subst; simpl; [tauto|].
  inversion H3; subst. rewrite !in_app_iff. rewrite (IH _ H6 H7 x).
  rewrite (prepared_hits p layout keep prepared K1 K2 x).
  rewrite (H5 layout y Il H4 x). tauto.
Qed.

(* thm:C05_shards_replicas *)
Theorem shards_replicas :
  forall p off size fpi (shards : list (list (list frac))) (answers pick : list (list frac)),
    Forall2 (fun reps prepared => exists layout, In layout reps /\ valid_prep p layout prepared)
            shards answers ->
    Forall (same_hits p) shards ->
    Forall2 (fun reps l => In l reps) shards pick ->
    exists r, proxy_search p off size fpi answers = Ok r
      /\ q_ids r = firstn size (skipn off (global_order p (concat pick)))
      /\ NoDup (q_ids r).
Proof.
  intros p off size fpi shards answers pick H1 H2 H3.
  set (pl := with_limit p (off + size)).
  assert (HK : Forall (KS (p_order pl)) answers).
  { clear - H1. induction H1 as [|? ? ? ? [layout [_ [keep [_ [_ K]]]]]]; constructor; auto. }
  destruct (all_ok_searches pl fpi answers HK) as [qs [E1 E2]].
  unfold proxy_search. fold pl. rewrite E1.
  eexists. split; [reflexivity|]. simpl q_ids.
  rewrite paginate_fst, merge_ids. change (q_ids empty_qpr) with (@nil ID). rewrite E2.
  change (p_order pl) with (p_order p). change (p_limit pl) with (off + size).
  rewrite <- (map_map (all_hit_ids pl) (topk (p_order p) (off + size))).
  rewrite (topk_union (p_order p) (off + size) []).
  simpl app.
  rewrite (topk_ext (p_order p) (off + size) _ (all_hit_ids p (concat pick))).
  - unfold topk. fold (global_order p (concat pick)).
    split.
    + rewrite <- firstn_skipn_comm, firstn_firstn. f_equal. lia.
    + apply (SS_NoDup (p_order p)). apply SS_firstn, SS_skipn, SS_firstn, norm_SS.
  - intros x. rewrite in_concat_all_hits. apply (answers_vs_pick p shards); auto.
Qed.
