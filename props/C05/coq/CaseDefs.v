(* C05 — shape of the generated cases and the two executable verdicts. No proofs. *)
From VLib Require Import CaseLib.
From Coq Require Import ZArith.
From C05 Require Import Model ModelAgg ModelDocs.
(* gen-* cases (validation of the translator go2coq): required, not imported (GoSem has its own OutOfFuel) *)
From VLib Require GoSem.
From C05 Require GenCase.
Notation GVal := GoSem.GVal.
Notation GPanic := GoSem.GPanic.
Notation GFuel := GoSem.GFuel.

Definition idl_eqb : list ID -> list ID -> bool := list_eqb id_eqb.
Definition kv_eqb (a b : N * N) : bool := (fst a =? fst b)%N && (snd a =? snd b)%N.
Definition hist_eqb : hist -> hist -> bool := list_eqb kv_eqb.
Definition qpr_eqb (a b : qpr) : bool :=
  idl_eqb (q_ids a) (q_ids b) && (q_total a =? q_total b)%N && hist_eqb (q_hist a) (q_hist b)
  && hist_eqb (q_agg a) (q_agg b) && (q_ne a =? q_ne b)%N.
(* everything except the ID list *)
Definition sums_eqb (a b : qpr) : bool :=
  (q_total a =? q_total b)%N && hist_eqb (q_hist a) (q_hist b)
  && hist_eqb (q_agg a) (q_agg b) && (q_ne a =? q_ne b)%N.
Definition resq_eqb (a : res qpr) (b : qpr) : bool :=
  match a with Ok x => qpr_eqb x b | OutOfFuel => false end.

(* strictly ordered = ordered and duplicate free *)
Fixpoint strictly_ordered (o : order) (l : list ID) : bool :=
  match l with
  | [] => true
  | x :: r => match r with [] => true | y :: _ => before o x y && strictly_ordered o r end
  end.

Fixpoint mem_id (x : ID) (l : list ID) : bool :=
  match l with [] => false | y :: r => id_eqb x y || mem_id x r end.
Fixpoint nodup_ids (l : list ID) : bool :=
  match l with [] => true | x :: r => negb (mem_id x r) && nodup_ids r end.

(* a fraction that only has borders (pure calcEnsuredIDsCount cases) *)
Definition border_frac (ft : N * N) : frac := [mkDoc (fst ft, 0%N) false 0; mkDoc (snd ft, 0%N) false 0].

Fixpoint select {A} (idx : list nat) (l : list A) : list A :=
  match idx with
  | [] => []
  | i :: r => match nth_error l i with Some x => x :: select r l | None => select r l end
  end.
Fixpoint indices_where {A} (f : A -> bool) (i : nat) (l : list A) : list nat :=
  match l with
  | [] => []
  | x :: r => if f x then i :: indices_where f (S i) r else indices_where f (S i) r
  end.
Fixpoint ninsert (x : nat) (l : list nat) : list nat :=
  match l with [] => [x] | y :: r => if (x <=? y)%nat then x :: l else y :: ninsert x r end.
Definition nsort (l : list nat) : list nat := fold_right ninsert [] l.
Fixpoint keys_sorted (o : order) (l : list N) : bool :=
  match l with
  | [] => true
  | x :: r => match r with [] => true | y :: _ => key_le o x y && keys_sorted o r end
  end.

(* field aggregations (ModelAgg) *)
Definition sc_eqb (a b : sc) : bool :=
  (sc_total a =? sc_total b)%N && (sc_ne a =? sc_ne b)%N && (sc_sum a =? sc_sum b)%Z
  && (sc_min a =? sc_min b)%Z && (sc_max a =? sc_max b)%Z.
Definition bins_eqb : bins -> bins -> bool :=
  list_eqb (fun a b => (fst a =? fst b)%N && sc_eqb (snd a) (snd b)).
Definition fagg_eqb (a b : fagg) : bool := bins_eqb (fa_bins a) (fa_bins b) && (fa_ne a =? fa_ne b)%N.
Definition resf_eqb (a : res fagg) (b : fagg) : bool :=
  match a with Ok x => fagg_eqb x b | OutOfFuel => false end.
(* the implementation's aggregation state against the direct computation from the hit documents hs:
   every bin it reports and the bin of every group that occurs among the hits (C05_field_aggs_direct) *)
Definition direct_ok (hs : list adoc) (impl : fagg) : bool :=
  forallb (fun k => option_eqb sc_eqb (bins_find k (fa_bins impl)) (direct_bin k hs))
          (map fst (fa_bins impl) ++ map (fun d => d_grp (a_doc d)) hs)
  && (fa_ne impl =? direct_ne hs)%N.

(* documents of a page (ModelDocs) *)
Definition host_layout (h : host) : list frac := map (fun f => map s_doc (nf_docs f)) (h_fracs h).
Definition answering (shards : list (list host)) (idxs : list (list nat)) : list (list frac) :=
  concat (map (fun hi => match search_shard (fst hi) (snd hi) 0 with
                         | Some (h, _) => [host_layout h]
                         | None => []
                         end) (combine shards idxs)).
Definition first_replicas (shards : list (list host)) : list (list frac) :=
  map (fun hosts => match hosts with h :: _ => host_layout h | [] => [] end) shards.

Inductive case :=
(* seq.MergeQPRs(dst, qs, limit, interval, order) on arbitrary QPRs *)
| CMerge (dst : qpr) (qs : list qpr) (limit : nat) (interval : N) (o : order) (impl : qpr)
(* calcEnsuredIDsCount(ids, remaining, order); remaining given by (From, To) of each fraction *)
| CEnsured (o : order) (ids : list ID) (rem : list (N * N)) (impl : nat)
(* Ingestor.paginateIDs *)
| CPage (ids : list ID) (offset size : nat) (impl : list ID) (impl_size : nat)
(* Searcher.SearchDocs over the fractions of layout; infos = Info.From/To of every fraction as the
   implementation reports them; perm = order produced by prepareFracs (indices into layout);
   single = the same request against ONE real fraction holding every document (when built) *)
| CSearch (layout : list frac) (infos : list (N * N)) (p : params) (fpi : nat) (perm : list nat)
          (impl : qpr) (single : option qpr)
(* Ingestor.Search over shards x replicas; chosen = index of the replica that answered per shard *)
| CProxy (shards : list (list (list frac))) (chosen : list nat) (p : params) (offset size fpi : nat)
         (impl : qpr)
(* gen-<func>: the REAL Go function number fn (GenCase.gen_eval) was called on args and returned impl (or
   panicked); the model side is the definition GENERATED from the Go source by go2coq (Gen.v) *)
| CGen (fn : N) (args : list (list Z)) (impl : GoSem.gres)
(* Searcher.SearchDocs with ONE aggregation with Field and GroupBy (sum/min/max/avg) over real fractions:
   impl = the mergeable state qpr.Aggs[0]; perm as in CSearch; single = the same request against ONE
   real fraction holding every document *)
| CAggSearch (layout : list afrac) (p : params) (fpi : nat) (perm : list nat) (impl : fagg) (single : option fagg)
(* Ingestor.Search with the same aggregation over shards x replicas *)
| CAggProxy (shards : list (list (list afrac))) (chosen : list nat) (p : params) (fpi : nat) (impl : fagg)
(* Ingestor.Search with ShouldFetch over shards x replicas, ShuffleReplicas on or off: idxs = for every
   shard the replicas in the order searchShard asked them (up to the one that answered); impl = the page:
   every listed ID with the host (source) and fraction (hint) it is attributed to, and the document the docs
   stream delivered for it (None = empty) *)
| CProxyDocs (shards : list (list host)) (idxs : list (list nat)) (p : params) (offset size fpi : nat)
             (impl : list (ids * option N)).

Definition chosen_layouts (shards : list (list (list frac))) (chosen : list nat) : list (list frac) :=
  map (fun sc => nth (snd sc) (fst sc) []) (combine shards chosen).

Definition layout_ids (fs : list frac) : list ID := map d_id (concat fs).

(* model output = implementation output *)
Definition case_agrees (c : case) : bool :=
  match c with
  | CGen fn args impl => GoSem.gres_eqb (GenCase.gen_eval fn args) impl
  | CMerge dst qs limit interval o impl => qpr_eqb (merge_qprs dst qs limit interval o) impl
  | CEnsured o ids rem impl => Nat.eqb (ensured o ids (map border_frac rem)) impl
  | CPage ids offset size impl impl_size =>
      let '(m, s) := paginate ids offset size in idl_eqb m impl && Nat.eqb s impl_size
  | CSearch layout infos p fpi perm impl _ =>
      list_eqb kv_eqb (map (fun f => (f_from f, f_to f)) layout) infos
      && list_eqb Nat.eqb (nsort perm) (indices_where (intersecting p) 0 layout)
      && list_eqb N.eqb (map (fkey (p_order p)) (select perm layout))
                        (map (fkey (p_order p)) (prepare p layout))
      && resq_eqb (search_docs p fpi (select perm layout)) impl
  | CAggSearch layout p fpi perm impl _ => resf_eqb (search_fagg p fpi (select perm layout)) impl
  | CAggProxy shards chosen p fpi impl =>
      resf_eqb (proxy_fagg p fpi (map (fun sc => nth (snd sc) (fst sc) []) (combine shards chosen))) impl
  | CProxyDocs shards idxs p offset size fpi impl =>
      match proxy_search p offset size fpi (map (prepare (with_limit p (offset + size))) (answering shards idxs)) with
      | Ok m => idl_eqb (q_ids m) (map (fun e => is_id (fst e)) impl)
      | OutOfFuel => false
      end
      && forallb (fun e => answered_b (fun _ j => j) p shards idxs (fst e)
                           && option_eqb N.eqb (fetch_one (concat shards) (fst e)) (snd e)) impl
  | CProxy shards chosen p offset size fpi impl =>
      let ls := chosen_layouts shards chosen in
      match proxy_search p offset size fpi (map (prepare (with_limit p (offset + size))) ls) with
      | Ok m => idl_eqb (q_ids m) (q_ids impl)
                && (negb (nodup_ids (layout_ids (concat ls))) || sums_eqb m impl)
      | OutOfFuel => false
      end
  end.

(* implementation output satisfies the property; written without the model's search algorithm:
   the reference is ONE fraction holding everything, i.e. the canonical ordered duplicate-free list
   of all hits, cut at the limit *)
Definition consistent (interval : N) (q : qpr) : bool :=
  hist_eqb (q_hist q) (ids_hist interval (q_ids q)) && (q_total q =? N.of_nat (length (q_ids q)))%N.

Definition one_fraction (p : params) (fs : list frac) : qpr := frac_search p (p_limit p) (concat fs).

Definition case_spec_ok (c : case) : bool :=
  match c with
  | CGen _ _ _ => true   (* translator validation: correspondence only *)
  | CMerge dst qs limit interval o impl =>
      let all := q_ids dst ++ concat (map q_ids qs) in
      idl_eqb (q_ids impl) (firstn limit (norm o all))
      (* when every part counts exactly its own IDs, the merged Total and histogram count every
         distinct ID once, whatever the limit (C05_merge_spec) *)
      && (negb (forallb (consistent interval) (dst :: qs))
          || ((q_total impl =? N.of_nat (length (norm o all)))%N
              && hist_eqb (q_hist impl) (ids_hist interval (norm o all))))
  | CEnsured o ids rem impl =>
      match rem with
      | [] => Nat.eqb impl (length ids)
      | ft :: _ =>
          (impl <=? length ids)%nat
          && forallb (beyond o (border_frac ft)) (firstn impl ids)
          && match nth_error ids impl with Some i => negb (beyond o (border_frac ft) i) | None => true end
      end
  | CPage ids offset size impl impl_size =>
      idl_eqb impl (firstn size (skipn offset ids)) && Nat.eqb impl_size (length impl)
  | CSearch layout _ p _ perm impl single =>
      idl_eqb (q_ids impl) (spec_ids p layout)
      && strictly_ordered (p_order p) (q_ids impl)
      && keys_sorted (p_order p) (map (fkey (p_order p)) (select perm layout))
      && (negb (nodup_ids (layout_ids layout)) || sums_eqb impl (one_fraction p layout))
      (* duplicates across fractions are repaired when the limit cuts nothing and no fraction holds
         an ID twice: Total and histogram count every distinct hit once (C05_total_hist_repaired) *)
      && (negb (forallb (fun f => nodup_ids (hit_ids p f)) layout
                && (length (all_hit_ids p layout) <=? p_limit p)%nat)
          || ((q_total impl =? (if p_total p then N.of_nat (length (global_order p layout)) else 0))%N
              && hist_eqb (q_hist impl) (ids_hist (p_hist p) (global_order p layout))))
      && match single with
         | Some s => idl_eqb (q_ids s) (q_ids impl)
                     && (negb (nodup_ids (layout_ids layout)) || sums_eqb impl s)
         | None => true
         end
  | CAggSearch layout p _ _ impl single =>
      direct_ok (ahits p (concat layout)) impl
      && match single with Some s => fagg_eqb impl s | None => true end
  | CAggProxy shards chosen p _ impl =>
      direct_ok (ahits p (concat (concat (map (fun sc => nth (snd sc) (fst sc) []) (combine shards chosen))))) impl
  | CProxyDocs shards _ p offset size _ impl =>
      (* whichever replica answered: the page is cut from the one global list of ANY replica choice (here the
         first replica of every shard), and every listed ID comes with its stored document *)
      let ids := map (fun e => is_id (fst e)) impl in
      idl_eqb ids (firstn size (skipn offset (global_order p (concat (first_replicas shards)))))
      && strictly_ordered (p_order p) ids
      && forallb (fun e => match snd e with
                           | Some b => option_eqb N.eqb (Some b) (stored_body (concat shards) (is_id (fst e)))
                           | None => false
                           end) impl
  | CProxy shards chosen p offset size _ impl =>
      let ls := concat (chosen_layouts shards chosen) in
      let pl := with_limit p (offset + size) in
      idl_eqb (q_ids impl) (firstn size (skipn offset (global_order p ls)))
      && strictly_ordered (p_order p) (q_ids impl)
      && (negb (nodup_ids (layout_ids ls)) || sums_eqb impl (one_fraction pl ls))
  end.

Definition diff_indices (l : list case) : list nat := bad_indices (fun c => negb (case_agrees c)) l.
Definition specfail_indices (l : list case) : list nat := bad_indices (fun c => negb (case_spec_ok c)) l.
