(* C05 — dispatch of the gen-* correspondence cases (validation of the translator go2coq): evaluates the
   GENERATED definitions of Gen.v on the arguments the harness passed to the real Go functions. NO proofs.
   paginateIDs: the IDSources are represented by integer tags (the function cannot inspect them); the
   result is encoded as size :: tags. *)
From Coq Require Import ZArith List.
From VLib Require Import GoSem.
From C05 Require Import Gen.
Import ListNotations.
Open Scope Z_scope.

Definition gen_eval (fn : N) (a : list (list Z)) : gres :=
  match fn with
  | 1%N => gres_of enc_b (go_seq_Less_run (mk_go_ID (arg a 0) (arg a 1)) (mk_go_ID (arg a 2) (arg a 3)))
  | 2%N => gres_of (fun p : list Z * Z => snd p :: fst p) (go_search_Ingestor_paginateIDs_run (argl a 0) (arg a 1) (arg a 2))
  | _ => GFuel
  end.
