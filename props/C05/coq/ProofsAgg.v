(* C05 — the field aggregations' mergeable state is independent of the split: proofs. *)
From Coq Require Import List Bool Arith NArith ZArith Lia Permutation.
From C05 Require Import Model ModelAgg.
Import ListNotations.

(* ------------------------------------------------------------------ one container *)
Definition step_sc (h : sc) (d : adoc) : sc :=
  match a_val d with None => sc_add_ne h | Some v => sc_insert_n v 1 h end.
Definition sc_fold (ds : list adoc) (h : sc) : sc := fold_left step_sc ds h.
Definition sc_of (ds : list adoc) : sc := sc_fold ds sc_new.

(* an empty container is the fresh one up to NotExists *)
Definition canon (c : sc) : Prop :=
  sc_total c = 0%N -> sc_sum c = 0%Z /\ sc_min c = sent_min /\ sc_max c = sent_max.

Lemma canon_new : canon sc_new.
Proof. intros _. auto. Qed.

Lemma canon_step : forall h d, canon h -> canon (step_sc h d).
Proof.
  intros h d C. unfold step_sc. destruct (a_val d); unfold canon in *; simpl.
  - intros E. lia.
  - exact C.
Qed.

Lemma canon_fold : forall ds h, canon h -> canon (sc_fold ds h).
Proof. induction ds; simpl; intros; auto. apply IHds, canon_step; auto. Qed.

Lemma canon_sc_of : forall ds, canon (sc_of ds).
Proof. intros. apply canon_fold, canon_new. Qed.

Lemma sc_merge_new_r : forall h, sc_merge h sc_new = h.
Proof. intros [t n s mn mx]. unfold sc_merge; simpl. f_equal. lia. Qed.

Lemma sc_merge_new_l : forall x, canon x -> sc_merge sc_new x = x.
Proof.
  intros [t n s mn mx] C. unfold sc_merge, canon in *; simpl in *.
  destruct (N.eqb_spec t 0).
  - destruct (C e) as (-> & -> & ->). subst. reflexivity.
  - reflexivity.
Qed.

(* inserting into / counting on the merged container = merging the updated source *)
Lemma step_merge : forall h x d, (sc_total x = 0%N -> sc_sum x = 0%Z) ->
  step_sc (sc_merge h x) d = sc_merge h (step_sc x d).
Proof.
  intros [ht hn hs hmn hmx] [xt xn xs xmn xmx] d S. unfold step_sc.
  destruct (a_val d) as [v|]; unfold sc_merge, sc_insert_n, sc_add_ne; simpl in *.
  - destruct (N.eqb_spec xt 0) as [E|E]; simpl.
    + rewrite (S E). subst xt. simpl.
      destruct (N.eqb_spec ht 0); simpl; f_equal; lia.
    + destruct (N.eqb_spec (xt + 1) 0); [lia|].
      destruct (N.eqb_spec ht 0) as [H0|H0]; simpl.
      * destruct (N.eqb_spec (ht + xt) 0); [lia|]. f_equal; lia.
      * destruct (N.eqb_spec (ht + xt) 0); [lia|]. f_equal; lia.
  - destruct (N.eqb_spec xt 0); simpl; f_equal; lia.
Qed.

Lemma sc_fold_app : forall a b h, sc_fold (a ++ b) h = sc_fold b (sc_fold a h).
Proof. intros. unfold sc_fold. apply fold_left_app. Qed.

(* folding documents onto h = merging their own container into h *)
Lemma sc_fold_merge : forall b h, sc_fold b h = sc_merge h (sc_of b).
Proof.
  induction b as [|d b IH] using rev_ind; intros h.
  - simpl. symmetry. apply sc_merge_new_r.
  - unfold sc_of. rewrite !sc_fold_app. simpl. rewrite IH.
    fold (sc_of b). apply step_merge. intros E. apply (canon_sc_of b E).
Qed.

(* the container is a monoid homomorphism from document lists *)
Lemma sc_of_app : forall a b, sc_of (a ++ b) = sc_merge (sc_of a) (sc_of b).
Proof. intros. unfold sc_of at 1. rewrite sc_fold_app. apply sc_fold_merge. Qed.

Lemma step_comm : forall h d1 d2, step_sc (step_sc h d1) d2 = step_sc (step_sc h d2) d1.
Proof.
  intros [t n s mn mx] d1 d2. unfold step_sc.
  destruct (a_val d1) as [v1|], (a_val d2) as [v2|]; unfold sc_insert_n, sc_add_ne; simpl; auto.
  destruct (N.eqb_spec (t + 1) 0); [lia|].
  destruct (N.eqb_spec t 0); f_equal; lia.
Qed.

Lemma sc_fold_perm : forall a b, Permutation a b -> forall h, sc_fold a h = sc_fold b h.
Proof.
  induction 1; intros h; simpl; auto.
  - rewrite step_comm. reflexivity.
  - rewrite IHPermutation1. apply IHPermutation2.
Qed.

(* ------------------------------------------------------------------ sorted bin maps *)
Fixpoint ssorted (m : bins) : Prop :=
  match m with
  | [] => True
  | (k, _) :: r => (forall x, In x (map fst r) -> (k < x)%N) /\ ssorted r
  end.

Definition valnew (o : option sc) : sc := match o with Some v => v | None => sc_new end.

Lemma find_notin : forall k m, ~ In k (map fst m) -> bins_find k m = None.
Proof.
  induction m as [|[k0 v0] r IH]; simpl; intros H; auto.
  destruct (N.eqb_spec k k0); [subst; exfalso; auto|]. apply IH. auto.
Qed.

Lemma find_in : forall k m v, bins_find k m = Some v -> In k (map fst m).
Proof.
  induction m as [|[k0 v0] r IH]; simpl; intros v H; [discriminate|].
  destruct (N.eqb_spec k k0); [subst; auto|]. right. eapply IH; eauto.
Qed.

Lemma upd_keys : forall f k m x, In x (map fst (bins_upd f k m)) <-> x = k \/ In x (map fst m).
Proof.
  induction m as [|[k0 v0] r IH]; simpl; intros x.
  - intuition.
  - destruct (N.ltb_spec k k0); simpl; [intuition|].
    destruct (N.eqb_spec k k0); simpl.
    + subst. intuition.
    + rewrite IH. intuition.
Qed.

Lemma upd_sorted : forall f k m, ssorted m -> ssorted (bins_upd f k m).
Proof.
  induction m as [|[k0 v0] r IH]; simpl; intros S.
  - split; [intros x []|exact I].
  - destruct S as [S1 S2]. destruct (N.ltb_spec k k0); simpl.
    + split; [|split; auto]. intros x [<-|H1]; auto. specialize (S1 _ H1). lia.
    + destruct (N.eqb_spec k k0); simpl.
      * split; auto.
      * split; [|auto]. intros x Hx. apply upd_keys in Hx. destruct Hx as [->|Hx]; [lia|auto].
Qed.

Lemma find_upd : forall f k m k', ssorted m ->
  bins_find k' (bins_upd f k m)
  = if (k' =? k)%N then Some (f (valnew (bins_find k m))) else bins_find k' m.
Proof.
  induction m as [|[k0 v0] r IH]; simpl; intros k' S.
  - destruct (N.eqb_spec k' k); auto.
  - destruct S as [S1 S2]. destruct (N.ltb_spec k k0); simpl.
    + destruct (N.eqb_spec k' k); auto. subst k'.
      destruct (N.eqb_spec k k0); [lia|].
      rewrite find_notin; auto. intros Hin. specialize (S1 _ Hin). lia.
    + destruct (N.eqb_spec k k0); simpl.
      * subst k0. destruct (N.eqb_spec k' k); auto.
      * rewrite IH by auto. destruct (N.eqb_spec k' k0), (N.eqb_spec k' k); subst; auto. lia.
Qed.

Lemma bins_ext : forall m1 m2, ssorted m1 -> ssorted m2 ->
  (forall k, bins_find k m1 = bins_find k m2) -> m1 = m2.
Proof.
  induction m1 as [|[k1 v1] r1 IH]; intros [|[k2 v2] r2] S1 S2 H; auto.
  - specialize (H k2). simpl in H. rewrite N.eqb_refl in H. discriminate.
  - specialize (H k1). simpl in H. rewrite N.eqb_refl in H. discriminate.
  - simpl in S1, S2. destruct S1 as [A1 B1], S2 as [A2 B2].
    assert (N1 : ~ In k1 (map fst r1)) by (intros Hin; specialize (A1 _ Hin); lia).
    assert (N2 : ~ In k2 (map fst r2)) by (intros Hin; specialize (A2 _ Hin); lia).
    assert (k1 = k2) as ->.
    { pose proof (H k1) as H1. pose proof (H k2) as H2. simpl in H1, H2.
      rewrite N.eqb_refl in H1, H2.
      destruct (N.eqb_spec k1 k2); auto.
      destruct (N.eqb_spec k2 k1); [congruence|].
      symmetry in H1. apply find_in in H1. apply find_in in H2.
      specialize (A1 _ H2). specialize (A2 _ H1). lia. }
    pose proof (H k2) as Hk. simpl in Hk. rewrite N.eqb_refl in Hk. injection Hk as ->.
    f_equal. apply IH; auto. intros k. specialize (H k). simpl in H.
    destruct (N.eqb_spec k k2); auto. subst. rewrite !find_notin; auto.
Qed.

(* ------------------------------------------------------------------ representation by documents *)
Definition opt_sc (ds : list adoc) : option sc := match ds with [] => None | _ => Some (sc_of ds) end.
Definition binspec (k : N) (hs : list adoc) : option sc :=
  if (k =? 0)%N then None else opt_sc (grp_docs k hs).

Definition Rep (st : fagg) (hs : list adoc) : Prop :=
  ssorted (fa_bins st) /\ (forall k, bins_find k (fa_bins st) = binspec k hs) /\ fa_ne st = direct_ne hs.

Lemma valnew_opt : forall ds, valnew (opt_sc ds) = sc_of ds.
Proof. destruct ds; reflexivity. Qed.

Lemma opt_sc_snoc : forall ds d, opt_sc (ds ++ [d]) = Some (step_sc (sc_of ds) d).
Proof.
  intros. unfold opt_sc. destruct (ds ++ [d]) eqn:E; [destruct ds; discriminate|].
  rewrite <- E. unfold sc_of. rewrite sc_fold_app. reflexivity.
Qed.

Lemma grp_docs_app : forall k a b, grp_docs k (a ++ b) = grp_docs k a ++ grp_docs k b.
Proof. intros. apply filter_app. Qed.

Lemma direct_ne_app : forall a b, direct_ne (a ++ b) = (direct_ne a + direct_ne b)%N.
Proof. intros. unfold direct_ne. rewrite filter_app, app_length. lia. Qed.

Lemma Rep_empty : Rep fagg_empty [].
Proof. split; [exact I|]. split; auto. intros k. unfold binspec. destruct (k =? 0)%N; auto. Qed.

Lemma Rep_step : forall st hs d, Rep st hs -> Rep (agg_step st d) (hs ++ [d]).
Proof.
  intros st hs d (S & F & E). unfold agg_step.
  assert (NEd : direct_ne [d] = if (d_grp (a_doc d) =? 0)%N && match a_val d with Some _ => true | None => false end
                                then 1%N else 0%N).
  { unfold direct_ne. simpl. destruct (_ && _); reflexivity. }
  assert (B : forall k, k <> d_grp (a_doc d) -> binspec k (hs ++ [d]) = binspec k hs).
  { intros k Hk. unfold binspec. rewrite grp_docs_app. simpl.
    destruct (N.eqb_spec (d_grp (a_doc d)) k); [congruence|]. rewrite app_nil_r. reflexivity. }
  assert (G : forall f, d_grp (a_doc d) <> 0%N ->
              (forall h, f h = step_sc h d) ->
              forall k, bins_find k (bins_upd f (d_grp (a_doc d)) (fa_bins st)) = binspec k (hs ++ [d])).
  { intros f G0 Hf k. rewrite find_upd by auto. destruct (N.eqb_spec k (d_grp (a_doc d))) as [->|Hk].
    - rewrite F. unfold binspec. destruct (N.eqb_spec (d_grp (a_doc d)) 0); [contradiction|].
      rewrite valnew_opt, grp_docs_app. simpl. rewrite N.eqb_refl. rewrite opt_sc_snoc, Hf. reflexivity.
    - rewrite B by auto. apply F. }
  destruct (a_val d) as [v|] eqn:V; destruct (N.eqb_spec (d_grp (a_doc d)) 0) as [G0|G0]; simpl.
  - split; [auto|]. split.
    + intros k. rewrite F. unfold binspec. destruct (N.eqb_spec k 0); auto.
      rewrite grp_docs_app. simpl. rewrite G0. destruct (N.eqb_spec 0 k); [congruence|]. rewrite app_nil_r. auto.
    + rewrite direct_ne_app, NEd, E; simpl; lia.
  - split; [apply upd_sorted; auto|]. split.
    + apply G; auto. intros h. unfold step_sc. rewrite V. reflexivity.
    + rewrite direct_ne_app, NEd, E; simpl; lia.
  - split; [auto|]. split.
    + intros k. rewrite F. unfold binspec. destruct (N.eqb_spec k 0); auto.
      rewrite grp_docs_app. simpl. rewrite G0. destruct (N.eqb_spec 0 k); [congruence|]. rewrite app_nil_r. auto.
    + rewrite direct_ne_app, NEd, E; simpl; lia.
  - split; [apply upd_sorted; auto|]. split.
    + apply G; auto. intros h. unfold step_sc. rewrite V. reflexivity.
    + rewrite direct_ne_app, NEd, E; simpl; lia.
Qed.

Lemma Rep_fold : forall hs st hs0, Rep st hs0 -> Rep (fold_left agg_step hs st) (hs0 ++ hs).
Proof.
  induction hs as [|d hs IH]; simpl; intros st hs0 R.
  - rewrite app_nil_r. auto.
  - replace (hs0 ++ d :: hs) with ((hs0 ++ [d]) ++ hs) by (rewrite <- app_assoc; reflexivity).
    apply IH, Rep_step, R.
Qed.

Lemma Rep_of_hits : forall hs, Rep (fagg_of_hits hs) hs.
Proof. intros. apply (Rep_fold hs fagg_empty []), Rep_empty. Qed.

Lemma merge_find : forall mb qa, ssorted qa -> ssorted mb ->
  let r := fold_left (fun m kv => bins_upd (fun h => sc_merge h (snd kv)) (fst kv) m) mb qa in
  ssorted r /\
  forall k, bins_find k r = match bins_find k mb with
                            | None => bins_find k qa
                            | Some x => Some (sc_merge (valnew (bins_find k qa)) x)
                            end.
Proof.
  induction mb as [|[k0 x0] rb IH]; simpl; intros qa Sa Sb.
  - split; auto.
  - destruct Sb as [Sb1 Sb2].
    specialize (IH (bins_upd (fun h => sc_merge h x0) k0 qa) (upd_sorted _ _ _ Sa) Sb2).
    simpl in IH. destruct IH as [IS IF]. split; auto.
    intros k. rewrite IF. destruct (N.eqb_spec k k0) as [->|Hk].
    + rewrite find_notin by (intros Hin; specialize (Sb1 _ Hin); lia).
      rewrite find_upd by auto. rewrite N.eqb_refl. reflexivity.
    + rewrite find_upd by auto. destruct (N.eqb_spec k k0); [contradiction|]. reflexivity.
Qed.

Lemma Rep_merge : forall a b ha hb, Rep a ha -> Rep b hb -> Rep (fagg_merge a b) (ha ++ hb).
Proof.
  intros a b ha hb (Sa & Fa & Ea) (Sb & Fb & Eb).
  destruct (merge_find (fa_bins b) (fa_bins a) Sa Sb) as [MS MF].
  unfold fagg_merge, fagg_merge_with. split; [exact MS|]. split; simpl.
  - intros k. rewrite MF, Fa, Fb. unfold binspec. destruct (N.eqb_spec k 0); auto.
    rewrite grp_docs_app. destruct (grp_docs k hb) as [|d ds] eqn:Eb'.
    + simpl. rewrite app_nil_r. reflexivity.
    + simpl opt_sc at 1. cbv iota. rewrite valnew_opt, <- sc_of_app.
      unfold opt_sc. destruct (grp_docs k ha ++ d :: ds) eqn:E; auto.
      destruct (grp_docs k ha); discriminate.
  - rewrite direct_ne_app, Ea, Eb. reflexivity.
Qed.

Lemma filter_perm : forall {A} (f : A -> bool) l l', Permutation l l' -> Permutation (filter f l) (filter f l').
Proof.
  induction 1; simpl; auto.
  - destruct (f x); auto.
  - destruct (f x), (f y); auto. apply perm_swap.
  - eapply perm_trans; eauto.
Qed.

Lemma Rep_perm : forall st hs hs', Rep st hs -> Permutation hs hs' -> Rep st hs'.
Proof.
  intros st hs hs' (S & F & E) P. split; auto. split.
  - intros k. rewrite F. unfold binspec. destruct (k =? 0)%N; auto.
    pose proof (filter_perm (fun d => (d_grp (a_doc d) =? k)%N) _ _ P) as PF.
    fold (grp_docs k hs) (grp_docs k hs') in PF. unfold opt_sc.
    destruct (grp_docs k hs) eqn:E1, (grp_docs k hs') eqn:E2; auto.
    + apply Permutation_nil in PF. discriminate.
    + apply Permutation_sym, Permutation_nil in PF. discriminate.
    + f_equal. unfold sc_of. apply sc_fold_perm. auto.
  - rewrite E. unfold direct_ne. f_equal. apply Permutation_length, filter_perm, P.
Qed.

Lemma Rep_ext : forall a b hs, Rep a hs -> Rep b hs -> a = b.
Proof.
  intros [ba na] [bb nb] hs (Sa & Fa & Ea) (Sb & Fb & Eb). simpl in *. f_equal.
  - apply bins_ext; auto. intros k. rewrite Fa, Fb. reflexivity.
  - congruence.
Qed.

(* ------------------------------------------------------------------ the SearchDocs loop *)
Lemma aloop_unroll : forall mg p chunk fuel rem tot,
  (rem = [] \/ 1 <= chunk) -> length rem <= fuel ->
  aloop_with mg fuel p chunk rem tot = Ok (fold_left (fagg_merge_with mg) (map (frac_fagg p) rem) tot).
Proof.
  induction fuel as [|fuel IH]; intros rem tot C L.
  - destruct rem; simpl in *; [reflexivity | lia].
  - destruct rem as [|f rem]; [reflexivity|].
    destruct C as [C|C]; [discriminate|].
    cbn [aloop_with]. rewrite IH.
    + rewrite <- fold_left_app, <- map_app, firstn_skipn. reflexivity.
    + right. exact C.
    + rewrite skipn_length. cbn [length] in *. lia.
Qed.

Lemma search_fagg_unroll : forall mg p fpi prepared,
  search_fagg_with mg p fpi prepared
  = Ok (fold_left (fagg_merge_with mg) (map (frac_fagg p) prepared) fagg_empty).
Proof.
  intros. unfold search_fagg_with. apply aloop_unroll; auto.
  destruct prepared; [left; auto|right].
  destruct (Nat.eqb_spec fpi 0); simpl; lia.
Qed.

Lemma Rep_fold_fracs : forall p fs tot h0, Rep tot h0 ->
  Rep (fold_left fagg_merge (map (frac_fagg p) fs) tot) (h0 ++ concat (map (ahits p) fs)).
Proof.
  induction fs as [|f fs IH]; simpl; intros tot h0 R.
  - rewrite app_nil_r. auto.
  - rewrite app_assoc. apply IH, Rep_merge; auto. apply Rep_of_hits.
Qed.

Lemma concat_perm : forall {A} (l l' : list (list A)), Permutation l l' -> Permutation (concat l) (concat l').
Proof.
  induction 1; simpl; auto.
  - apply Permutation_app_head; auto.
  - rewrite !app_assoc. apply Permutation_app_tail, Permutation_app_comm.
  - eapply perm_trans; eauto.
Qed.

Lemma concat_map_filter_nil' : forall {A B} (g : A -> list B) keep l,
  (forall x, In x l -> keep x = false -> g x = []) ->
  concat (map g (filter keep l)) = concat (map g l).
Proof.
  induction l as [|x l IH]; intros H; simpl; auto.
  destruct (keep x) eqn:E; simpl.
  - f_equal. apply IH. intros; apply H; simpl; auto.
  - rewrite (H x) by (simpl; auto). simpl. apply IH. intros; apply H; simpl; auto.
Qed.

Lemma ahits_concat : forall p fs, ahits p (concat fs) = concat (map (ahits p) fs).
Proof.
  induction fs as [|f fs IH]; simpl; auto. unfold ahits in *. rewrite filter_app, IH. reflexivity.
Qed.

(* a valid preparation of a layout: any order of the fractions the range filter keeps, a dropped
   fraction has no hit *)
Definition avalid_prep (p : params) (layout prepared : list afrac) : Prop :=
  exists keep, (forall f, In f layout -> keep f = false -> ahits p f = [])
               /\ Permutation prepared (filter keep layout).

Lemma prep_hits_perm : forall p layout prepared, avalid_prep p layout prepared ->
  Permutation (concat (map (ahits p) prepared)) (ahits p (concat layout)).
Proof.
  intros p layout prepared (keep & K & P).
  rewrite ahits_concat, <- (concat_map_filter_nil' (ahits p) keep layout K).
  apply concat_perm, Permutation_map, P.
Qed.

Lemma search_fagg_Rep : forall p fpi prepared,
  exists r, search_fagg p fpi prepared = Ok r /\ Rep r (concat (map (ahits p) prepared)).
Proof.
  intros. eexists. split; [apply search_fagg_unroll|].
  apply (Rep_fold_fracs p prepared fagg_empty []), Rep_empty.
Qed.

Theorem field_aggs_partition : forall p (fs : list afrac) keep prepared fpi,
  (forall f, In f fs -> keep f = false -> ahits p f = []) ->
  Permutation prepared (filter keep fs) ->
  search_fagg p fpi prepared = Ok (frac_fagg p (concat fs)).
Proof.
  intros p fs keep prepared fpi K P.
  destruct (search_fagg_Rep p fpi prepared) as (r & -> & R). f_equal.
  eapply Rep_ext; [|apply Rep_of_hits].
  eapply Rep_perm; [exact R|]. apply prep_hits_perm. exists keep. auto.
Qed.

(* ------------------------------------------------------------------ the proxy *)
Lemma all_ok_Ok : forall {A} (l : list A), all_ok (map Ok l) = Ok l.
Proof. induction l; simpl; auto. rewrite IHl. reflexivity. Qed.

Definition store_fagg (p : params) (prepared : list afrac) : fagg :=
  fold_left fagg_merge (map (frac_fagg p) prepared) fagg_empty.

Lemma Rep_fold_stores : forall p arrived tot h0, Rep tot h0 ->
  Rep (fold_left fagg_merge (map (store_fagg p) arrived) tot)
      (h0 ++ concat (map (fun a => concat (map (ahits p) a)) arrived)).
Proof.
  induction arrived as [|a arrived IH]; simpl; intros tot h0 R.
  - rewrite app_nil_r. auto.
  - rewrite app_assoc. apply IH, Rep_merge; auto.
    apply (Rep_fold_fracs p a fagg_empty []), Rep_empty.
Qed.

Lemma shards_hits_perm : forall p (layouts answers : list (list afrac)),
  Forall2 (avalid_prep p) layouts answers ->
  Permutation (concat (map (fun a => concat (map (ahits p) a)) answers)) (ahits p (concat (concat layouts))).
Proof.
  induction 1 as [|l a ls as' H V IH]; simpl; auto.
  rewrite concat_app.
  replace (ahits p (concat l ++ concat (concat ls))) with (ahits p (concat l) ++ ahits p (concat (concat ls)))
    by (unfold ahits; rewrite filter_app; reflexivity).
  apply Permutation_app; auto. apply prep_hits_perm, H.
Qed.

Theorem field_aggs_shards : forall p fpi (layouts answers arrived : list (list afrac)),
  Forall2 (avalid_prep p) layouts answers ->
  Permutation arrived answers ->
  proxy_fagg p fpi arrived = Ok (frac_fagg p (concat (concat layouts))).
Proof.
  intros p fpi layouts answers arrived V P.
  unfold proxy_fagg, proxy_fagg_with.
  assert (M : map (search_fagg_with sc_merge p fpi) arrived = map Ok (map (store_fagg p) arrived)).
  { rewrite map_map. apply map_ext. intros a. apply search_fagg_unroll. }
  rewrite M, all_ok_Ok. f_equal.
  eapply Rep_ext; [|apply Rep_of_hits].
  eapply Rep_perm; [apply (Rep_fold_stores p arrived fagg_empty []), Rep_empty|]. simpl.
  eapply perm_trans.
  { apply concat_perm, Permutation_map, P. }
  apply shards_hits_perm, V.
Qed.

(* every bin of the one-fraction state is the direct computation from the documents of the group *)
Lemma zfold_min : forall l x y, fold_right Z.min (Z.min x y) l = Z.min (fold_right Z.min x l) y.
Proof. induction l; simpl; intros; auto. rewrite IHl. lia. Qed.
Lemma zfold_max : forall l x y, fold_right Z.max (Z.max x y) l = Z.max (fold_right Z.max x l) y.
Proof. induction l; simpl; intros; auto. rewrite IHl. lia. Qed.

Lemma vals_app : forall a b, vals (a ++ b) = vals a ++ vals b.
Proof. intros. unfold vals. rewrite map_app, concat_app. reflexivity. Qed.

Lemma zsum_app : forall a b, zsum (a ++ b) = (zsum a + zsum b)%Z.
Proof. induction a; simpl; intros; auto. rewrite IHa. lia. Qed.

Lemma zmin_snoc : forall l v, l <> [] -> zmin (l ++ [v]) = Z.min (zmin l) v.
Proof.
  intros [|x l] v H; [contradiction|]. simpl. clear H. revert x.
  induction l as [|y l IH]; simpl; intros x; [lia|]. rewrite IH. lia.
Qed.
Lemma zmax_snoc : forall l v, l <> [] -> zmax (l ++ [v]) = Z.max (zmax l) v.
Proof.
  intros [|x l] v H; [contradiction|]. simpl. clear H. revert x.
  induction l as [|y l IH]; simpl; intros x; [lia|]. rewrite IH. lia.
Qed.

Lemma vals_length_le : forall ds, length (vals ds) <= length ds.
Proof. unfold vals. induction ds as [|d ds IH]; simpl; auto. destruct (a_val d); simpl; lia. Qed.

Lemma vals_snoc : forall ds d,
  vals (ds ++ [d]) = vals ds ++ match a_val d with Some v => [v] | None => [] end.
Proof. intros. rewrite vals_app. unfold vals at 2. simpl. rewrite app_nil_r. reflexivity. Qed.

Lemma sc_of_direct : forall ds,
  sc_of ds = mkSC (N.of_nat (length (vals ds))) (N.of_nat (length ds - length (vals ds)))
                  (zsum (vals ds)) (zmin (vals ds)) (zmax (vals ds)).
Proof.
  induction ds as [|d ds IH] using rev_ind; [reflexivity|].
  unfold sc_of. rewrite sc_fold_app. fold (sc_of ds). rewrite IH.
  rewrite vals_snoc, !app_length. pose proof (vals_length_le ds) as LE.
  set (vs := vals ds) in *. cbn [sc_fold fold_left]. unfold step_sc.
  destruct (a_val d) as [v|].
  - unfold sc_insert_n. cbn [sc_total sc_ne sc_sum sc_min sc_max length]. rewrite zsum_app.
    cbn [length zsum fold_right].
    destruct vs as [|x vs'].
    + cbn. f_equal; lia.
    + destruct (N.eqb_spec (N.of_nat (length (x :: vs'))) 0) as [E0|E0]; [cbn [length] in E0; lia|].
      rewrite zmin_snoc, zmax_snoc by discriminate. cbn [length] in *. f_equal; lia.
  - unfold sc_add_ne. cbn [sc_total sc_ne sc_sum sc_min sc_max length]. rewrite !app_nil_r. f_equal; lia.
Qed.

Theorem field_aggs_direct : forall p fs k,
  bins_find k (fa_bins (frac_fagg p (concat fs))) = direct_bin k (ahits p (concat fs))
  /\ fa_ne (frac_fagg p (concat fs)) = direct_ne (ahits p (concat fs)).
Proof.
  intros p fs k. destruct (Rep_of_hits (ahits p (concat fs))) as (_ & F & E). split; [|exact E].
  unfold frac_fagg. rewrite F. unfold binspec, direct_bin. destruct (k =? 0)%N; auto.
  unfold opt_sc. destruct (grp_docs k (ahits p (concat fs))) eqn:G; auto.
  rewrite sc_of_direct. reflexivity.
Qed.
