(* C05 — the property-level statements assembled from ProofsOrder / ProofsNorm / ProofsSearch. *)
From Coq Require Import List Bool Arith NArith Lia Sorting.Sorted Permutation.
From C05 Require Import Model ProofsOrder ProofsNorm ProofsSearch.
Import ListNotations.

(* ------------------------------------------------------------------ one fraction holding everything *)
Lemma hits_concat : forall p fs, hits p (concat fs) = concat (map (hits p) fs).
Proof.
  induction fs as [|f fs IH]; simpl; auto. unfold hits in *. rewrite filter_app, IH. reflexivity.
Qed.

Lemma hit_ids_concat : forall p fs, hit_ids p (concat fs) = all_hit_ids p fs.
Proof.
  intros. unfold hit_ids, all_hit_ids. rewrite hits_concat, concat_map, map_map. reflexivity.
Qed.

Lemma one_fraction_ids : forall p fs,
  q_ids (frac_search p (p_limit p) (concat fs)) = spec_ids p fs.
Proof.
  intros. rewrite frac_search_ids, hit_ids_concat. reflexivity.
Qed.

(* thm:C05_topk_partition *)
Theorem topk_partition :
  forall (p : params) (fs : list frac) (keep : frac -> bool) (prepared : list frac) (fpi : nat),
    (forall f, In f fs -> keep f = false -> hit_ids p f = []) ->
    Permutation prepared (filter keep fs) ->
    KS (p_order p) prepared ->
    exists r, search_docs p fpi prepared = Ok r
      /\ q_ids r = spec_ids p fs
      /\ q_ids r = q_ids (frac_search p (p_limit p) (concat fs)).
Proof.
  intros p fs keep prepared fpi HK HP HS.
  destruct (search_docs_ids p fpi prepared HS) as [r [Hr Hi]].
  exists r. split; auto.
  assert (q_ids r = spec_ids p fs).
  { rewrite Hi. unfold spec_ids, global_order. apply topk_ext. eapply prepared_hits; eauto. }
  split; auto. rewrite one_fraction_ids. auto.
Qed.

(* the hypotheses are met by the code's own FilterInRange + Sort *)
Theorem topk_partition_prepare : forall p fs fpi,
  exists r, search_docs p fpi (prepare p fs) = Ok r /\ q_ids r = spec_ids p fs.
Proof.
  intros. destruct (topk_partition p fs (intersecting p) (prepare p fs) fpi) as [r [H1 [H2 _]]].
  - intros f _ H. apply not_intersecting_no_hit; auto.
  - apply prepare_perm.
  - apply prepare_KS.
  - eauto.
Qed.

(* the result lists every ID once and in order *)
Lemma spec_ids_SS : forall p fs, SS (p_order p) (spec_ids p fs).
Proof. intros. apply topk_SS. Qed.

(* ------------------------------------------------------------------ paging *)
Lemma paginate_fst : forall ids off size, fst (paginate ids off size) = firstn size (skipn off ids).
Proof.
  intros. unfold paginate.
  assert ((if (off <? length ids)%nat then skipn off ids else []) = skipn off ids) as ->.
  { destruct (off <? length ids)%nat eqn:E; auto. apply Nat.ltb_ge in E. symmetry. apply skipn_all2. auto. }
  destruct (size <? length (skipn off ids))%nat eqn:E; simpl; auto.
  apply Nat.ltb_ge in E. symmetry. apply firstn_all2. auto.
Qed.

Lemma paginate_snd : forall ids off size, snd (paginate ids off size) = length (fst (paginate ids off size)).
Proof.
  intros. unfold paginate.
  destruct (size <? length (if (off <? length ids)%nat then skipn off ids else []))%nat eqn:E; simpl; auto.
  apply Nat.ltb_lt in E. rewrite firstn_length. lia.
Qed.

(* the page (offset, size) of the global list G: the stores and the merge deliver the first
   offset+size entries, paginateIDs cuts the page out *)
Definition page (G : list ID) (off size : nat) : list ID :=
  fst (paginate (firstn (off + size) G) off size).

Lemma page_eq : forall G off size, page G off size = firstn size (skipn off G).
Proof.
  intros. unfold page. rewrite paginate_fst. rewrite <- firstn_skipn_comm.
  rewrite firstn_firstn. f_equal. lia.
Qed.

Lemma firstn_app_skipn : forall {A} a b (l : list A), firstn a l ++ firstn b (skipn a l) = firstn (a + b) l.
Proof.
  induction a; intros b l; simpl; auto. destruct l; simpl.
  - rewrite firstn_nil. reflexivity.
  - f_equal. apply IHa.
Qed.

Lemma skipn_add : forall {A} b a (l : list A), skipn a (skipn b l) = skipn (b + a) l.
Proof.
  induction b; intros a l; simpl; auto. destruct l; simpl; auto. apply skipn_nil.
Qed.

(* thm:C05_paging_tiles *)
Theorem paging_tiles : forall G off s s',
  page G off s ++ page G (off + s) s' = page G off (s + s')
  /\ G = firstn off G ++ page G off s ++ skipn (off + s) G.
Proof.
  intros. rewrite !page_eq. split.
  - rewrite <- skipn_add. apply firstn_app_skipn.
  - rewrite <- skipn_add.
    rewrite (firstn_skipn s (skipn off G)). rewrite firstn_skipn. reflexivity.
Qed.
