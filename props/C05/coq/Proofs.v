From Coq Require Import List Bool Arith NArith Lia.
From C05 Require Import Model.
Import ListNotations.
