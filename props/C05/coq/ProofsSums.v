(* C05 — Total, histogram, aggregation: with no hit stored twice they are those of one fraction. *)
From Coq Require Import List Bool Arith NArith Lia Sorting.Sorted Permutation.
From C05 Require Import Model ProofsOrder ProofsNorm ProofsSearch Proofs.
Import ListNotations.

(* ------------------------------------------------------------------ algebra of bucket maps *)
Ltac cmpN :=
  repeat match goal with
  | |- context [(?a <? ?b)%N] => destruct (N.ltb_spec a b)
  | |- context [(?a =? ?b)%N] => destruct (N.eqb_spec a b)
  end.

Lemma hist_add_comm : forall k c k' c' h,
  hist_add k c (hist_add k' c' h) = hist_add k' c' (hist_add k c h).
Proof.
  unfold hist_add. intros k c k' c'. induction h as [|[k0 v] r IH]; simpl.
  - cmpN; simpl; cmpN; subst; try lia; try reflexivity. f_equal; f_equal; lia.
  - cmpN; simpl; cmpN; simpl; cmpN; subst; try lia; try reflexivity.
    + f_equal; f_equal; lia.
    + f_equal; f_equal; lia.
    + f_equal. apply IH.
Qed.

Lemma hist_add_fuse : forall k c c' h, hist_add k c (hist_add k c' h) = hist_add k (c' + c) h.
Proof.
  unfold hist_add. intros k c c'. induction h as [|[k0 v] r IH]; simpl.
  - cmpN; simpl; cmpN; subst; try lia; try reflexivity.
  - cmpN; simpl; cmpN; subst; try lia; try reflexivity.
    + f_equal; f_equal; lia.
    + f_equal. apply IH.
Qed.

(* hist_merge h kvs adds the entries of kvs one by one *)
Lemma merge_add_comm : forall kvs k c h, hist_merge (hist_add k c h) kvs = hist_add k c (hist_merge h kvs).
Proof.
  unfold hist_merge. induction kvs as [|[k0 v] r IH]; intros k c h; simpl; auto.
  rewrite hist_add_comm. apply IH.
Qed.

Lemma hist_merge_cons : forall h k v r, hist_merge h ((k, v) :: r) = hist_merge (hist_add k v h) r.
Proof. reflexivity. Qed.

Lemma hist_add_cons : forall k c k0 v r,
  hist_add k c ((k0, v) :: r) =
  if (k <? k0)%N then (k, c) :: (k0, v) :: r
  else if (k =? k0)%N then (k0, (v + c)%N) :: r else (k0, v) :: hist_add k c r.
Proof. reflexivity. Qed.

Lemma merge_of_add : forall h1 k c h0,
  hist_merge h0 (hist_add k c h1) = hist_add k c (hist_merge h0 h1).
Proof.
  induction h1 as [|[k0 v] r IH]; intros k c h0.
  - reflexivity.
  - rewrite hist_add_cons. cmpN.
    + rewrite hist_merge_cons, merge_add_comm. reflexivity.
    + subst k0. rewrite !hist_merge_cons, <- merge_add_comm, hist_add_fuse. reflexivity.
    + rewrite !hist_merge_cons. apply IH.
Qed.

Section Counting.
  Context {A : Type} (key : A -> N).
  Definition hist_of (l : list A) (h : hist) : hist := fold_left (fun h d => hist_add (key d) 1 h) l h.

  Lemma hist_of_app : forall a b h, hist_of (a ++ b) h = hist_of b (hist_of a h).
  Proof. intros. unfold hist_of. apply fold_left_app. Qed.

  Lemma hist_of_add_comm : forall l k c h, hist_of l (hist_add k c h) = hist_add k c (hist_of l h).
  Proof.
    induction l as [|x l IH]; intros k c h; simpl; auto.
    rewrite hist_add_comm. apply IH.
  Qed.

  (* merging a summarised histogram = counting its items on top *)
  Lemma merge_hist_of : forall l h1 h0, hist_merge h0 (hist_of l h1) = hist_of l (hist_merge h0 h1).
  Proof.
    induction l as [|x l IH]; intros h1 h0; simpl; auto.
    rewrite IH, merge_of_add. reflexivity.
  Qed.

  Lemma hist_of_perm : forall l l' h, Permutation l l' -> hist_of l h = hist_of l' h.
  Proof.
    intros l l' h P. revert h. induction P; intros h; simpl; auto.
    - rewrite hist_add_comm. reflexivity.
    - rewrite IHP1. apply IHP2.
  Qed.
End Counting.

(* ------------------------------------------------------------------ the four sums of a QPR *)
Definition sums (q : qpr) : N * hist * hist * N := (q_total q, q_hist q, q_agg q, q_ne q).

(* sums of what one fraction holding the documents ds answers, as a function of its hits *)
Definition sums_of_hits (p : params) (hs : list doc) : N * hist * hist * N :=
  (if p_total p then N.of_nat (length hs) else 0%N,
   if (0 <? p_hist p)%N then hist_of (fun d => bucket (mid (d_id d)) (p_hist p)) hs [] else [],
   if p_agg p then hist_of d_grp hs [] else [],
   if p_agg p then N.of_nat (length (filter (fun d => (d_grp d =? 0)%N) hs)) else 0%N).

Lemma frac_search_sums : forall p lim f, sums (frac_search p lim f) = sums_of_hits p (hits p f).
Proof. reflexivity. Qed.

Definition add_sums (a b : N * hist * hist * N) : N * hist * hist * N :=
  let '(t1, h1, a1, n1) := a in let '(t2, h2, a2, n2) := b in
  ((t1 + t2)%N, hist_merge h1 h2, hist_merge a1 a2, (n1 + n2)%N).

Lemma sums_of_hits_app : forall p a b,
  add_sums (sums_of_hits p a) (sums_of_hits p b) = sums_of_hits p (a ++ b).
Proof.
  intros. unfold sums_of_hits, add_sums.
  rewrite filter_app, !app_length, !Nat2N.inj_add, !hist_of_app.
  f_equal; [f_equal; [f_equal|]|].
  - destruct (p_total p); reflexivity.
  - destruct (0 <? p_hist p)%N; [|reflexivity]. rewrite merge_hist_of. reflexivity.
  - destruct (p_agg p); [|reflexivity]. rewrite merge_hist_of. reflexivity.
  - destruct (p_agg p); reflexivity.
Qed.

(* MergeQPRs on the sums when no repetition is found *)
Lemma merge_sums_nodup : forall dst qs L H o,
  NoDup (q_ids dst ++ concat (map q_ids qs)) ->
  sums (merge_qprs dst qs L H o) = fold_left (fun s q => add_sums s (sums q)) qs (sums dst).
Proof.
  intros dst qs L H o N. unfold merge_qprs.
  pose proof (remove_reps_nodup o _ N) as R.
  destruct (remove_reps (sort_ids o (q_ids dst ++ concat (map q_ids qs)))) as [kept removed].
  simpl in R. subst removed. unfold sums. simpl.
  assert (forall t, (if (t =? 0)%N then 0%N else sub64 t 0) = t) as ->.
  { intros t. destruct (N.eqb_spec t 0); auto. unfold sub64. destruct (N.leb_spec 0 t); [apply N.sub_0_r | lia]. }
  assert (forall (h : hist), (if (0 <? H)%N then h else h) = h) as -> by (intros; destruct (0 <? H)%N; auto).
  destruct dst as [i t h a n]. simpl. clear N. revert t h a n.
  induction qs as [|q qs IH]; intros t h a n; simpl; auto.
Qed.

(* ------------------------------------------------------------------ duplicate-freeness of what is merged *)
Lemma NoDup_app_iff : forall {A} (a b : list A),
  NoDup (a ++ b) <-> NoDup a /\ NoDup b /\ (forall x, In x a -> ~ In x b).
Proof.
  induction a as [|x a IH]; intros b; simpl.
  - split; [intros H; repeat split; auto; constructor | tauto].
  - rewrite !NoDup_cons_iff, IH, in_app_iff. split.
    + intros [N [Na [Nb D]]]. split; [split; tauto|]. split; auto.
      intros y [<-|Iy]; [tauto | apply D; auto].
    + intros [[N Na] [Nb D]]. split.
      * intros [I|I]; auto. apply (D x); auto.
      * split; auto.
Qed.

Lemma NoDup_concat_sub : forall {A} (ls ls' : list (list A)),
  Forall2 (fun a b => NoDup a /\ incl a b) ls ls' -> NoDup (concat ls') -> NoDup (concat ls).
Proof.
  intros A ls ls' F. induction F as [|a b ls ls' [Na Iab] F IH]; intros N; simpl in *; auto.
  apply NoDup_app_iff in N. destruct N as [Nb [Nc D]].
  apply NoDup_app_iff. repeat split; auto.
  intros x Ia Ic. apply (D x); auto.
  apply in_concat in Ic. destruct Ic as [l [Il Ix]].
  clear - F Il Ix. induction F as [|a' b' ls ls' [_ I'] F IH]; [contradiction|].
  simpl. apply in_app_iff. destruct Il as [<-|Il]; auto.
Qed.

Lemma hits_app : forall p a b, hits p (a ++ b) = hits p a ++ hits p b.
Proof. intros. unfold hits. apply filter_app. Qed.

Lemma fold_subs_sums : forall p lim C done,
  fold_left (fun s q => add_sums s (sums q)) (map (frac_search p lim) C)
            (sums_of_hits p (hits p (concat done)))
  = sums_of_hits p (hits p (concat (done ++ C))).
Proof.
  induction C as [|f C IH]; intros done; cbn [map fold_left].
  - rewrite app_nil_r. reflexivity.
  - rewrite frac_search_sums, sums_of_hits_app, <- hits_app.
    replace (concat done ++ f) with (concat (done ++ [f])) by (rewrite concat_app; simpl; rewrite app_nil_r; auto).
    rewrite IH, <- app_assoc. reflexivity.
Qed.

(* one iteration keeps the ID invariant (the step of loop_ids, stated on its own) *)
Lemma step_I1 : forall p c f r tot lim done,
  KS (p_order p) (f :: r) ->
  q_ids tot = topk (p_order p) (p_limit p) (all_hit_ids p done) ->
  lim = p_limit p - count_while (beyond (p_order p) f) (q_ids tot) ->
  q_ids (merge_qprs tot (map (frac_search p lim) (firstn c (f :: r))) (p_limit p) (p_hist p) (p_order p))
  = topk (p_order p) (p_limit p) (all_hit_ids p (done ++ firstn c (f :: r))).
Proof.
  intros p c f r tot lim done HK HI HL.
  assert (HS : SS (p_order p) (q_ids tot)) by (rewrite HI; apply topk_SS).
  assert (HSL : length (q_ids tot) <= p_limit p) by (rewrite HI; apply topk_length).
  rewrite merge_ids, map_map.
  rewrite (map_ext _ (fun g => topk (p_order p) lim (hit_ids p g))) by (intros; apply frac_search_ids).
  rewrite <- (map_map (hit_ids p) (topk (p_order p) lim)).
  rewrite HL, step_ids; auto.
  - fold (all_hit_ids p (firstn c (f :: r))). rewrite HI, topk_app_l, all_hit_ids_app. reflexivity.
  - apply count_while_le.
  - intros z b x Iz Ib Ix. apply in_map_iff in Ib. destruct Ib as [g [<- Ig]].
    eapply (ensured_final (p_order p) p f r (q_ids tot) z g x); eauto. eapply in_firstn; eauto.
Qed.

Lemma subs_F2 : forall p lim C,
  Forall2 (fun a b : list ID => NoDup a /\ incl a b)
          (map q_ids (map (frac_search p lim) C)) (map (hit_ids p) C).
Proof.
  induction C as [|g C IHC]; cbn [map]; constructor; auto.
  rewrite frac_search_ids. split; [apply (SS_NoDup (p_order p)), topk_SS|]. intros x; apply topk_in.
Qed.

Lemma loop_sums : forall fuel p c rem tot lim done res,
  scan_all p = true -> KS (p_order p) rem ->
  q_ids tot = topk (p_order p) (p_limit p) (all_hit_ids p done) ->
  lim = p_limit p - ensured (p_order p) (q_ids tot) rem ->
  NoDup (all_hit_ids p (done ++ rem)) ->
  sums tot = sums_of_hits p (hits p (concat done)) ->
  loop fuel p c rem tot lim = Ok res ->
  sums res = sums_of_hits p (hits p (concat (done ++ rem))).
Proof.
  induction fuel as [|fuel IH]; intros p c rem tot lim done res SA HK HI HL ND HSm HR.
  - destruct rem; simpl in HR.
    + inversion HR; subst. rewrite app_nil_r. auto.
    + rewrite SA in HR. simpl in HR. discriminate.
  - destruct rem as [|f r].
    + simpl in HR. inversion HR; subst. rewrite app_nil_r. auto.
    + cbn [loop] in HR. rewrite SA in HR. simpl orb in HR. cbv iota in HR.
      set (C := firstn c (f :: r)) in *. set (rem' := skipn c (f :: r)) in *.
      assert (EQ : done ++ f :: r = (done ++ C) ++ rem').
      { rewrite <- app_assoc. unfold C, rem'. rewrite firstn_skipn. reflexivity. }
      rewrite EQ. eapply IH; eauto.
      * apply KS_skipn; auto.
      * apply step_I1; auto.
      * rewrite <- EQ. auto.
      * rewrite merge_sums_nodup.
        -- rewrite HSm. apply fold_subs_sums.
        -- rewrite EQ, all_hit_ids_app in ND. apply NoDup_app_iff in ND. destruct ND as [ND _].
           rewrite all_hit_ids_app in ND.
           change (q_ids tot ++ concat (map q_ids (map (frac_search p lim) C)))
             with (concat (q_ids tot :: map q_ids (map (frac_search p lim) C))).
           apply (NoDup_concat_sub _ (all_hit_ids p done :: map (hit_ids p) C)); [|exact ND].
           constructor.
           ++ rewrite HI. split; [apply (SS_NoDup (p_order p)), topk_SS|]. intros x; apply topk_in.
           ++ apply subs_F2.
Qed.

(* ------------------------------------------------------------------ permutations of the layout *)
Lemma perm_concat_map : forall {A B} (g : A -> list B) l l',
  Permutation l l' -> Permutation (concat (map g l)) (concat (map g l')).
Proof.
  intros A B g l l' P. induction P; simpl; auto.
  - apply Permutation_app_head; auto.
  - rewrite !app_assoc. apply Permutation_app_tail. apply Permutation_app_comm.
  - eapply perm_trans; eauto.
Qed.

Lemma concat_map_filter_nil : forall {A B} (g : A -> list B) keep l,
  (forall x, In x l -> keep x = false -> g x = []) ->
  concat (map g (filter keep l)) = concat (map g l).
Proof.
  induction l as [|x l IH]; intros H; simpl; auto.
  destruct (keep x) eqn:E; simpl.
  - f_equal. apply IH. intros; apply H; simpl; auto.
  - rewrite (H x) by (simpl; auto). simpl. apply IH. intros; apply H; simpl; auto.
Qed.

Lemma length_filter_perm : forall {A} (g : A -> bool) l l',
  Permutation l l' -> length (filter g l) = length (filter g l').
Proof.
  intros A g l l' P. induction P; simpl; auto.
  - destruct (g x); simpl; auto.
  - destruct (g x), (g y); simpl; auto.
  - congruence.
Qed.

Lemma sums_of_hits_perm : forall p a b, Permutation a b -> sums_of_hits p a = sums_of_hits p b.
Proof.
  intros p a b P. unfold sums_of_hits.
  rewrite (Permutation_length P), (length_filter_perm _ a b P).
  rewrite (hist_of_perm _ a b [] P), (hist_of_perm d_grp a b [] P). reflexivity.
Qed.

Theorem totals_partition :
  forall (p : params) (fs : list frac) (keep : frac -> bool) (prepared : list frac) (fpi : nat) (r : qpr),
    scan_all p = true ->
    (forall f, In f fs -> keep f = false -> hit_ids p f = []) ->
    Permutation prepared (filter keep fs) ->
    KS (p_order p) prepared ->
    NoDup (all_hit_ids p fs) ->
    search_docs p fpi prepared = Ok r ->
    sums r = sums (frac_search p (p_limit p) (concat fs)).
Proof.
  intros p fs keep prepared fpi r SA HK HP HS ND HR.
  assert (PH : Permutation (all_hit_ids p prepared) (all_hit_ids p fs)).
  { unfold all_hit_ids. rewrite <- (concat_map_filter_nil (hit_ids p) keep fs HK).
    apply perm_concat_map; auto. }
  unfold search_docs in HR.
  assert (E : sums r = sums_of_hits p (hits p (concat ([] ++ prepared)))).
  { eapply (loop_sums (length prepared) p _ prepared empty_qpr (p_limit p) [] r); eauto.
    - simpl. unfold topk, norm. simpl. destruct (p_limit p); reflexivity.
    - destruct prepared; simpl; lia.
    - simpl app. eapply Permutation_NoDup; [apply Permutation_sym; eauto | auto].
    - unfold sums, sums_of_hits. simpl.
      destruct (p_total p), (0 <? p_hist p)%N, (p_agg p); reflexivity. }
  rewrite E. rewrite frac_search_sums. simpl app. rewrite !hits_concat.
  apply sums_of_hits_perm.
  rewrite <- (concat_map_filter_nil (hits p) keep fs).
  - apply perm_concat_map; auto.
  - intros f If Kf. specialize (HK f If Kf). unfold hit_ids in HK. apply map_eq_nil in HK. auto.
Qed.

(* ------------------------------------------------------------------ requests that do not scan the range *)
Definition zero_sums : N * hist * hist * N := (0%N, [], [], 0%N).

Lemma scan_all_false : forall p, scan_all p = false -> p_total p = false /\ p_agg p = false /\ p_hist p = 0%N.
Proof.
  intros p H. unfold scan_all in H. apply orb_false_iff in H. destruct H as [H H3].
  apply orb_false_iff in H. destruct H as [H1 H2]. repeat split; auto.
  apply N.ltb_ge in H3. lia.
Qed.

Lemma merge_sums_idle : forall p lim C tot o L,
  scan_all p = false -> sums tot = zero_sums ->
  sums (merge_qprs tot (map (frac_search p lim) C) L (p_hist p) o) = zero_sums.
Proof.
  intros p lim C tot o L SA HZ. destruct (scan_all_false p SA) as [Ht [Ha Hh]].
  assert (FZ1 : forall f, q_total (frac_search p lim f) = 0%N)
    by (intros; unfold frac_search; cbn [q_total]; rewrite Ht; reflexivity).
  assert (FZ2 : forall f, q_hist (frac_search p lim f) = [])
    by (intros; unfold frac_search; cbn [q_hist]; rewrite Hh; reflexivity).
  assert (FZ3 : forall f, q_agg (frac_search p lim f) = [])
    by (intros; unfold frac_search; cbn [q_agg]; rewrite Ha; reflexivity).
  assert (FZ4 : forall f, q_ne (frac_search p lim f) = 0%N)
    by (intros; unfold frac_search; cbn [q_ne]; rewrite Ha; reflexivity).
  unfold merge_qprs.
  destruct (remove_reps _) as [kept removed]. rewrite Hh. unfold sums in HZ |- *. simpl.
  destruct tot as [i t h a n]. simpl in HZ |- *. inversion HZ; subst. clear HZ.
  assert (E : forall C, fold_left (fun t q => (t + q_total q)%N) (map (frac_search p lim) C) 0%N = 0%N
                   /\ fold_left (fun h q => hist_merge h (q_hist q)) (map (frac_search p lim) C) [] = []
                   /\ fold_left (fun h q => hist_merge h (q_agg q)) (map (frac_search p lim) C) [] = []
                   /\ fold_left (fun t q => (t + q_ne q)%N) (map (frac_search p lim) C) 0%N = 0%N).
  { induction C0 as [|f C0 IH]; cbn [map fold_left]; auto.
    rewrite FZ1, FZ2, FZ3, FZ4. exact IH. }
  destruct (E C) as [-> [-> [-> ->]]]. reflexivity.
Qed.

Lemma loop_sums_idle : forall fuel p c rem tot lim res,
  scan_all p = false -> sums tot = zero_sums ->
  loop fuel p c rem tot lim = Ok res -> sums res = zero_sums.
Proof.
  induction fuel as [|fuel IH]; intros p c rem tot lim res SA HZ HR.
  - destruct rem; simpl in HR.
    + inversion HR; subst; auto.
    + destruct (scan_all p || (0 <? lim)); [discriminate | inversion HR; subst; auto].
  - destruct rem as [|f r]; cbn [loop] in HR.
    + inversion HR; subst; auto.
    + destruct (scan_all p || (0 <? lim)); [| inversion HR; subst; auto].
      eapply IH; [exact SA | | exact HR]. apply merge_sums_idle; auto.
Qed.

(* Total / histogram / aggregation for EVERY request: scanning requests need the no-duplicate
   hypothesis, the others return empty sums like the single fraction does *)
Theorem sums_partition :
  forall (p : params) (fs : list frac) (keep : frac -> bool) (prepared : list frac) (fpi : nat) (r : qpr),
    (forall f, In f fs -> keep f = false -> hit_ids p f = []) ->
    Permutation prepared (filter keep fs) ->
    KS (p_order p) prepared ->
    NoDup (all_hit_ids p fs) ->
    search_docs p fpi prepared = Ok r ->
    sums r = sums (frac_search p (p_limit p) (concat fs)).
Proof.
  intros p fs keep prepared fpi r HK HP HS ND HR.
  destruct (scan_all p) eqn:SA.
  - eapply totals_partition; eauto.
  - unfold search_docs in HR. rewrite (loop_sums_idle _ _ _ _ empty_qpr _ _ SA (eq_refl zero_sums) HR).
    destruct (scan_all_false p SA) as [Ht [Ha Hh]].
    unfold sums, frac_search. cbn [q_total q_hist q_agg q_ne]. rewrite Ht, Ha, Hh. reflexivity.
Qed.
