(* C05 — executable model of the split-independent search path. NO proofs in this file.

   Mirrors (repaired tree):
     seq/qpr.go            MergeQPRs, removeRepetitionsAdvanced, removeHistogramRepetition
     fracmanager/list.go   FilterInRange (Info.IsIntersecting), Sort, Shift
     fracmanager/searcher.go  SearchDocs loop, prepareFracs, calcEnsuredIDsCount
     frac/processor/search.go iterateEvalTree (what ONE fraction returns: ordered, adjacent
                           duplicates dropped, cut at the current limit; total/histogram/aggregation
                           over every hit when the request scans the whole range)
     proxy/search/ingestor.go Search: MergeQPRs over one QPR per shard (limit offset+size), paginateIDs

   Abstractions (tied to the code by the correspondence run, see CaseDefs.v):
     * a document is (ID, does-it-match-the-query, group token); query evaluation inside one
       fraction is property C02's subject;
     * IDs carry no Source/Hint (the property constrains the ID list only);
     * counters are unbounded naturals for additions (2^64 documents are unreachable); the two
       places where the code DEcrements a uint64 (Total, histogram bucket) wrap as in Go. *)
From Coq Require Import List Bool Arith NArith.
Import ListNotations.

(* ------------------------------------------------------------------ IDs and order *)
Definition ID := (N * N)%type.                 (* (MID, RID) *)
Definition mid (i : ID) : N := fst i.
Definition id_eqb (a b : ID) : bool := (fst a =? fst b)%N && (snd a =? snd b)%N.
(* seq.Less *)
Definition id_ltb (a b : ID) : bool :=
  if (fst a =? fst b)%N then (snd a <? snd b)%N else (fst a <? fst b)%N.

Inductive order := Desc | Asc.
(* a is listed strictly before b *)
Definition before (o : order) (a b : ID) : bool :=
  match o with Desc => id_ltb b a | Asc => id_ltb a b end.

(* sort.Sort(dst.IDs) / sort.Sort(sort.Reverse(dst.IDs)): which of two equal IDs comes first is
   not observable on the ID list *)
Fixpoint insert (o : order) (x : ID) (l : list ID) : list ID :=
  match l with
  | [] => [x]
  | y :: r => if before o y x then y :: insert o x r else x :: y :: r
  end.
Definition sort_ids (o : order) (l : list ID) : list ID := fold_right (insert o) [] l.

(* removeRepetitionsAdvanced: keeps the first of every run of equal IDs; second component = the
   dropped occurrences (one histogram repair each) *)
Fixpoint dedup_adj (last : ID) (l : list ID) : list ID * list ID :=
  match l with
  | [] => ([], [])
  | x :: r =>
      if id_eqb last x
      then let '(k, rm) := dedup_adj last r in (k, x :: rm)
      else let '(k, rm) := dedup_adj x r in (x :: k, rm)
  end.
Definition remove_reps (l : list ID) : list ID * list ID :=
  match l with
  | [] => ([], [])
  | x :: r => let '(k, rm) := dedup_adj x r in (x :: k, rm)
  end.

(* ------------------------------------------------------------------ maps bucket -> count *)
Definition hist := list (N * N).               (* sorted by key, ascending: canonical form of the Go map *)
Definition two64 : N := 18446744073709551616%N.

Fixpoint hist_upd (f : N -> N) (k : N) (h : hist) : hist :=
  match h with
  | [] => [(k, f 0%N)]
  | (k', v) :: r =>
      if (k <? k')%N then (k, f 0%N) :: h
      else if (k =? k')%N then (k', f v) :: r
      else (k', v) :: hist_upd f k r
  end.
Definition hist_add (k c : N) : hist -> hist := hist_upd (fun v => (v + c)%N) k.
(* histogram[bucket]-- on uint64 *)
Definition dec64 (v : N) : N := if (v =? 0)%N then (two64 - 1)%N else (v - 1)%N.
Definition hist_dec (k : N) : hist -> hist := hist_upd dec64 k.
Definition hist_merge (dst src : hist) : hist :=
  fold_left (fun h kv => hist_add (fst kv) (snd kv) h) src dst.
(* bucket -= bucket % histInterval *)
Definition bucket (m interval : N) : N := (m - m mod interval)%N.
(* dst.Total -= repetitionsCount on uint64 *)
Definition sub64 (a b : N) : N := if (b <=? a)%N then (a - b)%N else (a + two64 - b mod two64)%N.

(* ------------------------------------------------------------------ QPR and MergeQPRs *)
Record qpr := mkQ {
  q_ids : list ID;
  q_total : N;
  q_hist : hist;
  q_agg : hist;     (* one count aggregation: key 0 = "_not_exists", key v+1 = group value v *)
  q_ne : N          (* AggregatableSamples.NotExists *)
}.
Definition empty_qpr : qpr := mkQ [] 0 [] [] 0.

Definition merge_qprs (dst : qpr) (qs : list qpr) (limit : nat) (interval : N) (o : order) : qpr :=
  let total := fold_left (fun t q => (t + q_total q)%N) qs (q_total dst) in
  let h := fold_left (fun h q => hist_merge h (q_hist q)) qs (q_hist dst) in
  let ag := fold_left (fun h q => hist_merge h (q_agg q)) qs (q_agg dst) in
  let ne := fold_left (fun t q => (t + q_ne q)%N) qs (q_ne dst) in
  let all := q_ids dst ++ concat (map q_ids qs) in
  let '(kept, removed) := remove_reps (sort_ids o all) in
  let h' := if (0 <? interval)%N
            then fold_left (fun h r => hist_dec (bucket (mid r) interval) h) removed h
            else h in
  let total' := if (total =? 0)%N then 0%N else sub64 total (N.of_nat (length removed)) in
  mkQ (firstn limit kept) total' h' ag ne.

(* ------------------------------------------------------------------ fractions *)
Record doc := mkDoc { d_id : ID; d_match : bool; d_grp : N }.
     (* d_grp: 0 = document has no group field, v+1 = value v *)
Definition frac := list doc.                   (* stored order is irrelevant *)

(* Info.From / Info.To: NewInfo starts with MaxUint64 / 0, Active.Append lowers / raises them *)
Definition f_from (f : frac) : N := fold_right (fun d m => N.min (mid (d_id d)) m) (two64 - 1)%N f.
Definition f_to (f : frac) : N := fold_right (fun d m => N.max (mid (d_id d)) m) 0%N f.

Record params := mkP {
  p_from : N; p_to : N; p_limit : nat; p_order : order;
  p_total : bool; p_hist : N; p_agg : bool
}.
Definition scan_all (p : params) : bool := p_total p || p_agg p || (0 <? p_hist p)%N.

(* Info.IsIntersecting without the optional distribution refinement *)
Definition intersecting (p : params) (f : frac) : bool :=
  match f with
  | [] => false
  | _ => negb ((p_to p <? f_from f)%N || (f_to f <? p_from p)%N)
  end.

Definition hit (p : params) (d : doc) : bool :=
  d_match d && (p_from p <=? mid (d_id d))%N && (mid (d_id d) <=? p_to p)%N.
Definition hits (p : params) (f : frac) : list doc := filter (hit p) f.
Definition hit_ids (p : params) (f : frac) : list ID := map d_id (hits p f).

(* what one fraction answers for limit lim (IndexSearch / iterateEvalTree) *)
Definition frac_search (p : params) (lim : nat) (f : frac) : qpr :=
  let hs := hits p f in
  let ids := firstn lim (fst (remove_reps (sort_ids (p_order p) (map d_id hs)))) in
  mkQ ids
      (if p_total p then N.of_nat (length hs) else 0%N)
      (if (0 <? p_hist p)%N
       then fold_left (fun h d => hist_add (bucket (mid (d_id d)) (p_hist p)) 1 h) hs []
       else [])
      (if p_agg p then fold_left (fun h d => hist_add (d_grp d) 1 h) hs [] else [])
      (if p_agg p then N.of_nat (length (filter (fun d => (d_grp d =? 0)%N) hs)) else 0%N).

(* ------------------------------------------------------------------ SearchDocs *)
(* sort key of a fraction and "k1 may stand before k2" *)
Definition fkey (o : order) (f : frac) : N := match o with Desc => f_to f | Asc => f_from f end.
Definition key_le (o : order) (k1 k2 : N) : bool :=
  match o with Desc => (k2 <=? k1)%N | Asc => (k1 <=? k2)%N end.

(* List.Sort; sort.Slice is not stable: the model sorts stably, the correspondence run feeds the
   order the implementation produced, and the theorems hold for EVERY order sorted by the key *)
Fixpoint finsert (o : order) (x : frac) (l : list frac) : list frac :=
  match l with
  | [] => [x]
  | y :: r => if key_le o (fkey o y) (fkey o x) then y :: finsert o x r else x :: y :: r
  end.
Definition prepare (p : params) (fs : list frac) : list frac :=
  fold_right (finsert (p_order p)) [] (filter (intersecting p) fs).

(* the MID of id i lies strictly beyond the next fraction's border *)
Definition beyond (o : order) (nf : frac) (i : ID) : bool :=
  match o with Desc => (f_to nf <? mid i)%N | Asc => (mid i <? f_from nf)%N end.
Fixpoint count_while {A} (f : A -> bool) (l : list A) : nat :=
  match l with
  | [] => 0
  | x :: r => if f x then S (count_while f r) else 0
  end.
(* calcEnsuredIDsCount: sort.Search over ids that are ordered = length of the prefix beyond the border *)
Definition ensured (o : order) (ids : list ID) (rem : list frac) : nat :=
  match rem with
  | [] => length ids
  | nf :: _ => count_while (beyond o nf) ids
  end.

Inductive res (A : Type) := Ok (a : A) | OutOfFuel.
Arguments Ok {A} a.
Arguments OutOfFuel {A}.

Fixpoint loop (fuel : nat) (p : params) (chunk : nat) (rem : list frac) (tot : qpr) (lim : nat)
  : res qpr :=
  match rem with
  | [] => Ok tot
  | _ :: _ =>
      if scan_all p || (0 <? lim)%nat then
        match fuel with
        | 0 => OutOfFuel
        | S fuel' =>
            let subs := map (frac_search p lim) (firstn chunk rem) in
            let rem' := skipn chunk rem in
            let tot' := merge_qprs tot subs (p_limit p) (p_hist p) (p_order p) in
            loop fuel' p chunk rem' tot' (p_limit p - ensured (p_order p) (q_ids tot') rem')
        end
      else Ok tot
  end.

(* fpi = SearcherCfg.FractionsPerIteration (0 = all at once); prepared = result of prepareFracs *)
Definition search_docs (p : params) (fpi : nat) (prepared : list frac) : res qpr :=
  let chunk := if (fpi =? 0)%nat then length prepared else fpi in
  loop (length prepared) p chunk prepared empty_qpr (p_limit p).

(* ------------------------------------------------------------------ proxy *)
(* Ingestor.paginateIDs *)
Definition paginate (ids : list ID) (offset size : nat) : list ID * nat :=
  let ids1 := if (offset <? length ids)%nat then skipn offset ids else [] in
  if (size <? length ids1)%nat then (firstn size ids1, size) else (ids1, length ids1).

Definition with_limit (p : params) (l : nat) : params :=
  mkP (p_from p) (p_to p) l (p_order p) (p_total p) (p_hist p) (p_agg p).

Fixpoint all_ok {A} (l : list (res A)) : res (list A) :=
  match l with
  | [] => Ok []
  | Ok a :: r => match all_ok r with Ok r' => Ok (a :: r') | OutOfFuel => OutOfFuel end
  | OutOfFuel :: _ => OutOfFuel
  end.

(* answers = for every shard the prepared fraction list of the replica that answered; the store
   receives limit offset+size (storeapi/grpc_search.go), the proxy merges with the same limit *)
Definition proxy_search (p : params) (offset size fpi : nat) (answers : list (list frac)) : res qpr :=
  let pl := with_limit p (offset + size) in
  match all_ok (map (search_docs pl fpi) answers) with
  | OutOfFuel => OutOfFuel
  | Ok qs =>
      let m := merge_qprs empty_qpr qs (offset + size) (p_hist p) (p_order p) in
      Ok (mkQ (fst (paginate (q_ids m) offset size)) (q_total m) (q_hist m) (q_agg m) (q_ne m))
  end.

(* ------------------------------------------------------------------ specification side *)
(* canonical ordered duplicate-free list of a multiset of IDs *)
Fixpoint ins (o : order) (x : ID) (s : list ID) : list ID :=
  match s with
  | [] => [x]
  | y :: r => if before o x y then x :: s else if id_eqb x y then s else y :: ins o x r
  end.
Definition norm_onto (o : order) (l s : list ID) : list ID := fold_left (fun s x => ins o x s) l s.
Definition norm (o : order) (l : list ID) : list ID := norm_onto o l [].

(* all hit IDs of a layout *)
Definition all_hit_ids (p : params) (fs : list frac) : list ID := concat (map (hit_ids p) fs).
(* the single ordered list every page is cut from *)
Definition global_order (p : params) (fs : list frac) : list ID := norm (p_order p) (all_hit_ids p fs).
Definition spec_ids (p : params) (fs : list frac) : list ID := firstn (p_limit p) (global_order p fs).

(* bucket counts of a list of IDs (what a histogram that counts exactly these IDs looks like) *)
Definition ids_hist (interval : N) (ids : list ID) : hist :=
  if (0 <? interval)%N
  then fold_left (fun h i => hist_add (bucket (mid i) interval) 1 h) ids []
  else [].
