(* C05 — every listed ID is fetched from the replica that answered it: proofs. *)
From Coq Require Import List Bool Arith NArith Lia.
From C05 Require Import Model ModelDocs.
Import ListNotations.

Lemma search_shard_answer : forall hosts idx i h s,
  search_shard hosts idx i = Some (h, s) -> In h hosts /\ h_up h = true /\ s = h_src h.
Proof.
  unfold search_shard. induction idx as [|j rest IH]; simpl; intros i h s H; [discriminate|].
  destruct (nth_error hosts j) as [hj|] eqn:E; [|discriminate].
  destruct (h_up hj) eqn:U.
  - injection H as <- <-. split; [eapply nth_error_In; eauto|]. auto.
  - eapply IH; eauto.
Qed.

Lemma find_unique : forall {A} (key : A -> N) (l : list A) (a : A),
  NoDup (map key l) -> In a l -> find (fun x => (key x =? key a)%N) l = Some a.
Proof.
  induction l as [|x l IH]; simpl; intros a ND I; [contradiction|].
  inversion ND as [|? ? NI ND']; subst.
  destruct (N.eqb_spec (key x) (key a)) as [E|E].
  - destruct I as [->|I]; auto. exfalso. apply NI. rewrite E. apply in_map, I.
  - destruct I as [->|I]; [congruence|]. apply IH; auto.
Qed.

Lemma find_first : forall {A} (f : A -> bool) (l : list A) (a : A),
  In a l -> f a = true -> exists b, find f l = Some b /\ In b l /\ f b = true.
Proof.
  induction l as [|x l IH]; simpl; intros a I F; [contradiction|].
  destruct (f x) eqn:E.
  - exists x. auto.
  - destruct I as [->|I]; [congruence|]. destruct (IH a I F) as (b & ? & ? & ?). exists b. auto.
Qed.

Lemma id_eqb_eq : forall a b, id_eqb a b = true <-> a = b.
Proof.
  intros [a1 a2] [b1 b2]. unfold id_eqb. simpl. rewrite andb_true_iff, !N.eqb_eq.
  split; [intros [-> ->]; auto | intros H; injection H; auto].
Qed.

Definition answered (p : params) (shards : list (list host)) (idxs : list (list nat)) (t : ids) : Prop :=
  exists hosts idx h s, In (hosts, idx) (combine shards idxs)
    /\ search_shard hosts idx 0 = Some (h, s)
    /\ is_src t = s /\ In (is_id t, is_hint t) (host_hits p h).

Theorem docs_fetched : forall p (shards : list (list host)) (idxs : list (list nat)) (page : list ids),
  NoDup (map h_src (concat shards)) ->
  Forall (fun h => NoDup (map nf_name (h_fracs h))) (concat shards) ->
  Forall (answered p shards idxs) page ->
  Forall (fun t => exists h f d,
            In h (concat shards) /\ h_up h = true /\ h_src h = is_src t
            /\ In f (h_fracs h) /\ nf_name f = is_hint t
            /\ In d (nf_docs f) /\ d_id (s_doc d) = is_id t
            /\ fetch_one (concat shards) t = Some (s_body d)) page.
Proof.
  intros p shards idxs page NS NF A. eapply Forall_impl; [|exact A]. clear A.
  intros [i src hint] (hosts & idx & h & s & Ic & S & Es & Ih). simpl in *.
  apply search_shard_answer in S. destruct S as (Hin & Up & ->).
  assert (HA : In h (concat shards)).
  { apply in_combine_l in Ic. apply in_concat. exists hosts. auto. }
  unfold host_hits in Ih. apply in_concat in Ih. destruct Ih as (l & Il & Ix).
  apply in_map_iff in Il. destruct Il as (f & <- & If).
  unfold frac_hits in Ix. apply in_map_iff in Ix. destruct Ix as (d & Ed & Id).
  apply filter_In in Id. destruct Id as [Id Hd]. injection Ed as Ei En.
  rewrite Forall_forall in NF. specialize (NF h HA).
  destruct (find_first (fun d' => id_eqb (d_id (s_doc d')) i) (nf_docs f) d Id) as (d' & F3 & I3 & E3).
  { apply id_eqb_eq. auto. }
  apply id_eqb_eq in E3.
  exists h, f, d'. repeat split; auto.
  unfold fetch_one. simpl. subst src hint.
  rewrite (find_unique h_src (concat shards) h NS HA).
  rewrite (find_unique nf_name (h_fracs h) f NF If).
  rewrite F3. reflexivity.
Qed.
