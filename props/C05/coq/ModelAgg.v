(* C05 — executable model of the FIELD aggregations' mergeable state (sum/min/max/avg ... group by)
   on the split-independent search path. NO proofs in this file.

   Mirrors:
     seq/qpr.go   SamplesContainer (NewSamplesContainers, InsertNTimes, Merge) without the sample
                  reservoir, AggregatableSamples.Merge, the aggregation part of MergeQPRs
     frac/processor/aggregator.go  TwoSourceAggregator (Next + Aggregate): what ONE fraction answers for
                  an aggregation with Field AND GroupBy
     fracmanager/searcher.go  SearchDocs: the partial results of every chunk of FractionsPerIteration
                  fractions are merged into the accumulated result, chunk after chunk
     proxy/search/ingestor.go Search: one partial result per shard (in the order the shards answer),
                  merged into an empty result

   Abstractions (tied to the code by the correspondence run, classes aggfield / proxy-aggfield):
     * field values are exact integers (the driver only stores integer values of small magnitude, for
       which the float64 arithmetic of the code is exact); Min/Max of an empty container are the
       float64 images of math.MaxInt64 / math.MinInt64 (2^63 / -2^63);
     * TwoSourceAggregator counts documents per (group, value) source pair and inserts every value
       `count` times when the fraction is done; the model inserts document by document (the same
       state for exact arithmetic);
     * no time series (AggBin.MID = 0), the sample reservoir (quantiles) stays out. *)
From Coq Require Import List Bool Arith NArith ZArith.
From C05 Require Import Model.
Import ListNotations.

(* ------------------------------------------------------------------ SamplesContainer *)
Record sc := mkSC { sc_total : N; sc_ne : N; sc_sum : Z; sc_min : Z; sc_max : Z }.

Definition sent_min : Z := 9223372036854775808%Z.     (* float64(math.MaxInt64) *)
Definition sent_max : Z := (-9223372036854775808)%Z.  (* float64(math.MinInt64) *)
(* NewSamplesContainers *)
Definition sc_new : sc := mkSC 0 0 0 sent_min sent_max.

(* InsertNTimes(num, cnt) *)
Definition sc_insert_n (num : Z) (cnt : N) (h : sc) : sc :=
  mkSC (sc_total h + cnt)%N (sc_ne h) (sc_sum h + num * Z.of_N cnt)%Z
       (if (sc_total h =? 0)%N then num else Z.min (sc_min h) num)
       (if (sc_total h =? 0)%N then num else Z.max (sc_max h) num).

(* SamplesContainer.Merge: h.Merge(x) *)
Definition sc_merge (h x : sc) : sc :=
  let ne := (sc_ne h + sc_ne x)%N in
  if (sc_total x =? 0)%N then mkSC (sc_total h) ne (sc_sum h) (sc_min h) (sc_max h)
  else mkSC (sc_total h + sc_total x)%N ne (sc_sum h + sc_sum x)%Z
            (if (sc_total h =? 0)%N then sc_min x else Z.min (sc_min h) (sc_min x))
            (if (sc_total h =? 0)%N then sc_max x else Z.max (sc_max h) (sc_max x)).

(* NOT the code: the "take the source over when nothing is collected here yet" variant
   (if hist.Total == 0 { h.NotExists += hist.NotExists; return }; if h.Total == 0 { *h = *hist; return }; ...).
   It forgets the NotExists the destination accumulated from earlier empty partial containers:
   refuted by C05_field_aggs_takeover_refuted. *)
Definition sc_merge_takeover (h x : sc) : sc :=
  if (sc_total x =? 0)%N then mkSC (sc_total h) (sc_ne h + sc_ne x)%N (sc_sum h) (sc_min h) (sc_max h)
  else if (sc_total h =? 0)%N then x
  else mkSC (sc_total h + sc_total x)%N (sc_ne h + sc_ne x)%N (sc_sum h + sc_sum x)%Z
            (Z.min (sc_min h) (sc_min x)) (Z.max (sc_max h) (sc_max x)).

(* ------------------------------------------------------------------ AggregatableSamples *)
Definition bins := list (N * sc).     (* sorted by key, ascending: canonical form of map[AggBin]*SamplesContainer;
                                         key = group value v+1 (as Model.d_grp) *)
Record fagg := mkFA { fa_bins : bins; fa_ne : N }.
Definition fagg_empty : fagg := mkFA [] 0.

(* m[k] = f(m[k]) where a missing bin is created by NewSamplesContainers first *)
Fixpoint bins_upd (f : sc -> sc) (k : N) (m : bins) : bins :=
  match m with
  | [] => [(k, f sc_new)]
  | (k', v) :: r =>
      if (k <? k')%N then (k, f sc_new) :: m
      else if (k =? k')%N then (k', f v) :: r
      else (k', v) :: bins_upd f k r
  end.

(* AggregatableSamples.Merge with the container merge mg *)
Definition fagg_merge_with (mg : sc -> sc -> sc) (q a : fagg) : fagg :=
  mkFA (fold_left (fun m kv => bins_upd (fun h => mg h (snd kv)) (fst kv) m) (fa_bins a) (fa_bins q))
       (fa_ne q + fa_ne a)%N.
Definition fagg_merge : fagg -> fagg -> fagg := fagg_merge_with sc_merge.

(* ------------------------------------------------------------------ one fraction *)
(* a document with the value of the aggregated field (None = the document has no such field);
   the group is d_grp of the underlying document (0 = no group field) *)
Record adoc := mkA { a_doc : doc; a_val : option Z }.
Definition afrac := list adoc.
Definition ahit (p : params) (d : adoc) : bool := hit p (a_doc d).
Definition ahits (p : params) (f : afrac) : list adoc := filter (ahit p) f.

Definition sc_add_ne (h : sc) : sc := mkSC (sc_total h) (sc_ne h + 1)%N (sc_sum h) (sc_min h) (sc_max h).

(* TwoSourceAggregator.Next for one hit, with Aggregate folded in *)
Definition agg_step (st : fagg) (d : adoc) : fagg :=
  let g := d_grp (a_doc d) in
  match a_val d with
  | None => if (g =? 0)%N then st                                   (* neither group nor field *)
            else mkFA (bins_upd sc_add_ne g (fa_bins st)) (fa_ne st)  (* groupByNotExists[g]++ *)
  | Some v => if (g =? 0)%N then mkFA (fa_bins st) (fa_ne st + 1)%N  (* groupNotExists++ *)
              else mkFA (bins_upd (sc_insert_n v 1) g (fa_bins st)) (fa_ne st)
  end.
Definition fagg_of_hits (hs : list adoc) : fagg := fold_left agg_step hs fagg_empty.
Definition frac_fagg (p : params) (f : afrac) : fagg := fagg_of_hits (ahits p f).

(* ------------------------------------------------------------------ SearchDocs, aggregation part *)
(* an aggregation makes the request a scan-all request: the loop visits every prepared fraction,
   chunk by chunk; MergeQPRs merges the chunk's partial aggregations one after the other into the total *)
Fixpoint aloop_with (mg : sc -> sc -> sc) (fuel : nat) (p : params) (chunk : nat) (rem : list afrac) (tot : fagg)
  : res fagg :=
  match rem with
  | [] => Ok tot
  | _ :: _ =>
      match fuel with
      | 0 => OutOfFuel
      | S fuel' =>
          let subs := map (frac_fagg p) (firstn chunk rem) in
          aloop_with mg fuel' p chunk (skipn chunk rem) (fold_left (fagg_merge_with mg) subs tot)
      end
  end.
Definition search_fagg_with (mg : sc -> sc -> sc) (p : params) (fpi : nat) (prepared : list afrac) : res fagg :=
  let chunk := if (fpi =? 0)%nat then length prepared else fpi in
  aloop_with mg (length prepared) p chunk prepared fagg_empty.
Definition search_fagg : params -> nat -> list afrac -> res fagg := search_fagg_with sc_merge.

(* ------------------------------------------------------------------ proxy, aggregation part *)
(* answers = for every shard, IN THE ORDER THE SHARDS ANSWERED, the prepared fraction list of the replica
   that answered; the containers travel through protobuf field by field *)
Definition proxy_fagg_with (mg : sc -> sc -> sc) (p : params) (fpi : nat) (answers : list (list afrac)) : res fagg :=
  match all_ok (map (search_fagg_with mg p fpi) answers) with
  | OutOfFuel => OutOfFuel
  | Ok qs => Ok (fold_left (fagg_merge_with mg) qs fagg_empty)
  end.
Definition proxy_fagg : params -> nat -> list (list afrac) -> res fagg := proxy_fagg_with sc_merge.

(* ------------------------------------------------------------------ specification side *)
(* direct computation, bin by bin, from the documents (no merge, no map updates) *)
Definition grp_docs (k : N) (hs : list adoc) : list adoc := filter (fun d => (d_grp (a_doc d) =? k)%N) hs.
Definition vals (hs : list adoc) : list Z :=
  concat (map (fun d => match a_val d with Some v => [v] | None => [] end) hs).
Definition zsum (l : list Z) : Z := fold_right Z.add 0%Z l.
Definition zmin (l : list Z) : Z := match l with [] => sent_min | x :: r => fold_right Z.min x r end.
Definition zmax (l : list Z) : Z := match l with [] => sent_max | x :: r => fold_right Z.max x r end.
(* the state of the bin of group k: None = the bin does not exist *)
Definition direct_bin (k : N) (hs : list adoc) : option sc :=
  if (k =? 0)%N then None else
  match grp_docs k hs with
  | [] => None
  | ds => let vs := vals ds in
          Some (mkSC (N.of_nat (length vs)) (N.of_nat (length ds - length vs)) (zsum vs) (zmin vs) (zmax vs))
  end.
Definition direct_ne (hs : list adoc) : N :=
  N.of_nat (length (filter (fun d => (d_grp (a_doc d) =? 0)%N && match a_val d with Some _ => true | None => false end) hs)).
Fixpoint bins_find (k : N) (m : bins) : option sc :=
  match m with
  | [] => None
  | (k', v) :: r => if (k =? k')%N then Some v else bins_find k r
  end.
