(* C05 — the SearchDocs loop: whatever the layout, the chunk size and the order of equal-border
   fractions, the IDs are the top `limit` of the canonical list of all hits. *)
From Coq Require Import List Bool Arith NArith Lia Sorting.Sorted Permutation.
From C05 Require Import Model ProofsOrder ProofsNorm.
Import ListNotations.

(* ------------------------------------------------------------------ small list facts *)
Lemma count_while_le : forall {A} (g : A -> bool) l, count_while g l <= length l.
Proof. induction l; simpl; [lia|]. destruct (g a); lia. Qed.

Lemma count_while_prefix : forall {A} (g : A -> bool) l z,
  In z (firstn (count_while g l) l) -> g z = true.
Proof.
  induction l as [|x l IH]; intros z H; simpl in H; [contradiction|].
  destruct (g x) eqn:G; simpl in H; [|contradiction].
  destruct H as [<-|H]; auto.
Qed.

Lemma SS_app_inv : forall o a b, SS o (a ++ b) -> forall x y, In x a -> In y b -> before o x y = true.
Proof.
  induction a as [|z a IH]; intros b H x y Ix Iy; [contradiction|].
  simpl in H. apply SS_cons_inv in H. destruct H as [H F].
  destruct Ix as [<-|Ix].
  - rewrite Forall_forall in F. apply F. apply in_app_iff. auto.
  - eapply IH; eauto.
Qed.

(* ------------------------------------------------------------------ what the pieces return *)
Lemma merge_ids : forall dst qs L H o,
  q_ids (merge_qprs dst qs L H o) = topk o L (q_ids dst ++ concat (map q_ids qs)).
Proof.
  intros. unfold merge_qprs.
  destruct (remove_reps (sort_ids o (q_ids dst ++ concat (map q_ids qs)))) as [kept removed] eqn:R.
  simpl. unfold topk. rewrite <- remove_reps_norm, R. reflexivity.
Qed.

Lemma frac_search_ids : forall p lim f,
  q_ids (frac_search p lim f) = topk (p_order p) lim (hit_ids p f).
Proof. intros. unfold frac_search, topk, hit_ids. simpl. rewrite remove_reps_norm. reflexivity. Qed.

Lemma all_hit_ids_app : forall p a b, all_hit_ids p (a ++ b) = all_hit_ids p a ++ all_hit_ids p b.
Proof. intros. unfold all_hit_ids. rewrite map_app, concat_app. reflexivity. Qed.

Lemma in_all_hit_ids : forall p fs x,
  In x (all_hit_ids p fs) <-> exists f, In f fs /\ In x (hit_ids p f).
Proof.
  intros. unfold all_hit_ids. rewrite in_concat. split.
  - intros [l [Il Ix]]. apply in_map_iff in Il. destruct Il as [f [<- If]]. eauto.
  - intros [f [If Ix]]. exists (hit_ids p f). split; auto. apply in_map; auto.
Qed.

(* ------------------------------------------------------------------ borders *)
Lemma f_to_ge : forall f d, In d f -> (mid (d_id d) <= f_to f)%N.
Proof.
  induction f as [|x f IH]; intros d H; [contradiction|]. simpl.
  destruct H as [->|H]; [lia|]. specialize (IH d H). lia.
Qed.

Lemma f_from_le : forall f d, In d f -> (f_from f <= mid (d_id d))%N.
Proof.
  induction f as [|x f IH]; intros d H; [contradiction|]. simpl.
  destruct H as [->|H]; [lia|]. specialize (IH d H). lia.
Qed.

Lemma hit_ids_in : forall p f x, In x (hit_ids p f) -> exists d, In d f /\ d_id d = x.
Proof.
  intros p f x H. unfold hit_ids, hits in H. apply in_map_iff in H. destruct H as [d [E I]].
  apply filter_In in I. destruct I. eauto.
Qed.

Definition KS (o : order) (l : list frac) : Prop :=
  StronglySorted (fun a b => key_le o (fkey o a) (fkey o b) = true) l.

Lemma key_le_refl : forall o k, key_le o k k = true.
Proof. intros. destruct o; simpl; apply N.leb_le; lia. Qed.

(* lem:ensured_final — an ID beyond the next fraction's border stands strictly before every
   document of every remaining fraction *)
Lemma beyond_before : forall o nf g z x p,
  beyond o nf z = true -> key_le o (fkey o nf) (fkey o g) = true -> In x (hit_ids p g) ->
  before o z x = true.
Proof.
  intros o nf g z x p B K I. apply hit_ids_in in I. destruct I as [d [Id <-]].
  pose proof (f_to_ge g d Id). pose proof (f_from_le g d Id).
  destruct o; simpl in *; apply id_ltb_spec; unfold mid in *.
  - apply N.ltb_lt in B. apply N.leb_le in K. lia.
  - apply N.ltb_lt in B. apply N.leb_le in K. lia.
Qed.

Lemma ensured_final : forall o p f r S z g x,
  KS o (f :: r) -> In z (firstn (count_while (beyond o f) S) S) -> In g (f :: r) ->
  In x (hit_ids p g) -> before o z x = true.
Proof.
  intros o p f r S z g x K Iz Ig Ix. apply count_while_prefix in Iz.
  eapply beyond_before; eauto.
  destruct Ig as [<-|Ig]; [apply key_le_refl|].
  inversion K as [|? ? _ F]; subst. rewrite Forall_forall in F. auto.
Qed.

Lemma KS_skipn : forall o c l, KS o l -> KS o (skipn c l).
Proof.
  induction c; intros l H; simpl; auto. destruct l; auto. apply IHc. inversion H; auto.
Qed.

(* ------------------------------------------------------------------ one iteration on ID lists *)
Lemma step_ids : forall o L e S Bs,
  SS o S -> length S <= L -> e <= length S ->
  (forall z b x, In z (firstn e S) -> In b Bs -> In x b -> before o z x = true) ->
  topk o L (S ++ concat (map (topk o (L - e)) Bs)) = topk o L (S ++ concat Bs).
Proof.
  intros o L e S Bs HS HL He HB.
  rewrite <- (firstn_skipn e S) in HS |- *.
  set (E := firstn e S) in *. set (S2 := skipn e S) in *.
  assert (LE : length E = e) by (apply firstn_length_le; auto).
  assert (SE : SS o E) by (apply SS_firstn; rewrite <- (firstn_skipn e S); fold E; fold S2; exact HS).
  assert (A1 : forall w, (forall x y, In x E -> In y w -> before o x y = true) ->
                         topk o L (E ++ w) = E ++ topk o (L - e) w).
  { intros w Hw. rewrite topk_split; auto; try lia. rewrite LE. reflexivity. }
  rewrite <- !app_assoc.
  rewrite (A1 (S2 ++ concat (map (topk o (L - e)) Bs))), (A1 (S2 ++ concat Bs)).
  - f_equal. apply topk_union.
  - intros x y Ix Iy. apply in_app_iff in Iy. destruct Iy as [Iy|Iy].
    + eapply SS_app_inv; eauto.
    + apply in_concat in Iy. destruct Iy as [b [Ib Iy]]. eapply HB; eauto.
  - intros x y Ix Iy. apply in_app_iff in Iy. destruct Iy as [Iy|Iy].
    + eapply SS_app_inv; eauto.
    + apply in_concat in Iy. destruct Iy as [b [Ib Iy]]. apply in_map_iff in Ib.
      destruct Ib as [b0 [<- Ib0]]. eapply HB; eauto. eapply topk_in; eauto.
Qed.

(* ------------------------------------------------------------------ the loop *)
Lemma topk_length : forall o k l, length (topk o k l) <= k.
Proof. intros. unfold topk. rewrite firstn_length. lia. Qed.

Lemma loop_ids : forall fuel p c rem tot lim done,
  1 <= c -> length rem <= fuel -> KS (p_order p) rem ->
  q_ids tot = topk (p_order p) (p_limit p) (all_hit_ids p done) ->
  lim = p_limit p - ensured (p_order p) (q_ids tot) rem ->
  exists r, loop fuel p c rem tot lim = Ok r
            /\ q_ids r = topk (p_order p) (p_limit p) (all_hit_ids p (done ++ rem)).
Proof.
  induction fuel as [|fuel IH]; intros p c rem tot lim done Hc Hf HK HI HL.
  - destruct rem; [|simpl in Hf; lia]. simpl. exists tot. rewrite app_nil_r. auto.
  - destruct rem as [|f r].
    { simpl. exists tot. rewrite app_nil_r. auto. }
    assert (HS : SS (p_order p) (q_ids tot)) by (rewrite HI; apply topk_SS).
    assert (HSL : length (q_ids tot) <= p_limit p) by (rewrite HI; apply topk_length).
    set (o := p_order p) in *. set (L := p_limit p) in *.
    set (S := q_ids tot) in *.
    simpl in HL. set (e := count_while (beyond o f) S) in *.
    assert (He : e <= length S) by apply count_while_le.
    cbn [loop].
    destruct (scan_all p || (0 <? lim)%nat) eqn:Cnd.
    + (* one more iteration *)
      set (C := firstn c (f :: r)). set (rem' := skipn c (f :: r)).
      set (tot' := merge_qprs tot (map (frac_search p lim) C) (p_limit p) (p_hist p) (p_order p)).
      destruct (IH p c rem' tot' (p_limit p - ensured (p_order p) (q_ids tot') rem') (done ++ C))
        as [res [Hr Hi]]; auto.
      * unfold rem'. rewrite skipn_length. simpl length in Hf |- *. lia.
      * apply KS_skipn; auto.
      * unfold tot'. rewrite merge_ids. fold o L S.
        rewrite map_map.
        rewrite (map_ext _ (fun g => topk o lim (hit_ids p g))) by (intros; apply frac_search_ids).
        rewrite <- (map_map (hit_ids p) (topk o lim)).
        rewrite HL. rewrite step_ids; auto.
        -- fold (all_hit_ids p C). rewrite HI. rewrite topk_app_l, all_hit_ids_app. reflexivity.
        -- intros z b x Iz Ib Ix. apply in_map_iff in Ib. destruct Ib as [g [<- Ig]].
           eapply (ensured_final o p f r S z g x); eauto. eapply in_firstn; eauto.
      * exists res. split; auto. rewrite Hi. rewrite <- app_assoc. unfold C, rem'.
        rewrite firstn_skipn. reflexivity.
    + (* early exit: every listed ID is final *)
      exists tot. split; auto. fold S.
      apply orb_false_iff in Cnd. destruct Cnd as [_ Cnd]. apply Nat.ltb_ge in Cnd.
      assert (e = length S) by lia. assert (length S = L) by lia.
      rewrite all_hit_ids_app, <- topk_app_l. fold o L. rewrite <- HI. fold S.
      rewrite topk_split; auto; try lia.
      * replace (L - length S) with 0 by lia. unfold topk. simpl. rewrite app_nil_r. reflexivity.
      * intros x y Ix Iy. apply in_all_hit_ids in Iy. destruct Iy as [g [Ig Iy]].
        eapply (ensured_final o p f r S x g y); eauto. fold e. rewrite H. rewrite firstn_all. auto.
Qed.

Theorem search_docs_ids : forall p fpi prepared,
  KS (p_order p) prepared ->
  exists r, search_docs p fpi prepared = Ok r
            /\ q_ids r = topk (p_order p) (p_limit p) (all_hit_ids p prepared).
Proof.
  intros p fpi prepared K. unfold search_docs.
  destruct prepared as [|f r] eqn:E.
  - simpl. exists empty_qpr. split; auto. unfold topk, norm. simpl. destruct (p_limit p); reflexivity.
  - rewrite <- E in *.
    apply (loop_ids (length prepared) p _ prepared empty_qpr (p_limit p) []); auto.
    + destruct (fpi =? 0) eqn:Z; [subst; simpl; lia | apply Nat.eqb_neq in Z; lia].
    + simpl. unfold topk, norm. simpl. destruct (p_limit p); reflexivity.
    + subst prepared. simpl. lia.
Qed.

(* ------------------------------------------------------------------ prepareFracs *)
Lemma finsert_perm : forall o x l, Permutation (finsert o x l) (x :: l).
Proof.
  induction l as [|z l IH]; simpl; auto.
  destruct (key_le o (fkey o z) (fkey o x)); auto.
  eapply perm_trans; [apply perm_skip, IH | apply perm_swap].
Qed.

Lemma key_le_total : forall o a b, key_le o a b = false -> key_le o b a = true.
Proof. intros o a b. destruct o; simpl; rewrite N.leb_gt, N.leb_le; lia. Qed.

Lemma key_le_trans : forall o a b c, key_le o a b = true -> key_le o b c = true -> key_le o a c = true.
Proof. intros o a b c. destruct o; simpl; rewrite !N.leb_le; lia. Qed.

Lemma finsert_KS : forall o x l, KS o l -> KS o (finsert o x l).
Proof.
  induction l as [|z l IH]; intros H; simpl.
  - constructor; constructor.
  - inversion H as [|? ? Hl Fl]; subst.
    destruct (key_le o (fkey o z) (fkey o x)) eqn:B.
    + constructor; [apply IH; auto|].
      apply Forall_forall. intros y I.
      apply (Permutation_in _ (finsert_perm o x l)) in I. destruct I as [<-|I]; auto.
      rewrite Forall_forall in Fl. auto.
    + apply key_le_total in B. constructor; auto. constructor; auto.
      rewrite Forall_forall in *. intros y I. eapply key_le_trans; eauto.
Qed.

Lemma prepare_perm : forall p fs, Permutation (prepare p fs) (filter (intersecting p) fs).
Proof.
  intros. unfold prepare. induction (filter (intersecting p) fs) as [|x l IH]; simpl; auto.
  eapply perm_trans; [apply finsert_perm | apply perm_skip, IH].
Qed.

Lemma prepare_KS : forall p fs, KS (p_order p) (prepare p fs).
Proof.
  intros. unfold prepare. induction (filter (intersecting p) fs); simpl; [constructor | apply finsert_KS; auto].
Qed.

(* a fraction that FilterInRange drops has no hit in the range *)
Lemma not_intersecting_no_hit : forall p f, intersecting p f = false -> hit_ids p f = [].
Proof.
  intros p f H. unfold hit_ids, hits.
  assert (forall d, In d f -> hit p d = false) as N.
  { intros d I. destruct f as [|d0 f']; [contradiction|].
    unfold intersecting in H. apply negb_false_iff, orb_true_iff in H.
    pose proof (f_to_ge _ d I). pose proof (f_from_le _ d I).
    unfold hit. destruct H as [H|H]; apply N.ltb_lt in H.
    - assert ((mid (d_id d) <=? p_to p)%N = false) as -> by (apply N.leb_gt; lia).
      rewrite andb_false_r; auto.
    - assert ((p_from p <=? mid (d_id d))%N = false) as -> by (apply N.leb_gt; lia).
      rewrite andb_false_r; auto. }
  clear H. induction f as [|d f IH]; simpl; auto.
  rewrite (N d) by (left; auto). apply IH.
  intros; apply N; right; auto.
Qed.

(* hits of the searched fractions = hits of the whole layout *)
Lemma prepared_hits : forall p fs keep prepared,
  (forall f, In f fs -> keep f = false -> hit_ids p f = []) ->
  Permutation prepared (filter keep fs) ->
  forall x, In x (all_hit_ids p prepared) <-> In x (all_hit_ids p fs).
Proof.
  intros p fs keep prepared HK HP x. rewrite !in_all_hit_ids. split.
  - intros [f [If Ix]]. exists f. split; auto.
    apply (Permutation_in _ HP) in If. apply filter_In in If. tauto.
  - intros [f [If Ix]]. exists f. split; auto.
    apply (Permutation_in _ (Permutation_sym HP)). apply filter_In. split; auto.
    destruct (keep f) eqn:E; auto. rewrite (HK f If E) in Ix. contradiction.
Qed.
