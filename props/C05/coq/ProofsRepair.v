(* C05 — the duplicate repair of MergeQPRs: parts whose Total / histogram count exactly their own
   IDs merge into a Total / histogram that count every distinct ID once. *)
From Coq Require Import List Bool Arith NArith Lia Sorting.Sorted Permutation.
From C05 Require Import Model ProofsOrder ProofsNorm ProofsSearch Proofs ProofsProxy ProofsSums.
Import ListNotations.

(* ------------------------------------------------------------------ an update that reaches an existing entry *)
Fixpoint hist_hit (k : N) (h : hist) : bool :=
  match h with
  | [] => false
  | (k', _) :: r => if (k <? k')%N then false else if (k =? k')%N then true else hist_hit k r
  end.

Lemma hist_hit_upd_same : forall f k h, hist_hit k (hist_upd f k h) = true.
Proof.
  intros f k. induction h as [|[k0 v] r IH]; simpl.
  - cmpN; try lia; reflexivity.
  - cmpN; simpl; cmpN; try lia; auto.
Qed.

Lemma hist_hit_upd_pres : forall f k k' h, hist_hit k h = true -> hist_hit k (hist_upd f k' h) = true.
Proof.
  intros f k k'. induction h as [|[k0 v] r IH]; simpl; intros H; [discriminate|].
  revert H. cmpN; simpl; cmpN; try lia; try discriminate; auto.
Qed.

Lemma dec64_succ : forall v, dec64 (v + 1) = v.
Proof. intros. unfold dec64. destruct (N.eqb_spec (v + 1) 0); lia. Qed.

Lemma hist_dec_add : forall k h, hist_hit k h = true -> hist_dec k (hist_add k 1 h) = h.
Proof.
  unfold hist_dec, hist_add. intros k. induction h as [|[k0 v] r IH]; simpl; intros H; [discriminate|].
  revert H. cmpN; simpl; cmpN; try lia; try discriminate; intros Hh.
  - rewrite dec64_succ. reflexivity.
  - f_equal. auto.
Qed.

Section CountingMore.
  Context {A : Type} (key : A -> N).

  Lemma hist_of_hit_pres : forall l k h, hist_hit k h = true -> hist_hit k (hist_of key l h) = true.
  Proof.
    induction l as [|x l IH]; intros k h H; simpl; auto.
    apply IH. apply hist_hit_upd_pres; auto.
  Qed.

  Lemma hist_of_hit : forall l x h, In x l -> hist_hit (key x) (hist_of key l h) = true.
  Proof.
    induction l as [|y l IH]; intros x h I; [contradiction|]. simpl.
    destruct I as [->|I]; auto. apply hist_of_hit_pres. apply hist_hit_upd_same.
  Qed.

  Lemma hist_of_snoc : forall l x h, hist_of key (l ++ [x]) h = hist_add (key x) 1 (hist_of key l h).
  Proof. intros. rewrite hist_of_app. reflexivity. Qed.

  (* counting rm on top of K and then repairing every element of rm gives K back, provided every
     repaired bucket already exists in K *)
  Lemma repair_cancels : forall rm K,
    (forall x, In x rm -> hist_hit (key x) K = true) ->
    fold_left (fun h x => hist_dec (key x) h) rm (hist_of key rm K) = K.
  Proof.
    induction rm as [|x rm IH]; intros K H; [reflexivity|].
    change (fold_left (fun h x0 => hist_dec (key x0) h) (x :: rm) (hist_of key (x :: rm) K))
      with (fold_left (fun h x0 => hist_dec (key x0) h) rm (hist_dec (key x) (hist_of key (x :: rm) K))).
    rewrite (hist_of_perm key (x :: rm) (rm ++ [x]) K) by (apply Permutation_cons_append).
    rewrite hist_of_snoc, hist_dec_add.
    - apply IH. intros; apply H; simpl; auto.
    - apply hist_of_hit_pres. apply H; simpl; auto.
  Qed.
End CountingMore.

(* ------------------------------------------------------------------ removeRepetitions as a partition *)
Lemma dedup_adj_parts : forall l last k rm, dedup_adj last l = (k, rm) ->
  Permutation l (k ++ rm) /\ (forall x, In x rm -> In x (last :: k)).
Proof.
  induction l as [|x l IH]; intros last k rm H; simpl in H.
  - inversion H; subst. split; [simpl; constructor | intros y []].
  - destruct (id_eqb last x) eqn:E.
    + apply id_eqb_eq in E. subst x.
      destruct (dedup_adj last l) as [k' rm'] eqn:D. inversion H; subst.
      destruct (IH last k rm' D) as [P I]. split.
      * apply Permutation_cons_app. auto.
      * intros y [<-|Iy]; [left; auto | auto].
    + destruct (dedup_adj x l) as [k' rm'] eqn:D. inversion H; subst.
      destruct (IH x k' rm D) as [P I]. split.
      * simpl. constructor. auto.
      * intros y Iy. right. auto.
Qed.

Lemma remove_reps_parts : forall l k rm, remove_reps l = (k, rm) ->
  Permutation l (k ++ rm) /\ (forall x, In x rm -> In x k).
Proof.
  intros l k rm H. destruct l as [|x l]; simpl in H.
  - inversion H; subst. split; [simpl; constructor | intros y []].
  - destruct (dedup_adj x l) as [k' rm'] eqn:D. inversion H; subst.
    destruct (dedup_adj_parts l x k' rm D) as [P I]. split; auto.
    simpl. constructor. auto.
Qed.

(* ------------------------------------------------------------------ the merge of exact parts *)
Definition bkey (interval : N) (i : ID) : N := bucket (mid i) interval.

Lemma ids_hist_pos : forall H ids, (0 <? H)%N = true -> ids_hist H ids = hist_of (bkey H) ids [].
Proof. intros H ids E. unfold ids_hist. rewrite E. reflexivity. Qed.

Lemma ids_hist_zero : forall H ids, (0 <? H)%N = false -> ids_hist H ids = [].
Proof. intros H ids E. unfold ids_hist. rewrite E. reflexivity. Qed.

Lemma ids_hist_perm : forall H a b, Permutation a b -> ids_hist H a = ids_hist H b.
Proof.
  intros H a b P. unfold ids_hist. destruct (0 <? H)%N; auto. apply (hist_of_perm (bkey H)); auto.
Qed.

Definition all_ids (dst : qpr) (qs : list qpr) : list ID := q_ids dst ++ concat (map q_ids qs).

Lemma fold_hists_exact : forall H qs h0 ids0,
  (0 <? H)%N = true -> h0 = hist_of (bkey H) ids0 [] ->
  Forall (fun q => q_hist q = ids_hist H (q_ids q)) qs ->
  fold_left (fun h q => hist_merge h (q_hist q)) qs h0 = hist_of (bkey H) (ids0 ++ concat (map q_ids qs)) [].
Proof.
  intros H. induction qs as [|q qs IH]; intros h0 ids0 E H0 F; simpl.
  - rewrite app_nil_r. auto.
  - inversion F as [|? ? Fq Fqs]; subst. rewrite app_assoc. apply IH; auto.
    rewrite Fq, (ids_hist_pos H _ E), merge_hist_of, hist_of_app. reflexivity.
Qed.

(* histogram: whatever the limit, both orders *)
Theorem merge_exact_hist : forall dst qs L H o,
  Forall (fun q => q_hist q = ids_hist H (q_ids q)) (dst :: qs) ->
  q_hist (merge_qprs dst qs L H o) = ids_hist H (norm o (all_ids dst qs)).
Proof.
  intros dst qs L H o F. inversion F as [|? ? Fd Fq]; subst.
  unfold merge_qprs. fold (all_ids dst qs).
  pose proof (remove_reps_norm o (all_ids dst qs)) as RN.
  destruct (remove_reps (sort_ids o (all_ids dst qs))) as [kept removed] eqn:R.
  simpl in RN. subst kept. cbn [q_hist].
  destruct (0 <? H)%N eqn:E.
  - destruct (remove_reps_parts _ _ _ R) as [P I].
    rewrite (fold_hists_exact H qs (q_hist dst) (q_ids dst) E); auto.
    + fold (all_ids dst qs).
      rewrite (hist_of_perm (bkey H) (all_ids dst qs) (norm o (all_ids dst qs) ++ removed) []).
      * rewrite hist_of_app, (ids_hist_pos H _ E).
        apply (repair_cancels (bkey H)).
        intros x Ix. apply hist_of_hit. auto.
      * eapply perm_trans; [apply Permutation_sym, sort_perm | exact P].
    + rewrite Fd. apply ids_hist_pos; auto.
  - rewrite (ids_hist_zero H _ E).
    assert (Z : forall qs h, h = [] -> Forall (fun q => q_hist q = ids_hist H (q_ids q)) qs ->
                fold_left (fun h q => hist_merge h (q_hist q)) qs h = []).
    { induction qs0 as [|q qs0 IH]; intros h Hh Fq0; simpl; auto.
      inversion Fq0; subst. apply IH; auto. rewrite H2, (ids_hist_zero H _ E). reflexivity. }
    apply Z; auto. rewrite Fd. apply ids_hist_zero; auto.
Qed.

Lemma fold_totals_exact : forall qs t0,
  Forall (fun q => q_total q = N.of_nat (length (q_ids q))) qs ->
  fold_left (fun t q => (t + q_total q)%N) qs t0 = (t0 + N.of_nat (length (concat (map q_ids qs))))%N.
Proof.
  induction qs as [|q qs IH]; intros t0 F; simpl.
  - lia.
  - inversion F; subst. rewrite IH; auto. rewrite H1, app_length. lia.
Qed.

(* Total: whatever the limit, both orders *)
Theorem merge_exact_total : forall dst qs L H o,
  Forall (fun q => q_total q = N.of_nat (length (q_ids q))) (dst :: qs) ->
  q_total (merge_qprs dst qs L H o) = N.of_nat (length (norm o (all_ids dst qs))).
Proof.
  intros dst qs L H o F. inversion F as [|? ? Fd Fq]; subst.
  unfold merge_qprs. fold (all_ids dst qs).
  pose proof (remove_reps_norm o (all_ids dst qs)) as RN.
  destruct (remove_reps (sort_ids o (all_ids dst qs))) as [kept removed] eqn:R.
  simpl in RN. subst kept. cbn [q_total].
  destruct (remove_reps_parts _ _ _ R) as [P _].
  assert (LEN : length (all_ids dst qs) = length (norm o (all_ids dst qs)) + length removed).
  { rewrite <- app_length. apply Permutation_length.
    eapply perm_trans; [apply Permutation_sym, sort_perm | exact P]. }
  rewrite fold_totals_exact, Fd; auto.
  rewrite <- Nat2N.inj_add, <- app_length. fold (all_ids dst qs). rewrite LEN.
  destruct (N.eqb_spec (N.of_nat (length (norm o (all_ids dst qs)) + length removed)) 0).
  - lia.
  - unfold sub64. destruct (N.leb_spec (N.of_nat (length removed))
                                       (N.of_nat (length (norm o (all_ids dst qs)) + length removed))); lia.
Qed.

(* ------------------------------------------------------------------ SearchDocs when the limit cuts nothing *)
Lemma norm_length_le : forall o l, length (norm o l) <= length l.
Proof.
  intros. apply NoDup_incl_length; [apply (SS_NoDup o), norm_SS|].
  intros x I. apply (proj1 (norm_in o l x)); auto.
Qed.

Lemma topk_all : forall o k l, length l <= k -> topk o k l = norm o l.
Proof. intros o k l H. unfold topk. apply firstn_all2. pose proof (norm_length_le o l). lia. Qed.

Lemma norm_perm : forall o l, NoDup l -> Permutation l (norm o l).
Proof.
  intros o l N. apply NoDup_Permutation; auto; [apply (SS_NoDup o), norm_SS|].
  intros x. symmetry. apply norm_in.
Qed.

Lemma hist_of_map : forall {A B} (key : B -> N) (g : A -> B) l h,
  hist_of key (map g l) h = hist_of (fun a => key (g a)) l h.
Proof. intros A B key g. induction l as [|x l IH]; intros h; simpl; auto. Qed.

Lemma hit_ids_length_le : forall p fs f, In f fs -> length (hit_ids p f) <= length (all_hit_ids p fs).
Proof.
  induction fs as [|g fs IH]; intros f I; [contradiction|].
  unfold all_hit_ids. simpl. rewrite app_length. destruct I as [->|I]; [lia|].
  specialize (IH f I). unfold all_hit_ids in IH. lia.
Qed.

Definition exact_total (p : params) (q : qpr) : Prop :=
  q_total q = if p_total p then N.of_nat (length (q_ids q)) else 0%N.
Definition exact_hist (p : params) (q : qpr) : Prop :=
  q_hist q = ids_hist (p_hist p) (q_ids q).

(* a fraction that is not cut and holds no ID twice answers exactly *)
Lemma frac_search_exact : forall p lim f,
  NoDup (hit_ids p f) -> length (hit_ids p f) <= lim ->
  q_ids (frac_search p lim f) = norm (p_order p) (hit_ids p f)
  /\ exact_total p (frac_search p lim f) /\ exact_hist p (frac_search p lim f).
Proof.
  intros p lim f N L.
  assert (I : q_ids (frac_search p lim f) = norm (p_order p) (hit_ids p f))
    by (rewrite frac_search_ids; apply topk_all; auto).
  pose proof (norm_perm (p_order p) _ N) as P.
  split; auto. split.
  - unfold exact_total. rewrite I. unfold frac_search. cbn [q_total].
    destruct (p_total p); auto. rewrite <- (Permutation_length P). unfold hit_ids. rewrite map_length. reflexivity.
  - unfold exact_hist. rewrite I, <- (ids_hist_perm (p_hist p) _ _ P).
    unfold frac_search. cbn [q_hist]. unfold ids_hist, hit_ids.
    destruct (0 <? p_hist p)%N; auto.
    symmetry. apply (hist_of_map (fun i => bucket (mid i) (p_hist p)) d_id).
Qed.

Lemma merge_zero_total : forall dst qs L H o,
  Forall (fun q => q_total q = 0%N) (dst :: qs) -> q_total (merge_qprs dst qs L H o) = 0%N.
Proof.
  intros dst qs L H o F. inversion F as [|? ? Fd Fq]; subst. unfold merge_qprs.
  destruct (remove_reps _) as [kept removed]. cbn [q_total].
  assert (E : fold_left (fun t q => (t + q_total q)%N) qs (q_total dst) = 0%N).
  { rewrite Fd. clear - Fq. induction qs as [|q qs IH]; simpl; auto.
    inversion Fq; subst. rewrite H1. apply IH; auto. }
  rewrite E. reflexivity.
Qed.

Lemma merge_exact : forall p dst qs,
  Forall (exact_total p) (dst :: qs) -> Forall (exact_hist p) (dst :: qs) ->
  length (all_ids dst qs) <= p_limit p ->
  let m := merge_qprs dst qs (p_limit p) (p_hist p) (p_order p) in
  q_ids m = norm (p_order p) (all_ids dst qs) /\ exact_total p m /\ exact_hist p m.
Proof.
  intros p dst qs FT FH LEN m.
  assert (I : q_ids m = norm (p_order p) (all_ids dst qs)).
  { unfold m. rewrite merge_ids. apply topk_all; auto. }
  split; auto. split.
  - unfold exact_total. rewrite I. unfold m. unfold exact_total in FT. destruct (p_total p).
    + apply merge_exact_total; auto.
    + apply merge_zero_total; auto.
  - unfold exact_hist. rewrite I. apply merge_exact_hist; auto.
Qed.

Lemma loop_repaired : forall fuel p c rem tot lim done res,
  scan_all p = true -> KS (p_order p) rem ->
  q_ids tot = topk (p_order p) (p_limit p) (all_hit_ids p done) ->
  lim = p_limit p - ensured (p_order p) (q_ids tot) rem ->
  length (all_hit_ids p (done ++ rem)) <= p_limit p ->
  Forall (fun f => NoDup (hit_ids p f)) rem ->
  exact_total p tot -> exact_hist p tot ->
  loop fuel p c rem tot lim = Ok res ->
  exact_total p res /\ exact_hist p res.
Proof.
  induction fuel as [|fuel IH]; intros p c rem tot lim done res SA HK HI HL NC ND ET EH HR.
  - destruct rem; simpl in HR.
    + inversion HR; subst. auto.
    + rewrite SA in HR. simpl in HR. discriminate.
  - destruct rem as [|f r].
    + simpl in HR. inversion HR; subst. auto.
    + cbn [loop] in HR. rewrite SA in HR. simpl orb in HR. cbv iota in HR.
      set (C := firstn c (f :: r)) in *. set (rem' := skipn c (f :: r)) in *.
      assert (EQ : f :: r = C ++ rem') by (unfold C, rem'; rewrite firstn_skipn; reflexivity).
      assert (LD : length (q_ids tot) <= length (all_hit_ids p done)).
      { rewrite HI. unfold topk. rewrite firstn_length. pose proof (norm_length_le (p_order p) (all_hit_ids p done)). lia. }
      rewrite EQ, !all_hit_ids_app, !app_length in NC.
      (* every fraction of the chunk answers exactly *)
      assert (EX : forall g, In g C ->
                   q_ids (frac_search p lim g) = norm (p_order p) (hit_ids p g)
                   /\ exact_total p (frac_search p lim g) /\ exact_hist p (frac_search p lim g)).
      { intros g Ig. apply frac_search_exact.
        - rewrite Forall_forall in ND. apply ND. rewrite EQ. apply in_app_iff. auto.
        - pose proof (hit_ids_length_le p C g Ig).
          assert (ensured (p_order p) (q_ids tot) (f :: r) <= length (q_ids tot)) by apply count_while_le.
          lia. }
      set (subs := map (frac_search p lim) C) in *.
      assert (ELEM : forall x, In x (all_ids tot subs) <-> In x (all_hit_ids p (done ++ C))).
      { intros x. unfold all_ids. rewrite all_hit_ids_app, !in_app_iff.
        assert (In x (q_ids tot) <-> In x (all_hit_ids p done)) as ->.
        { rewrite HI, topk_all by lia. apply norm_in. }
        assert (In x (concat (map q_ids subs)) <-> In x (all_hit_ids p C)) as ->; [|tauto].
        rewrite in_concat, in_all_hit_ids. split.
        - intros [l [Il Ix]]. apply in_map_iff in Il. destruct Il as [q [<- Iq]].
          unfold subs in Iq. apply in_map_iff in Iq. destruct Iq as [g [<- Ig]].
          exists g. split; auto. rewrite (proj1 (EX g Ig)) in Ix.
          apply (proj1 (norm_in (p_order p) (hit_ids p g) x)); auto.
        - intros [g [Ig Ix]]. exists (q_ids (frac_search p lim g)). split.
          + apply in_map. unfold subs. apply in_map. auto.
          + rewrite (proj1 (EX g Ig)). apply (proj2 (norm_in (p_order p) (hit_ids p g) x)); auto. }
      assert (LENA : length (all_ids tot subs) <= p_limit p).
      { unfold all_ids. rewrite app_length.
        assert (length (concat (map q_ids subs)) <= length (all_hit_ids p C)).
        { unfold subs. generalize C. clear. unfold all_hit_ids.
          intros C1. induction C1 as [|g C0 IHC]; cbn [map concat]; auto.
          rewrite !app_length.
          assert (length (q_ids (frac_search p lim g)) <= length (hit_ids p g)).
          { rewrite frac_search_ids. unfold topk. rewrite firstn_length.
            pose proof (norm_length_le (p_order p) (hit_ids p g)). lia. }
          lia. }
        lia. }
      assert (FT : Forall (exact_total p) subs).
      { apply Forall_forall. intros q Iq. unfold subs in Iq. apply in_map_iff in Iq.
        destruct Iq as [g [<- Ig]]. apply (EX g Ig). }
      assert (FH : Forall (exact_hist p) subs).
      { apply Forall_forall. intros q Iq. unfold subs in Iq. apply in_map_iff in Iq.
        destruct Iq as [g [<- Ig]]. apply (EX g Ig). }
      destruct (merge_exact p tot subs) as [MI [MT MH]]; auto.
      eapply (IH p c rem' _ _ (done ++ C)); eauto.
      * apply KS_skipn; auto.
      * apply step_I1; auto.
      * rewrite !all_hit_ids_app, !app_length. lia.
      * rewrite EQ in ND. apply Forall_app in ND. tauto.
Qed.

Lemma layout_hits_perm : forall p fs keep prepared,
  (forall f, In f fs -> keep f = false -> hit_ids p f = []) ->
  Permutation prepared (filter keep fs) ->
  Permutation (all_hit_ids p prepared) (all_hit_ids p fs).
Proof.
  intros p fs keep prepared HK HP. unfold all_hit_ids.
  rewrite <- (concat_map_filter_nil (hit_ids p) keep fs HK). apply perm_concat_map; auto.
Qed.

(* Total and histogram with duplicates ACROSS fractions: when the limit cuts nothing and no
   fraction holds an ID twice, the repair makes them those of one fraction holding every document once *)
Theorem total_hist_repaired :
  forall (p : params) (fs : list frac) (keep : frac -> bool) (prepared : list frac) (fpi : nat) (r : qpr),
    (forall f, In f fs -> keep f = false -> hit_ids p f = []) ->
    Permutation prepared (filter keep fs) ->
    KS (p_order p) prepared ->
    Forall (fun f => NoDup (hit_ids p f)) fs ->
    length (all_hit_ids p fs) <= p_limit p ->
    search_docs p fpi prepared = Ok r ->
    q_total r = (if p_total p then N.of_nat (length (global_order p fs)) else 0%N)
    /\ q_hist r = ids_hist (p_hist p) (global_order p fs)
    /\ forall once : frac,
         NoDup (hit_ids p once) -> (forall x, In x (hit_ids p once) <-> In x (all_hit_ids p fs)) ->
         q_total r = q_total (frac_search p (p_limit p) once)
         /\ q_hist r = q_hist (frac_search p (p_limit p) once).
Proof.
  intros p fs keep prepared fpi r HK HP HS ND NC HR.
  assert (MAIN : q_total r = (if p_total p then N.of_nat (length (global_order p fs)) else 0%N)
                 /\ q_hist r = ids_hist (p_hist p) (global_order p fs)).
  { destruct (topk_partition p fs keep prepared fpi HK HP HS) as [r' [Hr' [Hi _]]].
    rewrite HR in Hr'. inversion Hr'; subst r'. clear Hr'.
    assert (GI : q_ids r = global_order p fs).
    { rewrite Hi. unfold spec_ids, global_order. apply (topk_all (p_order p)); auto. }
    destruct (scan_all p) eqn:SA.
    - pose proof (layout_hits_perm p fs keep prepared HK HP) as PH.
      destruct (loop_repaired (length prepared) p (if (fpi =? 0)%nat then length prepared else fpi)
                              prepared empty_qpr (p_limit p) [] r) as [ET EH]; auto.
      + simpl. unfold topk, norm. simpl. destruct (p_limit p); reflexivity.
      + destruct prepared; simpl; lia.
      + simpl app. rewrite (Permutation_length PH). auto.
      + apply Forall_forall. intros f If. rewrite Forall_forall in ND. apply ND.
        apply (Permutation_in _ HP) in If. apply filter_In in If. tauto.
      + unfold exact_total. simpl. destruct (p_total p); reflexivity.
      + unfold exact_hist, ids_hist. simpl. destruct (0 <? p_hist p)%N; reflexivity.
      + unfold exact_total, exact_hist in *. rewrite GI in ET, EH. auto.
    - unfold search_docs in HR.
      pose proof (loop_sums_idle _ _ _ _ empty_qpr _ _ SA (eq_refl zero_sums) HR) as Z.
      destruct (scan_all_false p SA) as [Ht [_ Hh]].
      unfold sums, zero_sums in Z. assert (Z1 : q_total r = 0%N) by congruence.
      assert (Z2 : q_hist r = []) by congruence.
      rewrite Ht, Hh, Z1, Z2. unfold ids_hist. simpl. auto. }
  destruct MAIN as [MT MH]. split; auto. split; auto.
  intros once NO EO.
  assert (PO : Permutation (hit_ids p once) (global_order p fs)).
  { apply NoDup_Permutation; auto; [apply (SS_NoDup (p_order p)), norm_SS|].
    intros x. rewrite EO. symmetry. apply norm_in. }
  assert (LO : length (hit_ids p once) <= p_limit p).
  { rewrite (Permutation_length PO). unfold global_order.
    pose proof (norm_length_le (p_order p) (all_hit_ids p fs)). lia. }
  destruct (frac_search_exact p (p_limit p) once NO LO) as [I [ET EH]].
  assert (NG : norm (p_order p) (hit_ids p once) = global_order p fs).
  { unfold global_order. apply norm_ext. auto. }
  unfold exact_total, exact_hist in *. rewrite I, NG in ET, EH. rewrite ET, EH. auto.
Qed.

(* ------------------------------------------------------------------ the proxy's sums *)
Lemma all_hit_ids_concat : forall p ls, all_hit_ids p (concat ls) = concat (map (all_hit_ids p) ls).
Proof.
  induction ls as [|l ls IH]; simpl; auto. rewrite all_hit_ids_app, IH. reflexivity.
Qed.

Lemma all_ok_inv : forall {A B} (g : A -> res B) l qs,
  all_ok (map g l) = Ok qs -> Forall2 (fun a q => g a = Ok q) l qs.
Proof.
  induction l as [|a l IH]; intros qs H; simpl in H.
  - inversion H. constructor.
  - destruct (g a) as [b|] eqn:E; [|discriminate].
    destruct (all_ok (map g l)) as [r'|] eqn:E2; [|discriminate].
    inversion H; subst. constructor; auto.
Qed.

Lemma shard_facts : forall p fpi layout prepared q,
  valid_prep p layout prepared -> NoDup (all_hit_ids p layout) ->
  search_docs p fpi prepared = Ok q ->
  sums q = sums_of_hits p (hits p (concat layout))
  /\ NoDup (q_ids q) /\ incl (q_ids q) (all_hit_ids p layout).
Proof.
  intros p fpi layout prepared q [keep [K1 [K2 K3]]] ND HR.
  split.
  - rewrite (sums_partition p layout keep prepared fpi q K1 K2 K3 ND HR). apply frac_search_sums.
  - destruct (topk_partition p layout keep prepared fpi K1 K2 K3) as [r' [Hr' [Hi _]]].
    rewrite HR in Hr'. inversion Hr'; subst r'. rewrite Hi. split.
    + apply (SS_NoDup (p_order p)). apply spec_ids_SS.
    + intros x Ix. unfold spec_ids in Ix. apply topk_in in Ix. auto.
Qed.

Lemma sums_of_hits_nil : forall p, sums_of_hits p [] = zero_sums.
Proof.
  intros. unfold sums_of_hits, zero_sums. simpl.
  destruct (p_total p), (0 <? p_hist p)%N, (p_agg p); reflexivity.
Qed.

Lemma fold_shard_sums : forall p layouts qs done,
  Forall2 (fun l q => sums q = sums_of_hits p (hits p (concat l))) layouts qs ->
  fold_left (fun s q => add_sums s (sums q)) qs (sums_of_hits p (hits p (concat (concat done))))
  = sums_of_hits p (hits p (concat (concat (done ++ layouts)))).
Proof.
  intros p layouts qs done F. revert done.
  induction F as [|l q layouts qs E F IH]; intros done; cbn [fold_left].
  - rewrite app_nil_r. reflexivity.
  - rewrite E, sums_of_hits_app, <- hits_app.
    replace (concat (concat done) ++ concat l) with (concat (concat (done ++ [l])))
      by (rewrite !concat_app; simpl; rewrite !app_nil_r; auto).
    rewrite IH, <- app_assoc. reflexivity.
Qed.

(* Total / histogram / aggregation through the proxy: layouts = the layout of the replica that
   answered for each shard; no hit ID is stored twice anywhere among them *)
Theorem proxy_sums :
  forall p off size fpi (layouts answers : list (list frac)) (r : qpr),
    Forall2 (valid_prep p) layouts answers ->
    NoDup (all_hit_ids p (concat layouts)) ->
    proxy_search p off size fpi answers = Ok r ->
    sums r = sums (frac_search (with_limit p (off + size)) (off + size) (concat (concat layouts))).
Proof.
  intros p off size fpi layouts answers r FV ND HR.
  set (pl := with_limit p (off + size)) in *.
  unfold proxy_search in HR. fold pl in HR.
  destruct (all_ok (map (search_docs pl fpi) answers)) as [qs|] eqn:AO; [|discriminate].
  inversion HR; subst r. clear HR.
  change (sums (merge_qprs empty_qpr qs (off + size) (p_hist p) (p_order p))
          = sums_of_hits pl (hits pl (concat (concat layouts)))).
  apply all_ok_inv in AO.
  rewrite all_hit_ids_concat in ND.
  assert (FACTS : Forall2 (fun l q => sums q = sums_of_hits pl (hits pl (concat l))
                                      /\ NoDup (q_ids q) /\ incl (q_ids q) (all_hit_ids p l)) layouts qs).
  { clear - FV AO ND. revert qs AO ND.
    induction FV as [|l a layouts answers V FV IH]; intros qs AO ND; inversion AO; subst; constructor.
    - simpl in ND. apply NoDup_app_iff in ND. destruct ND as [N1 _].
      apply (shard_facts pl fpi l a y); auto.
    - apply IH; auto. simpl in ND. apply NoDup_app_iff in ND. tauto. }
  rewrite merge_sums_nodup.
  - assert (F' : Forall2 (fun l q => sums q = sums_of_hits pl (hits pl (concat l))) layouts qs).
    { clear - FACTS. induction FACTS as [|? ? ? ? [E _]]; constructor; auto. }
    pose proof (fold_shard_sums pl layouts qs [] F') as FS.
    cbn [concat app hits filter] in FS. rewrite sums_of_hits_nil in FS.
    change (sums empty_qpr) with zero_sums. exact FS.
  - simpl app.
    apply (NoDup_concat_sub _ (map (all_hit_ids p) layouts)); auto.
    clear - FACTS. induction FACTS as [|? ? ? ? [_ [N I]]]; simpl; constructor; auto.
Qed.

(* ------------------------------------------------------------------ the pure pieces against their specs *)
Lemma count_while_stop : forall {A} (g : A -> bool) l x,
  nth_error l (count_while g l) = Some x -> g x = false.
Proof.
  induction l as [|y l IH]; intros x H; simpl in H; [discriminate|].
  destruct (g y) eqn:G; simpl in H; auto. inversion H; subst. auto.
Qed.

Theorem ensured_spec : forall o ids nf rem,
  ensured o ids [] = length ids
  /\ ensured o ids (nf :: rem) <= length ids
  /\ (forall z, In z (firstn (ensured o ids (nf :: rem)) ids) -> beyond o nf z = true)
  /\ (forall i, nth_error ids (ensured o ids (nf :: rem)) = Some i -> beyond o nf i = false).
Proof.
  intros. simpl. split; auto. split; [apply count_while_le|]. split.
  - intros z. apply count_while_prefix.
  - intros i. apply count_while_stop.
Qed.

Theorem paginate_spec : forall ids off size,
  fst (paginate ids off size) = firstn size (skipn off ids)
  /\ snd (paginate ids off size) = length (fst (paginate ids off size)).
Proof. intros. split; [apply paginate_fst | apply paginate_snd]. Qed.

Theorem merge_spec : forall dst qs L H o,
  q_ids (merge_qprs dst qs L H o) = firstn L (norm o (all_ids dst qs))
  /\ (Forall (fun q => q_total q = N.of_nat (length (q_ids q))) (dst :: qs) ->
      q_total (merge_qprs dst qs L H o) = N.of_nat (length (norm o (all_ids dst qs))))
  /\ (Forall (fun q => q_hist q = ids_hist H (q_ids q)) (dst :: qs) ->
      q_hist (merge_qprs dst qs L H o) = ids_hist H (norm o (all_ids dst qs))).
Proof.
  intros. split; [apply merge_ids|]. split; [apply merge_exact_total | apply merge_exact_hist].
Qed.

Theorem listed_once : forall p fs off size,
  SS (p_order p) (spec_ids p fs) /\ NoDup (spec_ids p fs)
  /\ SS (p_order p) (firstn size (skipn off (global_order p fs)))
  /\ NoDup (firstn size (skipn off (global_order p fs))).
Proof.
  intros.
  assert (A : SS (p_order p) (spec_ids p fs)) by apply spec_ids_SS.
  assert (B : SS (p_order p) (firstn size (skipn off (global_order p fs))))
    by (apply SS_firstn, SS_skipn, norm_SS).
  split; auto. split; [apply (SS_NoDup (p_order p)); auto|]. split; auto.
  apply (SS_NoDup (p_order p)); auto.
Qed.
