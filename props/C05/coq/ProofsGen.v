(* C05 — the definitions GENERATED from the Go sources by harness/cmd/go2coq (Gen.v, regenerated on every
   run) refine the hand-written model functions of Model.v that the property theorems are about. *)
From Coq Require Import ZArith NArith List Bool Lia ZifyBool ZifyN ZifyNat.
From VLib Require Import GoSem GoSemFacts.
From C05 Require Import Model ProofsProxy ProofsRepair Gen.
Import ListNotations.
Open Scope Z_scope.

Definition zid (x : ID) : go_ID := mk_go_ID (Z.of_N (fst x)) (Z.of_N (snd x)).

(* seq.Less as generated = id_ltb *)
Lemma gen_Less_refines : forall a b : ID, go_seq_Less (zid a) (zid b) = id_ltb a b.
Proof.
  intros [am ar] [bm br]. unfold go_seq_Less, id_ltb, zid. cbn [go_ID_MID go_ID_RID fst snd].
  destruct (Z.eqb_spec (Z.of_N am) (Z.of_N bm)); destruct (N.eqb_spec am bm); lia.
Qed.

Lemma slice_map : forall (A : Type) (f : A -> Z) l a b, slice (map f l) a b = map f (slice l a b).
Proof. intros. unfold slice. rewrite skipn_map, firstn_map. reflexivity. Qed.

Lemma slice_suffix : forall (A : Type) (l : list A) n, (n <= length l)%nat ->
  slice l (Z.of_nat n) (len l) = skipn n l.
Proof.
  intros A l n H. unfold slice, len. rewrite Nat2Z.id.
  replace (Z.to_nat (Z.of_nat (length l) - Z.of_nat n)) with (length (skipn n l)) by (rewrite skipn_length; lia).
  apply firstn_all.
Qed.

Lemma slice_prefix : forall (A : Type) (l : list A) n, slice l 0 (Z.of_nat n) = firstn n l.
Proof. intros. unfold slice. rewrite Z.sub_0_r, Nat2Z.id. reflexivity. Qed.

Ltac no_panic :=
  match goal with
  | |- context [if ?c then Panic else _] => replace c with false by (unfold len; rewrite ?map_length; lia)
  end.

(* Ingestor.paginateIDs as generated = paginate. The elements of the slice are opaque to the function (the
   translator rejects any inspection of them): they are represented by integer tags, so the statement holds
   for EVERY tagging f of the model's IDs. No panic for any non-negative offset and size. *)
Lemma gen_paginateIDs_refines : forall (f : ID -> Z) ids off size,
  go_search_Ingestor_paginateIDs (map f ids) (Z.of_nat off) (Z.of_nat size)
  = Val (map f (fst (paginate ids off size)), Z.of_nat (snd (paginate ids off size))).
Proof.
  intros f ids off size. unfold go_search_Ingestor_paginateIDs, paginate. cbv zeta.
  assert (Hlen : len (map f ids) = Z.of_nat (length ids)) by (unfold len; rewrite map_length; reflexivity).
  rewrite Hlen.
  destruct (Z.ltb_spec (Z.of_nat off) (Z.of_nat (length ids))) as [H|H];
    destruct (Nat.ltb_spec off (length ids)) as [H'|H']; try lia.
  - no_panic. cbn [bind]. rewrite <- Hlen, slice_suffix by (rewrite map_length; lia).
    rewrite skipn_map.
    assert (Hl2 : len (map f (skipn off ids)) = Z.of_nat (length (skipn off ids))) by (unfold len; rewrite map_length; reflexivity).
    rewrite Hl2.
    destruct (Z.ltb_spec (Z.of_nat size) (Z.of_nat (length (skipn off ids)))) as [G|G];
      destruct (Nat.ltb_spec size (length (skipn off ids))) as [G'|G']; try lia.
    + no_panic. cbn [bind fst snd]. rewrite slice_prefix, firstn_map. reflexivity.
    + cbn [bind fst snd]. reflexivity.
  - no_panic. cbn [bind].
    replace (slice (map f ids) 0 0) with (@nil Z) by (unfold slice; reflexivity).
    change (len (@nil Z)) with 0.
    destruct (Z.ltb_spec (Z.of_nat size) 0) as [G|G]; [lia|].
    destruct (Nat.ltb_spec size (length (@nil ID))) as [G'|G']; [simpl in G'; lia|].
    cbn [bind fst snd map length]. reflexivity.
Qed.

(* C05_paginate_spec directly over the GENERATED paginateIDs *)
Lemma paginate_spec_gen : forall (f : ID -> Z) ids off size,
  exists out n, go_search_Ingestor_paginateIDs (map f ids) (Z.of_nat off) (Z.of_nat size) = Val (out, n)
    /\ out = map f (firstn size (skipn off ids)) /\ n = len out.
Proof.
  intros f ids off size. destruct (paginate_spec ids off size) as [H1 H2].
  exists (map f (fst (paginate ids off size))), (Z.of_nat (snd (paginate ids off size))).
  split; [apply gen_paginateIDs_refines|]. split; [rewrite H1; reflexivity|].
  unfold len. rewrite map_length, H2. reflexivity.
Qed.
