(* C05 — canonical lists: ins / norm, sort + adjacent-duplicate removal = norm, top-k algebra. *)
From Coq Require Import List Bool Arith NArith Lia Sorting.Sorted Permutation.
From C05 Require Import Model ProofsOrder.
Import ListNotations.

Section Norm.
  Variable o : order.
  Notation SS := (SS o).
  Notation WS := (WS o).

  (* ---------------------------------------------------------------- ins *)
  Lemma ins_in : forall x s y, In y (ins o x s) <-> y = x \/ In y s.
  Proof.
    induction s as [|z s IH]; intros y; simpl.
    - intuition.
    - destruct (before o x z) eqn:B; simpl. { intuition. }
      destruct (id_eqb x z) eqn:E; simpl.
      + apply id_eqb_eq in E. subst z. intuition.
      + rewrite IH. intuition.
  Qed.

  Lemma ins_SS : forall x s, SS s -> SS (ins o x s).
  Proof.
    induction s as [|z s IH]; intros H; simpl.
    - constructor; constructor.
    - destruct (before o x z) eqn:B.
      + constructor; auto. apply SS_cons_inv in H. destruct H as [_ F].
        constructor; auto. rewrite Forall_forall in *. intros y I. eapply before_trans; eauto.
      + destruct (id_eqb x z) eqn:E; auto.
        apply SS_cons_inv in H. destruct H as [H F].
        constructor; [apply IH; auto|].
        apply Forall_forall. intros y I. apply ins_in in I. destruct I as [->|I].
        * apply before_total; auto. apply id_eqb_neq in E. auto.
        * rewrite Forall_forall in F. auto.
  Qed.

  Lemma firstn_firstn_same : forall {A} k (l : list A), firstn k (firstn k l) = firstn k l.
  Proof. intros. rewrite firstn_firstn. f_equal. lia. Qed.

  Lemma firstn_ins : forall k x s, firstn k (ins o x s) = firstn k (ins o x (firstn k s)).
  Proof.
    induction k; intros x s; [reflexivity|].
    destruct s as [|z s]; [reflexivity|].
    change (firstn (S k) (z :: s)) with (z :: firstn k s).
    simpl ins. destruct (before o x z) eqn:B.
    - change (firstn (S k) (x :: z :: s)) with (x :: firstn k (z :: s)).
      change (firstn (S k) (x :: z :: firstn k s)) with (x :: firstn k (z :: firstn k s)).
      f_equal. destruct k; [reflexivity|].
      change (firstn (S k) (z :: s)) with (z :: firstn k s).
      change (firstn (S k) (z :: firstn (S k) s)) with (z :: firstn k (firstn (S k) s)).
      f_equal. rewrite firstn_firstn. f_equal. lia.
    - destruct (id_eqb x z) eqn:E.
      + change (firstn (S k) (z :: s)) with (z :: firstn k s).
        change (firstn (S k) (z :: firstn k s)) with (z :: firstn k (firstn k s)).
        f_equal. symmetry. apply firstn_firstn_same.
      + change (firstn (S k) (z :: ins o x s)) with (z :: firstn k (ins o x s)).
        change (firstn (S k) (z :: ins o x (firstn k s))) with (z :: firstn k (ins o x (firstn k s))).
        f_equal. apply IHk.
  Qed.

  Lemma firstn_ins_congr : forall k x s1 s2,
    firstn k s1 = firstn k s2 -> firstn k (ins o x s1) = firstn k (ins o x s2).
  Proof. intros k x s1 s2 H. rewrite (firstn_ins k x s1), (firstn_ins k x s2), H. reflexivity. Qed.

  (* ---------------------------------------------------------------- norm *)
  Lemma norm_onto_in : forall l s y, In y (norm_onto o l s) <-> In y l \/ In y s.
  Proof.
    induction l as [|x l IH]; intros s y; simpl. { intuition. }
    unfold norm_onto in *. simpl. rewrite IH, ins_in. intuition.
  Qed.

  Lemma norm_onto_SS : forall l s, SS s -> SS (norm_onto o l s).
  Proof.
    induction l as [|x l IH]; intros s H; simpl; auto.
    unfold norm_onto in *. simpl. apply IH. apply ins_SS; auto.
  Qed.

  Lemma norm_in : forall l y, In y (norm o l) <-> In y l.
  Proof. intros. unfold norm. rewrite norm_onto_in. simpl. intuition. Qed.

  Lemma norm_SS : forall l, SS (norm o l).
  Proof. intros. apply norm_onto_SS. constructor. Qed.

  Lemma norm_ext : forall a b, (forall x, In x a <-> In x b) -> norm o a = norm o b.
  Proof.
    intros a b E. apply (SS_unique o); try apply norm_SS.
    intros x. rewrite !norm_in. apply E.
  Qed.

  Lemma norm_of_SS : forall s, SS s -> norm o s = s.
  Proof. intros s H. apply (SS_unique o); auto using norm_SS. intros x. apply norm_in. Qed.

  Lemma norm_app : forall a b, norm o (a ++ b) = norm_onto o b (norm o a).
  Proof. intros. unfold norm, norm_onto. apply fold_left_app. Qed.

  Lemma norm_onto_congr : forall k l s1 s2,
    firstn k s1 = firstn k s2 -> firstn k (norm_onto o l s1) = firstn k (norm_onto o l s2).
  Proof.
    induction l as [|x l IH]; intros s1 s2 H; simpl; auto.
    unfold norm_onto in *. simpl. apply IH. apply firstn_ins_congr; auto.
  Qed.

  (* ---------------------------------------------------------------- top-k algebra *)
  Definition topk (k : nat) (l : list ID) : list ID := firstn k (norm o l).

  Lemma topk_SS : forall k l, SS (topk k l).
  Proof. intros. apply SS_firstn, norm_SS. Qed.

  Lemma topk_in : forall k l x, In x (topk k l) -> In x l.
  Proof. intros k l x H. unfold topk in H. apply in_firstn in H. apply (proj1 (norm_in l x)). exact H. Qed.

  Lemma norm_topk : forall k l, norm o (topk k l) = topk k l.
  Proof. intros. apply norm_of_SS, topk_SS. Qed.

  Lemma topk_ext : forall k a b, (forall x, In x a <-> In x b) -> topk k a = topk k b.
  Proof. intros. unfold topk. f_equal. apply norm_ext; auto. Qed.

  Lemma topk_app_l : forall k a b, topk k (topk k a ++ b) = topk k (a ++ b).
  Proof.
    intros. unfold topk at 1 3. rewrite !norm_app. apply norm_onto_congr.
    rewrite norm_topk. unfold topk. apply firstn_firstn_same.
  Qed.

  Lemma topk_app_r : forall k a b, topk k (a ++ topk k b) = topk k (a ++ b).
  Proof.
    intros. rewrite (topk_ext k (a ++ topk k b) (topk k b ++ a)), (topk_ext k (a ++ b) (b ++ a)).
    - apply topk_app_l.
    - intros x. rewrite !in_app_iff. tauto.
    - intros x. rewrite !in_app_iff. tauto.
  Qed.

  (* lem:topk_union — the top k of a union is the top k of the union of the parts' top k *)
  Lemma topk_union : forall k x bs,
    topk k (x ++ concat (map (topk k) bs)) = topk k (x ++ concat bs).
  Proof.
    intros k x bs. revert x. induction bs as [|b bs IH]; intros x; simpl; auto.
    rewrite app_assoc, IH, <- app_assoc.
    rewrite (topk_ext k (x ++ topk k b ++ concat bs) ((x ++ concat bs) ++ topk k b)),
            (topk_ext k (x ++ b ++ concat bs) ((x ++ concat bs) ++ b)).
    - apply topk_app_r.
    - intros y. rewrite !in_app_iff. tauto.
    - intros y. rewrite !in_app_iff. tauto.
  Qed.

  (* a block e whose members all stand before everything else comes out first *)
  Lemma SS_app : forall a b, SS a -> SS b ->
    (forall x y, In x a -> In y b -> before o x y = true) -> SS (a ++ b).
  Proof.
    induction a as [|z a IH]; intros b Ha Hb F; simpl; auto.
    apply SS_cons_inv in Ha. destruct Ha as [Ha Fa].
    constructor.
    - apply IH; auto. intros; apply F; simpl; auto.
    - apply Forall_forall. intros y I. apply in_app_iff in I. destruct I as [I|I].
      + rewrite Forall_forall in Fa. auto.
      + apply F; simpl; auto.
  Qed.

  Lemma topk_split : forall k e w, SS e -> length e <= k ->
    (forall x y, In x e -> In y w -> before o x y = true) ->
    topk k (e ++ w) = e ++ topk (k - length e) w.
  Proof.
    intros k e w He Hl F. unfold topk.
    assert (norm o (e ++ w) = e ++ norm o w) as ->.
    { apply (SS_unique o).
      - apply norm_SS.
      - apply SS_app; [exact He | apply norm_SS |]. intros x y Ix Iy. apply F; auto.
        apply (proj1 (norm_in w y)); auto.
      - intros x. rewrite norm_in, !in_app_iff, norm_in. tauto. }
    rewrite firstn_app. f_equal. apply firstn_all2. auto.
  Qed.

  (* ---------------------------------------------------------------- sort.Sort + removeRepetitions *)
  Lemma insert_in : forall x l y, In y (insert o x l) <-> y = x \/ In y l.
  Proof.
    induction l as [|z l IH]; intros y; simpl. { intuition. }
    destruct (before o z x); simpl; [rewrite IH|]; intuition.
  Qed.

  Lemma insert_perm : forall x l, Permutation (insert o x l) (x :: l).
  Proof.
    induction l as [|z l IH]; simpl; auto.
    destruct (before o z x); auto.
    eapply perm_trans; [apply perm_skip, IH | apply perm_swap].
  Qed.

  Lemma sort_perm : forall l, Permutation (sort_ids o l) l.
  Proof.
    induction l as [|x l IH]; simpl; auto.
    eapply perm_trans; [apply insert_perm | apply perm_skip, IH].
  Qed.

  Lemma sort_in : forall l y, In y (sort_ids o l) <-> In y l.
  Proof.
    intros; split; apply Permutation_in; [|apply Permutation_sym]; apply sort_perm.
  Qed.

  Lemma insert_WS : forall x l, WS l -> WS (insert o x l).
  Proof.
    induction l as [|z l IH]; intros H; simpl.
    - constructor; constructor.
    - inversion H as [|? ? Hl Fl]; subst.
      destruct (before o z x) eqn:B.
      + constructor; [apply IH; auto|].
        apply Forall_forall. intros y I. apply insert_in in I. destruct I as [->|I].
        * apply before_asym; auto.
        * rewrite Forall_forall in Fl. auto.
      + constructor; auto. constructor; auto.
        rewrite Forall_forall in *. intros y I. eapply nb_trans; eauto.
  Qed.

  Lemma sort_WS : forall l, WS (sort_ids o l).
  Proof. induction l; simpl; [constructor | apply insert_WS; auto]. Qed.

  Lemma dedup_adj_spec : forall l last, WS (last :: l) ->
    SS (last :: fst (dedup_adj last l))
    /\ (forall y, In y (last :: fst (dedup_adj last l)) <-> In y (last :: l)).
  Proof.
    induction l as [|x l IH]; intros last H.
    - simpl. split; [constructor; constructor | tauto].
    - inversion H as [|? ? Hl Fl]; subst. simpl.
      destruct (id_eqb last x) eqn:E.
      + apply id_eqb_eq in E. subst x.
        destruct (IH last) as [S I].
        { constructor; [inversion Hl; auto | inversion Fl; auto]. }
        destruct (dedup_adj last l) as [k rm]. simpl in *. split; auto.
        intros y. rewrite I. tauto.
      + destruct (IH x Hl) as [S I].
        destruct (dedup_adj x l) as [k rm]. simpl in *. split.
        * constructor; auto. apply Forall_forall. intros y Iy.
          apply I in Iy. apply id_eqb_neq in E.
          assert (Bx : before o last x = true).
          { apply before_total; auto. inversion Fl; auto. }
          destruct Iy as [<-|Iy]; auto.
          eapply lt_le_trans; eauto.
          inversion Hl as [|? ? _ Fx]; subst. rewrite Forall_forall in Fx. auto.
        * intros y. specialize (I y). tauto.
  Qed.

  Lemma remove_reps_norm : forall l, fst (remove_reps (sort_ids o l)) = norm o l.
  Proof.
    intros l. apply (SS_unique o).
    - pose proof (sort_WS l) as W. unfold remove_reps. destruct (sort_ids o l) as [|x r]; [constructor|].
      destruct (dedup_adj_spec r x W) as [S _]. destruct (dedup_adj x r); auto.
    - apply norm_SS.
    - intros y. rewrite norm_in, <- (sort_in l y).
      pose proof (sort_WS l) as W. unfold remove_reps. destruct (sort_ids o l) as [|x r]; [simpl; tauto|].
      destruct (dedup_adj_spec r x W) as [_ I]. destruct (dedup_adj x r); auto.
  Qed.

  (* nothing is removed when there is no duplicate *)
  Lemma dedup_adj_nodup : forall l last, NoDup (last :: l) -> snd (dedup_adj last l) = [].
  Proof.
    induction l as [|x l IH]; intros last H; simpl; auto.
    inversion H as [|? ? N1 N2]; subst.
    destruct (id_eqb last x) eqn:E.
    - apply id_eqb_eq in E. subst. exfalso. apply N1. left; auto.
    - specialize (IH x N2). destruct (dedup_adj x l); auto.
  Qed.

  Lemma remove_reps_nodup : forall l, NoDup l -> snd (remove_reps (sort_ids o l)) = [].
  Proof.
    intros l H. assert (N : NoDup (sort_ids o l)).
    { eapply Permutation_NoDup; [apply Permutation_sym, sort_perm | auto]. }
    unfold remove_reps. destruct (sort_ids o l) as [|x r]; auto.
    pose proof (dedup_adj_nodup r x N). destruct (dedup_adj x r); auto.
  Qed.
End Norm.
