(* C05 — property theorems. This file contains nothing but the statements, each closed by
   `exact <lemma>` from Proofs*.v, with Print Assumptions beneath, and the non-vacuity examples. *)
From Coq Require Import List Permutation NArith.
From C05 Require Import Model ProofsOrder ProofsNorm ProofsSearch Proofs ProofsProxy ProofsSums ProofsRepair.
Import ListNotations.

(* lem:topk_union — the top k of a union of ID multisets (duplicates identified, either order)
   is the top k of the union of the parts' own top k. *)
Theorem C05_topk_union : forall o k x bs,
  topk o k (x ++ concat (map (topk o k) bs)) = topk o k (x ++ concat bs).
Proof. exact topk_union. Qed.
Print Assumptions C05_topk_union.

(* lem:ensured_final — with the remaining fractions sorted by their border (To descending /
   From ascending), every ID that calcEnsuredIDsCount counts stands strictly before every hit
   of every remaining fraction: it can never be displaced. *)
Theorem C05_ensured_final : forall o p f r S z g x,
  KS o (f :: r) -> In z (firstn (ensured o S (f :: r)) S) -> In g (f :: r) ->
  In x (hit_ids p g) -> before o z x = true.
Proof. exact ensured_final. Qed.
Print Assumptions C05_ensured_final.

(* thm:C05_topk_partition — however the documents fs are split over fractions (arbitrary
   overlaps, duplicates allowed), whichever fractions the range filter keeps (as long as a
   dropped fraction has no hit), in whatever order fractions with equal borders come out of the
   sort, for every chunk size (FractionsPerIteration, 0 = all), both orders and every limit:
   SearchDocs terminates (never out of fuel) and returns exactly the first `limit` IDs of the one
   ordered duplicate-free list of all hits - the answer of ONE fraction holding everything. *)
Theorem C05_topk_partition :
  forall (p : params) (fs : list frac) (keep : frac -> bool) (prepared : list frac) (fpi : nat),
    (forall f, In f fs -> keep f = false -> hit_ids p f = []) ->
    Permutation prepared (filter keep fs) ->
    KS (p_order p) prepared ->
    exists r, search_docs p fpi prepared = Ok r
      /\ q_ids r = spec_ids p fs
      /\ q_ids r = q_ids (frac_search p (p_limit p) (concat fs)).
Proof. exact topk_partition. Qed.
Print Assumptions C05_topk_partition.

(* The hypotheses of C05_topk_partition hold for the code's own FilterInRange + Sort. *)
Theorem C05_topk_partition_prepare : forall p fs fpi,
  exists r, search_docs p fpi (prepare p fs) = Ok r /\ q_ids r = spec_ids p fs.
Proof. exact topk_partition_prepare. Qed.
Print Assumptions C05_topk_partition_prepare.

(* MergeQPRs against its specification (the three clauses of the CMerge spec checker), for any
   number of parts, duplicates inside and across parts, both orders, EVERY limit:
   - the IDs are the first `limit` entries of the canonical list of all IDs;
   - if every part's Total is the length of its own ID list, the merged Total (after the duplicate
     repair) is the number of distinct IDs;
   - if every part's histogram counts exactly its own IDs, the merged histogram (after the repair)
     counts every distinct ID once. *)
Theorem C05_merge_spec : forall dst qs L H o,
  q_ids (merge_qprs dst qs L H o) = firstn L (norm o (all_ids dst qs))
  /\ (Forall (fun q => q_total q = N.of_nat (length (q_ids q))) (dst :: qs) ->
      q_total (merge_qprs dst qs L H o) = N.of_nat (length (norm o (all_ids dst qs))))
  /\ (Forall (fun q => q_hist q = ids_hist H (q_ids q)) (dst :: qs) ->
      q_hist (merge_qprs dst qs L H o) = ids_hist H (norm o (all_ids dst qs))).
Proof. exact merge_spec. Qed.
Print Assumptions C05_merge_spec.

(* calcEnsuredIDsCount against its specification (the CEnsured spec checker). *)
Theorem C05_ensured_spec : forall o ids nf rem,
  ensured o ids [] = length ids
  /\ ensured o ids (nf :: rem) <= length ids
  /\ (forall z, In z (firstn (ensured o ids (nf :: rem)) ids) -> beyond o nf z = true)
  /\ (forall i, nth_error ids (ensured o ids (nf :: rem)) = Some i -> beyond o nf i = false).
Proof. exact ensured_spec. Qed.
Print Assumptions C05_ensured_spec.

(* paginateIDs against its specification (the CPage spec checker). *)
Theorem C05_paginate_spec : forall ids off size,
  fst (paginate ids off size) = firstn size (skipn off ids)
  /\ snd (paginate ids off size) = length (fst (paginate ids off size)).
Proof. exact paginate_spec. Qed.
Print Assumptions C05_paginate_spec.

(* Total and histogram WITHOUT the "no ID stored twice" hypothesis: an ID may be stored in any
   number of fractions. If the limit cuts nothing (limit >= number of stored hits) and no single
   fraction holds the same ID twice, the duplicate repair of MergeQPRs makes Total and histogram
   exactly those of one fraction holding every document ONCE (any `once` with the same hit IDs,
   each one time). Both hypotheses are needed: a duplicate beyond the cut is never seen by the merge
   (C05_dup_beyond_cut_not_repaired below), and a fraction reports an ID it holds twice as one ID
   but two hits. *)
Theorem C05_total_hist_repaired :
  forall (p : params) (fs : list frac) (keep : frac -> bool) (prepared : list frac) (fpi : nat) (r : qpr),
    (forall f, In f fs -> keep f = false -> hit_ids p f = []) ->
    Permutation prepared (filter keep fs) ->
    KS (p_order p) prepared ->
    Forall (fun f => NoDup (hit_ids p f)) fs ->
    length (all_hit_ids p fs) <= p_limit p ->
    search_docs p fpi prepared = Ok r ->
    q_total r = (if p_total p then N.of_nat (length (global_order p fs)) else 0%N)
    /\ q_hist r = ids_hist (p_hist p) (global_order p fs)
    /\ forall once : frac,
         NoDup (hit_ids p once) -> (forall x, In x (hit_ids p once) <-> In x (all_hit_ids p fs)) ->
         q_total r = q_total (frac_search p (p_limit p) once)
         /\ q_hist r = q_hist (frac_search p (p_limit p) once).
Proof. exact total_hist_repaired. Qed.
Print Assumptions C05_total_hist_repaired.

(* All four sums for EVERY limit (cutting or not), scanning request or not: Total, histogram, count
   aggregation and NotExists equal those of the one fraction holding everything when no hit ID is
   stored twice. The hypothesis is what the aggregation truly needs (MergeQPRs never repairs an
   aggregation: C05_aggregation_counts_duplicates below); Total and histogram need it only when
   the limit cuts (otherwise C05_total_hist_repaired applies). *)
Theorem C05_sums_partition :
  forall (p : params) (fs : list frac) (keep : frac -> bool) (prepared : list frac) (fpi : nat) (r : qpr),
    (forall f, In f fs -> keep f = false -> hit_ids p f = []) ->
    Permutation prepared (filter keep fs) ->
    KS (p_order p) prepared ->
    NoDup (all_hit_ids p fs) ->
    search_docs p fpi prepared = Ok r ->
    sums r = sums (frac_search p (p_limit p) (concat fs)).
Proof. exact sums_partition. Qed.
Print Assumptions C05_sums_partition.

(* The same through the proxy: layouts = the fraction layout of the replica that answered for each
   shard (answers = what each of them searched, in any valid order); with no hit ID stored twice
   among them, Total, histogram, aggregation and NotExists are those of ONE fraction holding the
   documents of all shards, asked for offset+size. *)
Theorem C05_proxy_sums :
  forall p off size fpi (layouts answers : list (list frac)) (r : qpr),
    Forall2 (valid_prep p) layouts answers ->
    NoDup (all_hit_ids p (concat layouts)) ->
    proxy_search p off size fpi answers = Ok r ->
    sums r = sums (frac_search (with_limit p (off + size)) (off + size) (concat (concat layouts))).
Proof. exact proxy_sums. Qed.
Print Assumptions C05_proxy_sums.

(* What SearchDocs returns (C05_topk_partition) and every page the proxy returns
   (C05_shards_replicas) is strictly ordered, hence lists every ID once (the strictly_ordered
   clauses of the CSearch / CProxy spec checkers). *)
Theorem C05_listed_once : forall p fs off size,
  SS (p_order p) (spec_ids p fs) /\ NoDup (spec_ids p fs)
  /\ SS (p_order p) (firstn size (skipn off (global_order p fs)))
  /\ NoDup (firstn size (skipn off (global_order p fs))).
Proof. exact listed_once. Qed.
Print Assumptions C05_listed_once.

(* thm:C05_shards_replicas — s shards x r replicas: every shard is answered by ONE of its replicas
   (any of them, each with its own fraction layout, searched in any valid order); if the replicas of
   a shard hold the same hits, the page returned by the proxy is the segment [offset, offset+size)
   of the one global list of the hits of all shards (pick = any choice of one replica per shard),
   and an ID present on several shards, replicas or fractions is listed once. *)
Theorem C05_shards_replicas :
  forall p off size fpi (shards : list (list (list frac))) (answers pick : list (list frac)),
    Forall2 (fun reps prepared => exists layout, In layout reps /\ valid_prep p layout prepared)
            shards answers ->
    Forall (same_hits p) shards ->
    Forall2 (fun reps l => In l reps) shards pick ->
    exists r, proxy_search p off size fpi answers = Ok r
      /\ q_ids r = firstn size (skipn off (global_order p (concat pick)))
      /\ NoDup (q_ids r).
Proof. exact shards_replicas. Qed.
Print Assumptions C05_shards_replicas.

(* thm:C05_paging_tiles — pages tile the one global list: consecutive pages concatenate to the
   bigger page, and a page is the contiguous segment [offset, offset+size) of the list - no gaps,
   no repeats. *)
Theorem C05_paging_tiles : forall G off s s',
  page G off s ++ page G (off + s) s' = page G off (s + s')
  /\ G = firstn off G ++ page G off s ++ skipn (off + s) G.
Proof. exact paging_tiles. Qed.
Print Assumptions C05_paging_tiles.

(* ------------------------------------------------------------------ non-vacuity *)
Open Scope N_scope.
Definition ex_p : params := mkP 0 5000 2%nat Desc true 2 true.
Definition d1 := mkDoc (1003, 1) true 1.
Definition d2 := mkDoc (1001, 0) true 0.
Definition d3 := mkDoc (1002, 5) true 2.
Definition d4 := mkDoc (1003, 0) true 1.
Definition d5 := mkDoc (1000, 7) false 3.
(* two fractions with overlapping ranges and an equal newest border *)
Definition ex_fs : list frac := [[d1; d2]; [d3; d4; d5]].

(* the hypotheses of C05_topk_partition / C05_sums_partition are met and the run is not trivial:
   limit 2 cuts 4 hits, the loop runs twice, the second fraction is searched with a smaller limit *)
Example C05_nonvacuous_partition :
  KS (p_order ex_p) (prepare ex_p ex_fs)
  /\ Permutation (prepare ex_p ex_fs) (filter (intersecting ex_p) ex_fs)
  /\ NoDup (all_hit_ids ex_p ex_fs)
  /\ search_docs ex_p 1 (prepare ex_p ex_fs)
     = Ok (mkQ [(1003, 1); (1003, 0)] 4 [(1000, 1); (1002, 3)] [(0, 1); (1, 2); (2, 1)] 1).
Proof.
  split; [apply prepare_KS|]. split; [apply prepare_perm|]. split.
  - vm_compute. repeat constructor; simpl; intuition discriminate.
  - vm_compute. reflexivity.
Qed.

(* the hypotheses of C05_shards_replicas: 2 shards, the first with two replicas that split the same
   documents differently (the second replica answers), d1 is also stored on the second shard *)
Example C05_nonvacuous_shards :
  let shards := [[ [[d1; d2]; [d3]] ; [[d3; d1]; [d2]] ]; [ [[d4; d1]; [d5]] ]] in
  let answers := [prepare ex_p [[d3; d1]; [d2]]; prepare ex_p [[d4; d1]; [d5]]] in
  let pick := [ [[d1; d2]; [d3]]; [[d4; d1]; [d5]] ] in
  Forall2 (fun reps prepared => exists layout, In layout reps /\ valid_prep ex_p layout prepared) shards answers
  /\ Forall (same_hits ex_p) shards
  /\ Forall2 (fun reps l => In l reps) shards pick
  /\ proxy_search ex_p 1 2 1 answers
     = Ok (mkQ [(1003, 0); (1002, 5)] 4 [(1000, 1); (1002, 3)] [(0, 1); (1, 3); (2, 1)] 1).
Proof.
  intros shards answers pick.
  assert (V : forall layout, valid_prep ex_p layout (prepare ex_p layout)).
  { intros layout. exists (intersecting ex_p). split; [|split].
    - intros f _ H. apply not_intersecting_no_hit; auto.
    - apply prepare_perm.
    - apply prepare_KS. }
  split; [|split; [|split]].
  - constructor; [|constructor; [|constructor]].
    + exists [[d3; d1]; [d2]]. split; [simpl; auto | apply V].
    + exists [[d4; d1]; [d5]]. split; [simpl; auto | apply V].
  - constructor; [|constructor; [|constructor]].
    + intros l1 l2 [<-|[<-|[]]] [<-|[<-|[]]] x; vm_compute; tauto.
    + intros l1 l2 [<-|[]] [<-|[]] x; tauto.
  - constructor; [simpl; auto | constructor; [simpl; auto | constructor]].
  - vm_compute. reflexivity.
Qed.

(* why C05_total_hist_repaired needs "the limit cuts nothing": x is stored in both fractions but
   lies beyond the cut of limit 1, the merge never sees the two copies next to each other:
   Total is 4 although there are 3 distinct hits *)
Example C05_dup_beyond_cut_not_repaired :
  let p := mkP 0 5000 1%nat Desc true 0 false in
  let x := mkDoc (1000, 0) true 0 in
  let fs := [[mkDoc (1003, 1) true 0; x]; [mkDoc (1002, 1) true 0; x]] in
  Forall (fun f => NoDup (hit_ids p f)) fs
  /\ length (global_order p fs) = 3%nat
  /\ exists r, search_docs p 1 (prepare p fs) = Ok r /\ q_total r = 4.
Proof.
  split; [|split].
  - repeat constructor; simpl; intuition discriminate.
  - vm_compute. reflexivity.
  - eexists. split; vm_compute; reflexivity.
Qed.

(* why C05_sums_partition keeps "no hit ID stored twice" for the aggregation: nothing is cut, the
   duplicate is repaired in Total and histogram (1 hit, bucket count 1) but the aggregation
   still counts the document twice *)
Example C05_aggregation_counts_duplicates :
  let p := mkP 0 5000 10%nat Desc true 1 true in
  let x := mkDoc (1000, 0) true 1 in
  search_docs p 0 (prepare p [[x]; [x]]) = Ok (mkQ [(1000, 0)] 1 [(1000, 1)] [(1, 2)] 0).
Proof. vm_compute. reflexivity. Qed.

(* ------------------------------------------------------------------ generated definitions (Gen.v)
   Gen.v is regenerated from the Go sources on every run by harness/cmd/go2coq (spec: props/C05/gen.json).
   The theorems below tie the GENERATED definitions to the hand-written model functions the theorems above
   are about: a change of one of these Go functions changes Gen.v and the corresponding theorem stops
   compiling. *)
From Coq Require Import ZArith.
From VLib Require GoSem.
From C05 Require Import Gen ProofsGen.

(* seq.Less as generated = id_ltb, the order every ordering theorem (C05_topk_union, C05_merge_spec, ...) is about *)
Theorem C05_gen_Less_refines : forall a b : ID, go_seq_Less (zid a) (zid b) = id_ltb a b.
Proof. exact gen_Less_refines. Qed.
Print Assumptions C05_gen_Less_refines.

(* Ingestor.paginateIDs as generated = paginate (C05_paginate_spec, C05_paging_tiles are about it), for every
   tagging of the opaque IDSources; no slice-bounds panic for any non-negative offset and size *)
Theorem C05_gen_paginateIDs_refines : forall (f : ID -> Z) ids off size,
  go_search_Ingestor_paginateIDs (map f ids) (Z.of_nat off) (Z.of_nat size)
  = GoSem.Val (map f (fst (paginate ids off size)), Z.of_nat (snd (paginate ids off size))).
Proof. exact gen_paginateIDs_refines. Qed.
Print Assumptions C05_gen_paginateIDs_refines.

(* C05_paginate_spec directly over the GENERATED paginateIDs *)
Theorem C05_paginate_spec_gen : forall (f : ID -> Z) ids off size,
  exists out n, go_search_Ingestor_paginateIDs (map f ids) (Z.of_nat off) (Z.of_nat size) = GoSem.Val (out, n)
    /\ out = map f (firstn size (skipn off ids)) /\ n = GoSem.len out.
Proof. exact paginate_spec_gen. Qed.
Print Assumptions C05_paginate_spec_gen.

(* non-vacuity *)
Example C05_gen_witness :
  go_search_Ingestor_paginateIDs [10; 11; 12; 13; 14]%Z 1 2 = GoSem.Val ([11; 12]%Z, 2%Z) /\
  go_search_Ingestor_paginateIDs [10; 11]%Z 5 2 = GoSem.Val ([], 0%Z) /\
  go_search_Ingestor_paginateIDs [10; 11]%Z (-1) 2 = GoSem.Panic /\
  go_seq_Less (zid (5, 1)%N) (zid (5, 2)%N) = true.
Proof. vm_compute. repeat split; reflexivity. Qed.

(* ------------------------------------------------------------------ field aggregations (ModelAgg.v)
   sum / min / max / avg ... group by: the mergeable state per bin (Total, NotExists, Sum, Min, Max) *)
From C05 Require Import ModelAgg ProofsAgg ModelDocs ProofsDocs.
Close Scope N_scope.

(* thm:C05_field_aggs_partition — however the documents fs are split over fractions, whichever fractions the
   range filter keeps (a dropped fraction has no hit), in WHATEVER order the kept fractions are searched
   (any permutation: both search orders, any tie order), for every FractionsPerIteration (0 = all): the
   aggregation state SearchDocs accumulates by pairwise merges (SamplesContainer.Merge per bin, NotExists
   included) is exactly the state ONE fraction holding everything computes; never out of fuel. Every stored
   copy of a document counts (MergeQPRs never repairs an aggregation). *)
Theorem C05_field_aggs_partition :
  forall (p : params) (fs : list afrac) (keep : afrac -> bool) (prepared : list afrac) (fpi : nat),
    (forall f, In f fs -> keep f = false -> ahits p f = []) ->
    Permutation prepared (filter keep fs) ->
    search_fagg p fpi prepared = Ok (frac_fagg p (concat fs)).
Proof. exact field_aggs_partition. Qed.
Print Assumptions C05_field_aggs_partition.

(* The same through the proxy: s shards, each answered by one replica with its own fraction layout searched
   in any valid order, the shards' partial results ARRIVING IN ANY ORDER (they are collected from a channel):
   the merged state is the state of one fraction holding the documents of all answering replicas. *)
Theorem C05_field_aggs_shards :
  forall p fpi (layouts answers arrived : list (list afrac)),
    Forall2 (avalid_prep p) layouts answers ->
    Permutation arrived answers ->
    proxy_fagg p fpi arrived = Ok (frac_fagg p (concat (concat layouts))).
Proof. exact field_aggs_shards. Qed.
Print Assumptions C05_field_aggs_shards.

(* What the one-fraction state is, bin by bin (the direct_ok clause of the CAggSearch / CAggProxy spec
   checkers): the bin of group k exists iff some hit has group k; Total = number of its hits with the field,
   NotExists = number of its hits without, Sum / Min / Max over the values (sentinels 2^63 / -2^63 when
   there is none); the aggregation's own NotExists = hits with the field but without a group. *)
Theorem C05_field_aggs_direct : forall p fs k,
  bins_find k (fa_bins (frac_fagg p (concat fs))) = direct_bin k (ahits p (concat fs))
  /\ fa_ne (frac_fagg p (concat fs)) = direct_ne (ahits p (concat fs)).
Proof. exact field_aggs_direct. Qed.
Print Assumptions C05_field_aggs_direct.

(* Why it works: the container of a document list is a homomorphism into (sc, sc_merge) - merging the
   containers of two parts is the container of both parts together, in particular when one of them holds
   only documents WITHOUT the field (Total = 0, NotExists > 0) - and it does not depend on the order of
   the documents. *)
Theorem C05_container_merge_hom : forall a b,
  sc_of (a ++ b) = sc_merge (sc_of a) (sc_of b)
  /\ (forall b', Permutation b b' -> sc_of b = sc_of b').
Proof. intros a b. split; [apply sc_of_app | intros b' P; apply sc_fold_perm, P]. Qed.
Print Assumptions C05_container_merge_hom.

(* thm:C05_shards_replicas, the DOCUMENTS — for every order idx in which searchShard asks the replicas
   of a shard (identity, any permutation drawn by ShuffleReplicas, in fact ANY index list), with any set of
   replicas refusing: every listed ID that was reported by the replica that answered (with the source id
   searchShard returned for it and the name of the fraction holding it as hint) is fetched from THAT
   replica (a host that is up, whose source id the ID carries), from the fraction the hint names, and the
   document delivered is the stored one. Source ids are distinct per host (NewIngestor), fraction names
   distinct per store. *)
Theorem C05_shards_replicas_docs :
  forall p (shards : list (list host)) (idxs : list (list nat)) (page : list ids),
    NoDup (map h_src (concat shards)) ->
    Forall (fun h => NoDup (map nf_name (h_fracs h))) (concat shards) ->
    Forall (answered p shards idxs) page ->
    Forall (fun t => exists h f d,
              In h (concat shards) /\ h_up h = true /\ h_src h = is_src t
              /\ In f (h_fracs h) /\ nf_name f = is_hint t
              /\ In d (nf_docs f) /\ d_id (s_doc d) = is_id t
              /\ fetch_one (concat shards) t = Some (s_body d)) page.
Proof. exact docs_fetched. Qed.
Print Assumptions C05_shards_replicas_docs.

(* ------------------------------------------------------------------ non-vacuity and refuted variants *)
Definition ag_p : params := mkP 0 5000 10 Desc true 0 false.
Definition ag_new : afrac := [mkA (mkDoc (2000%N, 0%N) true 1) None; mkA (mkDoc (2001%N, 0%N) true 1) None;
                              mkA (mkDoc (2002%N, 0%N) true 2) (Some 2%Z)].
Definition ag_old : afrac := [mkA (mkDoc (1000%N, 0%N) true 1) (Some 5%Z); mkA (mkDoc (1001%N, 0%N) true 1) (Some 7%Z);
                              mkA (mkDoc (1002%N, 0%N) true 0) (Some 1%Z); mkA (mkDoc (1003%N, 0%N) false 1) (Some 9%Z)].
Definition ag_out : afrac := [mkA (mkDoc (9000%N, 0%N) true 1) (Some 3%Z)].   (* outside the range: dropped *)

(* hypotheses of C05_field_aggs_partition / _shards are met by a run that is not trivial: the newer
   fraction holds only documents of group 1 WITHOUT the field, the older one documents with it *)
Example C05_nonvacuous_field_aggs :
  let keep := fun f : afrac => match f with mkA (mkDoc (9000%N, _) _ _) _ :: _ => false | _ => true end in
  (forall f, In f [ag_old; ag_out; ag_new] -> keep f = false -> ahits ag_p f = [])
  /\ Permutation [ag_new; ag_old] (filter keep [ag_old; ag_out; ag_new])
  /\ search_fagg ag_p 1 [ag_new; ag_old]
     = Ok (mkFA [(1%N, mkSC 2 2 12 5 7); (2%N, mkSC 1 0 2 2 2)] 1)
  /\ Forall2 (avalid_prep ag_p) [[ag_old; ag_out]; [ag_new]] [[ag_old]; [ag_new]]
  /\ proxy_fagg ag_p 0 [[ag_new]; [ag_old]]
     = Ok (mkFA [(1%N, mkSC 2 2 12 5 7); (2%N, mkSC 1 0 2 2 2)] 1).
Proof.
  intros keep. split; [|split; [|split; [|split]]].
  - intros f [<-|[<-|[<-|[]]]] H; try discriminate H. reflexivity.
  - simpl. apply perm_swap.
  - vm_compute. reflexivity.
  - constructor; [|constructor; [|constructor]].
    + exists keep. split; [|simpl; apply Permutation_refl].
      intros f [<-|[<-|[]]] H; try discriminate H. reflexivity.
    + exists (fun _ => true). split; [intros; discriminate | simpl; apply Permutation_refl].
  - vm_compute. reflexivity.
Qed.

(* The "take the source over when nothing is collected here yet" merge (sc_merge_takeover, NOT the code)
   is refuted by two fractions: the part merged first holds only documents of group 1 without the field;
   its NotExists count is lost, and the result depends on the order of the search. *)
Example C05_field_aggs_takeover_refuted :
  exists (p : params) (f1 f2 : afrac) r12 r21,
    search_fagg_with sc_merge_takeover p 0 [f1; f2] = Ok r12
    /\ search_fagg_with sc_merge_takeover p 0 [f2; f1] = Ok r21
    /\ r12 <> frac_fagg p (concat [f1; f2])
    /\ r21 = frac_fagg p (concat [f1; f2])
    /\ search_fagg p 0 [f1; f2] = Ok (frac_fagg p (concat [f1; f2])).
Proof.
  exists ag_p, [mkA (mkDoc (2000%N, 0%N) true 1) None], [mkA (mkDoc (1000%N, 0%N) true 1) (Some 5%Z)].
  eexists. eexists. split; [vm_compute; reflexivity|]. split; [vm_compute; reflexivity|].
  split; [vm_compute; discriminate|]. split; vm_compute; reflexivity.
Qed.

(* documents: one shard, two replicas holding the same document in fractions of different names;
   ShuffleReplicas asks replica 1 first *)
Definition dc_d : sdoc := mkSD (mkDoc (1000%N, 1%N) true 0) 77%N.
Definition dc_hosts : list host := [mkH 10%N true [mkNF 100%N [dc_d]]; mkH 11%N true [mkNF 200%N [dc_d]]].

Example C05_nonvacuous_docs :
  let page := [mkIS (1000%N, 1%N) 11%N 200%N] in
  NoDup (map h_src (concat [dc_hosts]))
  /\ Forall (fun h => NoDup (map nf_name (h_fracs h))) (concat [dc_hosts])
  /\ Forall (answered ag_p [dc_hosts] [[1%nat; 0%nat]]) page
  /\ map (fetch_one (concat [dc_hosts])) page = [Some 77%N].
Proof.
  intros page. split; [|split; [|split]].
  - simpl. repeat constructor; simpl; intuition discriminate.
  - simpl. repeat constructor; simpl; intuition.
  - constructor; [|constructor]. exists dc_hosts, [1%nat; 0%nat]. eexists. eexists.
    split; [simpl; auto|]. split; [vm_compute; reflexivity|]. split; [reflexivity|]. simpl. auto.
  - vm_compute. reflexivity.
Qed.

(* The variant that attaches the source of hosts[i] instead of hosts[idx[i]] (search_shard_wrong, NOT the
   code) is refuted as soon as the shuffle puts another replica first: the ID is attributed to replica 0
   although replica 1 answered (the hint names replica 1's fraction), and the fetch finds nothing. *)
Example C05_docs_wrong_source_refuted :
  exists h s, search_shard_wrong dc_hosts [1%nat; 0%nat] 0%nat = Some (h, s)
    /\ In ((1000%N, 1%N), 200%N) (host_hits ag_p h)
    /\ s <> h_src h
    /\ fetch_one dc_hosts (mkIS (1000%N, 1%N) s 200%N) = None
    /\ search_shard dc_hosts [1%nat; 0%nat] 0%nat = Some (h, h_src h).
Proof.
  eexists. eexists. split; [vm_compute; reflexivity|]. split; [simpl; auto|].
  split; [vm_compute; discriminate|]. split; vm_compute; reflexivity.
Qed.
