(* C05 — property theorems. This file contains nothing but the statements, each closed by
   `exact <lemma>` from Proofs*.v, with Print Assumptions beneath, and the non-vacuity examples. *)
From Coq Require Import List Permutation NArith.
From C05 Require Import Model ProofsOrder ProofsNorm ProofsSearch Proofs.
Import ListNotations.

(* However the documents fs are split over fractions (arbitrary overlaps, duplicates allowed),
   whichever fractions the range filter keeps (as long as a dropped fraction has no hit), in
   whatever order fractions with equal borders come out of the sort, for every chunk size
   (FractionsPerIteration, 0 = all), both orders and every limit: SearchDocs terminates (never
   out of fuel) and returns exactly the first `limit` IDs of the one ordered duplicate-free list
   of all hits - the answer of ONE fraction holding everything. *)
Theorem C05_topk_partition :
  forall (p : params) (fs : list frac) (keep : frac -> bool) (prepared : list frac) (fpi : nat),
    (forall f, In f fs -> keep f = false -> hit_ids p f = []) ->
    Permutation prepared (filter keep fs) ->
    KS (p_order p) prepared ->
    exists r, search_docs p fpi prepared = Ok r
      /\ q_ids r = spec_ids p fs
      /\ q_ids r = q_ids (frac_search p (p_limit p) (concat fs)).
Proof. exact topk_partition. Qed.
Print Assumptions C05_topk_partition.

(* The hypotheses of C05_topk_partition hold for the code's own FilterInRange + Sort. *)
Theorem C05_topk_partition_prepare : forall p fs fpi,
  exists r, search_docs p fpi (prepare p fs) = Ok r /\ q_ids r = spec_ids p fs.
Proof. exact topk_partition_prepare. Qed.
Print Assumptions C05_topk_partition_prepare.

(* Pages tile the one global list: consecutive pages concatenate to the bigger page, and a page
   is the contiguous segment [offset, offset+size) of the list - no gaps, no repeats. *)
Theorem C05_paging_tiles : forall G off s s',
  page G off s ++ page G (off + s) s' = page G off (s + s')
  /\ G = firstn off G ++ page G off s ++ skipn (off + s) G.
Proof. exact paging_tiles. Qed.
Print Assumptions C05_paging_tiles.
