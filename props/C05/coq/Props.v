From C05 Require Import Model Proofs.
