(* C05 — property theorems. This file contains nothing but the statements, each closed by
   `exact <lemma>` from Proofs*.v, with Print Assumptions beneath, and the non-vacuity examples. *)
From Coq Require Import List Permutation NArith.
From C05 Require Import Model ProofsOrder ProofsNorm ProofsSearch Proofs ProofsProxy ProofsSums.
Import ListNotations.

(* lem:topk_union — the top k of a union of ID multisets (duplicates identified, either order)
   is the top k of the union of the parts' own top k. *)
Theorem C05_topk_union : forall o k x bs,
  topk o k (x ++ concat (map (topk o k) bs)) = topk o k (x ++ concat bs).
Proof. exact topk_union. Qed.
Print Assumptions C05_topk_union.

(* lem:ensured_final — with the remaining fractions sorted by their border (To descending /
   From ascending), every ID that calcEnsuredIDsCount counts stands strictly before every hit
   of every remaining fraction: it can never be displaced. *)
Theorem C05_ensured_final : forall o p f r S z g x,
  KS o (f :: r) -> In z (firstn (ensured o S (f :: r)) S) -> In g (f :: r) ->
  In x (hit_ids p g) -> before o z x = true.
Proof. exact ensured_final. Qed.
Print Assumptions C05_ensured_final.

(* thm:C05_topk_partition — however the documents fs are split over fractions (arbitrary
   overlaps, duplicates allowed), whichever fractions the range filter keeps (as long as a
   dropped fraction has no hit), in whatever order fractions with equal borders come out of the
   sort, for every chunk size (FractionsPerIteration, 0 = all), both orders and every limit:
   SearchDocs terminates (never out of fuel) and returns exactly the first `limit` IDs of the one
   ordered duplicate-free list of all hits - the answer of ONE fraction holding everything. *)
Theorem C05_topk_partition :
  forall (p : params) (fs : list frac) (keep : frac -> bool) (prepared : list frac) (fpi : nat),
    (forall f, In f fs -> keep f = false -> hit_ids p f = []) ->
    Permutation prepared (filter keep fs) ->
    KS (p_order p) prepared ->
    exists r, search_docs p fpi prepared = Ok r
      /\ q_ids r = spec_ids p fs
      /\ q_ids r = q_ids (frac_search p (p_limit p) (concat fs)).
Proof. exact topk_partition. Qed.
Print Assumptions C05_topk_partition.

(* The hypotheses of C05_topk_partition hold for the code's own FilterInRange + Sort. *)
Theorem C05_topk_partition_prepare : forall p fs fpi,
  exists r, search_docs p fpi (prepare p fs) = Ok r /\ q_ids r = spec_ids p fs.
Proof. exact topk_partition_prepare. Qed.
Print Assumptions C05_topk_partition_prepare.

(* Total, histogram, count aggregation and NotExists equal those of the one fraction holding
   everything when no hit ID is stored twice (for every request, scanning or not). *)
Theorem C05_sums_partition :
  forall (p : params) (fs : list frac) (keep : frac -> bool) (prepared : list frac) (fpi : nat) (r : qpr),
    (forall f, In f fs -> keep f = false -> hit_ids p f = []) ->
    Permutation prepared (filter keep fs) ->
    KS (p_order p) prepared ->
    NoDup (all_hit_ids p fs) ->
    search_docs p fpi prepared = Ok r ->
    sums r = sums (frac_search p (p_limit p) (concat fs)).
Proof. exact sums_partition. Qed.
Print Assumptions C05_sums_partition.

(* thm:C05_shards_replicas — s shards x r replicas: every shard is answered by ONE of its replicas
   (any of them, each with its own fraction layout, searched in any valid order); if the replicas of
   a shard hold the same hits, the page returned by the proxy is the segment [offset, offset+size)
   of the one global list of the hits of all shards (pick = any choice of one replica per shard),
   and an ID present on several shards, replicas or fractions is listed once. *)
Theorem C05_shards_replicas :
  forall p off size fpi (shards : list (list (list frac))) (answers pick : list (list frac)),
    Forall2 (fun reps prepared => exists layout, In layout reps /\ valid_prep p layout prepared)
            shards answers ->
    Forall (same_hits p) shards ->
    Forall2 (fun reps l => In l reps) shards pick ->
    exists r, proxy_search p off size fpi answers = Ok r
      /\ q_ids r = firstn size (skipn off (global_order p (concat pick)))
      /\ NoDup (q_ids r).
Proof. exact shards_replicas. Qed.
Print Assumptions C05_shards_replicas.

(* thm:C05_paging_tiles — pages tile the one global list: consecutive pages concatenate to the
   bigger page, and a page is the contiguous segment [offset, offset+size) of the list - no gaps,
   no repeats. *)
Theorem C05_paging_tiles : forall G off s s',
  page G off s ++ page G (off + s) s' = page G off (s + s')
  /\ G = firstn off G ++ page G off s ++ skipn (off + s) G.
Proof. exact paging_tiles. Qed.
Print Assumptions C05_paging_tiles.

(* ------------------------------------------------------------------ non-vacuity *)
Open Scope N_scope.
Definition ex_p : params := mkP 0 5000 2%nat Desc true 2 true.
Definition d1 := mkDoc (1003, 1) true 1.
Definition d2 := mkDoc (1001, 0) true 0.
Definition d3 := mkDoc (1002, 5) true 2.
Definition d4 := mkDoc (1003, 0) true 1.
Definition d5 := mkDoc (1000, 7) false 3.
(* two fractions with overlapping ranges and an equal newest border *)
Definition ex_fs : list frac := [[d1; d2]; [d3; d4; d5]].

(* the hypotheses of C05_topk_partition / C05_sums_partition are met and the run is not trivial:
   limit 2 cuts 4 hits, the loop runs twice, the second fraction is searched with a smaller limit *)
Example C05_nonvacuous_partition :
  KS (p_order ex_p) (prepare ex_p ex_fs)
  /\ Permutation (prepare ex_p ex_fs) (filter (intersecting ex_p) ex_fs)
  /\ NoDup (all_hit_ids ex_p ex_fs)
  /\ search_docs ex_p 1 (prepare ex_p ex_fs)
     = Ok (mkQ [(1003, 1); (1003, 0)] 4 [(1000, 1); (1002, 3)] [(0, 1); (1, 2); (2, 1)] 1).
Proof.
  split; [apply prepare_KS|]. split; [apply prepare_perm|]. split.
  - vm_compute. repeat constructor; simpl; intuition discriminate.
  - vm_compute. reflexivity.
Qed.

(* the hypotheses of C05_shards_replicas: 2 shards, the first with two replicas that split the same
   documents differently (the second replica answers), d1 is also stored on the second shard *)
Example C05_nonvacuous_shards :
  let shards := [[ [[d1; d2]; [d3]] ; [[d3; d1]; [d2]] ]; [ [[d4; d1]; [d5]] ]] in
  let answers := [prepare ex_p [[d3; d1]; [d2]]; prepare ex_p [[d4; d1]; [d5]]] in
  let pick := [ [[d1; d2]; [d3]]; [[d4; d1]; [d5]] ] in
  Forall2 (fun reps prepared => exists layout, In layout reps /\ valid_prep ex_p layout prepared) shards answers
  /\ Forall (same_hits ex_p) shards
  /\ Forall2 (fun reps l => In l reps) shards pick
  /\ proxy_search ex_p 1 2 1 answers
     = Ok (mkQ [(1003, 0); (1002, 5)] 4 [(1000, 1); (1002, 3)] [(0, 1); (1, 3); (2, 1)] 1).
Proof.
  intros shards answers pick.
  assert (V : forall layout, valid_prep ex_p layout (prepare ex_p layout)).
  { intros layout. exists (intersecting ex_p). split; [|split].
    - intros f _ H. apply not_intersecting_no_hit; auto.
    - apply prepare_perm.
    - apply prepare_KS. }
  split; [|split; [|split]].
  - constructor; [|constructor; [|constructor]].
    + exists [[d3; d1]; [d2]]. split; [simpl; auto | apply V].
    + exists [[d4; d1]; [d5]]. split; [simpl; auto | apply V].
  - constructor; [|constructor; [|constructor]].
    + intros l1 l2 [<-|[<-|[]]] [<-|[<-|[]]] x; vm_compute; tauto.
    + intros l1 l2 [<-|[]] [<-|[]] x; tauto.
  - constructor; [simpl; auto | constructor; [simpl; auto | constructor]].
  - vm_compute. reflexivity.
Qed.
