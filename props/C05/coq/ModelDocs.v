(* C05 — executable model of WHICH replica the documents of a page are fetched from. NO proofs.

   Mirrors:
     proxy/search/ingestor.go  NewIngestor (one source id per host), searchShard (tries hosts[idx[i]] for
                               i = 0, 1, ...; idx = identity or util.IdxShuffle), searchHost (the source id
                               of the host that was asked), responseToQPR (every ID of the shard's answer
                               gets that source id, keeps the store's hint), FetchDocsStream /
                               singleDocsStream (IDs grouped by source, fetched from clientBySource[source])
     frac/*_index.go           ApplyHint: an ID is reported with the NAME of the fraction holding it
     fracmanager/fetcher.go    groupIDsByFraction: an ID with a hint is looked up in the fraction of
                               that name only; no such fraction on the store = document not found (empty)

   Abstractions: fraction names, source ids and document bodies are numbers (the driver numbers the real
   ones); which of several equal IDs survives the merge is not modelled (the theorem holds for each). *)
From Coq Require Import List Bool Arith NArith.
From C05 Require Import Model.
Import ListNotations.

Record sdoc := mkSD { s_doc : doc; s_body : N }.                 (* stored document and its body *)
Record nfrac := mkNF { nf_name : N; nf_docs : list sdoc }.       (* fraction with its name (= hint) *)
Record host := mkH { h_src : N; h_up : bool; h_fracs : list nfrac }.
     (* h_src: the source id NewIngestor gave the host; h_up: the host answers search requests *)
Record ids := mkIS { is_id : ID; is_src : N; is_hint : N }.      (* seq.IDSource *)

(* searchShard from loop index i on; sel i j = index (in hosts) of the host whose source id is attached
   to the answer obtained in iteration i from hosts[j] *)
Fixpoint search_shard_with (sel : nat -> nat -> nat) (hosts : list host) (idx : list nat) (i : nat)
  : option (host * N) :=
  match idx with
  | [] => None
  | j :: rest =>
      match nth_error hosts j with
      | None => None
      | Some h =>
          if h_up h
          then match nth_error hosts (sel i j) with Some hs => Some (h, h_src hs) | None => None end
          else search_shard_with sel hosts rest (S i)
      end
  end.
(* the code: searchHost returns si.sourceByClient[host] for host = hosts[idx[i]] *)
Definition search_shard : list host -> list nat -> nat -> option (host * N) :=
  search_shard_with (fun _ j => j).
(* NOT the code: si.sourceByClient[hosts[i]] (refuted by C05_docs_wrong_source_refuted) *)
Definition search_shard_wrong : list host -> list nat -> nat -> option (host * N) :=
  search_shard_with (fun i _ => i).

(* (ID, hint) pairs a store can report for the request *)
Definition frac_hits (p : params) (f : nfrac) : list (ID * N) :=
  map (fun d => (d_id (s_doc d), nf_name f)) (filter (fun d => hit p (s_doc d)) (nf_docs f)).
Definition host_hits (p : params) (h : host) : list (ID * N) := concat (map (frac_hits p) (h_fracs h)).

(* the document the proxy gets for one listed ID: None = empty document (not found) *)
Definition fetch_one (all : list host) (t : ids) : option N :=
  match find (fun h => (h_src h =? is_src t)%N) all with
  | None => None
  | Some h =>
      match find (fun f => (nf_name f =? is_hint t)%N) (h_fracs h) with
      | None => None
      | Some f =>
          match find (fun d => id_eqb (d_id (s_doc d)) (is_id t)) (nf_docs f) with
          | None => None
          | Some d => Some (s_body d)
          end
      end
  end.

(* boolean form of "t was reported by the replica that answered for one of the shards, and carries the
   source id searchShard returned for it" *)
Definition pair_mem (x : ID * N) (l : list (ID * N)) : bool :=
  existsb (fun y => id_eqb (fst x) (fst y) && (snd x =? snd y)%N) l.
Definition answered_b (sel : nat -> nat -> nat) (p : params) (shards : list (list host)) (idxs : list (list nat))
  (t : ids) : bool :=
  existsb (fun hi => match search_shard_with sel (fst hi) (snd hi) 0 with
                     | Some (h, s) => (is_src t =? s)%N && pair_mem (is_id t, is_hint t) (host_hits p h)
                     | None => false
                     end) (combine shards idxs).

(* the stored body of an ID, looked up directly in all documents of all hosts (specification side) *)
Definition stored_body (all : list host) (i : ID) : option N :=
  match find (fun d => id_eqb (d_id (s_doc d)) i) (concat (map nf_docs (concat (map h_fracs all)))) with
  | Some d => Some (s_body d)
  | None => None
  end.
