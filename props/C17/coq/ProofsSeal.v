(* C17 — replay, seal and reload: the first deliveries survive them. *)
From Coq Require Import List Arith NArith Bool Lia.
From VLib Require Import CaseLib.
From C17 Require Import Model ModelSeal CaseDefs ProofsColl ProofsHist ProofsDocs ProofsCross.
Import ListNotations.

(* ------------------------------------------------------------------ replay inside the store *)

(* the bulks a history delivers, in delivery order (a concurrent group in list order) *)
Definition bulks_of (h : list step) : list bulk :=
  flat_map (fun st => match st with SBulk b => [b] | SConc bs => bs | _ => [] end) h.

Definition no_seal (h : list step) : Prop := Forall (fun st => st <> SSeal) h.

Lemma replay_run log : replay log = run_active log.
Proof. reflexivity. Qed.

Lemma run_active_app h1 h2 : run_active (h1 ++ h2) = fold_left process_bulk h2 (run_active h1).
Proof. unfold run_active. apply fold_left_app. Qed.

Lemma fold_first_grows (h : list (list meta)) : forall K,
  length K <= length (fold_left (fun K ms => K ++ first_new K ms) h K).
Proof.
  induction h as [|ms h IH]; intros K; simpl; [lia|].
  etransitivity; [|apply IH]. rewrite app_length. lia.
Qed.

Lemma first_new_nil ms : first_new [] ms = ms.
Proof. unfold first_new. induction ms as [|x r IHr]; simpl; [reflexivity|]. f_equal. exact IHr. Qed.

Lemma first_deliveries_len (b : list (meta * N)) (h : list (list (meta * N))) :
  length b <= length (first_deliveries (map (map fst) (b :: h))).
Proof.
  unfold first_deliveries. simpl. etransitivity; [|apply fold_first_grows].
  simpl. rewrite first_new_nil, map_length. lia.
Qed.

Lemma total_pos h : Forall bulk_wf h -> Forall (fun b : bulk => b <> []) h -> h <> [] ->
  a_total (run_active h) <> 0%N.
Proof.
  intros W NE Hne. pose proof (run_index h (all_wf_ok h W)) as I. rewrite (ii_total _ _ I).
  destruct h as [|b h]; [congruence|]. pose proof (first_deliveries_len b h) as G.
  remember (first_deliveries (map (map fst) (b :: h))) as K eqn:EK. clear EK I.
  inversion NE as [|? ? Hb _]; subst. destruct b as [|p b]; [congruence|].
  destruct K as [|x K]; [simpl in G; inversion G|].
  simpl length. rewrite Nat2N.inj_succ. apply N.neq_succ_0.
Qed.

Lemma fold_append_frac bs : forall a log,
  fold_left append_frac bs (FA a log) = FA (fold_left process_bulk bs a) (log ++ bs).
Proof.
  induction bs as [|b bs IH]; intros a log; simpl; [rewrite app_nil_r; reflexivity|].
  rewrite IH, <- app_assoc. reflexivity.
Qed.

Lemma step_inv cfg L st :
  st <> SSeal -> Forall bulk_wf L -> Forall (fun b : bulk => b <> []) L ->
  do_step2 cfg [FA (run_active L) L] st
  = [FA (run_active (L ++ bulks_of [st])) (L ++ bulks_of [st])].
Proof.
  intros NS W NE. destruct st as [b|bs| |]; simpl.
  - unfold on_last2. simpl. rewrite run_active_app. reflexivity.
  - unfold on_last2. simpl. rewrite fold_append_frac, app_nil_r, run_active_app. reflexivity.
  - congruence.
  - rewrite app_nil_r. unfold restart. simpl. rewrite replay_run.
    destruct (N.eqb (a_total (run_active L)) 0) eqn:E; [|reflexivity].
    apply N.eqb_eq in E. destruct L as [|b L]; [reflexivity|].
    exfalso. apply (total_pos (b :: L) W NE); [discriminate|exact E].
Qed.

Lemma bulks_of_cons st h : bulks_of (st :: h) = bulks_of [st] ++ bulks_of h.
Proof. unfold bulks_of. simpl. rewrite app_nil_r. reflexivity. Qed.

Lemma run_inv cfg h : forall L,
  no_seal h -> Forall bulk_wf (L ++ bulks_of h) -> Forall (fun b : bulk => b <> []) (L ++ bulks_of h) ->
  fold_left (do_step2 cfg) h [FA (run_active L) L]
  = [FA (run_active (L ++ bulks_of h)) (L ++ bulks_of h)].
Proof.
  induction h as [|st h IH]; intros L NS W NE.
  - simpl. rewrite app_nil_r. reflexivity.
  - inversion NS as [|? ? Hst NS']; subst. rewrite bulks_of_cons in W, NE |- *.
    rewrite app_assoc in W, NE. rewrite app_assoc.
    change (fold_left (do_step2 cfg) (st :: h) [FA (run_active L) L])
      with (fold_left (do_step2 cfg) h (do_step2 cfg [FA (run_active L) L] st)).
    rewrite step_inv; try assumption.
    + apply IH; assumption.
    + apply Forall_app in W. destruct W as [W _]. apply Forall_app in W. apply W.
    + apply Forall_app in NE. destruct NE as [NE _]. apply Forall_app in NE. apply NE.
Qed.

(* thm:C17_replay_idempotent *)
Lemma replay_idempotent cfg h :
  no_seal h -> Forall bulk_wf (bulks_of h) -> Forall (fun b : bulk => b <> []) (bulks_of h) ->
  let live := run_active (bulks_of h) in
  run_store2 cfg h = [FA live (bulks_of h)]
  /\ replay (bulks_of h) = live
  /\ let a' := run_active (dedupb (bulks_of h)) in
     a_ids live = a_ids a' /\ (forall t, tok_lids live t = tok_lids a' t) /\
     a_total live = a_total a' /\ a_from live = a_from a' /\ a_to live = a_to a'.
Proof.
  intros NS W NE live. split; [|split].
  - exact (run_inv cfg h [] NS W NE).
  - reflexivity.
  - apply idempotent_wf. exact W.
Qed.

(* thm:C17_replay_of_replay *)
Lemma reload_id s : reload s = s.
Proof. destruct s; reflexivity. Qed.

Lemma rf_idem cfg s : forall r la, restart_fracs cfg s = (r, la) -> restart_fracs cfg r = (r, la).
Proof.
  induction s as [|f s IH]; intros r la E; simpl in E.
  - inversion E; subst. reflexivity.
  - destruct (restart_fracs cfg s) as [r' la'] eqn:Es. specialize (IH r' la' eq_refl).
    destruct f as [a0 log|sd].
    + destruct (N.eqb (a_total (replay log)) 0) eqn:Et.
      * inversion E; subst. exact IH.
      * destruct la' as [x|]; inversion E; subst; simpl; rewrite IH.
        -- rewrite reload_id. reflexivity.
        -- rewrite Et. reflexivity.
    + inversion E; subst. simpl. rewrite IH, reload_id. reflexivity.
Qed.

Lemma rf_snoc_empty cfg s : restart_fracs cfg (s ++ [FA active_empty []]) = restart_fracs cfg s.
Proof.
  induction s as [|f s IH]; simpl; [reflexivity|]. rewrite IH. reflexivity.
Qed.

Lemma restart_idem cfg s : restart cfg (restart cfg s) = restart cfg s.
Proof.
  unfold restart. destruct (restart_fracs cfg s) as [r la] eqn:E.
  pose proof (rf_idem cfg s r la E) as E'. destruct la as [x|].
  - rewrite E'. reflexivity.
  - rewrite rf_snoc_empty, E'. reflexivity.
Qed.

(* ------------------------------------------------------------------ seal: a function of the observables *)

Lemma tok_in_map (f : list nat -> list nat) m t : f [] = [] ->
  tok_lids_in (map (fun p : N * list nat => (fst p, f (snd p))) m) t = f (tok_lids_in m t).
Proof.
  intros F. induction m as [|[k q] m IH]; simpl; [symmetry; exact F|].
  destruct (N.eqb t k); [reflexivity|exact IH].
Qed.

Lemma stok_seal cfg a t :
  stok_lids (seal cfg a) t = map (new_lid (all_lids a)) (get_lids (a_ids a) (tok_lids a t)).
Proof.
  unfold stok_lids, seal, tok_lids. simpl.
  apply (tok_in_map (fun q => map (new_lid (all_lids a)) (get_lids (a_ids a) q))). reflexivity.
Qed.

Lemma write_sorted_ext bs ft ft' : (forall i, ft i = ft' i) -> forall ids prev st,
  write_sorted bs ft prev ids st = write_sorted bs ft' prev ids st.
Proof.
  intros E. induction ids as [|i r IH]; intros prev st; simpl; [reflexivity|].
  destruct (id_eqb i prev); [apply IH|]. rewrite <- E. destruct (ft i); [|apply IH].
  destruct (write_doc bs st n) as [st' p]. rewrite IH. reflexivity.
Qed.

Lemma seal_ext cfg a a' :
  a_ids a = a_ids a' -> (forall t, tok_lids a t = tok_lids a' t) ->
  a_total a = a_total a' -> a_from a = a_from a' -> a_to a = a_to a' ->
  (forall i, fetch a i = fetch a' i) ->
  let s := seal cfg a in let s' := seal cfg a' in
  s_ids s = s_ids s' /\ (forall t, stok_lids s t = stok_lids s' t) /\
  s_total s = s_total s' /\ s_from s = s_from s' /\ s_to s = s_to s' /\
  (sc_skipsort cfg = false -> s_pos s = s_pos s' /\ s_blocks s = s_blocks s').
Proof.
  intros Ei Et Etot Ef Eto Efe s s'.
  assert (Ea : all_lids a = all_lids a') by (unfold all_lids; rewrite Ei, Et; reflexivity).
  assert (Es : sealed_ids a = sealed_ids a').
  { unfold sealed_ids, lid_id. rewrite Ei, Ea. reflexivity. }
  split; [exact Es|]. split.
  { intros t. unfold s, s'. rewrite !stok_seal, Ea, Ei, Et. reflexivity. }
  split; [exact Etot|]. split; [exact Ef|]. split; [exact Eto|].
  intros Sk. assert (Ed : sealed_docs cfg a = sealed_docs cfg a').
  { unfold sealed_docs. rewrite Sk, Es. rewrite (write_sorted_ext _ _ _ Efe). reflexivity. }
  unfold s, s', seal. cbn [s_pos s_blocks]. rewrite Es, Ed. split; reflexivity.
Qed.

(* every meta carries the all-token (the proxy adds `_all_` to every document and nested meta) *)
Definition has_all (h : list bulk) : Prop :=
  Forall (fun b : bulk => Forall (fun p : meta * N => In tok_all (m_toks (fst p))) b) h.

(* thm:C17_seal_preserves, part 1: sealed form of the history = sealed form of the repeat-free history *)
Lemma seal_preserves_eq cfg h : Forall bulk_wf h ->
  let s := seal cfg (run_active h) in let s' := seal cfg (run_active (dedupb h)) in
  s_ids s = s_ids s' /\ (forall t, stok_lids s t = stok_lids s' t) /\
  s_total s = s_total s' /\ s_from s = s_from s' /\ s_to s = s_to s' /\
  (sc_skipsort cfg = false -> s_pos s = s_pos s' /\ s_blocks s = s_blocks s') /\
  s_total s = N.of_nat (length (first_deliveries (map (map fst) h))).
Proof.
  intros W s s'. destruct (idempotent_wf h W) as (Ei & Et & Etot & Ef & Eto).
  assert (Efe : forall i, fetch (run_active h) i = fetch (run_active (dedupb h)) i).
  { intros i. rewrite (run_fetch h W), (run_fetch (dedupb h) (dedupb_wf h [] W)).
    unfold dedupb. rewrite (first_body h [] W i). reflexivity. }
  destruct (seal_ext cfg _ _ Ei Et Etot Ef Eto Efe) as (A & B & C & D & E & F).
  repeat (split; [assumption|]).
  unfold s, seal. simpl. apply (ii_total _ _ (run_index h (all_wf_ok h W))).
Qed.

(* ------------------------------------------------------------------ membership in the sorted postings *)

Lemma in_insert_lid ids x y l : In x (insert_lid ids y l) <-> x = y \/ In x l.
Proof.
  induction l as [|z l IH]; simpl; [intuition|].
  destruct (lid_before ids z y); simpl; [rewrite IH|]; intuition.
Qed.

Lemma in_sort_lids ids x l : In x (sort_lids ids l) <-> In x l.
Proof.
  induction l as [|y l IH]; simpl; [tauto|]. rewrite in_insert_lid, IH. intuition.
Qed.

Lemma dedup_nat_cons2 x y r :
  dedup_adj_nat (x :: y :: r) = if Nat.eqb x y then dedup_adj_nat (y :: r) else x :: dedup_adj_nat (y :: r).
Proof. reflexivity. Qed.

Lemma in_dedup_nat x l : In x (dedup_adj_nat l) <-> In x l.
Proof.
  induction l as [|a l IH]; [simpl; tauto|]. destruct l as [|b r]; [simpl; tauto|].
  rewrite dedup_nat_cons2. destruct (Nat.eqb a b) eqn:E.
  - apply Nat.eqb_eq in E; subst. rewrite IH. simpl. intuition.
  - simpl In at 1. rewrite IH. simpl. intuition.
Qed.

Lemma in_get_lids ids x q : In x (get_lids ids q) <-> In x q.
Proof. unfold get_lids. rewrite in_dedup_nat, in_sort_lids. tauto. Qed.

Lemma postings_range t docs : forall first l, In l (postings t first docs) -> first <= l < first + length docs.
Proof.
  induction docs as [|d docs IH]; intros first l H; simpl in H; [tauto|].
  apply in_app_or in H. destruct H as [H|H].
  - apply repeat_spec in H. subst. simpl. lia.
  - apply IH in H. simpl. lia.
Qed.

Lemma count_tok_in t l : In t l -> count_tok t l <> 0.
Proof.
  induction l as [|x l IH]; simpl; [tauto|]. intros [->|H].
  - rewrite N.eqb_refl. lia.
  - specialize (IH H). lia.
Qed.

Lemma postings_all t docs : (forall d, In d docs -> In t d) -> forall first l,
  first <= l < first + length docs -> In l (postings t first docs).
Proof.
  induction docs as [|d docs IH]; intros A first l H; simpl in *; [lia|].
  apply in_or_app. destruct (Nat.eq_dec l first) as [->|Ne].
  - left. pose proof (count_tok_in t d (A d (or_introl eq_refl))) as C.
    destruct (count_tok t d); [congruence|]. left. reflexivity.
  - right. apply IH; [intros; apply A; right; assumption|lia].
Qed.

(* ------------------------------------------------------------------ the docs writer *)

Definition blocks_of (st : wstate) : list (list (N * N)) := fst (fst st) ++ [snd (fst st)].
Definition wst_ok (st : wstate) : Prop := Forall (fun e : N * N => (fst e < snd st)%N) (snd (fst st)).
Definition readable (bl : list (list (N * N))) (p : pos) (b : N) : Prop :=
  lookup_off (snd p) (nth (fst p) bl []) = Some b.

Lemma lookup_off_app l1 l2 o b : lookup_off o l1 = Some b -> lookup_off o (l1 ++ l2) = Some b.
Proof.
  induction l1 as [|[k v] l1 IH]; simpl; [discriminate|]. destruct (N.eqb o k); [tauto|exact IH].
Qed.

Lemma lookup_off_new cur len b : Forall (fun e : N * N => (fst e < len)%N) cur ->
  lookup_off len (cur ++ [(len, b)]) = Some b.
Proof.
  induction cur as [|[k v] cur IH]; intros F; simpl; [rewrite N.eqb_refl; reflexivity|].
  inversion F as [|? ? Hk F']; subst. simpl in Hk.
  destruct (N.eqb len k) eqn:E; [apply N.eqb_eq in E; lia|]. apply IH, F'.
Qed.

Lemma write_doc_spec bs st b st' p : write_doc bs st b = (st', p) -> wst_ok st ->
  wst_ok st' /\ readable (blocks_of st') p b /\
  (forall q c, fst q <= length (fst (fst st)) -> readable (blocks_of st) q c -> readable (blocks_of st') q c) /\
  length (fst (fst st)) <= length (fst (fst st')) /\ fst p <= length (fst (fst st')).
Proof.
  destruct st as [[done cur] len]. unfold write_doc, wst_ok, readable, blocks_of. simpl.
  intros E Ok. destruct (N.ltb bs (len + 4 + body_len b)) eqn:Lt; inversion E; subst; clear E; simpl.
  - split; [constructor|]. split.
    { rewrite <- app_assoc. simpl. rewrite app_nth2 by lia. rewrite Nat.sub_diag. simpl.
      apply lookup_off_new, Ok. }
    split.
    { intros [qb qo] c Hq R. simpl in *. rewrite <- app_assoc. simpl.
      destruct (Nat.eq_dec qb (length done)) as [->|Ne].
      - rewrite app_nth2 in R |- * by lia. rewrite Nat.sub_diag in *. simpl in *.
        apply lookup_off_app, R.
      - rewrite app_nth1 in R |- * by lia. exact R. }
    rewrite app_length. simpl. lia.
  - split.
    { apply Forall_app. split.
      - eapply Forall_impl; [|exact Ok]. intros e He. simpl in *. lia.
      - constructor; [simpl; lia|constructor]. }
    split.
    { rewrite app_nth2 by lia. rewrite Nat.sub_diag. simpl. apply lookup_off_new, Ok. }
    split.
    { intros [qb qo] c Hq R. simpl in *.
      destruct (Nat.eq_dec qb (length done)) as [->|Ne].
      - rewrite app_nth2 in R |- * by lia. rewrite Nat.sub_diag in *. simpl in *.
        apply lookup_off_app, R.
      - rewrite app_nth1 in R |- * by lia. exact R. }
    lia.
Qed.

Lemma write_sorted_spec bs ft : forall ids prev st st' m,
  write_sorted bs ft prev ids st = (st', m) -> wst_ok st ->
  wst_ok st' /\ length (fst (fst st)) <= length (fst (fst st')) /\
  (forall q c, fst q <= length (fst (fst st)) -> readable (blocks_of st) q c -> readable (blocks_of st') q c) /\
  (forall i p, In (i, p) m -> exists b, ft i = Some b /\ readable (blocks_of st') p b) /\
  (forall i, In i ids -> ft i <> None -> In i (map fst m) \/ i = prev).
Proof.
  induction ids as [|x r IH]; intros prev st st' m E Ok; simpl in E.
  - inversion E; subst. repeat split; try tauto; try lia. intros i p [].
  - destruct (id_eqb x prev) eqn:Ex.
    + apply id_eqb_eq in Ex. subst x. destruct (IH _ _ _ _ E Ok) as (A & B & C & D & F).
      repeat split; try assumption. intros i [->|Hi] Hn; [right; reflexivity|apply F; assumption].
    + destruct (ft x) as [b|] eqn:Ef.
      * destruct (write_doc bs st b) as [st1 p] eqn:Ew.
        destruct (write_sorted bs ft x r st1) as [st2 m'] eqn:Er. inversion E; subst; clear E.
        destruct (write_doc_spec _ _ _ _ _ Ew Ok) as (Ok1 & R1 & S1 & L1 & P1).
        destruct (IH _ _ _ _ Er Ok1) as (A & B & C & D & F).
        split; [exact A|]. split; [lia|]. split.
        { intros q c Hq R. apply C; [lia|]. apply S1; assumption. }
        split.
        { intros i p0 [H|H].
          - inversion H; subst. exists b. split; [exact Ef|]. apply C; assumption.
          - apply D, H. }
        intros i [->|Hi] Hn; [left; left; reflexivity|].
        destruct (F i Hi Hn) as [H| ->]; [left; right; exact H|left; left; reflexivity].
      * destruct (IH _ _ _ _ E Ok) as (A & B & C & D & F).
        repeat split; try assumption. intros i [->|Hi] Hn; [congruence|].
        destruct (F i Hi Hn) as [H| ->]; [left; exact H|congruence].
Qed.

Lemma finish_nth st blk : nth blk (finish_blocks st) [] = nth blk (blocks_of st) [].
Proof.
  destruct st as [[done cur] len]. unfold finish_blocks, blocks_of. simpl.
  destruct cur; [|reflexivity].
  destruct (Nat.lt_ge_cases blk (length done)).
  - rewrite app_nth1 by assumption. reflexivity.
  - rewrite nth_overflow by assumption. rewrite app_nth2 by assumption.
    destruct (blk - length done) as [|[|k]]; reflexivity.
Qed.

Lemma lookup_pos_in i m p : lookup_pos i m = Some p -> In (i, p) m.
Proof.
  induction m as [|[k q] m IH]; simpl; [discriminate|]. destruct (id_eqb i k) eqn:E.
  - apply id_eqb_eq in E. intros H; inversion H; subst. left. reflexivity.
  - intros H. right. apply IH, H.
Qed.

Lemma lookup_pos_none i m : lookup_pos i m = None -> ~ In i (map fst m).
Proof.
  induction m as [|[k q] m IH]; simpl; [tauto|]. destruct (id_eqb i k) eqn:E; [discriminate|].
  apply id_eqb_false in E. intros H [Hk|Hm]; [congruence|]. apply (IH H Hm).
Qed.

(* the position map and blocks of the sealed form answer like the active fraction *)
Definition fetch_in (posm : list (id * pos)) (blocks : list (list (N * N))) (i : id) : option N :=
  match lookup_pos i posm with
  | None => None
  | Some (blk, off) => lookup_off off (nth blk blocks [])
  end.

Lemma sealed_docs_fetch cfg a i :
  In i (tl (sealed_ids a)) -> i <> (0, 0)%N ->
  fetch_in (fst (sealed_docs cfg a)) (snd (sealed_docs cfg a)) i = fetch a i.
Proof.
  intros Hi Nz. unfold sealed_docs. destruct (sc_skipsort cfg); [reflexivity|].
  destruct (write_sorted (sc_bs cfg) (fetch a) (0, 0)%N (tl (sealed_ids a)) ([], [], 0%N)) as [st m] eqn:E.
  simpl. assert (Ok : wst_ok ([], [], 0%N)) by constructor.
  destruct (write_sorted_spec _ _ _ _ _ _ _ E Ok) as (_ & _ & _ & D & F).
  unfold fetch_in. destruct (lookup_pos i m) as [[blk off]|] eqn:El.
  - apply lookup_pos_in in El. destruct (D _ _ El) as (b & Eb & R).
    rewrite finish_nth. rewrite Eb. exact R.
  - destruct (fetch a i) eqn:Ef; [|reflexivity]. exfalso.
    destruct (F i Hi) as [H|H]; [congruence| |congruence].
    apply (lookup_pos_none _ _ El H).
Qed.

Lemma find_from_some ids i : forall k l, find_lid_from k ids i = Some l ->
  k <= l /\ l - k < length ids /\ nth (l - k) ids sys_id = i.
Proof.
  induction ids as [|x r IH]; intros k l H; simpl in H; [discriminate|].
  destruct (id_eqb i x) eqn:E.
  - inversion H; subst. apply id_eqb_eq in E. subst. rewrite Nat.sub_diag. simpl. repeat split; lia.
  - destruct (IH _ _ H) as (A & B & C). replace (l - k) with (S (l - S k)) by lia. simpl. repeat split; try lia. exact C.
Qed.

Lemma find_from_none ids i : forall k, find_lid_from k ids i = None -> ~ In i ids.
Proof.
  induction ids as [|x r IH]; intros k H; simpl in *; [tauto|].
  destruct (id_eqb i x) eqn:E; [discriminate|]. apply id_eqb_false in E.
  intros [Hx|Hr]; [congruence|]. apply (IH _ H Hr).
Qed.

Lemma sealed_fetch_in cfg a i : i <> (0, 0)%N ->
  sealed_fetch (seal cfg a) i =
  match find_lid (seal cfg a) i with None => None | Some _ => fetch a i end.
Proof.
  intros Nz. unfold sealed_fetch. destruct (find_lid (seal cfg a) i) as [l|] eqn:Ef; [|reflexivity].
  unfold find_lid in Ef. simpl in Ef. destruct (find_from_some _ _ _ _ Ef) as (A & B & C).
  assert (Hin : In i (tl (sealed_ids a))) by (rewrite <- C; apply nth_In; exact B).
  assert (Hl : nth l (sealed_ids a) sys_id = i).
  { unfold sealed_ids in *. simpl in *. destruct l as [|l]; [lia|]. simpl.
    replace (S l - 1) with l in C by lia. exact C. }
  assert (Hlen : l < length (sealed_ids a)).
  { unfold sealed_ids in *. simpl in *. lia. }
  unfold seal. cbn [s_pos s_blocks].
  rewrite (nth_indep _ None (lookup_pos sys_id (fst (sealed_docs cfg a)))) by (rewrite map_length; exact Hlen).
  rewrite (map_nth (fun i => lookup_pos i (fst (sealed_docs cfg a)))). rewrite Hl.
  apply (sealed_docs_fetch cfg a i Hin Nz).
Qed.

(* every first delivery is a meta of the history, hence carries the all-token *)
Lemma first_all (hh : list (list meta)) : forall K0,
  (forall m, In m K0 -> In tok_all (m_toks m)) ->
  Forall (Forall (fun m => In tok_all (m_toks m))) hh ->
  forall m, In m (fold_left (fun K ms => K ++ first_new K ms) hh K0) -> In tok_all (m_toks m).
Proof.
  induction hh as [|ms hh IHh]; intros K0 H0 Fh m0 Hm0; simpl in Hm0; [apply H0, Hm0|].
  inversion Fh as [|? ? Fm Fh']; subst. apply (IHh (K0 ++ first_new K0 ms)); try assumption.
  intros m1 H1. apply in_app_or in H1. destruct H1 as [H1|H1]; [apply H0, H1|].
  unfold first_new in H1. apply filter_In in H1. destruct H1 as [H1 _].
  rewrite Forall_forall in Fm. apply Fm, H1.
Qed.

(* thm:C17_sealed_fetch_first_delivery *)
Lemma sealed_fetch_first cfg h : Forall bulk_wf h -> has_all h -> forall i, i <> (0, 0)%N ->
  sealed_fetch (seal cfg (run_active h)) i = ref_fetch1 (concat h) i.
Proof.
  intros W HA i Nz. rewrite <- (run_fetch h W i). rewrite (sealed_fetch_in cfg _ i Nz).
  destruct (find_lid (seal cfg (run_active h)) i) eqn:Ef; [reflexivity|].
  unfold find_lid in Ef. simpl in Ef. apply find_from_none in Ef.
  pose proof (run_index h (all_wf_ok h W)) as I. set (a := run_active h) in *.
  set (K := first_deliveries (map (map fst) h)) in *.
  unfold fetch. destruct (lookup_pos i (a_posm a)) eqn:El; [|reflexivity]. exfalso.
  assert (Hk : In i (map m_id K)) by (apply (ii_keys _ _ I); congruence).
  apply Ef. unfold sealed_ids. simpl. apply in_or_app. left.
  apply In_nth with (d := sys_id) in Hk. destruct Hk as (n & Hn & En). rewrite map_length in Hn.
  apply in_map_iff. exists (S n). split.
  - unfold lid_id. rewrite (ii_ids _ _ I). simpl. exact En.
  - unfold all_lids. apply in_get_lids. rewrite (ii_tok _ _ I). apply postings_all.
    + intros d Hd. apply in_map_iff in Hd. destruct Hd as (m & <- & Hm).
      apply (first_all (map (map fst) h) []); [intros ? []| |exact Hm].
      clear -HA. induction HA as [|b hh Hb _ IH]; simpl; constructor; [|exact IH].
      rewrite Forall_forall in *. intros m0 Hm0. apply in_map_iff in Hm0. destruct Hm0 as (p & <- & Hp).
      apply Hb, Hp.
    + rewrite map_length. fold K. lia.
Qed.

(* ------------------------------------------------------------------ all forms *)

Lemma has_all_dedupb h : forall K, has_all h -> has_all (dedupb_from K h).
Proof.
  induction h as [|b h IH]; intros K HA; simpl; [constructor|].
  inversion HA as [|? ? Hb HA']; subst. constructor; [|apply IH, HA'].
  rewrite Forall_forall in *. intros p Hp. apply filter_In in Hp. apply Hb, Hp.
Qed.

(* thm:C17_idempotent_all_forms (partial: see Props.v) *)
Lemma all_forms cfg h : Forall bulk_wf h -> has_all h ->
  let a := run_active h in let a' := run_active (dedupb h) in
  let s := seal cfg a in let s' := seal cfg a' in
  replay h = a /\
  (a_total a = a_total a' /\ s_total s = a_total a /\ s_total (reload s) = a_total a /\ s_total s' = a_total a) /\
  (a_from a = a_from a' /\ s_from s = a_from a /\ s_from (reload s) = a_from a /\ s_from s' = a_from a) /\
  (a_to a = a_to a' /\ s_to s = a_to a /\ s_to (reload s) = a_to a /\ s_to s' = a_to a) /\
  (forall i, i <> (0, 0)%N ->
     fetch a i = ref_fetch1 (concat h) i /\ fetch a' i = ref_fetch1 (concat h) i /\
     sealed_fetch s i = ref_fetch1 (concat h) i /\ sealed_fetch (reload s) i = ref_fetch1 (concat h) i /\
     sealed_fetch s' i = ref_fetch1 (concat h) i) /\
  (forall iv gt t,
     search_frac iv gt a t = search_frac iv gt a' t /\
     search_frac iv gt (sealed_view s) t = search_frac iv gt (sealed_view s') t /\
     search_frac iv gt (sealed_view (reload s)) t = search_frac iv gt (sealed_view s) t).
Proof.
  intros W HA a a' s s'.
  destruct (idempotent_wf h W) as (Ei & Et & Etot & Ef & Eto).
  destruct (seal_preserves_eq cfg h W) as (Si & St & Stot & Sf & Sto & _ & _).
  fold a in Ei, Et, Etot, Ef, Eto. fold a' in Ei, Et, Etot, Ef, Eto. fold a a' s s' in Si, St, Stot, Sf, Sto.
  split; [reflexivity|].
  split; [repeat split; try assumption; try reflexivity; rewrite <- Stot; reflexivity|].
  split; [repeat split; try assumption; try reflexivity; rewrite <- Sf; reflexivity|].
  split; [repeat split; try assumption; try reflexivity; rewrite <- Sto; reflexivity|].
  split.
  - intros i Nz.
    assert (W' : Forall bulk_wf (dedupb h)) by (apply dedupb_wf, W).
    assert (HA' : has_all (dedupb h)) by (apply has_all_dedupb, HA).
    assert (Ed : ref_fetch1 (concat (dedupb h)) i = ref_fetch1 (concat h) i)
      by (unfold dedupb; rewrite (first_body h [] W i); reflexivity).
    split; [apply run_fetch, W|]. split; [unfold a'; rewrite (run_fetch _ W'); exact Ed|].
    split; [apply sealed_fetch_first; assumption|].
    split; [rewrite reload_id; apply sealed_fetch_first; assumption|].
    unfold s', a'. rewrite (sealed_fetch_first cfg _ W' HA' i Nz). exact Ed.
  - intros iv gt t. split; [apply search_frac_ext; assumption|]. split.
    + apply search_frac_ext; [exact Si|]. intros t0. apply St.
    + rewrite reload_id. reflexivity.
Qed.
