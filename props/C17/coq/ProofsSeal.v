(* C17 — replay, seal and reload: the first deliveries survive them. *)
From Coq Require Import List Arith NArith Bool Lia.
From VLib Require Import CaseLib.
From C17 Require Import Model ModelSeal CaseDefs ProofsColl ProofsHist ProofsDocs ProofsCross.
Import ListNotations.

(* ------------------------------------------------------------------ replay inside the store *)

(* the bulks a history delivers, in delivery order (a concurrent group in list order) *)
Definition bulks_of (h : list step) : list bulk :=
  flat_map (fun st => match st with SBulk b => [b] | SConc bs => bs | _ => [] end) h.

Definition no_seal (h : list step) : Prop := Forall (fun st => st <> SSeal) h.

Lemma replay_run log : replay log = run_active log.
Proof. reflexivity. Qed.

Lemma run_active_app h1 h2 : run_active (h1 ++ h2) = fold_left process_bulk h2 (run_active h1).
Proof. unfold run_active. apply fold_left_app. Qed.

Lemma fold_first_grows (h : list (list meta)) : forall K,
  length K <= length (fold_left (fun K ms => K ++ first_new K ms) h K).
Proof.
  induction h as [|ms h IH]; intros K; simpl; [lia|].
  etransitivity; [|apply IH]. rewrite app_length. lia.
Qed.

Lemma first_new_nil ms : first_new [] ms = ms.
Proof. unfold first_new. induction ms as [|x r IHr]; simpl; [reflexivity|]. f_equal. exact IHr. Qed.

Lemma first_deliveries_len (b : bulk) (h : list bulk) :
  length b <= length (first_deliveries (map (map fst) (b :: h))).
Proof.
  unfold first_deliveries. simpl. etransitivity; [|apply fold_first_grows].
  simpl. rewrite first_new_nil, map_length. lia.
Qed.

Lemma total_pos h : Forall bulk_wf h -> Forall (fun b : bulk => b <> []) h -> h <> [] ->
  a_total (run_active h) <> 0%N.
Proof.
  intros W NE Hne. pose proof (run_index h (all_wf_ok h W)) as I. rewrite (ii_total _ _ I).
  destruct h as [|b h]; [congruence|]. pose proof (first_deliveries_len b h) as G.
  remember (first_deliveries (map (map fst) (b :: h))) as K eqn:EK. clear EK I.
  inversion NE as [|? ? Hb _]; subst. destruct b as [|p b]; [congruence|].
  destruct K as [|x K]; simpl in G; [lia|].
  simpl length. rewrite Nat2N.inj_succ. apply N.neq_succ_0.
Qed.

Lemma fold_append_frac bs : forall a log,
  fold_left append_frac bs (FA a log) = FA (fold_left process_bulk bs a) (log ++ bs).
Proof.
  induction bs as [|b bs IH]; intros a log; simpl; [rewrite app_nil_r; reflexivity|].
  rewrite IH, <- app_assoc. reflexivity.
Qed.

Lemma step_inv cfg L st :
  st <> SSeal -> Forall bulk_wf L -> Forall (fun b : bulk => b <> []) L ->
  do_step2 cfg [FA (run_active L) L] st
  = [FA (run_active (L ++ bulks_of [st])) (L ++ bulks_of [st])].
Proof.
  intros NS W NE. destruct st as [b|bs| |]; simpl.
  - unfold on_last2. simpl. rewrite run_active_app. reflexivity.
  - unfold on_last2. simpl. rewrite fold_append_frac, app_nil_r, run_active_app. reflexivity.
  - congruence.
  - rewrite app_nil_r. unfold restart. simpl. rewrite replay_run.
    destruct (N.eqb (a_total (run_active L)) 0) eqn:E; [|reflexivity].
    apply N.eqb_eq in E. destruct L as [|b L]; [reflexivity|].
    exfalso. apply (total_pos (b :: L) W NE); [discriminate|exact E].
Qed.

Lemma bulks_of_cons st h : bulks_of (st :: h) = bulks_of [st] ++ bulks_of h.
Proof. unfold bulks_of. simpl. rewrite app_nil_r. reflexivity. Qed.

Lemma run_inv cfg h : forall L,
  no_seal h -> Forall bulk_wf (L ++ bulks_of h) -> Forall (fun b : bulk => b <> []) (L ++ bulks_of h) ->
  fold_left (do_step2 cfg) h [FA (run_active L) L]
  = [FA (run_active (L ++ bulks_of h)) (L ++ bulks_of h)].
Proof.
  induction h as [|st h IH]; intros L NS W NE; simpl; [rewrite app_nil_r; reflexivity|].
  inversion NS as [|? ? Hst NS']; subst. rewrite bulks_of_cons in *. rewrite app_assoc in W, NE.
  rewrite step_inv; try assumption.
  - rewrite IH; try assumption. rewrite <- !app_assoc. reflexivity.
  - apply Forall_app in W. destruct W as [W _]. apply Forall_app in W. apply W.
  - apply Forall_app in NE. destruct NE as [NE _]. apply Forall_app in NE. apply NE.
Qed.

(* thm:C17_replay_idempotent *)
Lemma replay_idempotent cfg h :
  no_seal h -> Forall bulk_wf (bulks_of h) -> Forall (fun b : bulk => b <> []) (bulks_of h) ->
  let live := run_active (bulks_of h) in
  run_store2 cfg h = [FA live (bulks_of h)]
  /\ replay (bulks_of h) = live
  /\ let a' := run_active (dedupb (bulks_of h)) in
     a_ids live = a_ids a' /\ (forall t, tok_lids live t = tok_lids a' t) /\
     a_total live = a_total a' /\ a_from live = a_from a' /\ a_to live = a_to a'.
Proof.
  intros NS W NE live. split; [|split].
  - unfold run_store2, store2_empty. change active_empty with (run_active []).
    rewrite (run_inv cfg h [] NS W NE). reflexivity.
  - reflexivity.
  - apply idempotent_wf. exact W.
Qed.

(* thm:C17_replay_of_replay *)
Lemma reload_id s : reload s = s.
Proof. destruct s; reflexivity. Qed.

Lemma rf_idem cfg s : forall r la, restart_fracs cfg s = (r, la) -> restart_fracs cfg r = (r, la).
Proof.
  induction s as [|f s IH]; intros r la E; simpl in E.
  - inversion E; subst. reflexivity.
  - destruct (restart_fracs cfg s) as [r' la'] eqn:Es. specialize (IH r' la' eq_refl).
    destruct f as [a0 log|sd].
    + destruct (N.eqb (a_total (replay log)) 0) eqn:Et.
      * inversion E; subst. exact IH.
      * destruct la' as [x|]; inversion E; subst; simpl; rewrite IH.
        -- rewrite reload_id. reflexivity.
        -- rewrite Et. reflexivity.
    + inversion E; subst. simpl. rewrite IH, reload_id. reflexivity.
Qed.

Lemma rf_snoc_empty cfg s : restart_fracs cfg (s ++ [FA active_empty []]) = restart_fracs cfg s.
Proof.
  induction s as [|f s IH]; simpl; [reflexivity|]. rewrite IH. reflexivity.
Qed.

Lemma restart_idem cfg s : restart cfg (restart cfg s) = restart cfg s.
Proof.
  unfold restart. destruct (restart_fracs cfg s) as [r la] eqn:E.
  pose proof (rf_idem cfg s r la E) as E'. destruct la as [x|].
  - rewrite E'. reflexivity.
  - rewrite rf_snoc_empty, E'. reflexivity.
Qed.
