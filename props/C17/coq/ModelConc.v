(* C17 — executable model of CONCURRENT index workers on one active fraction
   (frac/active_indexer.go:appendWorker run by several goroutines, frac/active_docs_positions.go,
   frac/active.go:AppendIDs/UpdateStats, frac/active_lids.go:PutLIDsInQueue).

   Every worker owns a queue of bulks (what it will receive from the indexer's channel; any dynamic
   hand-out of the channel is one such assignment) and advances in ATOMIC steps, each step being
   one critical section of the real code:

     take      DocBlocks.Append(task.Pos) (lock of DocBlocks) -> block index; the collector is then
               filled locally (Init + AppendMeta*: no shared state)
     set       DocsPositions.SetMultiple: ONE step under the write lock — lookup AND store of every
               ID of the bulk; then Filter locally when something was rejected
     ids       Active.AppendIDs (locks of MIDs and RIDs held together) -> LIDs; GroupLIDsByToken locally
     put       PutLIDsInQueue of ONE token (queueMu of that token); one step per token of the bulk,
               the all-token last (addLIDsToTokens)
     stats     Active.UpdateStats (infoMu)

   A schedule is a list of worker numbers; [conc_run] executes it. The shared state is the [active]
   record of Model.v; besides it the configuration keeps two traces that the code does not have
   but that are functions of values it computes: the log of SetMultiple calls in the order of
   their critical sections, each with the IDs it returned, and the metas that received LIDs in
   LID order. No proofs in this file. *)
From Coq Require Import List Arith NArith Bool.
From C17 Require Import Model.
Import ListNotations.

Definition cbulk := list (meta * N).

Definition tok_all_c : N := 0.   (* the `_all_:` token of the harness token table *)

(* addLIDsToTokens: every token of the bulk with its group of LIDs, the all-token last *)
Definition todo_of (c : coll) (lids : list nat) : list (N * list nat) :=
  let pairs := combine (c_tvals c) (group_lids c lids) in
  filter (fun p => negb (N.eqb (fst p) tok_all_c)) pairs ++ filter (fun p => N.eqb (fst p) tok_all_c) pairs.

Inductive wstate :=
| WIdle                                                   (* waiting for the next task *)
| WColl (b : cbulk) (c : coll)                            (* block index taken, collector filled *)
| WFilt (km : list meta) (c : coll)                       (* after SetMultiple [+ Filter]; km = the metas whose ID was returned *)
| WToks (km : list meta) (c : coll) (todo : list (N * list nat)).   (* after AppendIDs: groups still to be queued *)

Definition worker := (wstate * list cbulk)%type.

Record conc := mkConc {
  cc_a : active;                        (* the shared fraction *)
  cc_ws : list worker;
  cc_log : list (cbulk * list id);      (* SetMultiple calls in lock order: bulk, returned IDs *)
  cc_tab : list meta                    (* metas in LID order (LID 1 first) *)
}.

Definition accepted_metas (ms : list meta) (acc : list id) : list meta :=
  filter (fun m => mem_id (m_id m) acc) ms.

(* what appendWorker does with the IDs SetMultiple returned *)
Definition after_set (b : cbulk) (c : coll) (acc : list id) : wstate :=
  WFilt (accepted_metas (map fst b) acc)
        (if Nat.eqb (length acc) (length (c_ids c)) then c else filter_coll c acc).

Definition set_posm (a : active) (m : list (id * pos)) : active :=
  mkActive m (a_ids a) (a_tok a) (a_blocks a) (a_total a) (a_from a) (a_to a).

(* one atomic step of a worker: new shared state, new worker state, log entry, metas that got LIDs *)
Definition wstep (a : active) (w : worker) : active * worker * list (cbulk * list id) * list meta :=
  match w with
  | (WIdle, []) => (a, w, [], [])
  | (WIdle, b :: q) =>
      (mkActive (a_posm a) (a_ids a) (a_tok a) (a_blocks a ++ [layout_from 0 b]) (a_total a) (a_from a) (a_to a),
       (WColl b (collect (length (a_blocks a)) (map fst b)), q), [], [])
  | (WColl b c, q) =>
      let r := set_multiple (a_posm a) (c_ids c) (c_pos c) in
      (set_posm a (fst r), (after_set b c (snd r), q), [(b, snd r)], [])
  | (WFilt km c, q) =>
      let lids := seq (length (a_ids a)) (length (c_ids c)) in
      (mkActive (a_posm a) (a_ids a ++ c_ids c) (a_tok a) (a_blocks a) (a_total a) (a_from a) (a_to a),
       (WToks km c (todo_of c lids), q), [], km)
  | (WToks km c ((t, g) :: todo), q) =>
      (mkActive (a_posm a) (a_ids a) (put_lids (a_tok a) t g) (a_blocks a) (a_total a) (a_from a) (a_to a),
       (WToks km c todo, q), [], [])
  | (WToks km c [], q) =>
      (mkActive (a_posm a) (a_ids a) (a_tok a) (a_blocks a)
                (a_total a + c_docs c) (N.min (a_from a) (c_min c)) (N.max (a_to a) (c_max c)),
       (WIdle, q), [], [])
  end.

Fixpoint upd {A} (i : nat) (x : A) (l : list A) : list A :=
  match l, i with
  | [], _ => []
  | _ :: r, O => x :: r
  | y :: r, S j => y :: upd j x r
  end.

(* worker i makes its next step (a number without a worker: nothing happens) *)
Definition cstep (s : conc) (i : nat) : conc :=
  match nth_error (cc_ws s) i with
  | None => s
  | Some w =>
      match wstep (cc_a s) w with
      | (a, w', lg, tb) => mkConc a (upd i w' (cc_ws s)) (cc_log s ++ lg) (cc_tab s ++ tb)
      end
  end.

Definition conc_run (sched : list nat) (s : conc) : conc := fold_left cstep sched s.
Definition conc_init (qs : list (list cbulk)) : conc :=
  mkConc active_empty (map (fun q => (WIdle, q)) qs) [] [].

Definition wdone (w : worker) : bool :=
  match w with (WIdle, []) => true | _ => false end.
Definition all_done (s : conc) : bool := forallb wdone (cc_ws s).

(* the order of the deliveries as their SetMultiple critical sections ran *)
Definition sigma (s : conc) : list cbulk := map fst (cc_log s).

(* ------------------------------------------------------------------ the split variant (refuted) *)

(* SetMultiple cut in two critical sections: the lookup under the READ lock collects the IDs to
   return with their positions, the store under the WRITE lock writes them without looking again *)
Fixpoint sm_lookup (m : list (id * pos)) (ids : list id) (ps : list pos) : list (id * pos) :=
  match ids, ps with
  | i :: ids', p :: ps' =>
      match lookup_pos i m with
      | None => (i, p) :: sm_lookup m ids' ps'
      | Some q => if pos_eqb q p then (i, p) :: sm_lookup m ids' ps' else sm_lookup m ids' ps'
      end
  | _, _ => []
  end.
Definition sm_store (m : list (id * pos)) (acc : list (id * pos)) : list (id * pos) :=
  fold_left (fun m ip => ip :: m) acc m.   (* positions[id] = pos: the newest entry is found first *)

Inductive swstate :=
| SBase (w : wstate)
| SLook (b : cbulk) (c : coll) (acc : list (id * pos)).   (* between the two critical sections *)

Definition sworker := (swstate * list cbulk)%type.

Record sconc := mkSConc { sc_a : active; sc_ws : list sworker; sc_log : list (cbulk * list id) }.

Definition swstep (a : active) (w : sworker) : active * sworker * list (cbulk * list id) :=
  match w with
  | (SBase (WColl b c), q) => (a, (SLook b c (sm_lookup (a_posm a) (c_ids c) (c_pos c)), q), [])
  | (SLook b c acc, q) =>
      (set_posm a (sm_store (a_posm a) acc), (SBase (after_set b c (map fst acc)), q), [(b, map fst acc)])
  | (SBase st, q) =>
      match wstep a (st, q) with (a', (st', q'), lg, _) => (a', (SBase st', q'), lg) end
  end.

Definition scstep (s : sconc) (i : nat) : sconc :=
  match nth_error (sc_ws s) i with
  | None => s
  | Some w =>
      match swstep (sc_a s) w with
      | (a, w', lg) => mkSConc a (upd i w' (sc_ws s)) (sc_log s ++ lg)
      end
  end.
Definition sconc_run (sched : list nat) (s : sconc) : sconc := fold_left scstep sched s.
Definition sconc_init (qs : list (list cbulk)) : sconc :=
  mkSConc active_empty (map (fun q => (SBase WIdle, q)) qs) [].
Definition swdone (w : sworker) : bool :=
  match w with (SBase WIdle, []) => true | _ => false end.
