(* C17 — the sealed form against the active form: the sorted postings are a duplicate-free
   permutation, the old->new LID map is injective on the listed LIDs, histograms do not depend on
   the order of the matched LIDs; hence every single-token search observable agrees. *)
From Coq Require Import List Arith NArith Bool Lia Permutation Sorting.Sorted.
From VLib Require Import CaseLib.
From C17 Require Import Model ModelSeal CaseDefs ProofsColl ProofsHist ProofsDocs ProofsCross ProofsSeal.
Import ListNotations.

(* ------------------------------------------------------------------ the order of GetLIDs *)

(* x is listed strictly before y: greater ID, or the same ID and the greater LID *)
Definition lgt (ids : list id) (x y : nat) : Prop :=
  let ix := nth x ids sys_id in let iy := nth y ids sys_id in
  (fst iy < fst ix)%N \/ (fst iy = fst ix /\ (snd iy < snd ix)%N)
  \/ (fst iy = fst ix /\ snd iy = snd ix /\ y < x).

Lemma lid_before_lgt ids x y : lid_before ids x y = true <-> lgt ids x y.
Proof.
  unfold lid_before, lgt. cbv zeta. destruct (id_eqb (nth x ids sys_id) (nth y ids sys_id)) eqn:E.
  - apply id_eqb_eq in E. rewrite E. rewrite Nat.ltb_lt. lia.
  - apply id_eqb_false in E. rewrite id_ltb_lt. unfold id_lt. split; [lia|].
    intros [H|[H|(H1 & H2 & _)]]; [lia|lia|]. exfalso. apply E. apply id_eq_components; congruence.
Qed.

Lemma lid_before_nlgt ids x y : lid_before ids x y = false <-> ~ lgt ids x y.
Proof. rewrite <- lid_before_lgt. destruct (lid_before ids x y); split; congruence. Qed.

Definition lge (ids : list id) (x y : nat) : Prop := ~ lgt ids y x.   (* x is not after y *)

Lemma insert_lid_sorted ids x l : StronglySorted (lge ids) l -> StronglySorted (lge ids) (insert_lid ids x l).
Proof.
  induction l as [|y l IH]; simpl; intros S; [repeat constructor|].
  inversion S; subst. destruct (lid_before ids y x) eqn:E.
  - constructor; [apply IH; assumption|]. apply Forall_forall. intros z Hz. apply in_insert_lid in Hz.
    destruct Hz as [->|Hz].
    + apply lid_before_lgt in E. unfold lge, lgt in *. cbv zeta in *. lia.
    + rewrite Forall_forall in H2. apply H2, Hz.
  - constructor; [assumption|]. apply lid_before_nlgt in E. constructor; [exact E|].
    apply Forall_forall. intros z Hz. rewrite Forall_forall in H2. specialize (H2 z Hz).
    unfold lge, lgt in *. cbv zeta in *. lia.
Qed.

Lemma sort_lids_sorted ids l : StronglySorted (lge ids) (sort_lids ids l).
Proof. induction l; simpl; [constructor|apply insert_lid_sorted; assumption]. Qed.

Lemma dedup_nat_sorted ids l : StronglySorted (lge ids) l -> StronglySorted (lgt ids) (dedup_adj_nat l).
Proof.
  induction l as [|a l IH]; intros S; [constructor|]. destruct l as [|b r]; [repeat constructor|].
  inversion S; subst. specialize (IH H1). rewrite dedup_nat_cons2. destruct (Nat.eqb a b) eqn:E; [exact IH|].
  constructor; [exact IH|]. apply Forall_forall. intros z Hz. apply (proj1 (in_dedup_nat _ _)) in Hz.
  apply Nat.eqb_neq in E. inversion H2; subst.
  assert (Hab : lgt ids a b) by (unfold lge, lgt in *; cbv zeta in *; lia).
  simpl in Hz. destruct Hz as [<-|Hz]; [exact Hab|].
  inversion H1; subst. rewrite Forall_forall in H6. specialize (H6 z Hz).
  unfold lge, lgt in *. cbv zeta in *. lia.
Qed.

Lemma sorted_lgt_nodup ids l : StronglySorted (lgt ids) l -> NoDup l.
Proof.
  induction l as [|a l IH]; intros S; [constructor|]. inversion S; subst. constructor; [|auto].
  intros Hin. rewrite Forall_forall in H2. specialize (H2 a Hin). unfold lgt in H2. cbv zeta in H2. lia.
Qed.

Lemma get_lids_nodup ids q : NoDup (get_lids ids q).
Proof. apply (sorted_lgt_nodup ids), dedup_nat_sorted, sort_lids_sorted. Qed.

(* ------------------------------------------------------------------ nodup_nat *)

Lemma mem_nat_In x l : mem_nat x l = true <-> In x l.
Proof.
  unfold mem_nat. rewrite existsb_exists. split.
  - intros (y & Hy & E). apply Nat.eqb_eq in E. subst. exact Hy.
  - intros H. exists x. split; [exact H|apply Nat.eqb_refl].
Qed.

Lemma in_nodup_nat x l : In x (nodup_nat l) <-> In x l.
Proof.
  induction l as [|y l IH]; simpl; [tauto|]. destruct (mem_nat y l) eqn:E.
  - rewrite IH. apply mem_nat_In in E. split; [tauto|]. intros [->|H]; assumption.
  - simpl. rewrite IH. tauto.
Qed.

Lemma nodup_nat_nodup l : NoDup (nodup_nat l).
Proof.
  induction l as [|y l IH]; simpl; [constructor|]. destruct (mem_nat y l) eqn:E; [exact IH|].
  constructor; [|exact IH]. rewrite in_nodup_nat. intros H. apply mem_nat_In in H. congruence.
Qed.

(* thm: sort_lids (+ adjacent removal) is a permutation of the duplicate-free postings *)
Lemma get_lids_perm ids q : Permutation (get_lids ids q) (nodup_nat q).
Proof.
  apply NoDup_Permutation; [apply get_lids_nodup|apply nodup_nat_nodup|].
  intros x. rewrite in_get_lids, in_nodup_nat. tauto.
Qed.

(* ------------------------------------------------------------------ new_lid *)

Lemma index_nat_spec x l : forall i, index_nat x l = Some i -> i < length l /\ nth i l 0 = x.
Proof.
  induction l as [|y l IH]; intros i H; simpl in H; [discriminate|].
  destruct (Nat.eqb x y) eqn:E.
  - inversion H; subst. apply Nat.eqb_eq in E. subst. simpl. split; [lia|reflexivity].
  - destruct (index_nat x l) as [j|]; simpl in H; [|discriminate]. inversion H; subst.
    destruct (IH j eq_refl). simpl. split; [lia|assumption].
Qed.

Lemma index_nat_in x l : In x l -> index_nat x l <> None.
Proof.
  induction l as [|y l IH]; simpl; [tauto|]. intros H. destruct (Nat.eqb x y) eqn:E; [discriminate|].
  apply Nat.eqb_neq in E. destruct H as [H|H]; [congruence|]. specialize (IH H).
  destruct (index_nat x l); simpl; congruence.
Qed.

(* thm: new_lid is injective on the listed LIDs, and never 0 there *)
Lemma new_lid_inj alls x y : In x alls -> In y alls -> new_lid alls x = new_lid alls y -> x = y.
Proof.
  unfold new_lid. intros Hx Hy. pose proof (index_nat_in x alls Hx). pose proof (index_nat_in y alls Hy).
  destruct (index_nat x alls) as [i|] eqn:Ei; [|congruence].
  destruct (index_nat y alls) as [j|] eqn:Ej; [|congruence].
  intros E. inversion E; subst. apply index_nat_spec in Ei. apply index_nat_spec in Ej.
  destruct Ei as [_ <-]. destruct Ej as [_ <-]. reflexivity.
Qed.

Lemma new_lid_nth a x : In x (all_lids a) ->
  nth (new_lid (all_lids a) x) (sealed_ids a) sys_id = lid_id a x.
Proof.
  intros Hx. unfold new_lid. pose proof (index_nat_in x _ Hx).
  destruct (index_nat x (all_lids a)) as [i|] eqn:Ei; [|congruence].
  apply index_nat_spec in Ei. destruct Ei as [Li Ni]. unfold sealed_ids. simpl.
  rewrite app_nth1 by (rewrite map_length; exact Li).
  rewrite (nth_indep _ sys_id (lid_id a 0)) by (rewrite map_length; exact Li).
  rewrite map_nth, Ni. reflexivity.
Qed.

Lemma mem_nat_map_inj (f : nat -> nat) (S : list nat) x G :
  (forall u v, In u S -> In v S -> f u = f v -> u = v) -> In x S -> incl G S ->
  mem_nat (f x) (map f G) = mem_nat x G.
Proof.
  intros Inj Hx HG. destruct (mem_nat x G) eqn:E.
  - apply mem_nat_In. apply in_map. apply mem_nat_In. exact E.
  - destruct (mem_nat (f x) (map f G)) eqn:E'; [|reflexivity].
    apply mem_nat_In in E'. apply in_map_iff in E'. destruct E' as (y & Ey & Hy).
    assert (y = x) by (apply Inj; auto). subst. apply mem_nat_In in Hy. congruence.
Qed.

(* ------------------------------------------------------------------ sort_desc of a permutation *)

Lemma insert_desc_perm x l : Permutation (insert_desc x l) (x :: l).
Proof.
  induction l as [|y l IH]; simpl; [reflexivity|]. destruct (id_ltb x y); [|reflexivity].
  rewrite IH. apply perm_swap.
Qed.

Lemma sort_desc_perm l : Permutation (sort_desc l) l.
Proof. induction l as [|x l IH]; simpl; [constructor|]. rewrite insert_desc_perm, IH. reflexivity. Qed.

Lemma sorted_ge_unique l1 : forall l2, StronglySorted id_ge l1 -> StronglySorted id_ge l2 ->
  Permutation l1 l2 -> l1 = l2.
Proof.
  induction l1 as [|a r1 IH]; intros l2 S1 S2 P.
  - apply Permutation_nil in P. subst. reflexivity.
  - destruct l2 as [|b r2]; [symmetry in P; apply Permutation_nil in P; discriminate|].
    inversion S1; subst. inversion S2; subst. rewrite Forall_forall in H2, H4.
    assert (a = b).
    { assert (Ha : In a (b :: r2)) by (apply (Permutation_in _ P); left; reflexivity).
      assert (Hb : In b (a :: r1)) by (apply (Permutation_in _ (Permutation_sym P)); left; reflexivity).
      destruct Ha as [Ha|Ha]; [congruence|]. destruct Hb as [Hb|Hb]; [congruence|].
      specialize (H2 b Hb). specialize (H4 a Ha). unfold id_ge in *.
      apply id_ltb_ge in H2. apply id_ltb_ge in H4. unfold id_lt in *.
      apply id_eq_components; lia. }
    subst. f_equal. apply IH; try assumption. apply (Permutation_cons_inv P).
Qed.

Lemma sort_desc_of_perm l1 l2 : Permutation l1 l2 -> sort_desc l1 = sort_desc l2.
Proof.
  intros P. apply sorted_ge_unique; try apply sort_sorted.
  rewrite sort_desc_perm, P. symmetry. apply sort_desc_perm.
Qed.

(* ------------------------------------------------------------------ hist_add commutes *)

Definition hsorted (h : list (N * N)) : Prop := StronglySorted (fun p q : N * N => (fst p < fst q)%N) h.

Lemma hist_add_keys b h p : In p (hist_add b h) -> fst p = b \/ In (fst p) (map fst h).
Proof.
  induction h as [|[k c] h IH]; simpl; [intros [<-|[]]; left; reflexivity|].
  destruct (N.eqb_spec b k).
  - intros [<-|H]; [right; left; reflexivity|right; right; apply in_map; exact H].
  - destruct (N.ltb b k).
    + intros [<-|[<-|H]]; [left; reflexivity|right; left; reflexivity|right; right; apply in_map; exact H].
    + intros [<-|H]; [right; left; reflexivity|]. destruct (IH H); [left; assumption|right; right; assumption].
Qed.

Lemma hist_add_sorted b h : hsorted h -> hsorted (hist_add b h).
Proof.
  unfold hsorted. induction h as [|[k c] h IH]; simpl; intros S; [repeat constructor|].
  inversion S; subst. rewrite Forall_forall in H2. destruct (N.eqb_spec b k).
  - constructor; [assumption|]. apply Forall_forall. exact H2.
  - destruct (N.ltb_spec b k).
    + constructor; [exact S|]. constructor; [simpl; lia|]. apply Forall_forall. intros q Hq.
      specialize (H2 q Hq). simpl in *. lia.
    + constructor; [apply IH; assumption|]. apply Forall_forall. intros q Hq.
      apply hist_add_keys in Hq. destruct Hq as [Hq|Hq]; [simpl; lia|].
      apply in_map_iff in Hq. destruct Hq as (q' & E & Hq'). specialize (H2 q' Hq'). simpl in *. lia.
Qed.

Lemma hist_add_comm b1 b2 h : hsorted h -> hist_add b1 (hist_add b2 h) = hist_add b2 (hist_add b1 h).
Proof.
  unfold hsorted. induction h as [|[k c] h IH]; intros S.
  - simpl. destruct (N.eqb_spec b1 b2), (N.eqb_spec b2 b1), (N.ltb_spec b1 b2), (N.ltb_spec b2 b1);
      subst; try lia; try reflexivity.
  - inversion S; subst. specialize (IH H1). simpl.
    destruct (N.eqb_spec b2 k), (N.eqb_spec b1 k); subst; simpl;
      repeat match goal with
             | |- context [N.eqb ?x ?y] => destruct (N.eqb_spec x y); subst; simpl
             | |- context [N.ltb ?x ?y] => destruct (N.ltb_spec x y); simpl
             end; try lia; try reflexivity; try (f_equal; exact IH).
Qed.

Definition hist_of (iv : N) (ids : list id) : list (N * N) :=
  fold_right (fun i h => hist_add (bucket iv i) h) [] ids.

Lemma hist_of_sorted iv ids : hsorted (hist_of iv ids).
Proof. induction ids; simpl; [constructor|apply hist_add_sorted; assumption]. Qed.

Lemma hist_of_perm iv l1 l2 : Permutation l1 l2 -> hist_of iv l1 = hist_of iv l2.
Proof.
  induction 1; simpl.
  - reflexivity.
  - f_equal. assumption.
  - apply hist_add_comm, hist_of_sorted.
  - congruence.
Qed.

(* ------------------------------------------------------------------ filters over permutations *)

Lemma filter_perm_length {A} (p : A -> bool) l1 l2 : Permutation l1 l2 ->
  length (filter p l1) = length (filter p l2).
Proof.
  induction 1; simpl; try congruence.
  - destruct (p x); simpl; congruence.
  - destruct (p x), (p y); reflexivity.
Qed.

Lemma filter_map_length {A B} (f : A -> B) (p : B -> bool) l :
  length (filter p (map f l)) = length (filter (fun x => p (f x)) l).
Proof. induction l as [|x l IH]; simpl; [reflexivity|]. destruct (p (f x)); simpl; congruence. Qed.

Lemma filter_ext_in_length {A} (p q : A -> bool) l : (forall x, In x l -> p x = q x) ->
  length (filter p l) = length (filter q l).
Proof. intros E. rewrite (filter_ext_in _ _ _ E). reflexivity. Qed.

(* ------------------------------------------------------------------ reachable states: the all-token lists every LID *)

Lemma map_nth_seq {A} (l : list A) d : map (fun i => nth i l d) (seq 0 (length l)) = l.
Proof.
  induction l as [|x l IH] using rev_ind; [reflexivity|].
  rewrite app_length. simpl. rewrite Nat.add_1_r, seq_S, map_app. simpl.
  rewrite app_nth2, Nat.sub_diag by lia. simpl. f_equal.
  rewrite <- IH at 2. apply map_ext_in. intros i Hi. apply in_seq in Hi. rewrite app_nth1 by lia. reflexivity.
Qed.

Section Reach.
Variables (a : active) (K : list meta).
Hypothesis I : index_is a K.
Hypothesis HK : forall m, In m K -> In tok_all (m_toks m).

Lemma all_lids_in l : In l (all_lids a) <-> 1 <= l <= length K.
Proof.
  unfold all_lids. rewrite in_get_lids, (ii_tok _ _ I). split.
  - intros H. apply postings_range in H. rewrite map_length in H. lia.
  - intros H. apply postings_all; [|rewrite map_length; lia].
    intros d Hd. apply in_map_iff in Hd. destruct Hd as (m & <- & Hm). apply HK, Hm.
Qed.

Lemma tok_sub t l : In l (tok_lids a t) -> In l (all_lids a).
Proof.
  intros H. apply all_lids_in. rewrite (ii_tok _ _ I) in H. apply postings_range in H.
  rewrite map_length in H. lia.
Qed.

(* thm:C17_seal_lists_each_id_once *)
Lemma all_lids_perm : Permutation (all_lids a) (seq 1 (length K)).
Proof.
  apply NoDup_Permutation; [apply get_lids_nodup|apply seq_NoDup|].
  intros x. rewrite all_lids_in, in_seq. lia.
Qed.

Lemma sealed_ids_perm : Permutation (tl (sealed_ids a)) (map m_id K) /\ hd sys_id (sealed_ids a) = sys_id.
Proof.
  split; [|reflexivity]. unfold sealed_ids. simpl.
  rewrite (Permutation_length all_lids_perm), seq_length, (ii_ids _ _ I). simpl. rewrite map_length.
  replace (length K - 0 - length K) with 0 by lia. simpl. rewrite app_nil_r.
  rewrite (Permutation_map (lid_id a) all_lids_perm).
  replace (map (lid_id a) (seq 1 (length K))) with (map m_id K); [reflexivity|].
  unfold lid_id. rewrite (ii_ids _ _ I). rewrite <- seq_shift, map_map. simpl.
  rewrite <- (map_length m_id K). symmetry. apply map_nth_seq.
Qed.

(* ---------- single-token search: sealed form = active form *)

Notation G t := (get_lids (a_ids a) (tok_lids a t)).
Notation U t := (nodup_nat (tok_lids a t)).
Notation nl := (new_lid (all_lids a)).

Lemma G_sub t : incl (G t) (all_lids a).
Proof. intros x Hx. apply in_get_lids in Hx. apply (tok_sub t), Hx. Qed.

Lemma mem_nat_ext x l1 l2 : (forall y, In y l1 <-> In y l2) -> mem_nat x l1 = mem_nat x l2.
Proof.
  intros E. destruct (mem_nat x l1) eqn:E1, (mem_nat x l2) eqn:E2; try reflexivity.
  - apply mem_nat_In in E1. apply E in E1. apply mem_nat_In in E1. congruence.
  - apply mem_nat_In in E2. apply E in E2. apply mem_nat_In in E2. congruence.
Qed.

Lemma memG g x : In x (all_lids a) -> mem_nat (nl x) (map nl (G g)) = mem_nat x (U g).
Proof.
  intros Hx. rewrite (mem_nat_map_inj nl (all_lids a) x (G g)); [|apply new_lid_inj|exact Hx|apply G_sub].
  apply mem_nat_ext. intros y. rewrite in_get_lids, in_nodup_nat. tauto.
Qed.

Lemma uniq_tok_lids t : tok_lids (uniq_tok a) t = U t.
Proof. unfold tok_lids, uniq_tok. simpl. apply (tok_in_map nodup_nat). reflexivity. Qed.

Lemma sealed_view_lids cfg t : tok_lids (sealed_view (seal cfg a)) t = map nl (G t).
Proof. exact (stok_seal cfg a t). Qed.

Lemma sealed_ids_of cfg t :
  map (lid_id (sealed_view (seal cfg a))) (map nl (G t)) = map (lid_id a) (G t).
Proof.
  rewrite map_map. apply map_ext_in. intros x Hx. unfold lid_id at 1. simpl.
  apply new_lid_nth. apply (G_sub t), Hx.
Qed.

Lemma search_forms cfg iv gt t :
  search_frac iv gt (sealed_view (seal cfg a)) t = search_frac iv gt (uniq_tok a) t.
Proof.
  unfold search_frac. rewrite sealed_view_lids, uniq_tok_lids, sealed_ids_of.
  assert (P : Permutation (G t) (U t)) by apply get_lids_perm.
  assert (Pi : Permutation (map (lid_id a) (G t)) (map (lid_id (uniq_tok a)) (U t)))
    by (apply (Permutation_map (lid_id a)), P).
  f_equal.
  - f_equal. apply sort_desc_of_perm, Pi.
  - rewrite map_length, (Permutation_length P). reflexivity.
  - apply (hist_of_perm iv), Pi.
  - f_equal. apply map_ext. intros g. f_equal. f_equal.
    rewrite sealed_view_lids, uniq_tok_lids, filter_map_length.
    rewrite (filter_ext_in_length _ (fun x => mem_nat x (U g)) (G t)).
    + apply filter_perm_length, P.
    + intros x Hx. apply memG. apply (G_sub t), Hx.
  - f_equal. rewrite filter_map_length.
    rewrite (filter_ext_in_length _ (fun l => negb (existsb (fun g => mem_nat l (tok_lids (uniq_tok a) g)) gt)) (G t)).
    + apply filter_perm_length, P.
    + intros x Hx. f_equal. induction gt as [|g gt' IHg]; simpl; [reflexivity|].
      rewrite IHg, sealed_view_lids, uniq_tok_lids. f_equal. apply memG. apply (G_sub t), Hx.
Qed.

End Reach.

(* ------------------------------------------------------------------ for every history *)

Lemma has_all_first h : has_all h ->
  forall m, In m (first_deliveries (map (map fst) h)) -> In tok_all (m_toks m).
Proof.
  intros HA m Hm. apply (first_all (map (map fst) h) []); [intros ? []| |exact Hm].
  clear -HA. induction HA as [|b hh Hb _ IH]; simpl; constructor; [|exact IH].
  rewrite Forall_forall in *. intros m0 Hm0. apply in_map_iff in Hm0. destruct Hm0 as (p & <- & Hp).
  apply Hb, Hp.
Qed.

(* thm:C17_seal_lists_each_id_once *)
Lemma seal_lists_once cfg h : Forall bulk_wf h -> has_all h ->
  let s := seal cfg (run_active h) in
  hd sys_id (s_ids s) = sys_id /\
  Permutation (tl (s_ids s)) (map m_id (first_deliveries (map (map fst) h))).
Proof.
  intros W HA s. destruct (sealed_ids_perm _ _ (run_index h (all_wf_ok h W)) (has_all_first h HA)) as [P H].
  split; [exact H|exact P].
Qed.

Lemma uniq_search_ext iv gt a a' t :
  a_ids a = a_ids a' -> (forall t, tok_lids a t = tok_lids a' t) ->
  search_frac iv gt (uniq_tok a) t = search_frac iv gt (uniq_tok a') t.
Proof.
  intros Ei Et. apply search_frac_ext; [exact Ei|]. intros t0.
  unfold tok_lids, uniq_tok. simpl. rewrite !(tok_in_map nodup_nat) by reflexivity.
  fold (tok_lids a t0). fold (tok_lids a' t0). rewrite Et. reflexivity.
Qed.

(* thm:C17_idempotent_all_forms: the missing part — search observables agree BETWEEN the forms *)
Lemma search_all_forms cfg h : Forall bulk_wf h -> has_all h ->
  let a := run_active h in let a' := run_active (dedupb h) in
  let s := seal cfg a in let s' := seal cfg a' in
  forall iv gt t,
    let q := search_frac iv gt (uniq_tok a) t in
    search_frac iv gt (uniq_tok (replay h)) t = q /\
    search_frac iv gt (sealed_view s) t = q /\
    search_frac iv gt (sealed_view (reload s)) t = q /\
    search_frac iv gt (uniq_tok a') t = q /\
    search_frac iv gt (sealed_view s') t = q.
Proof.
  intros W HA a a' s s' iv gt t q.
  pose proof (search_forms _ _ (run_index h (all_wf_ok h W)) (has_all_first h HA) cfg iv gt t) as S1.
  destruct (idempotent_wf h W) as (Ei & Et & _).
  destruct (all_forms cfg h W HA) as (_ & _ & _ & _ & _ & Sr). destruct (Sr iv gt t) as (_ & Sss & _).
  split; [reflexivity|]. split; [exact S1|]. split; [rewrite reload_id; exact S1|].
  split; [symmetry; apply uniq_search_ext; assumption|].
  fold a s in Sss. fold a' s' in Sss. rewrite <- Sss. exact S1.
Qed.

(* thm:C17_idempotent_all_forms (full) *)
Lemma all_forms_full cfg h : Forall bulk_wf h -> has_all h ->
  let a := run_active h in let a' := run_active (dedupb h) in
  let s := seal cfg a in let s' := seal cfg a' in
  replay h = a /\
  (a_total a = a_total a' /\ s_total s = a_total a /\ s_total (reload s) = a_total a /\ s_total s' = a_total a) /\
  (a_from a = a_from a' /\ s_from s = a_from a /\ s_from (reload s) = a_from a /\ s_from s' = a_from a) /\
  (a_to a = a_to a' /\ s_to s = a_to a /\ s_to (reload s) = a_to a /\ s_to s' = a_to a) /\
  (forall i, i <> (0, 0)%N ->
     fetch a i = ref_fetch1 (concat h) i /\ fetch a' i = ref_fetch1 (concat h) i /\
     sealed_fetch s i = ref_fetch1 (concat h) i /\ sealed_fetch (reload s) i = ref_fetch1 (concat h) i /\
     sealed_fetch s' i = ref_fetch1 (concat h) i) /\
  (forall iv gt t,
     let q := search_frac iv gt (uniq_tok a) t in
     search_frac iv gt (uniq_tok (replay h)) t = q /\
     search_frac iv gt (sealed_view s) t = q /\
     search_frac iv gt (sealed_view (reload s)) t = q /\
     search_frac iv gt (uniq_tok a') t = q /\
     search_frac iv gt (sealed_view s') t = q).
Proof.
  intros W HA a a' s s'. destruct (all_forms cfg h W HA) as (A & B & C & D & E & _).
  repeat (split; [assumption|]). apply (search_all_forms cfg h W HA).
Qed.
