(* C17 — histories of bulks into one active fraction: the index is exactly the first deliveries. *)
From Coq Require Import List Arith NArith Bool Lia.
From VLib Require Import CaseLib.
From C17 Require Import Model CaseDefs ProofsColl.
Import ListNotations.

(* ------------------------------------------------------------------ the reference: first deliveries *)

Definition old_in (K : list meta) (i : id) : bool := mem_id i (map m_id K).
Definition first_new (K ms : list meta) : list meta := filter (fun m => negb (old_in K (m_id m))) ms.
(* the metas of the first delivery of every ID, in arrival order *)
Definition first_deliveries (h : list (list meta)) : list meta :=
  fold_left (fun K ms => K ++ first_new K ms) h [].

(* the history with every re-sent document removed *)
Fixpoint dedup_from (K : list meta) (h : list (list meta)) : list (list meta) :=
  match h with [] => [] | ms :: r => first_new K ms :: dedup_from (K ++ first_new K ms) r end.
Definition dedup_first (h : list (list meta)) : list (list meta) := dedup_from [] h.

(* LIDs of token t: the LID of every document carrying it, once per occurrence, LIDs from [first] *)
Fixpoint postings (t : N) (first : nat) (docs : list (list N)) : list nat :=
  match docs with [] => [] | toks :: r => repeat first (count_tok t toks) ++ postings t (S first) r end.

(* within one bulk, metas with the same ID point at the same document (pairwise distinct IDs;
   a nested meta carries its parent's ID and directly follows it) *)
Definition bulk_ok (ms : list meta) : Prop :=
  forall blk (v1 v2 : dview), In v1 (sent_view blk ms) -> In v2 (sent_view blk ms) ->
    fst (fst v1) = fst (fst v2) -> snd (fst v1) = snd (fst v2).

Definition min_of (l : list id) (x : N) : N := fold_left (fun a (i : id) => N.min a (fst i)) l x.
Definition max_of (l : list id) (x : N) : N := fold_left (fun a (i : id) => N.max a (fst i)) l x.

(* what the active fraction must look like when its first deliveries are K *)
Record index_is (a : active) (K : list meta) : Prop := {
  ii_ids : a_ids a = sys_id :: map m_id K;
  ii_tok : forall t, tok_lids a t = postings t 1 (map m_toks K);
  ii_total : a_total a = N.of_nat (length K);
  ii_from : a_from a = min_of (map m_id K) max_u64;
  ii_to : a_to a = max_of (map m_id K) 0%N;
  ii_keys : forall i, lookup_pos i (a_posm a) <> None <-> In i (map m_id K);
  ii_blk : forall i p, lookup_pos i (a_posm a) = Some p -> fst p < length (a_blocks a)
}.

(* ------------------------------------------------------------------ small facts *)

Lemma id_eqb_eq a b : id_eqb a b = true <-> a = b.
Proof.
  destruct a as [a1 a2], b as [b1 b2]. unfold id_eqb. simpl.
  rewrite andb_true_iff, !N.eqb_eq. split; [intros [-> ->]; reflexivity|intros E; inversion E; auto].
Qed.

Lemma id_eqb_false a b : id_eqb a b = false <-> a <> b.
Proof. rewrite <- id_eqb_eq. destruct (id_eqb a b); split; congruence. Qed.

Lemma mem_id_In i l : mem_id i l = true <-> In i l.
Proof.
  induction l as [|x l IH]; simpl; [split; [discriminate|tauto]|].
  rewrite orb_true_iff, IH, id_eqb_eq. split; intros [H|H]; auto.
Qed.

Lemma mem_id_filter f i l : mem_id i (filter f l) = f i && mem_id i l.
Proof.
  induction l as [|x l IH]; simpl; [rewrite andb_false_r; reflexivity|].
  destruct (f x) eqn:Fx; simpl; rewrite IH.
  - destruct (id_eqb i x) eqn:E; simpl; [|reflexivity].
    apply id_eqb_eq in E; subst. rewrite Fx. reflexivity.
  - destruct (id_eqb i x) eqn:E; simpl; [|reflexivity].
    apply id_eqb_eq in E; subst. rewrite Fx. reflexivity.
Qed.

Lemma filter_len_le {A} (f : A -> bool) (l : list A) : length (filter f l) <= length l.
Proof. induction l; simpl; [lia|]. destruct (f a); simpl; lia. Qed.

Lemma filter_all_length {A} (f : A -> bool) (l : list A) : length (filter f l) = length l -> filter f l = l.
Proof.
  induction l as [|x l IH]; simpl; [reflexivity|]. destruct (f x); simpl; intros H.
  - f_equal. apply IH. lia.
  - pose proof (filter_len_le f l). lia.
Qed.

Lemma postings_app t docs1 : forall first docs2,
  postings t first (docs1 ++ docs2) = postings t first docs1 ++ postings t (length docs1 + first) docs2.
Proof.
  induction docs1 as [|d docs1 IH]; intros first docs2; simpl; [reflexivity|].
  rewrite IH, <- app_assoc. repeat f_equal. lia.
Qed.

Lemma expected_group_postings t (kept : list dview) : forall first,
  expected_group t first kept = postings t first (map snd kept).
Proof. induction kept as [|v kept IH]; intros first; simpl; [reflexivity|]. rewrite IH. reflexivity. Qed.

Lemma min_of_min l : forall y z, min_of l (N.min y z) = N.min y (min_of l z).
Proof. induction l; simpl; intros; [reflexivity|]. unfold min_of in *. simpl. rewrite <- IHl. f_equal. lia. Qed.
Lemma max_of_max l : forall y z, max_of l (N.max y z) = N.max y (max_of l z).
Proof. induction l; simpl; intros; [reflexivity|]. unfold max_of in *. simpl. rewrite <- IHl. f_equal. lia. Qed.
Lemma min_of_le l : forall x, (min_of l x <= x)%N.
Proof. induction l; intros; unfold min_of in *; simpl; [lia|]. specialize (IHl (N.min x (fst a))). lia. Qed.

Lemma min_of_app l1 l2 : N.min (min_of l1 max_u64) (min_of l2 max_u64) = min_of (l1 ++ l2) max_u64.
Proof.
  unfold min_of at 3. rewrite fold_left_app. fold (min_of l1 max_u64). fold (min_of l2 (min_of l1 max_u64)).
  rewrite <- min_of_min. f_equal. pose proof (min_of_le l1 max_u64). lia.
Qed.
Lemma max_of_app l1 l2 : N.max (max_of l1 0%N) (max_of l2 0%N) = max_of (l1 ++ l2) 0%N.
Proof.
  unfold max_of at 3. rewrite fold_left_app. fold (max_of l1 0%N). fold (max_of l2 (max_of l1 0%N)).
  rewrite <- max_of_max. f_equal. lia.
Qed.

(* ------------------------------------------------------------------ SetMultiple *)

Lemma lookup_cons i' i p m :
  lookup_pos i' ((i, p) :: m) = if id_eqb i' i then Some p else lookup_pos i' m.
Proof. reflexivity. Qed.

Lemma sm_spec (old : id -> bool) : forall ids ps m,
  length ids = length ps ->
  (forall i p, In (i, p) (combine ids ps) -> old i = true ->
               exists q, lookup_pos i m = Some q /\ pos_eqb q p = false) ->
  (forall i p, In (i, p) (combine ids ps) -> old i = false ->
               lookup_pos i m = None \/ lookup_pos i m = Some p) ->
  (forall i p p', In (i, p) (combine ids ps) -> In (i, p') (combine ids ps) -> p = p') ->
  snd (set_multiple m ids ps) = filter (fun i => negb (old i)) ids /\
  (forall i, lookup_pos i (fst (set_multiple m ids ps)) <> None <->
             (lookup_pos i m <> None \/ (In i ids /\ old i = false))) /\
  (forall i p, lookup_pos i (fst (set_multiple m ids ps)) = Some p ->
               lookup_pos i m = Some p \/ In (i, p) (combine ids ps)).
Proof.
  induction ids as [|i ids IH]; intros [|p ps] m HL Ha Hb Hc; simpl in HL; try discriminate.
  - simpl. split; [reflexivity|]. split; [intros; tauto|intros; left; assumption].
  - assert (HL' : length ids = length ps) by lia.
    assert (Hc' : forall i0 p0 p', In (i0, p0) (combine ids ps) -> In (i0, p') (combine ids ps) -> p0 = p')
      by (intros; eapply Hc; right; eassumption).
    cbn [set_multiple filter]. destruct (old i) eqn:Ho; cbn [negb].
    + destruct (Ha i p (or_introl eq_refl) Ho) as (q & Eq & Ne). rewrite Eq, Ne.
      destruct (IH ps m HL') as (A & B & C); auto.
      { intros; apply Ha; [right|]; assumption. }
      { intros; apply Hb; [right|]; assumption. }
      split; [exact A|]. split.
      * intros i'. rewrite B. split; intros [H|[H1 H2]]; auto.
        -- right. split; [right|]; assumption.
        -- destruct H1 as [->|H1]; [congruence|]. right. auto.
      * intros i' p' H. destruct (C i' p' H); [left|right; right]; assumption.
    + destruct (Hb i p (or_introl eq_refl) Ho) as [En|Es].
      * rewrite En. cbn [fst snd].
        destruct (IH ps ((i, p) :: m) HL') as (A & B & C); auto.
        { intros i' p' Hin Ho'. rewrite lookup_cons.
          destruct (id_eqb i' i) eqn:E; [apply id_eqb_eq in E; congruence|].
          apply Ha; [right|]; assumption. }
        { intros i' p' Hin Ho'. rewrite lookup_cons.
          destruct (id_eqb i' i) eqn:E.
          - apply id_eqb_eq in E; subst i'. right. f_equal.
            apply (Hc i p p'); [left; reflexivity|right; assumption].
          - apply Hb; [right|]; assumption. }
        split; [rewrite A; reflexivity|]. split.
        -- intros i'. rewrite B, lookup_cons. destruct (id_eqb i' i) eqn:E.
           ++ apply id_eqb_eq in E; subst i'. split; intros _; [right; split; [left; reflexivity|assumption]|left; discriminate].
           ++ apply id_eqb_false in E. split; intros [H|[H1 H2]]; auto.
              ** right. split; [right|]; assumption.
              ** destruct H1 as [H1|H1]; [congruence|]. right; auto.
        -- intros i' p' H. destruct (C i' p' H) as [H1|H1]; [|right; right; assumption].
           rewrite lookup_cons in H1. destruct (id_eqb i' i) eqn:E; [|left; assumption].
           apply id_eqb_eq in E; subst i'. inversion H1; subst. right; left; reflexivity.
      * rewrite Es, pos_eqb_refl. cbn [fst snd].
        destruct (IH ps m HL') as (A & B & C); auto.
        { intros; apply Ha; [right|]; assumption. }
        { intros; apply Hb; [right|]; assumption. }
        split; [rewrite A; reflexivity|]. split.
        -- intros i'. rewrite B. split; intros [H|[H1 H2]]; auto.
           ++ right. split; [right|]; assumption.
           ++ destruct H1 as [<-|H1]; [left; congruence|right; auto].
        -- intros i' p' H. destruct (C i' p' H); [left|right; right]; assumption.
Qed.

(* ------------------------------------------------------------------ token queues *)

Lemma put_lids_lookup m : forall t g t',
  tok_lids_in (put_lids m t g) t' = if N.eqb t' t then tok_lids_in m t ++ g else tok_lids_in m t'.
Proof.
  induction m as [|[k q] m IH]; intros t g t'; simpl.
  - destruct (N.eqb t' t); reflexivity.
  - destruct (N.eqb_spec t k) as [->|Hne]; simpl.
    + destruct (N.eqb_spec t' k) as [->|]; reflexivity.
    + rewrite IH. destruct (N.eqb_spec t' t) as [->|Hne2].
      * destruct (N.eqb_spec t k); [contradiction|reflexivity].
      * reflexivity.
Qed.

Lemma add_groups_lookup tv : forall gs m t, NoDup tv -> length gs = length tv ->
  tok_lids_in (add_groups m tv gs) t
  = tok_lids_in m t ++ match index_of t tv with Some j => nth j gs [] | None => [] end.
Proof.
  induction tv as [|x tv IH]; intros [|g gs] m t ND HL; simpl in *; try discriminate.
  - rewrite app_nil_r; reflexivity.
  - inversion ND; subst. rewrite IH by (auto; lia). rewrite put_lids_lookup.
    destruct (N.eqb_spec t x) as [->|Hne].
    + destruct (index_of x tv) eqn:E; [|rewrite app_nil_r; reflexivity].
      exfalso. destruct (index_of_some _ _ _ E) as [Hl Hn]. apply H1. rewrite <- Hn. apply nth_In, Hl.
    + destruct (index_of t tv); reflexivity.
Qed.

Lemma count_tok_notin t l : ~ In t l -> count_tok t l = 0.
Proof.
  induction l as [|x l IH]; simpl; intros H; [reflexivity|].
  destruct (N.eqb_spec t x) as [->|]; [tauto|]. apply IH. tauto.
Qed.

Lemma postings_absent t docs : forall first, (forall d, In d docs -> ~ In t d) -> postings t first docs = [].
Proof.
  induction docs as [|d docs IH]; intros first H; simpl; [reflexivity|].
  rewrite count_tok_notin by (apply H; left; reflexivity). simpl. apply IH. intros; apply H; right; assumption.
Qed.

(* ------------------------------------------------------------------ positions of a bulk *)

Lemma sent_view_block blk ms : forall o prev (v : dview), fst prev = blk ->
  In v (sent_view_from blk o prev ms) -> fst (snd (fst v)) = blk.
Proof.
  induction ms as [|m ms IH]; intros o prev v Hp Hin; simpl in Hin; [tauto|].
  destruct (N.eqb (m_size m) 0); destruct Hin as [<-|Hin].
  - exact Hp.
  - exact (IH _ _ v Hp Hin).
  - reflexivity.
  - exact (IH _ (blk, o) v eq_refl Hin).
Qed.

Lemma map_sndfst_combine {A B C} (a : list A) : forall (b : list B) (c : list C),
  length a = length b -> length a = length c ->
  map (fun v : A * B * C => snd (fst v)) (combine (combine a b) c) = b.
Proof.
  induction a; intros [|y b] [|z c] H1 H2; simpl in *; try discriminate; [reflexivity|].
  rewrite IHa by lia. reflexivity.
Qed.

Lemma map_fst_combine3 {A B C} (a : list A) : forall (b : list B) (c : list C),
  length a = length b -> length a = length c ->
  map fst (combine (combine a b) c) = combine a b.
Proof.
  induction a; intros [|y b] [|z c] H1 H2; simpl in *; try discriminate; [reflexivity|].
  rewrite IHa by lia. reflexivity.
Qed.

Lemma cview_pairs c sl : cols_ok c sl -> combine (c_ids c) (c_pos c) = map fst (cview c sl).
Proof.
  intros (H1 & H2 & _). unfold cview. symmetry. apply map_fst_combine3.
  - symmetry; exact H1.
  - rewrite map_length. symmetry; exact H2.
Qed.

Lemma cview_toks c sl : cols_ok c sl -> forall (v : dview) t, In v (cview c sl) -> In t (snd v) -> In t (c_tvals c).
Proof.
  intros (H1 & H2 & H3 & H4 & H5 & H6) v t Hv Ht. unfold cview in Hv.
  destruct v as [ip toks]. apply in_combine_r in Hv. simpl in Ht.
  apply in_map_iff in Hv. destruct Hv as (s & <- & Hs). apply in_map_iff in Ht.
  destruct Ht as (j & <- & Hj). unfold in_range in H6. rewrite Forall_forall in H6.
  specialize (H6 s Hs). rewrite Forall_forall in H6. apply nth_In, H6, Hj.
Qed.

Lemma collect_docs ms : forall c, c_docs (fold_left append_meta ms c) = (c_docs c + N.of_nat (length ms))%N.
Proof.
  induction ms as [|m ms IH]; intros c; simpl fold_left; [simpl; lia|].
  rewrite IH. unfold append_meta. cbv zeta. simpl c_docs. simpl length. lia.
Qed.

Lemma index_of_nth tv j : NoDup tv -> j < length tv -> index_of (tvf tv j) tv = Some j.
Proof.
  intros ND Hj. destruct (index_of (tvf tv j) tv) as [k|] eqn:E.
  - destruct (index_of_some _ _ _ E) as [Hk Hn]. f_equal. rewrite NoDup_nth in ND.
    apply (ND k j Hk Hj). exact Hn.
  - exfalso. apply (index_of_none _ _ E). apply nth_In, Hj.
Qed.

(* ------------------------------------------------------------------ one bulk *)

Lemma in_first_new K ms i : In i (map m_id (first_new K ms)) <-> In i (map m_id ms) /\ old_in K i = false.
Proof.
  unfold first_new. rewrite !in_map_iff. split.
  - intros (m & <- & Hm). apply filter_In in Hm. destruct Hm as [Hm Hn]. split; [exists m; auto|].
    destruct (old_in K (m_id m)); [discriminate|reflexivity].
  - intros [(m & <- & Hm) Ho]. exists m. split; auto. apply filter_In. rewrite Ho. auto.
Qed.

Lemma kept_toks K blk ms : forall o prev,
  map snd (filter (fun v : dview => negb (old_in K (fst (fst v)))) (sent_view_from blk o prev ms))
  = map m_toks (first_new K ms).
Proof.
  unfold first_new. induction ms as [|m ms IH]; intros o prev; simpl; [reflexivity|].
  destruct (N.eqb (m_size m) 0); simpl; destruct (old_in K (m_id m)); simpl; rewrite IH; reflexivity.
Qed.

Lemma process_bulk_index a K b :
  index_is a K -> bulk_ok (map fst b) ->
  index_is (process_bulk a b) (K ++ first_new K (map fst b)).
Proof.
  intros I OK. set (ms := map fst b). set (blk := length (a_blocks a)).
  destruct (collect_cols blk ms) as (sl & H & V & Hmin & Hmax).
  set (c := collect blk ms) in *.
  set (old := old_in K).
  assert (Hids : c_ids c = map (fun v : dview => fst (fst v)) (sent_view blk ms))
    by (rewrite <- V; symmetry; apply cview_ids; assumption).
  assert (Hpairs : combine (c_ids c) (c_pos c) = map fst (sent_view blk ms))
    by (rewrite <- V; apply cview_pairs; assumption).
  assert (Hin : forall i p, In (i, p) (combine (c_ids c) (c_pos c)) ->
                            exists v : dview, In v (sent_view blk ms) /\ fst v = (i, p)).
  { intros i p Hip. rewrite Hpairs in Hip. apply in_map_iff in Hip. destruct Hip as (v & E & Hv). eauto. }
  assert (Hold : forall i, old i = true <-> lookup_pos i (a_posm a) <> None).
  { intros i. unfold old, old_in. rewrite mem_id_In. symmetry. apply (ii_keys a K I). }
  destruct (sm_spec old (c_ids c) (c_pos c) (a_posm a)) as (A & B & C).
  { destruct H as (H1 & _). symmetry; exact H1. }
  { intros i p Hip Ho. apply Hold in Ho. destruct (lookup_pos i (a_posm a)) as [q|] eqn:E; [|congruence].
    exists q. split; [reflexivity|]. pose proof (ii_blk a K I i q E) as Hq.
    destruct (Hin i p Hip) as (v & Hv & Ev).
    pose proof (sent_view_block blk ms 0%N (blk, 0%N) v eq_refl Hv) as Hb. rewrite Ev in Hb. simpl in Hb.
    unfold pos_eqb. destruct (Nat.eqb_spec (fst q) (fst p)); [fold blk in Hq; lia|reflexivity]. }
  { intros i p Hip Ho. left. destruct (lookup_pos i (a_posm a)) eqn:E; [|reflexivity].
    assert (old i = true) by (apply Hold; congruence). congruence. }
  { intros i p p' H1 H2. destruct (Hin i p H1) as (v1 & Hv1 & E1). destruct (Hin i p' H2) as (v2 & Hv2 & E2).
    pose proof (OK blk v1 v2 Hv1 Hv2) as P. rewrite E1, E2 in P. simpl in P. auto. }
  (* the collector after the optional Filter *)
  set (r := set_multiple (a_posm a) (c_ids c) (c_pos c)) in *.
  set (kept := filter (fun v : dview => negb (old (fst (fst v)))) (sent_view blk ms)).
  assert (Hc' : exists c' sl', c' = (if Nat.eqb (length (snd r)) (length (c_ids c)) then c else filter_coll c (snd r))
                               /\ cols_ok c' sl' /\ cview c' sl' = kept
                               /\ c_min c' = min_mid kept /\ c_max c' = max_mid kept
                               /\ c_docs c' = N.of_nat (length kept)).
  { assert (Hlen : length (snd r) = length kept).
    { rewrite A, Hids. unfold kept. rewrite (filter_map_comm (fun v : dview => fst (fst v))), map_length. reflexivity. }
    destruct (Nat.eqb_spec (length (snd r)) (length (c_ids c))) as [E|E].
    - exists c, sl. split; [reflexivity|].
      assert (kept = sent_view blk ms).
      { unfold kept. apply filter_all_length. fold kept. rewrite <- Hlen, E, Hids, map_length. reflexivity. }
      rewrite H0. split; [exact H|]. split; [exact V|]. split; [exact Hmin|]. split; [exact Hmax|].
      unfold c, collect. rewrite collect_docs. simpl. unfold sent_view.
      rewrite <- (map_length (fun v : dview => fst (fst v))), sent_view_ids, map_length. reflexivity.
    - destruct (filter_cols c sl (snd r) H) as [H' V'].
      exists (filter_coll c (snd r)), (kept_sl c sl (snd r)). split; [reflexivity|].
      assert (Hk : cview (filter_coll c (snd r)) (kept_sl c sl (snd r)) = kept).
      { rewrite V', V. unfold kept. apply filter_ext_in. intros v Hv.
        rewrite A, mem_id_filter. replace (mem_id (fst (fst v)) (c_ids c)) with true; [apply andb_true_r|].
        symmetry. apply mem_id_In. rewrite Hids. apply (in_map (fun v : dview => fst (fst v))). exact Hv. }
      split; [assumption|]. split; [assumption|]. split; [|split].
      + rewrite <- Hk, min_mid_ids, (cview_ids _ _ H'). reflexivity.
      + rewrite <- Hk, max_mid_ids, (cview_ids _ _ H'). reflexivity.
      + simpl. rewrite Hlen. reflexivity. }
  destruct Hc' as (c' & sl' & Ec' & H' & V' & Hmin' & Hmax' & Hdocs').
  assert (Hkids : map (fun v : dview => fst (fst v)) kept = map m_id (first_new K ms)).
  { change (map (fun v : dview => fst (fst v))
                (filter (fun v : dview => (fun i => negb (old i)) (fst (fst v))) (sent_view blk ms))
            = map m_id (filter (fun m => (fun i => negb (old i)) (m_id m)) ms)).
    rewrite <- (filter_map_comm (fun v : dview => fst (fst v)) (fun i => negb (old i))).
    rewrite <- (filter_map_comm m_id (fun i => negb (old i))).
    unfold sent_view. rewrite sent_view_ids. reflexivity. }
  assert (Hktoks : map snd kept = map m_toks (first_new K ms)).
  { unfold kept, old, sent_view. apply kept_toks. }
  assert (Hc'ids : c_ids c' = map m_id (first_new K ms))
    by (rewrite <- Hkids, <- V'; symmetry; apply cview_ids; assumption).
  unfold process_bulk. fold ms blk c r. rewrite <- Ec'.
  constructor; simpl.
  - rewrite (ii_ids a K I), Hc'ids, map_app. reflexivity.
  - intros t. unfold tok_lids. simpl.
    pose proof H' as (G1 & G2 & G3 & G4 & G5 & G6).
    rewrite add_groups_lookup by (auto; unfold group_lids; rewrite map_length, seq_length; reflexivity).
    fold (tok_lids a t). rewrite (ii_tok a K I t), map_app, postings_app. f_equal.
    rewrite (ii_ids a K I). simpl length. rewrite !map_length.
    replace (length K + 1) with (S (length K)) by lia.
    rewrite <- Hktoks, <- V'.
    destruct (index_of t (c_tvals c')) as [j|] eqn:E.
    + destruct (index_of_some _ _ _ E) as [Hj Hn]. unfold group_lids.
      rewrite (nth_indep _ [] (map snd (filter (fun p => Nat.eqb (fst p) (length (c_tvals c')))
                  (combine (c_tix c') (restore_lids (c_tid c') (seq (S (length K)) (length (c_ids c'))))))))
        by (rewrite map_length, seq_length; exact Hj).
      rewrite (map_nth (fun j0 => map snd (filter (fun p => Nat.eqb (fst p) j0) _))), seq_nth by exact Hj.
      simpl. rewrite G3, G4. replace (length (c_ids c')) with (length sl') by assumption.
      rewrite (groups_of_cols (c_tvals c') j G5 Hj sl' (c_ids c') (c_pos c') (S (length K)) G6)
        by (try (symmetry; assumption); congruence).
      fold (cview c' sl'). rewrite expected_group_postings. unfold tvf. rewrite Hn. reflexivity.
    + symmetry. apply postings_absent. intros d Hd Ht. apply in_map_iff in Hd. destruct Hd as (v & <- & Hv).
      apply (index_of_none _ _ E). eapply cview_toks; eassumption.
  - rewrite (ii_total a K I), Hdocs', app_length. unfold kept.
    rewrite <- (map_length (fun v : dview => fst (fst v))). fold kept. rewrite Hkids, map_length. lia.
  - rewrite (ii_from a K I), Hmin', min_mid_ids, Hkids, map_app. apply min_of_app.
  - rewrite (ii_to a K I), Hmax', max_mid_ids, Hkids, map_app. apply max_of_app.
  - intros i. rewrite B, map_app, in_app_iff, (ii_keys a K I i).
    rewrite in_first_new. rewrite Hids. unfold sent_view. rewrite sent_view_ids. fold (old i). tauto.
  - intros i p Hl. rewrite app_length. simpl. destruct (C i p Hl) as [X|X].
    + pose proof (ii_blk a K I i p X). lia.
    + destruct (Hin i p X) as (v & Hv & Ev).
      pose proof (sent_view_block blk ms 0%N (blk, 0%N) v eq_refl Hv) as Hb. rewrite Ev in Hb. simpl in Hb.
      fold blk. lia.
Qed.

(* ------------------------------------------------------------------ histories *)

Definition ref_step_m (K ms : list meta) : list meta := K ++ first_new K ms.

Lemma index_empty : index_is active_empty [].
Proof.
  constructor; simpl; try reflexivity.
  - intros i. split; [intros H; apply H; reflexivity|tauto].
  - intros i p H. discriminate.
Qed.

Lemma run_index_gen h : forall a K, index_is a K -> Forall (fun b => bulk_ok (map fst b)) h ->
  index_is (fold_left process_bulk h a) (fold_left ref_step_m (map (map fst) h) K).
Proof.
  induction h as [|b h IH]; intros a K I F; simpl; [exact I|].
  inversion F; subst. apply IH; [|assumption]. apply process_bulk_index; assumption.
Qed.

(* thm: the index of the fraction is exactly the first deliveries *)
Lemma run_index h : Forall (fun b => bulk_ok (map fst b)) h ->
  index_is (run_active h) (first_deliveries (map (map fst) h)).
Proof. intros F. apply (run_index_gen h active_empty [] index_empty F). Qed.

Lemma first_new_idem K ms : first_new K (first_new K ms) = first_new K ms.
Proof.
  unfold first_new. induction ms as [|m ms IH]; simpl; [reflexivity|].
  destruct (negb (old_in K (m_id m))) eqn:E; simpl; [rewrite E, IH|]; auto.
Qed.

Lemma fold_dedup h : forall K, fold_left ref_step_m (dedup_from K h) K = fold_left ref_step_m h K.
Proof.
  induction h as [|ms h IH]; intros K; simpl; [reflexivity|].
  unfold ref_step_m at 2 4. rewrite first_new_idem. apply IH.
Qed.

Lemma fold_concat h : forall K, fold_left ref_step_m h K = K ++ concat (dedup_from K h).
Proof.
  induction h as [|ms h IH]; intros K; simpl; [rewrite app_nil_r; reflexivity|].
  rewrite IH. unfold ref_step_m. rewrite <- app_assoc. reflexivity.
Qed.

Lemma first_deliveries_concat h : first_deliveries h = concat (dedup_first h).
Proof. exact (fold_concat h []). Qed.

Lemma first_deliveries_dedup h : first_deliveries (dedup_first h) = first_deliveries h.
Proof. exact (fold_dedup h []). Qed.

(* the same on bulks that carry the document bytes *)
Fixpoint dedupb_from (K : list meta) (h : list (list (meta * N))) : list (list (meta * N)) :=
  match h with
  | [] => []
  | b :: r => let nb := filter (fun p => negb (old_in K (m_id (fst p)))) b in
              nb :: dedupb_from (K ++ map fst nb) r
  end.
Definition dedupb (h : list (list (meta * N))) : list (list (meta * N)) := dedupb_from [] h.

Lemma dedupb_metas h : forall K, map (map fst) (dedupb_from K h) = dedup_from K (map (map fst) h).
Proof.
  induction h as [|b h IH]; intros K; simpl; [reflexivity|].
  assert (E : map fst (filter (fun p : meta * N => negb (old_in K (m_id (fst p)))) b) = first_new K (map fst b)).
  { unfold first_new. rewrite (filter_map_comm fst (fun m => negb (old_in K (m_id m)))). reflexivity. }
  rewrite E, IH. reflexivity.
Qed.

(* thm:C17_idempotent *)
Lemma idempotent h :
  Forall (fun b => bulk_ok (map fst b)) h -> Forall (fun b => bulk_ok (map fst b)) (dedupb h) ->
  let a := run_active h in let a' := run_active (dedupb h) in
  a_ids a = a_ids a' /\ (forall t, tok_lids a t = tok_lids a' t) /\
  a_total a = a_total a' /\ a_from a = a_from a' /\ a_to a = a_to a'.
Proof.
  intros F F' a a'.
  pose proof (run_index h F) as I. pose proof (run_index (dedupb h) F') as I'.
  unfold dedupb in I'. rewrite dedupb_metas in I'. fold (dedup_first (map (map fst) h)) in I'.
  rewrite first_deliveries_dedup in I'. fold a in I. fold (dedupb h) in I'. fold a' in I'.
  destruct I, I'. repeat split; try congruence.
Qed.

(* the search-level observables of a fraction are functions of the LID table and the postings *)
Lemma search_frac_ext iv gt a a' t :
  a_ids a = a_ids a' -> (forall t, tok_lids a t = tok_lids a' t) ->
  search_frac iv gt a t = search_frac iv gt a' t.
Proof.
  intros E T. unfold search_frac.
  assert (L : lid_id a = lid_id a') by (unfold lid_id; rewrite E; reflexivity).
  rewrite L, (T t). f_equal.
  - f_equal. apply map_ext. intros g. rewrite (T g). reflexivity.
  - f_equal. f_equal. apply filter_ext. intros l. f_equal.
    induction gt as [|g gt IH]; simpl; [reflexivity|]. rewrite (T g), IH. reflexivity.
Qed.
