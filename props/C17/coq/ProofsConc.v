(* C17 — concurrent index workers: first writer wins under every interleaving of the atomic steps. *)
From Coq Require Import List Arith NArith Bool Lia Permutation.
From VLib Require Import CaseLib.
From C17 Require Import Model ModelConc CaseDefs ProofsColl ProofsHist ProofsDocs.
Import ListNotations.

(* ------------------------------------------------------------------ small facts *)

Lemma upd_app {A} (l1 : list A) x y l2 : upd (length l1) y (l1 ++ x :: l2) = l1 ++ y :: l2.
Proof. induction l1 as [|z l1 IH]; simpl; [reflexivity|]. rewrite IH. reflexivity. Qed.

Lemma min_of_perm l1 l2 : Permutation l1 l2 -> forall x, min_of l1 x = min_of l2 x.
Proof.
  induction 1; intros z; unfold min_of in *; simpl; auto.
  - f_equal. lia.
  - rewrite IHPermutation1. apply IHPermutation2.
Qed.
Lemma max_of_perm l1 l2 : Permutation l1 l2 -> forall x, max_of l1 x = max_of l2 x.
Proof.
  induction 1; intros z; unfold max_of in *; simpl; auto.
  - f_equal. lia.
  - rewrite IHPermutation1. apply IHPermutation2.
Qed.

Definition mn (l : list meta) : N := min_of (map m_id l) max_u64.
Definition mx (l : list meta) : N := max_of (map m_id l) 0%N.

Lemma mn_app l1 l2 : mn (l1 ++ l2) = N.min (mn l1) (mn l2).
Proof. unfold mn. rewrite map_app. symmetry. apply min_of_app. Qed.
Lemma mx_app l1 l2 : mx (l1 ++ l2) = N.max (mx l1) (mx l2).
Proof. unfold mx. rewrite map_app. symmetry. apply max_of_app. Qed.
Lemma mn_le l : (mn l <= max_u64)%N.
Proof. apply min_of_le. Qed.
Lemma mn_nil : mn [] = max_u64. Proof. reflexivity. Qed.
Lemma mx_nil : mx [] = 0%N. Proof. reflexivity. Qed.

Lemma collect_blk ms : forall c, c_blk (fold_left append_meta ms c) = c_blk c.
Proof. induction ms as [|m ms IH]; intros c; simpl; [reflexivity|]. rewrite IH. reflexivity. Qed.

Lemma filter_filter_keep {A} (P Q : A -> bool) l :
  (forall x, Q x = true -> P x = true) -> filter Q (filter P l) = filter Q l.
Proof.
  intros H. induction l as [|x l IH]; simpl; [reflexivity|].
  destruct (P x) eqn:Px; simpl; rewrite IH; [reflexivity|].
  destruct (Q x) eqn:Qx; [rewrite (H x Qx) in Px; discriminate|reflexivity].
Qed.
Lemma filter_filter_none {A} (P Q : A -> bool) l :
  (forall x, Q x = true -> P x = false) -> filter Q (filter P l) = [].
Proof.
  intros H. induction l as [|x l IH]; simpl; [reflexivity|].
  destruct (P x) eqn:Px; simpl; [|exact IH].
  destruct (Q x) eqn:Qx; [rewrite (H x Qx) in Px; discriminate|exact IH].
Qed.

(* ------------------------------------------------------------------ the queue of groups of a bulk *)

(* LIDs a worker still has to put into the queue of token t *)
Definition pend (t : N) (todo : list (N * list nat)) : list nat :=
  concat (map snd (filter (fun p => N.eqb (fst p) t) todo)).

Lemma pend_app t l1 l2 : pend t (l1 ++ l2) = pend t l1 ++ pend t l2.
Proof. unfold pend. rewrite filter_app, map_app, concat_app. reflexivity. Qed.

Lemma pend_cons t' t g todo : pend t' ((t, g) :: todo) = if N.eqb t t' then g ++ pend t' todo else pend t' todo.
Proof. unfold pend. simpl. destruct (N.eqb t t'); reflexivity. Qed.

Lemma pend_combine t tv : forall gs, NoDup tv -> length gs = length tv ->
  pend t (combine tv gs) = match index_of t tv with Some j => nth j gs [] | None => [] end.
Proof.
  induction tv as [|x tv IH]; intros [|g gs] ND HL; simpl in *; try discriminate; [reflexivity|].
  inversion ND; subst. unfold pend in *. simpl.
  destruct (N.eqb_spec x t) as [->|Hne].
  - destruct (N.eqb_spec t t) as [_|C]; [|congruence]. simpl.
    rewrite IH by (auto; lia).
    destruct (index_of t tv) eqn:E; simpl; [|rewrite app_nil_r; reflexivity].
    exfalso. destruct (index_of_some _ _ _ E) as [Hl Hn]. apply H1. rewrite <- Hn. apply nth_In, Hl.
  - destruct (N.eqb_spec t x) as [C|_]; [congruence|].
    rewrite IH by (auto; lia). destruct (index_of t tv); reflexivity.
Qed.

Lemma pend_todo t c lids : pend t (todo_of c lids) = pend t (combine (c_tvals c) (group_lids c lids)).
Proof.
  unfold todo_of. set (pairs := combine (c_tvals c) (group_lids c lids)). rewrite pend_app. unfold pend.
  destruct (N.eqb_spec t tok_all_c) as [->|Hne].
  - rewrite filter_filter_none, filter_filter_keep; [reflexivity| |].
    + intros x Hx. exact Hx.
    + intros x Hx. rewrite Hx. reflexivity.
  - rewrite filter_filter_keep, filter_filter_none; [rewrite app_nil_r; reflexivity| |].
    + intros x Hx. apply N.eqb_eq in Hx. destruct (N.eqb_spec (fst x) tok_all_c); [congruence|reflexivity].
    + intros x Hx. apply N.eqb_eq in Hx. destruct (N.eqb_spec (fst x) tok_all_c); [congruence|reflexivity].
Qed.

(* the group of token t = the LIDs of the described documents carrying it (from ProofsHist.process_bulk_index) *)
Lemma group_of_token c sl first t : cols_ok c sl ->
  match index_of t (c_tvals c) with
  | Some j => nth j (group_lids c (seq first (length (c_ids c)))) []
  | None => []
  end = postings t first (map snd (cview c sl)).
Proof.
  intros H. pose proof H as (G1 & G2 & G3 & G4 & G5 & G6).
  destruct (index_of t (c_tvals c)) as [j|] eqn:E.
  - destruct (index_of_some _ _ _ E) as [Hj Hn]. unfold group_lids.
    rewrite (nth_indep _ [] (map snd (filter (fun p => Nat.eqb (fst p) (length (c_tvals c)))
                (combine (c_tix c) (restore_lids (c_tid c) (seq first (length (c_ids c))))))))
      by (rewrite map_length, seq_length; exact Hj).
    rewrite (map_nth (fun j0 => map snd (filter (fun p => Nat.eqb (fst p) j0) _))), seq_nth by exact Hj.
    simpl. rewrite G3, G4. replace (length (c_ids c)) with (length sl) by assumption.
    rewrite (groups_of_cols (c_tvals c) j G5 Hj sl (c_ids c) (c_pos c) first G6)
      by (try (symmetry; assumption); congruence).
    fold (cview c sl). rewrite expected_group_postings. unfold tvf. rewrite Hn. reflexivity.
  - symmetry. apply postings_absent. intros d Hd Ht. apply in_map_iff in Hd. destruct Hd as (v & <- & Hv).
    apply (index_of_none _ _ E). eapply cview_toks; eassumption.
Qed.

(* a collector that describes exactly the metas km *)
Definition describes (c : coll) (km : list meta) : Prop :=
  exists sl, cols_ok c sl /\ map (fun v : dview => fst (fst v)) (cview c sl) = map m_id km /\
             map snd (cview c sl) = map m_toks km /\
             c_docs c = N.of_nat (length km) /\ c_min c = mn km /\ c_max c = mx km.

Lemma describes_ids c km : describes c km -> c_ids c = map m_id km.
Proof. intros (sl & H & E & _). rewrite <- E. symmetry. apply cview_ids. exact H. Qed.

Lemma describes_pend c km first t : describes c km ->
  pend t (todo_of c (seq first (length (c_ids c)))) = postings t first (map m_toks km).
Proof.
  intros (sl & H & _ & E & _). rewrite pend_todo, pend_combine.
  - rewrite <- E. apply group_of_token. exact H.
  - destruct H as (_ & _ & _ & _ & ND & _). exact ND.
  - unfold group_lids. rewrite map_length, seq_length. reflexivity.
Qed.

(* ------------------------------------------------------------------ the SetMultiple critical section *)

Lemma set_step K posm blk ms :
  (forall i, lookup_pos i posm <> None <-> In i (map m_id K)) ->
  (forall i p, lookup_pos i posm = Some p -> fst p <> blk) ->
  bulk_ok ms ->
  let c := collect blk ms in
  let r := set_multiple posm (c_ids c) (c_pos c) in
  let c' := if Nat.eqb (length (snd r)) (length (c_ids c)) then c else filter_coll c (snd r) in
  let km := first_new K ms in
  snd r = map m_id km /\ accepted_metas ms (snd r) = km /\ describes c' km /\
  (forall i, lookup_pos i (fst r) <> None <-> In i (map m_id (K ++ km))) /\
  (forall i p, lookup_pos i (fst r) = Some p -> lookup_pos i posm = Some p \/ fst p = blk).
Proof.
  intros Hkeys Hblk OK c r c' km.
  destruct (collect_cols blk ms) as (sl & H & V & Hmin & Hmax). fold c in H, V, Hmin, Hmax.
  set (old := old_in K).
  assert (Hids : c_ids c = map (fun v : dview => fst (fst v)) (sent_view blk ms))
    by (rewrite <- V; symmetry; apply cview_ids; assumption).
  assert (Hidm : c_ids c = map m_id ms) by (rewrite Hids; unfold sent_view; apply sent_view_ids).
  assert (Hpairs : combine (c_ids c) (c_pos c) = map fst (sent_view blk ms))
    by (rewrite <- V; apply cview_pairs; assumption).
  assert (Hin : forall i p, In (i, p) (combine (c_ids c) (c_pos c)) ->
                            exists v : dview, In v (sent_view blk ms) /\ fst v = (i, p)).
  { intros i p Hip. rewrite Hpairs in Hip. apply in_map_iff in Hip. destruct Hip as (v & E & Hv). eauto. }
  assert (Hold : forall i, old i = true <-> lookup_pos i posm <> None).
  { intros i. unfold old, old_in. rewrite mem_id_In. symmetry. apply Hkeys. }
  destruct (sm_spec old (c_ids c) (c_pos c) posm) as (A & B & C).
  { destruct H as (H1 & _). symmetry; exact H1. }
  { intros i p Hip Ho. apply Hold in Ho. destruct (lookup_pos i posm) as [q|] eqn:E; [|congruence].
    exists q. split; [reflexivity|]. pose proof (Hblk i q E) as Hq.
    destruct (Hin i p Hip) as (v & Hv & Ev).
    pose proof (sent_view_block blk ms 0%N (blk, 0%N) v eq_refl Hv) as Hb. rewrite Ev in Hb. simpl in Hb.
    unfold pos_eqb. destruct (Nat.eqb_spec (fst q) (fst p)); [congruence|reflexivity]. }
  { intros i p Hip Ho. left. destruct (lookup_pos i posm) eqn:E; [|reflexivity].
    assert (old i = true) by (apply Hold; congruence). congruence. }
  { intros i p p' H1 H2. destruct (Hin i p H1) as (v1 & Hv1 & E1). destruct (Hin i p' H2) as (v2 & Hv2 & E2).
    pose proof (OK blk v1 v2 Hv1 Hv2) as P. rewrite E1, E2 in P. simpl in P. auto. }
  fold r in A, B, C.
  set (kept := filter (fun v : dview => negb (old (fst (fst v)))) (sent_view blk ms)).
  assert (Hkids : map (fun v : dview => fst (fst v)) kept = map m_id km).
  { unfold km, first_new.
    change (map (fun v : dview => fst (fst v))
                (filter (fun v : dview => (fun i => negb (old i)) (fst (fst v))) (sent_view blk ms))
            = map m_id (filter (fun m => (fun i => negb (old i)) (m_id m)) ms)).
    rewrite <- (filter_map_comm (fun v : dview => fst (fst v)) (fun i => negb (old i))).
    rewrite <- (filter_map_comm m_id (fun i => negb (old i))).
    unfold sent_view. rewrite sent_view_ids. reflexivity. }
  assert (Hktoks : map snd kept = map m_toks km).
  { unfold kept, old, sent_view. apply kept_toks. }
  assert (Hacc : snd r = map m_id km).
  { rewrite A, Hidm. unfold km, first_new. rewrite (filter_map_comm m_id (fun i => negb (old i))). reflexivity. }
  split; [exact Hacc|]. split.
  { unfold accepted_metas, km, first_new. apply filter_ext_in. intros m Hm.
    rewrite A, mem_id_filter. fold (old (m_id m)).
    replace (mem_id (m_id m) (c_ids c)) with true; [apply andb_true_r|].
    symmetry. apply mem_id_In. rewrite Hidm. apply in_map. exact Hm. }
  split.
  { assert (Hlen : length (snd r) = length kept).
    { rewrite A, Hids. unfold kept. rewrite (filter_map_comm (fun v : dview => fst (fst v))), map_length. reflexivity. }
    unfold describes, c'. destruct (Nat.eqb_spec (length (snd r)) (length (c_ids c))) as [E|E].
    - exists sl.
      assert (Hk : kept = sent_view blk ms).
      { unfold kept. apply filter_all_length. fold kept. rewrite <- Hlen, E, Hids, map_length. reflexivity. }
      split; [exact H|]. rewrite V, <- Hk. split; [exact Hkids|]. split; [exact Hktoks|]. split; [|split].
      + unfold c, collect. rewrite collect_docs. simpl.
        rewrite <- (map_length m_id km), <- Hkids, map_length, Hk. unfold sent_view.
        rewrite <- (map_length (fun v : dview => fst (fst v))), sent_view_ids, map_length. reflexivity.
      + rewrite Hmin, <- Hk, min_mid_ids, Hkids. reflexivity.
      + rewrite Hmax, <- Hk, max_mid_ids, Hkids. reflexivity.
    - destruct (filter_cols c sl (snd r) H) as [H' V'].
      exists (kept_sl c sl (snd r)).
      assert (Hk : cview (filter_coll c (snd r)) (kept_sl c sl (snd r)) = kept).
      { rewrite V', V. unfold kept. apply filter_ext_in. intros v Hv.
        rewrite A, mem_id_filter. replace (mem_id (fst (fst v)) (c_ids c)) with true; [apply andb_true_r|].
        symmetry. apply mem_id_In. rewrite Hids. apply (in_map (fun v : dview => fst (fst v))). exact Hv. }
      split; [exact H'|]. rewrite Hk. split; [exact Hkids|]. split; [exact Hktoks|]. split; [|split].
      + simpl. rewrite Hlen, <- (map_length m_id km), <- Hkids, map_length. reflexivity.
      + unfold mn. rewrite <- Hkids, <- Hk, (cview_ids _ _ H'). reflexivity.
      + unfold mx. rewrite <- Hkids, <- Hk, (cview_ids _ _ H'). reflexivity. }
  split.
  - intros i. rewrite B, map_app, in_app_iff, Hkeys. unfold km. rewrite in_first_new, <- Hidm. fold (old i). tauto.
  - intros i p Hl. destruct (C i p Hl) as [X|X]; [left; exact X|right].
    destruct (Hin i p X) as (v & Hv & Ev).
    pose proof (sent_view_block blk ms 0%N (blk, 0%N) v eq_refl Hv) as Hb. rewrite Ev in Hb. exact Hb.
Qed.

(* ------------------------------------------------------------------ the invariant of a configuration *)

Definition kmF (w : worker) : list meta := match fst w with WFilt km _ => km | _ => [] end.
Definition kmT (w : worker) : list meta := match fst w with WToks km _ _ => km | _ => [] end.
Definition wpend (t : N) (w : worker) : list nat := match fst w with WToks _ _ todo => pend t todo | _ => [] end.
Definition wblk (w : worker) : list nat := match fst w with WColl _ c => [c_blk c] | _ => [] end.
Definition wbulks (w : worker) : list cbulk := match fst w with WColl b _ => b :: snd w | _ => snd w end.

Definition wok (a : active) (w : worker) : Prop :=
  match fst w with
  | WIdle => True
  | WColl b c => c = collect (c_blk c) (map fst b) /\ c_blk c < length (a_blocks a) /\
                 (forall i p, lookup_pos i (a_posm a) = Some p -> fst p <> c_blk c)
  | WFilt km c => describes c km
  | WToks km c _ => c_docs c = N.of_nat (length km) /\ c_min c = mn km /\ c_max c = mx km
  end.

Definition Kof (s : conc) : list meta := first_deliveries (map (map fst) (sigma s)).

Record Inv (qs : list (list cbulk)) (s : conc) : Prop := {
  iv_log : map snd (cc_log s) = map (map m_id) (dedup_first (map (map fst) (sigma s)));
  iv_ids : a_ids (cc_a s) = sys_id :: map m_id (cc_tab s);
  iv_keys : forall i, lookup_pos i (a_posm (cc_a s)) <> None <-> In i (map m_id (Kof s));
  iv_blk : forall i p, lookup_pos i (a_posm (cc_a s)) = Some p -> fst p < length (a_blocks (cc_a s));
  iv_wok : Forall (wok (cc_a s)) (cc_ws s);
  iv_nodup : NoDup (flat_map wblk (cc_ws s));
  iv_K : Permutation (cc_tab s ++ flat_map kmF (cc_ws s)) (Kof s);
  iv_tok : forall t, Permutation (tok_lids (cc_a s) t ++ flat_map (wpend t) (cc_ws s))
                                 (postings t 1 (map m_toks (cc_tab s)));
  iv_total : (a_total (cc_a s) + N.of_nat (length (flat_map kmT (cc_ws s))))%N = N.of_nat (length (cc_tab s));
  iv_from : N.min (a_from (cc_a s)) (mn (flat_map kmT (cc_ws s))) = mn (cc_tab s);
  iv_to : N.max (a_to (cc_a s)) (mx (flat_map kmT (cc_ws s))) = mx (cc_tab s);
  iv_fromle : (a_from (cc_a s) <= max_u64)%N;
  iv_wf : Forall bulk_wf (flat_map wbulks (cc_ws s));
  iv_logwf : Forall bulk_wf (sigma s);
  iv_deliv : Permutation (sigma s ++ flat_map wbulks (cc_ws s)) (concat qs)
}.

Lemma wok_change a a' w :
  length (a_blocks a) <= length (a_blocks a') ->
  (forall i p, lookup_pos i (a_posm a') = Some p -> lookup_pos i (a_posm a) = Some p \/ ~ In (fst p) (wblk w)) ->
  wok a w -> wok a' w.
Proof.
  intros HL HP. destruct w as [[|b c|km c|km c todo] q]; unfold wok, wblk; simpl; auto.
  intros (E & Hb & Hn). split; [exact E|]. split; [lia|].
  intros i p Hl. destruct (HP i p Hl) as [X|X]; [exact (Hn i p X)|].
  intros E2. apply X. unfold wblk. simpl. left. symmetry. exact E2.
Qed.

Lemma Forall_wok_same a a' l :
  length (a_blocks a) <= length (a_blocks a') -> a_posm a' = a_posm a ->
  Forall (wok a) l -> Forall (wok a') l.
Proof.
  intros HL HP F. eapply Forall_impl; [|exact F]. intros w. apply wok_change; [exact HL|].
  intros i p H. left. rewrite <- HP. exact H.
Qed.

Lemma init_flat {X} (f : worker -> list X) (qs : list (list cbulk)) :
  (forall q, f (WIdle, q) = []) -> flat_map f (map (fun q => (WIdle, q)) qs) = [].
Proof. intros H. induction qs as [|q qs IH]; simpl; [reflexivity|]. rewrite H, IH. reflexivity. Qed.

Lemma init_bulks (qs : list (list cbulk)) : flat_map wbulks (map (fun q => (WIdle, q)) qs) = concat qs.
Proof. induction qs as [|q qs IH]; simpl; [reflexivity|]. rewrite IH. reflexivity. Qed.

Lemma inv_init qs : Forall (Forall bulk_wf) qs -> Inv qs (conc_init qs).
Proof.
  intros F. unfold conc_init. constructor; unfold Kof, sigma; simpl.
  - reflexivity.
  - reflexivity.
  - intros i. split; [intros H; exfalso; apply H; reflexivity|tauto].
  - intros i p H. discriminate.
  - apply Forall_forall. intros w Hw. apply in_map_iff in Hw. destruct Hw as (q & <- & _). exact I.
  - rewrite init_flat by reflexivity. constructor.
  - rewrite init_flat by reflexivity. constructor.
  - intros t. rewrite init_flat by reflexivity. constructor.
  - rewrite init_flat by reflexivity. reflexivity.
  - rewrite init_flat by reflexivity. reflexivity.
  - rewrite init_flat by reflexivity. reflexivity.
  - apply N.le_refl.
  - rewrite init_bulks. apply Forall_forall. intros b Hb. apply in_concat in Hb. destruct Hb as (q & Hq & Hb).
    rewrite Forall_forall in F. specialize (F q Hq). rewrite Forall_forall in F. exact (F b Hb).
  - constructor.
  - rewrite init_bulks. apply Permutation_refl.
Qed.

Ltac flat := rewrite ?flat_map_app; cbn [flat_map kmF kmT wpend wblk wbulks fst snd app].

(* --- put: PutLIDsInQueue of one token *)
Lemma inv_put qs a l1 l2 km c t g todo q log tab :
  Inv qs (mkConc a (l1 ++ (WToks km c ((t, g) :: todo), q) :: l2) log tab) ->
  Inv qs (mkConc (mkActive (a_posm a) (a_ids a) (put_lids (a_tok a) t g) (a_blocks a) (a_total a) (a_from a) (a_to a))
                 (l1 ++ (WToks km c todo, q) :: l2) log tab).
Proof.
  intros [Ilog Iids Ikeys Iblk Iwok Ind IK Itok Itot Ifrom Ito Ifle Iwf Ilwf Idel].
  unfold Kof, sigma in *. cbn [cc_a cc_ws cc_log cc_tab a_posm a_ids a_tok a_blocks a_total a_from a_to] in *.
  constructor; unfold Kof, sigma; cbn [cc_a cc_ws cc_log cc_tab a_posm a_ids a_tok a_blocks a_total a_from a_to]; auto.
  - apply Forall_app in Iwok. destruct Iwok as [W1 W2]. inversion W2; subst.
    apply Forall_app. split; [|constructor]; auto.
  - revert Ind. flat. auto.
  - revert IK. flat. auto.
  - intros t'. specialize (Itok t'). revert Itok. flat. unfold tok_lids. cbn [a_tok].
    rewrite put_lids_lookup, pend_cons.
    destruct (N.eqb_spec t' t) as [->|Hne].
    + destruct (N.eqb_spec t t) as [_|C]; [|congruence].
      intros P. eapply Permutation_trans; [|exact P].
      rewrite <- !app_assoc. apply Permutation_app_head.
      rewrite (app_assoc g), (app_assoc (flat_map (wpend t) l1)).
      apply Permutation_app_tail. apply Permutation_app_comm.
    + destruct (N.eqb_spec t t') as [C|_]; [congruence|]. auto.
  - revert Itot. flat. auto.
  - revert Ifrom. flat. auto.
  - revert Ito. flat. auto.
  - revert Iwf. flat. auto.
  - revert Idel. flat. auto.
Qed.

Ltac inv_open I :=
  destruct I as [Ilog Iids Ikeys Iblk Iwok Ind IK Itok Itot Ifrom Ito Ifle Iwf Ilwf Idel];
  unfold Kof, sigma in *; cbn [cc_a cc_ws cc_log cc_tab a_posm a_ids a_tok a_blocks a_total a_from a_to] in *;
  constructor; unfold Kof, sigma; cbn [cc_a cc_ws cc_log cc_tab a_posm a_ids a_tok a_blocks a_total a_from a_to].

(* --- stats: UpdateStats *)
Lemma inv_stats qs a l1 l2 km c q log tab :
  Inv qs (mkConc a (l1 ++ (WToks km c [], q) :: l2) log tab) ->
  Inv qs (mkConc (mkActive (a_posm a) (a_ids a) (a_tok a) (a_blocks a)
                           (a_total a + c_docs c) (N.min (a_from a) (c_min c)) (N.max (a_to a) (c_max c)))
                 (l1 ++ (WIdle, q) :: l2) log tab).
Proof.
  intros I.
  pose proof (iv_wok _ _ I) as W0. cbn [cc_a cc_ws] in W0. apply Forall_app in W0. destruct W0 as [_ W0].
  inversion W0 as [|? ? Wk _]; subst. unfold wok in Wk. cbn [fst] in Wk. destruct Wk as (Hd & Hmn & Hmx).
  inv_open I; auto.
  - apply Forall_app in Iwok. destruct Iwok as [W1 W2]. inversion W2; subst.
    apply Forall_app. split; [|constructor; [exact Logic.I|]]; auto.
  - revert Ind. flat. auto.
  - revert IK. flat. auto.
  - intros t. specialize (Itok t). revert Itok. flat. unfold tok_lids. cbn [a_tok]. auto.
  - revert Itot. flat. rewrite Hd, !app_length. lia.
  - revert Ifrom. flat. rewrite Hmn, !mn_app, ?mn_nil.
    pose proof (mn_le (flat_map kmT l2)). pose proof (mn_le (flat_map kmT l1)). pose proof (mn_le km). lia.
  - revert Ito. flat. rewrite Hmx, !mx_app, ?mx_nil. lia.
  - lia.
  - revert Iwf. flat. auto.
  - revert Idel. flat. auto.
Qed.

Lemma in_flat_blk w l x : In w l -> In x (wblk w) -> In x (flat_map wblk l).
Proof. intros H1 H2. apply in_flat_map. exists w. auto. Qed.

Lemma wok_blk_lt a l x : Forall (wok a) l -> In x (flat_map wblk l) -> x < length (a_blocks a).
Proof.
  intros F H. apply in_flat_map in H. destruct H as (w & Hw & Hx). rewrite Forall_forall in F. specialize (F w Hw).
  destruct w as [[|b c|km c|km c todo] q]; unfold wblk in Hx; simpl in Hx; try tauto.
  destruct Hx as [<-|[]]. destruct F as (_ & Hb & _). exact Hb.
Qed.

(* --- take: DocBlocks.Append, collector filled *)
Lemma inv_take qs a l1 l2 b q log tab :
  Inv qs (mkConc a (l1 ++ (WIdle, b :: q) :: l2) log tab) ->
  Inv qs (mkConc (mkActive (a_posm a) (a_ids a) (a_tok a) (a_blocks a ++ [layout_from 0 b]) (a_total a) (a_from a) (a_to a))
                 (l1 ++ (WColl b (collect (length (a_blocks a)) (map fst b)), q) :: l2) log tab).
Proof.
  intros I. inv_open I; auto.
  - intros i p H. rewrite app_length. specialize (Iblk i p H). simpl. lia.
  - apply Forall_app in Iwok. destruct Iwok as [W1 W2]. inversion W2; subst.
    assert (HL : length (a_blocks a) <= length (a_blocks a ++ [layout_from 0 b])) by (rewrite app_length; simpl; lia).
    apply Forall_app. split; [eapply Forall_wok_same; [| |exact W1]; auto|].
    constructor; [|eapply Forall_wok_same; [| |eassumption]; auto].
    unfold wok. cbn [fst a_blocks a_posm]. unfold collect at 1 2 3 4. rewrite !collect_blk. cbn [c_blk coll_init].
    split; [reflexivity|]. split; [rewrite app_length; simpl; lia|].
    intros i p H. specialize (Iblk i p H). unfold collect. rewrite collect_blk. cbn [c_blk coll_init]. lia.
  - revert Ind. flat. unfold collect. rewrite collect_blk. cbn [c_blk coll_init]. intros ND.
    assert (N1 : ~ In (length (a_blocks a)) (flat_map wblk l1 ++ flat_map wblk l2)).
    { intros H. rewrite <- flat_map_app in H. apply (wok_blk_lt a) in H; [lia|].
      apply Forall_app in Iwok. destruct Iwok as [W1 W2]. inversion W2; subst. apply Forall_app. auto. }
    apply (NoDup_Add (Add_app (length (a_blocks a)) (flat_map wblk l1) (flat_map wblk l2))).
    split; [exact ND|exact N1].
  - revert IK. flat. auto.
  - intros t. specialize (Itok t). revert Itok. flat. auto.
  - revert Itot. flat. auto.
  - revert Ifrom. flat. auto.
  - revert Ito. flat. auto.
  - revert Iwf. flat. auto.
  - revert Idel. flat. auto.
Qed.

(* --- ids: AppendIDs + GroupLIDsByToken *)
Lemma inv_ids qs a l1 l2 km c q log tab :
  Inv qs (mkConc a (l1 ++ (WFilt km c, q) :: l2) log tab) ->
  Inv qs (mkConc (mkActive (a_posm a) (a_ids a ++ c_ids c) (a_tok a) (a_blocks a) (a_total a) (a_from a) (a_to a))
                 (l1 ++ (WToks km c (todo_of c (seq (length (a_ids a)) (length (c_ids c)))), q) :: l2)
                 log (tab ++ km)).
Proof.
  intros I.
  pose proof (iv_wok _ _ I) as W0. cbn [cc_a cc_ws] in W0. apply Forall_app in W0. destruct W0 as [_ W0].
  inversion W0 as [|? ? D _]; subst. unfold wok in D. cbn [fst] in D.
  pose proof (describes_ids _ _ D) as Eids.
  inv_open I; auto.
  - rewrite Iids, Eids, map_app. reflexivity.
  - apply Forall_app in Iwok. destruct Iwok as [W1 W2]. inversion W2; subst.
    apply Forall_app. split; [exact W1|]. constructor; [|assumption].
    unfold wok. cbn [fst]. destruct D as (sl & _ & _ & _ & Hd & Hmn & Hmx). auto.
  - revert Ind. flat. auto.
  - revert IK. flat. intros P. eapply Permutation_trans; [|exact P].
    rewrite <- app_assoc. apply Permutation_app_head.
    rewrite !app_assoc. apply Permutation_app_tail. apply Permutation_app_comm.
  - intros t. specialize (Itok t). revert Itok. flat. unfold tok_lids. cbn [a_tok]. intros P.
    rewrite (describes_pend _ _ _ _ D), map_app, postings_app, map_length.
    replace (length tab + 1) with (length (a_ids a)) by (rewrite Iids; simpl; rewrite map_length; lia).
    set (G := postings t (length (a_ids a)) (map m_toks km)).
    eapply Permutation_trans; [|apply Permutation_app_tail; exact P].
    rewrite <- !app_assoc. apply Permutation_app_head. apply Permutation_app_head. apply Permutation_app_comm.
  - revert Itot. flat. rewrite !app_length. lia.
  - revert Ifrom. flat. rewrite !mn_app. lia.
  - revert Ito. flat. rewrite !mx_app. lia.
  - revert Iwf. flat. auto.
  - revert Idel. flat. auto.
Qed.

Lemma dedup_snoc h : forall K ms,
  dedup_from K (h ++ [ms]) = dedup_from K h ++ [first_new (fold_left ref_step_m h K) ms].
Proof. induction h as [|x h IH]; intros K ms; simpl; [reflexivity|]. rewrite IH. reflexivity. Qed.

Lemma first_deliveries_snoc h ms :
  first_deliveries (h ++ [ms]) = first_deliveries h ++ first_new (first_deliveries h) ms.
Proof. unfold first_deliveries. rewrite fold_left_app. reflexivity. Qed.

Lemma dedup_first_unfold h ms :
  dedup_first (h ++ [ms]) = dedup_first h ++ [first_new (first_deliveries h) ms].
Proof. unfold dedup_first. rewrite dedup_snoc. reflexivity. Qed.

(* --- set: the SetMultiple critical section (+ Filter) *)
Lemma inv_set qs a l1 l2 b c q log tab :
  Inv qs (mkConc a (l1 ++ (WColl b c, q) :: l2) log tab) ->
  Inv qs (mkConc (set_posm a (fst (set_multiple (a_posm a) (c_ids c) (c_pos c))))
                 (l1 ++ (after_set b c (snd (set_multiple (a_posm a) (c_ids c) (c_pos c))), q) :: l2)
                 (log ++ [(b, snd (set_multiple (a_posm a) (c_ids c) (c_pos c)))]) tab).
Proof.
  intros I.
  pose proof (iv_wok _ _ I) as W0. cbn [cc_a cc_ws] in W0. apply Forall_app in W0. destruct W0 as [_ W0].
  inversion W0 as [|? ? W _]; subst. unfold wok in W. cbn [fst] in W. destruct W as (E & Hb & Hn).
  assert (WFb : bulk_wf b).
  { pose proof (iv_wf _ _ I) as F. cbn [cc_ws] in F. revert F. flat. intros F.
    apply Forall_app in F. destruct F as [_ F]. inversion F; subst. assumption. }
  remember (c_blk c) as blk eqn:Eblk.
  set (ms := map fst b) in *.
  set (K := first_deliveries (map (map fst) (map fst log))).
  pose proof (iv_keys _ _ I) as Hkeys0. unfold Kof, sigma in Hkeys0. cbn [cc_a cc_log] in Hkeys0. fold K in Hkeys0.
  pose proof (set_step K (a_posm a) blk ms Hkeys0 Hn (bulk_wf_ok _ WFb)) as S.
  cbv zeta in S. rewrite <- E in S. destruct S as (Hacc & Hkm & D & Hkeys' & Hpos').
  unfold after_set. fold ms. rewrite Hkm.
  set (r := set_multiple (a_posm a) (c_ids c) (c_pos c)) in *.
  set (km := first_new K ms) in *.
  set (c' := if Nat.eqb (length (snd r)) (length (c_ids c)) then c else filter_coll c (snd r)) in *.
  assert (Ekm : first_new K (map fst b) = km) by reflexivity.
  clearbody r c' km. clear E.
  unfold set_posm.
  inv_open I; rewrite ?map_app; cbn [map fst snd]; auto.
  - rewrite dedup_first_unfold, map_app. change (first_deliveries (map (map fst) (map fst log))) with K. rewrite Ekm, Ilog, Hacc. reflexivity.
  - intros i. rewrite first_deliveries_snoc. change (first_deliveries (map (map fst) (map fst log))) with K. rewrite Ekm. apply Hkeys'.
  - intros i p H. destruct (Hpos' i p H) as [X|X]; [exact (Iblk i p X)|lia].
  - assert (NI : ~ In blk (flat_map wblk l1 ++ flat_map wblk l2)).
    { revert Ind. flat. rewrite <- Eblk. intros ND. apply NoDup_remove_2 in ND. exact ND. }
    apply Forall_app in Iwok. destruct Iwok as [W1 W2]. apply Forall_inv_tail in W2.
    assert (G : forall l, Forall (wok a) l -> (forall x, In x (flat_map wblk l) -> x <> blk) ->
                Forall (wok (mkActive (fst r) (a_ids a) (a_tok a) (a_blocks a) (a_total a) (a_from a) (a_to a))) l).
    { intros l F NB. apply Forall_forall. intros w Hw. rewrite Forall_forall in F.
      apply (wok_change a); [simpl; lia| |exact (F w Hw)].
      intros i p H. cbn [a_posm] in H. destruct (Hpos' i p H) as [X|X]; [left; exact X|right].
      intros Hin. apply (NB (fst p)); [|exact X]. apply in_flat_map. exists w. auto. }
    apply Forall_app. split; [apply G; [exact W1|]|constructor; [exact D|apply G; [assumption|]]].
    + intros x Hx Ex. subst x. apply NI. apply in_or_app. left. exact Hx.
    + intros x Hx Ex. subst x. apply NI. apply in_or_app. right. exact Hx.
  - revert Ind. flat. intros ND. apply NoDup_remove_1 in ND. exact ND.
  - rewrite first_deliveries_snoc. change (first_deliveries (map (map fst) (map fst log))) with K. rewrite Ekm. revert IK. flat. change (first_deliveries (map (map fst) (map fst log))) with K. intros P.
    eapply Permutation_trans; [|apply Permutation_app_tail; exact P].
    rewrite <- !app_assoc. apply Permutation_app_head. apply Permutation_app_head. apply Permutation_app_comm.
  - intros t. specialize (Itok t). revert Itok. flat. unfold tok_lids. cbn [a_tok]. auto.
  - revert Itot. flat. auto.
  - revert Ifrom. flat. auto.
  - revert Ito. flat. auto.
  - revert Iwf. flat. intros F. apply Forall_app in F. destruct F as [F1 F2]. apply Forall_inv_tail in F2.
    apply Forall_app. split; assumption.
  - apply Forall_app. split; [exact Ilwf|constructor; [exact WFb|constructor]].
  - revert Idel. flat. intros P. eapply Permutation_trans; [|exact P].
    rewrite <- app_assoc. apply Permutation_app_head. cbn [app]. apply Permutation_middle.
Qed.

(* ------------------------------------------------------------------ every step, every schedule *)

Lemma cstep_inv qs s i : Inv qs s -> Inv qs (cstep s i).
Proof.
  intros I. unfold cstep. destruct (nth_error (cc_ws s) i) as [w|] eqn:E; [|exact I].
  apply nth_error_split in E. destruct E as (l1 & l2 & Ews & Hlen).
  destruct s as [a ws log tab]. cbn [cc_ws cc_a cc_log cc_tab] in *. subst ws i.
  destruct w as [[|b c|km c|km c [|[t g] todo]] q].
  - destruct q as [|b q]; cbn [wstep]; rewrite upd_app, !app_nil_r; [exact I|apply inv_take; exact I].
  - cbn [wstep]. rewrite upd_app, !app_nil_r. apply inv_set. exact I.
  - cbn [wstep]. rewrite upd_app, !app_nil_r. apply inv_ids. exact I.
  - cbn [wstep]. rewrite upd_app, !app_nil_r. eapply inv_stats. exact I.
  - cbn [wstep]. rewrite upd_app, !app_nil_r. apply inv_put. exact I.
Qed.

Lemma run_inv qs sched : forall s, Inv qs s -> Inv qs (conc_run sched s).
Proof.
  induction sched as [|i sched IH]; intros s I; simpl; [exact I|]. apply IH. apply cstep_inv. exact I.
Qed.

Lemma done_flat {X} (f : worker -> list X) ws :
  f (WIdle, []) = [] -> forallb wdone ws = true -> flat_map f ws = [].
Proof.
  intros H. induction ws as [|w ws IH]; simpl; [reflexivity|].
  destruct w as [[|b c|km c|km c todo] [|b0 q]]; simpl; try discriminate. intros D. rewrite H, IH; auto.
Qed.

(* ------------------------------------------------------------------ each ID is returned to exactly one call *)

Lemma dedup_from_notin r : forall K i, In i (map m_id K) ->
  forall b, In b (dedup_from K r) -> ~ In i (map m_id b).
Proof.
  induction r as [|ms r IH]; intros K i Hi b Hb; simpl in Hb; [tauto|].
  destruct Hb as [<-|Hb].
  - intros H. apply in_first_new in H. destruct H as [_ H]. unfold old_in in H.
    apply mem_id_In in Hi. congruence.
  - apply (IH (K ++ first_new K ms) i); [|exact Hb]. rewrite map_app. apply in_or_app. left. exact Hi.
Qed.

Lemma dedup_exactly_once h : forall K i, In i (map m_id (concat h)) -> ~ In i (map m_id K) ->
  exists l1 b l2, dedup_from K h = l1 ++ b :: l2 /\ In i (map m_id b) /\
                  (forall b', In b' (l1 ++ l2) -> ~ In i (map m_id b')).
Proof.
  induction h as [|ms r IH]; intros K i Hi Hn; simpl in Hi; [tauto|].
  simpl dedup_from. destruct (mem_id i (map m_id ms)) eqn:E.
  - apply mem_id_In in E. exists [], (first_new K ms), (dedup_from (K ++ first_new K ms) r).
    assert (Hin : In i (map m_id (first_new K ms))).
    { apply in_first_new. split; [exact E|]. unfold old_in. destruct (mem_id i (map m_id K)) eqn:M; [|reflexivity].
      apply mem_id_In in M. tauto. }
    split; [reflexivity|]. split; [exact Hin|].
    intros b' Hb'. simpl in Hb'. eapply dedup_from_notin; [|exact Hb'].
    rewrite map_app. apply in_or_app. right. exact Hin.
  - assert (Hms : ~ In i (map m_id ms)) by (intros H; apply mem_id_In in H; congruence).
    rewrite map_app in Hi. apply in_app_or in Hi. destruct Hi as [Hi|Hi]; [tauto|].
    destruct (IH (K ++ first_new K ms) i Hi) as (l1 & b & l2 & Eq & Hb & Ho).
    { rewrite map_app. intros H. apply in_app_or in H. destruct H as [H|H]; [tauto|].
      apply in_first_new in H. tauto. }
    exists (first_new K ms :: l1), b, l2. rewrite Eq. split; [reflexivity|]. split; [exact Hb|].
    intros b' [<-|Hb']; [|apply Ho; exact Hb'].
    intros H. apply in_first_new in H. tauto.
Qed.

(* ------------------------------------------------------------------ the theorem *)

Lemma conc_first_writer_wins (qs : list (list cbulk)) (sched : list nat) :
  Forall (Forall bulk_wf) qs ->
  let s := conc_run sched (conc_init qs) in
  all_done s = true ->
  let a := cc_a s in let sg := sigma s in
  let K := first_deliveries (map (map fst) sg) in
  Permutation sg (concat qs) /\
  map snd (cc_log s) = map (map m_id) (dedup_first (map (map fst) sg)) /\
  (forall i, In i (map m_id (concat (map (map fst) sg))) ->
     exists l1 acc l2, map snd (cc_log s) = l1 ++ acc :: l2 /\ In i acc /\
                       (forall acc', In acc' (l1 ++ l2) -> ~ In i acc')) /\
  a_ids a = sys_id :: map m_id (cc_tab s) /\ Permutation (cc_tab s) K /\
  (forall t, Permutation (tok_lids a t) (postings t 1 (map m_toks (cc_tab s)))) /\
  (forall i, lookup_pos i (a_posm a) <> None <-> In i (map m_id K)) /\
  let q := run_active sg in let q' := run_active (dedupb sg) in
  (a_total a = a_total q /\ a_from a = a_from q /\ a_to a = a_to q /\ Permutation (a_ids a) (a_ids q)) /\
  (a_total a = a_total q' /\ a_from a = a_from q' /\ a_to a = a_to q' /\ Permutation (a_ids a) (a_ids q')) /\
  a_total a = N.of_nat (length K).
Proof.
  intros F s D a sg K.
  pose proof (run_inv qs sched _ (inv_init qs F)) as I. fold s in I.
  destruct I as [Ilog Iids Ikeys Iblk Iwok Ind IK Itok Itot Ifrom Ito Ifle Iwf Ilwf Idel].
  unfold all_done in D. fold a in Iids, Ikeys, Itok, Itot, Ifrom, Ito. fold sg in Ilog, Ilwf, Idel.
  unfold Kof in *. fold sg in Ikeys, IK. fold K in Ikeys, IK.
  rewrite (done_flat kmF _ eq_refl D) in IK. rewrite (done_flat kmT _ eq_refl D) in Itot, Ifrom, Ito.
  rewrite (done_flat wbulks _ eq_refl D) in Idel. rewrite app_nil_r in IK, Idel.
  assert (Itok' : forall t, Permutation (tok_lids a t) (postings t 1 (map m_toks (cc_tab s)))).
  { intros t. specialize (Itok t). rewrite (done_flat (wpend t) _ eq_refl D), app_nil_r in Itok. exact Itok. }
  simpl in Itot. rewrite N.add_0_r in Itot. rewrite mn_nil in Ifrom. rewrite mx_nil, N.max_0_r in Ito.
  assert (Ifrom' : a_from a = mn (cc_tab s)).
  { rewrite <- Ifrom. fold a in Ifle. lia. }
  pose proof (run_index sg (all_wf_ok _ Ilwf)) as Q. fold K in Q.
  pose proof (idempotent_wf sg Ilwf) as (E1 & _ & E3 & E4 & E5).
  assert (PK : Permutation (map m_id (cc_tab s)) (map m_id K)) by (apply Permutation_map; exact IK).
  assert (T : a_total a = N.of_nat (length K)) by (rewrite Itot; f_equal; apply Permutation_length; exact IK).
  assert (T1 : a_total a = a_total (run_active sg)) by (rewrite (ii_total _ _ Q); exact T).
  assert (T2 : a_from a = a_from (run_active sg)).
  { rewrite (ii_from _ _ Q), Ifrom'. unfold mn. apply min_of_perm. exact PK. }
  assert (T3 : a_to a = a_to (run_active sg)).
  { rewrite (ii_to _ _ Q), Ito. unfold mx. apply max_of_perm. exact PK. }
  assert (T4 : Permutation (a_ids a) (a_ids (run_active sg))).
  { rewrite Iids, (ii_ids _ _ Q). apply perm_skip. exact PK. }
  split; [exact Idel|]. split; [exact Ilog|]. split.
  { intros i Hi. rewrite Ilog. unfold dedup_first.
    destruct (dedup_exactly_once (map (map fst) sg) [] i) as (l1 & b & l2 & Eq & Hb & Ho).
    - exact Hi.
    - simpl. tauto.
    - exists (map (map m_id) l1), (map m_id b), (map (map m_id) l2).
      rewrite Eq, map_app. split; [reflexivity|]. split; [exact Hb|].
      intros acc' H. rewrite <- map_app in H. apply in_map_iff in H. destruct H as (b' & <- & Hb'). apply Ho. exact Hb'. }
  split; [exact Iids|]. split; [exact IK|]. split; [exact Itok'|]. split; [exact Ikeys|].
  split; [repeat split; assumption|]. split; [|exact T].
  split; [congruence|]. split; [congruence|]. split; [congruence|]. rewrite <- E1. exact T4.
Qed.
