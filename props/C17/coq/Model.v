(* C17 — executable model of the active-fraction append path (frac/active_indexer.go:appendWorker,
   frac/meta_data_collector.go, frac/active_docs_positions.go, frac/active.go:AppendIDs/UpdateStats)
   and of the search-level observables (frac/processor search over LIDs, seq/qpr.go:MergeQPRs).
   No proofs in this file. *)
From Coq Require Import List Arith NArith Bool.
Import ListNotations.

(* ------------------------------------------------------------------ basic data *)

Definition id := (N * N)%type.                     (* seq.ID = (MID, RID) *)
Definition id_eqb (a b : id) : bool := N.eqb (fst a) (fst b) && N.eqb (snd a) (snd b).
Definition pos := (nat * N)%type.                  (* seq.DocPos = (block index, offset in block) *)
Definition pos_eqb (a b : pos) : bool := Nat.eqb (fst a) (fst b) && N.eqb (snd a) (snd b).

(* frac.MetaData: ID, size of the document (0 = nested meta pointing at the previous document),
   tokens (numbers: the harness keeps the table number <-> "field:value") *)
Record meta := mkMeta { m_id : id; m_size : N; m_toks : list N }.

Definition max_u64 : N := 18446744073709551615%N.

Fixpoint mem_id (i : id) (l : list id) : bool :=
  match l with [] => false | x :: r => id_eqb i x || mem_id i r end.

(* ------------------------------------------------------------------ metaDataCollector *)

Record coll := mkColl {
  c_next : N;            (* nextDocOffset *)
  c_blk : nat;           (* blockIndex *)
  c_min : N; c_max : N;  (* MinMID, MaxMID *)
  c_docs : N;            (* DocsCounter *)
  c_size : N;            (* SizeCounter *)
  c_tvals : list N;      (* TokensValues: distinct tokens of the bulk in order of first appearance *)
  c_ids : list id;       (* IDs *)
  c_tid : list nat;      (* tokensInDocs *)
  c_tix : list nat;      (* tokensIndex: positions in TokensValues, all documents concatenated *)
  c_pos : list pos       (* Positions *)
}.

Definition coll_init (blk : nat) : coll := mkColl 0 blk max_u64 0 0 0 [] [] [] [] [].

Fixpoint index_of (t : N) (l : list N) : option nat :=
  match l with
  | [] => None
  | x :: r => if N.eqb t x then Some 0 else option_map S (index_of t r)
  end.

(* extractTokens, one token: tokensMap lookup, else a new entry of TokensValues *)
Definition extract_token (st : list N * list nat) (t : N) : list N * list nat :=
  match index_of t (fst st) with
  | Some i => (fst st, snd st ++ [i])
  | None => (fst st ++ [t], snd st ++ [length (fst st)])
  end.

(* AppendMeta. (Go indexes Positions[len-1] for a size-0 meta: a bulk never starts with one.) *)
Definition append_meta (c : coll) (m : meta) : coll :=
  let nested := N.eqb (m_size m) 0 in
  let p := if nested then last (c_pos c) (c_blk c, 0%N) else (c_blk c, c_next c) in
  let next := if nested then c_next c else (c_next c + m_size m + 4)%N in
  let st := fold_left extract_token (m_toks m) (c_tvals c, c_tix c) in
  mkColl next (c_blk c) (N.min (c_min c) (fst (m_id m))) (N.max (c_max c) (fst (m_id m)))
         (c_docs c + 1) (c_size c + m_size m) (fst st)
         (c_ids c ++ [m_id m]) (c_tid c ++ [length (m_toks m)]) (snd st) (c_pos c ++ [p]).

Definition collect (blk : nat) (ms : list meta) : coll := fold_left append_meta ms (coll_init blk).

(* Filter: tokensOffsets = running sums of tokensInDocs *)
Fixpoint offsets_from (o : nat) (tid : list nat) : list nat :=
  match tid with [] => [] | v :: r => o :: offsets_from (o + v) r end.

Definition slice (tix : list nat) (off len : nat) : list nat := firstn len (skipn off tix).

(* getIndexesOfIntercept *)
Definition kept_indexes (ids app : list id) : list nat :=
  filter (fun i => mem_id (nth i ids (0, 0)%N) app) (seq 0 (length ids)).

Definition filter_coll (c : coll) (app : list id) : coll :=
  let offs := offsets_from 0 (c_tid c) in
  let idx := kept_indexes (c_ids c) app in
  let ids := map (fun i => nth i (c_ids c) (0, 0)%N) idx in
  mkColl (c_next c) (c_blk c)
         (fold_left (fun a i => N.min a (fst i)) ids max_u64)
         (fold_left (fun a i => N.max a (fst i)) ids 0%N)
         (N.of_nat (length app)) (c_size c) (c_tvals c)
         ids
         (map (fun i => nth i (c_tid c) 0) idx)
         (flat_map (fun i => slice (c_tix c) (nth i offs 0) (nth i (c_tid c) 0)) idx)
         (map (fun i => nth i (c_pos c) (0, 0%N)) idx).

(* restoreLIDsOrder: lids[i] repeated tokensInDocs[i] times *)
Fixpoint restore_lids (tid lids : list nat) : list nat :=
  match tid, lids with
  | n :: tr, l :: lr => repeat l n ++ restore_lids tr lr
  | _, _ => []
  end.

(* GroupLIDsByToken: group j = the restored LIDs at the places where tokensIndex = j, in order *)
Definition group_lids (c : coll) (lids : list nat) : list (list nat) :=
  let flat := restore_lids (c_tid c) lids in
  map (fun j => map snd (filter (fun p => Nat.eqb (fst p) j) (combine (c_tix c) flat)))
      (seq 0 (length (c_tvals c))).

(* ------------------------------------------------------------------ active fraction *)

Record active := mkActive {
  a_posm : list (id * pos);          (* DocsPositions *)
  a_ids : list id;                   (* MIDs/RIDs: LID -> ID; LID 0 is the system entry *)
  a_tok : list (N * list nat);       (* token -> LIDs in arrival order (TokenLIDs queue) *)
  a_blocks : list (list (N * N));    (* docs blocks: (offset in block, body) of every stored document *)
  a_total : N;                       (* Info.DocsTotal *)
  a_from : N; a_to : N               (* Info.From, Info.To *)
}.

Definition sys_id : id := (max_u64, max_u64).
Definition active_empty : active := mkActive [] [sys_id] [] [] 0 max_u64 0.

Fixpoint lookup_pos (i : id) (m : list (id * pos)) : option pos :=
  match m with
  | [] => None
  | (k, p) :: r => if id_eqb i k then Some p else lookup_pos i r
  end.

(* SetMultiple: first writer wins; the same position (nested meta) is accepted again *)
Fixpoint set_multiple (m : list (id * pos)) (ids : list id) (ps : list pos) : list (id * pos) * list id :=
  match ids, ps with
  | i :: ids', p :: ps' =>
      match lookup_pos i m with
      | None => let r := set_multiple ((i, p) :: m) ids' ps' in (fst r, i :: snd r)
      | Some q => if pos_eqb q p
                  then let r := set_multiple m ids' ps' in (fst r, i :: snd r)
                  else set_multiple m ids' ps'
      end
  | _, _ => (m, [])
  end.

Fixpoint tok_lids_in (m : list (N * list nat)) (t : N) : list nat :=
  match m with
  | [] => []
  | (k, q) :: r => if N.eqb t k then q else tok_lids_in r t
  end.
Fixpoint has_tok (m : list (N * list nat)) (t : N) : bool :=
  match m with [] => false | (k, _) :: r => N.eqb t k || has_tok r t end.
Fixpoint put_lids (m : list (N * list nat)) (t : N) (g : list nat) : list (N * list nat) :=
  match m with
  | [] => [(t, g)]
  | (k, q) :: r => if N.eqb t k then (k, q ++ g) :: r else (k, q) :: put_lids r t g
  end.
(* TokenList.Append + PutLIDsInQueue for every token of the bulk. (addLIDsToTokens queues the
   all-token last; the order between different tokens is invisible once the bulk is indexed:
   ProofsHist.add_groups_lookup.) *)
Fixpoint add_groups (m : list (N * list nat)) (tv : list N) (gs : list (list nat)) : list (N * list nat) :=
  match tv, gs with
  | t :: tr, g :: gr => add_groups (put_lids m t g) tr gr
  | _, _ => m
  end.

(* layout of the docs block of a bulk: 4 byte length + body per document (DocProvider.appendDoc) *)
Fixpoint layout_from (o : N) (b : list (meta * N)) : list (N * N) :=
  match b with
  | [] => []
  | (m, body) :: r => if N.eqb (m_size m) 0 then layout_from o r
                      else (o, body) :: layout_from (o + m_size m + 4)%N r
  end.

(* one bulk through appendWorker; the bulk = metas with the body of each (ignored for nested) *)
Definition process_bulk (a : active) (b : list (meta * N)) : active :=
  let blk := length (a_blocks a) in
  let c := collect blk (map fst b) in
  let r := set_multiple (a_posm a) (c_ids c) (c_pos c) in
  let c' := if Nat.eqb (length (snd r)) (length (c_ids c)) then c else filter_coll c (snd r) in
  let lids := seq (length (a_ids a)) (length (c_ids c')) in
  mkActive (fst r) (a_ids a ++ c_ids c')
           (add_groups (a_tok a) (c_tvals c') (group_lids c' lids))
           (a_blocks a ++ [layout_from 0 b])
           (a_total a + c_docs c') (N.min (a_from a) (c_min c')) (N.max (a_to a) (c_max c')).

Definition run_active (h : list (list (meta * N))) : active := fold_left process_bulk h active_empty.

(* ---------- observables of one fraction *)

Definition tok_lids (a : active) (t : N) : list nat := tok_lids_in (a_tok a) t.
Definition lid_id (a : active) (l : nat) : id := nth l (a_ids a) sys_id.

Fixpoint lookup_off (o : N) (l : list (N * N)) : option N :=
  match l with [] => None | (k, b) :: r => if N.eqb o k then Some b else lookup_off o r end.

(* fetch: position of the ID, then the document at that offset of that block *)
Definition fetch (a : active) (i : id) : option N :=
  match lookup_pos i (a_posm a) with
  | None => None
  | Some (blk, off) => lookup_off off (nth blk (a_blocks a) [])
  end.

(* ------------------------------------------------------------------ search-level observables *)

Definition id_ltb (a b : id) : bool :=
  if N.eqb (fst a) (fst b) then N.ltb (snd a) (snd b) else N.ltb (fst a) (fst b).

(* descending insertion sort (newest first) *)
Fixpoint insert_desc (x : id) (l : list id) : list id :=
  match l with
  | [] => [x]
  | y :: r => if id_ltb x y then y :: insert_desc x r else x :: l
  end.
Definition sort_desc (l : list id) : list id := fold_right insert_desc [] l.

(* adjacent equal IDs dropped (processor search inside a fraction; removeRepetitionsAdvanced) *)
Fixpoint dedup_adj (l : list id) : list id :=
  match l with
  | [] => []
  | x :: r => match r with
              | [] => [x]
              | y :: _ => if id_eqb x y then dedup_adj r else x :: dedup_adj r
              end
  end.

Fixpoint hist_add (b : N) (h : list (N * N)) : list (N * N) :=
  match h with
  | [] => [(b, 1%N)]
  | (k, c) :: r => if N.eqb b k then (k, (c + 1)%N) :: r
                   else if N.ltb b k then (b, 1%N) :: h else (k, c) :: hist_add b r
  end.
Definition bucket (iv : N) (i : id) : N := (fst i - fst i mod iv)%N.

Definition mem_nat (x : nat) (l : list nat) : bool := existsb (Nat.eqb x) l.

Record qres := mkQres {
  q_ids : list id;          (* IDs listed, newest first *)
  q_total : N;
  q_hist : list (N * N);    (* bucket -> count, ascending, no zero entries *)
  q_agg : list (N * N);     (* token of the group field -> count, in the order of gtoks, no zero entries *)
  q_notexists : N
}.

(* single-token query on one fraction: the matched LIDs are the token's LIDs; total, histogram
   and aggregation count LIDs, the ID list drops adjacent repeats *)
Definition search_frac (iv : N) (gtoks : list N) (a : active) (t : N) : qres :=
  let lids := tok_lids a t in
  let ids := map (lid_id a) lids in
  let cnt g := N.of_nat (length (filter (fun l => mem_nat l (tok_lids a g)) lids)) in
  mkQres (dedup_adj (sort_desc ids))
         (N.of_nat (length lids))
         (fold_right (fun i h => hist_add (bucket iv i) h) [] ids)
         (filter (fun p => negb (N.eqb (snd p) 0)) (map (fun g => (g, cnt g)) gtoks))
         (N.of_nat (length (filter (fun l => negb (existsb (fun g => mem_nat l (tok_lids a g)) gtoks)) lids))).

(* ------------------------------------------------------------------ store: fractions, seal, restart *)

Inductive step :=
| SBulk (b : list (meta * N))          (* one bulk, indexed before the next step starts *)
| SConc (bs : list (list (meta * N)))  (* bulks delivered concurrently (modelled in list order) *)
| SSeal                                (* rotate: later bulks land in a new fraction *)
| SRestart.                            (* sealed fractions reloaded, active ones replayed *)

(* fractions, oldest first; the last one is the active fraction receiving bulks *)
Definition store := list active.
Definition store_empty : store := [active_empty].

Definition on_last (f : active -> active) (s : store) : store :=
  match rev s with
  | [] => [f active_empty]
  | a :: r => rev r ++ [f a]
  end.

Definition do_step (s : store) (st : step) : store :=
  match st with
  | SBulk b => on_last (fun a => process_bulk a b) s
  | SConc bs => on_last (fun a => fold_left process_bulk bs a) s
  | SSeal => s ++ [active_empty]
  | SRestart => s
  end.
Definition run_store (h : list step) : store := fold_left do_step h store_empty.

Definition nonempty (s : store) : store := filter (fun a => negb (N.eqb (a_total a) 0)) s.

(* IDs a single-token query lists over all fractions: per-fraction lists concatenated, sorted
   newest first, adjacent equal IDs removed (MergeQPRs + removeRepetitionsAdvanced) *)
Definition search_ids (s : store) (t : N) : list id :=
  dedup_adj (sort_desc (flat_map (fun a => q_ids (search_frac 1 [] a t)) (nonempty s))).

(* fetch over all fractions: the first fraction (in any order) that has the ID answers; with
   identical bytes on every delivery the order is irrelevant; modelled newest fraction first *)
Fixpoint fetch_store (s : store) (i : id) : option N :=
  match s with
  | [] => None
  | a :: r => match fetch_store r i with Some b => Some b | None => fetch a i end
  end.
