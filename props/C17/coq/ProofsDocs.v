(* C17 — bulks as the proxy builds them (documents with pairwise distinct IDs, each followed by its
   nested metas): well-formedness survives the removal of whole documents, and a fetch serves the
   bytes of the first delivery. *)
From Coq Require Import List Arith NArith Bool Lia.
From VLib Require Import CaseLib.
From C17 Require Import Model CaseDefs ProofsColl ProofsHist.
Import ListNotations.

Record doc := mkDoc { d_id : id; d_size : N; d_toks : list N; d_nested : list (list N); d_body : N }.

(* the metas of one document (with the body tag the docs block carries for it) *)
Definition doc_pairs (d : doc) : list (meta * N) :=
  (mkMeta (d_id d) (d_size d) (d_toks d), d_body d)
  :: map (fun ts => (mkMeta (d_id d) 0 ts, d_body d)) (d_nested d).
Definition pairs_of (ds : list doc) : list (meta * N) := flat_map doc_pairs ds.

Definition wf_docs (ds : list doc) : Prop :=
  NoDup (map d_id ds) /\ Forall (fun d => d_size d <> 0%N) ds.
(* a bulk as the proxy produces it *)
Definition bulk_wf (b : list (meta * N)) : Prop := exists ds, wf_docs ds /\ b = pairs_of ds.

Lemma pairs_cons d ds : pairs_of (d :: ds) = doc_pairs d ++ pairs_of ds.
Proof. reflexivity. Qed.

(* ------------------------------------------------------------------ removal of whole documents *)

Lemma filter_doc_pairs (f : id -> bool) d :
  filter (fun p : meta * N => f (m_id (fst p))) (doc_pairs d) = if f (d_id d) then doc_pairs d else [].
Proof.
  unfold doc_pairs. simpl.
  assert (E : filter (fun p : meta * N => f (m_id (fst p)))
                     (map (fun ts => (mkMeta (d_id d) 0 ts, d_body d)) (d_nested d))
              = if f (d_id d) then map (fun ts => (mkMeta (d_id d) 0 ts, d_body d)) (d_nested d) else []).
  { induction (d_nested d) as [|ts l IH]; simpl; [destruct (f (d_id d)); reflexivity|].
    rewrite IH. destruct (f (d_id d)); reflexivity. }
  rewrite E. destruct (f (d_id d)); reflexivity.
Qed.

Lemma pairs_filter (f : id -> bool) ds :
  filter (fun p : meta * N => f (m_id (fst p))) (pairs_of ds) = pairs_of (filter (fun d => f (d_id d)) ds).
Proof.
  induction ds as [|d ds IH]; [reflexivity|]. unfold pairs_of in *. cbn [flat_map].
  rewrite filter_app, filter_doc_pairs, IH. cbn [filter]. destruct (f (d_id d)); reflexivity.
Qed.

Lemma wf_filter (g : doc -> bool) ds : wf_docs ds -> wf_docs (filter g ds).
Proof.
  intros [ND F]. split.
  - induction ds as [|d ds IH]; simpl; [constructor|]. simpl in ND. inversion ND; subst. inversion F; subst.
    destruct (g d); simpl; [|auto]. constructor; [|auto].
    intros Hin. apply H1. apply in_map_iff in Hin. destruct Hin as (x & E & Hx).
    apply filter_In in Hx. apply in_map_iff. exists x. tauto.
  - rewrite Forall_forall in *. intros d Hd. apply filter_In in Hd. apply F. tauto.
Qed.

Lemma bulk_wf_filter (f : id -> bool) b : bulk_wf b -> bulk_wf (filter (fun p => f (m_id (fst p))) b).
Proof.
  intros (ds & W & ->). exists (filter (fun d => f (d_id d)) ds). split; [apply wf_filter, W|apply pairs_filter].
Qed.

Lemma dedupb_wf h : forall K, Forall bulk_wf h -> Forall bulk_wf (dedupb_from K h).
Proof.
  induction h as [|b h IH]; intros K F; simpl; [constructor|]. inversion F; subst. constructor.
  - apply (bulk_wf_filter (fun i => negb (old_in K i))). assumption.
  - apply IH. assumption.
Qed.

(* ------------------------------------------------------------------ views of a well formed bulk *)

Definition doc_views (blk : nat) (o : N) (d : doc) : list dview :=
  (d_id d, (blk, o), d_toks d) :: map (fun ts => (d_id d, (blk, o), ts)) (d_nested d).

Lemma sent_view_nested blk i (nested : list (list N)) rest : forall o prev,
  sent_view_from blk o prev (map (fun ts => mkMeta i 0 ts) nested ++ rest)
  = map (fun ts => (i, prev, ts)) nested ++ sent_view_from blk o prev rest.
Proof. induction nested as [|ts l IH]; intros o prev; simpl; [reflexivity|]. rewrite IH. reflexivity. Qed.

Lemma metas_doc_pairs d : map fst (doc_pairs d) = mkMeta (d_id d) (d_size d) (d_toks d) :: map (fun ts => mkMeta (d_id d) 0 ts) (d_nested d).
Proof. unfold doc_pairs. simpl. rewrite map_map. reflexivity. Qed.

Lemma sent_view_docs blk d ds o prev : d_size d <> 0%N ->
  sent_view_from blk o prev (map fst (pairs_of (d :: ds)))
  = doc_views blk o d ++ sent_view_from blk (o + d_size d + 4)%N (blk, o) (map fst (pairs_of ds)).
Proof.
  intros Hs. rewrite pairs_cons, map_app, metas_doc_pairs. cbn [app sent_view_from m_size m_id m_toks].
  destruct (N.eqb_spec (d_size d) 0) as [E|_]; [contradiction|].
  rewrite sent_view_nested. reflexivity.
Qed.

Lemma docs_view_ids ds : forall blk o prev (v : dview), Forall (fun d => d_size d <> 0%N) ds ->
  In v (sent_view_from blk o prev (map fst (pairs_of ds))) -> In (fst (fst v)) (map d_id ds).
Proof.
  induction ds as [|d ds IH]; intros blk o prev v F Hv; [simpl in Hv; tauto|].
  inversion F; subst. rewrite sent_view_docs in Hv by assumption. apply in_app_iff in Hv. simpl.
  destruct Hv as [Hv|Hv].
  - left. unfold doc_views in Hv. destruct Hv as [<-|Hv]; [reflexivity|].
    apply in_map_iff in Hv. destruct Hv as (ts & <- & _). reflexivity.
  - right. eapply IH; eassumption.
Qed.

Lemma doc_views_in blk o d (v : dview) : In v (doc_views blk o d) -> fst v = (d_id d, (blk, o)).
Proof.
  unfold doc_views. intros [<-|Hv]; [reflexivity|]. apply in_map_iff in Hv. destruct Hv as (ts & <- & _). reflexivity.
Qed.

Lemma docs_bulk_ok_gen ds : wf_docs ds -> forall blk o prev (v1 v2 : dview),
  In v1 (sent_view_from blk o prev (map fst (pairs_of ds))) ->
  In v2 (sent_view_from blk o prev (map fst (pairs_of ds))) ->
  fst (fst v1) = fst (fst v2) -> snd (fst v1) = snd (fst v2).
Proof.
  induction ds as [|d ds IH]; intros [ND F] blk o prev v1 v2 H1 H2 E; [simpl in H1; tauto|].
  simpl in ND. inversion ND; subst. inversion F; subst.
  rewrite sent_view_docs in H1, H2 by assumption. apply in_app_iff in H1. apply in_app_iff in H2.
  destruct H1 as [H1|H1], H2 as [H2|H2].
  - rewrite (doc_views_in _ _ _ _ H1), (doc_views_in _ _ _ _ H2). reflexivity.
  - exfalso. apply H3. rewrite (doc_views_in _ _ _ _ H1) in E. simpl in E. rewrite E.
    eapply docs_view_ids; eassumption.
  - exfalso. apply H3. rewrite (doc_views_in _ _ _ _ H2) in E. simpl in E. rewrite <- E.
    eapply docs_view_ids; eassumption.
  - eapply IH; try eassumption. split; assumption.
Qed.

Lemma bulk_wf_ok b : bulk_wf b -> bulk_ok (map fst b).
Proof. intros (ds & W & ->) blk v1 v2. apply docs_bulk_ok_gen, W. Qed.

Lemma all_wf_ok h : Forall bulk_wf h -> Forall (fun b => bulk_ok (map fst b)) h.
Proof. intros F. eapply Forall_impl; [|exact F]. apply bulk_wf_ok. Qed.

(* thm:C17_idempotent without the second hypothesis *)
Lemma idempotent_wf h : Forall bulk_wf h ->
  let a := run_active h in let a' := run_active (dedupb h) in
  a_ids a = a_ids a' /\ (forall t, tok_lids a t = tok_lids a' t) /\
  a_total a = a_total a' /\ a_from a = a_from a' /\ a_to a = a_to a'.
Proof. intros F. apply idempotent; apply all_wf_ok; [assumption|apply dedupb_wf; assumption]. Qed.

(* ------------------------------------------------------------------ SetMultiple never overwrites *)

Lemma sm_preserve ids : forall ps m i q, lookup_pos i m = Some q ->
  lookup_pos i (fst (set_multiple m ids ps)) = Some q.
Proof.
  induction ids as [|i0 ids IH]; intros [|p ps] m i q H; simpl; try assumption.
  destruct (lookup_pos i0 m) as [q0|] eqn:E.
  - destruct (pos_eqb q0 p); simpl; apply IH; assumption.
  - simpl. apply IH. rewrite lookup_cons. destruct (id_eqb i i0) eqn:Ei; [|assumption].
    apply id_eqb_eq in Ei; subst. congruence.
Qed.

(* what SetMultiple does with a bulk on a fraction whose first deliveries are K *)
Lemma bulk_sm a K ms : index_is a K -> bulk_ok ms ->
  let blk := length (a_blocks a) in let c := collect blk ms in
  let r := set_multiple (a_posm a) (c_ids c) (c_pos c) in
  combine (c_ids c) (c_pos c) = map fst (sent_view blk ms) /\ c_ids c = map m_id ms /\
  (forall i, lookup_pos i (fst r) <> None <->
             (lookup_pos i (a_posm a) <> None \/ (In i (c_ids c) /\ old_in K i = false))) /\
  (forall i p, lookup_pos i (fst r) = Some p ->
               lookup_pos i (a_posm a) = Some p \/ In (i, p) (combine (c_ids c) (c_pos c))).
Proof.
  intros I OK blk c r.
  destruct (collect_cols blk ms) as (sl & H & V & Hmin & Hmax). fold c in H, V.
  assert (Hids : c_ids c = map (fun v : dview => fst (fst v)) (sent_view blk ms))
    by (rewrite <- V; symmetry; apply cview_ids; assumption).
  assert (Hpairs : combine (c_ids c) (c_pos c) = map fst (sent_view blk ms))
    by (rewrite <- V; apply cview_pairs; assumption).
  assert (Hin : forall i p, In (i, p) (combine (c_ids c) (c_pos c)) ->
                            exists v : dview, In v (sent_view blk ms) /\ fst v = (i, p)).
  { intros i p Hip. rewrite Hpairs in Hip. apply in_map_iff in Hip. destruct Hip as (v & E & Hv). eauto. }
  assert (Hold : forall i, old_in K i = true <-> lookup_pos i (a_posm a) <> None).
  { intros i. unfold old_in. rewrite mem_id_In. symmetry. apply (ii_keys a K I). }
  destruct (sm_spec (old_in K) (c_ids c) (c_pos c) (a_posm a)) as (A & B & C).
  { destruct H as (H1 & _). symmetry; exact H1. }
  { intros i p Hip Ho. apply Hold in Ho. destruct (lookup_pos i (a_posm a)) as [q|] eqn:E; [|congruence].
    exists q. split; [reflexivity|]. pose proof (ii_blk a K I i q E) as Hq.
    destruct (Hin i p Hip) as (v & Hv & Ev).
    pose proof (sent_view_block blk ms 0%N (blk, 0%N) v eq_refl Hv) as Hb. rewrite Ev in Hb. simpl in Hb.
    unfold pos_eqb. destruct (Nat.eqb_spec (fst q) (fst p)); [fold blk in Hq; lia|reflexivity]. }
  { intros i p Hip Ho. left. destruct (lookup_pos i (a_posm a)) eqn:E; [|reflexivity].
    assert (old_in K i = true) by (apply Hold; congruence). congruence. }
  { intros i p p' H1 H2. destruct (Hin i p H1) as (v1 & Hv1 & E1). destruct (Hin i p' H2) as (v2 & Hv2 & E2).
    pose proof (OK blk v1 v2 Hv1 Hv2) as P. rewrite E1, E2 in P. simpl in P. auto. }
  split; [exact Hpairs|]. split; [|split; [exact B|exact C]].
  rewrite Hids. unfold sent_view. apply sent_view_ids.
Qed.

(* ------------------------------------------------------------------ the docs block of a bulk *)

Lemma layout_nested i body (nested : list (list N)) rest : forall o,
  layout_from o (map (fun ts => (mkMeta i 0 ts, body)) nested ++ rest) = layout_from o rest.
Proof. induction nested as [|ts l IH]; intros o; simpl; [reflexivity|apply IH]. Qed.

Lemma layout_docs d ds o : d_size d <> 0%N ->
  layout_from o (pairs_of (d :: ds)) = (o, d_body d) :: layout_from (o + d_size d + 4)%N (pairs_of ds).
Proof.
  intros Hs. rewrite pairs_cons. unfold doc_pairs. cbn [app layout_from m_size fst].
  destruct (N.eqb_spec (d_size d) 0) as [E|_]; [contradiction|]. rewrite layout_nested. reflexivity.
Qed.

Lemma ref_fetch1_nested i0 body (nested : list (list N)) rest i :
  ref_fetch1 (map (fun ts => (mkMeta i0 0 ts, body)) nested ++ rest) i = ref_fetch1 rest i.
Proof.
  induction nested as [|ts l IH]; simpl; [reflexivity|]. rewrite andb_false_r. apply IH.
Qed.

Lemma ref_fetch1_docs d ds i : d_size d <> 0%N ->
  ref_fetch1 (pairs_of (d :: ds)) i = if id_eqb i (d_id d) then Some (d_body d) else ref_fetch1 (pairs_of ds) i.
Proof.
  intros Hs. rewrite pairs_cons. unfold doc_pairs. cbn [app ref_fetch1 m_size m_id].
  destruct (N.eqb_spec (d_size d) 0) as [E|_]; [contradiction|]. simpl negb. rewrite andb_true_r.
  destruct (id_eqb i (d_id d)); [reflexivity|]. apply ref_fetch1_nested.
Qed.

(* the position SetMultiple stored for a document of the bulk leads to its own bytes *)
Lemma fetch_layout ds : wf_docs ds -> forall blk o prev i (p : pos),
  In (i, p) (map fst (sent_view_from blk o prev (map fst (pairs_of ds)))) ->
  (o <= snd p)%N /\ lookup_off (snd p) (layout_from o (pairs_of ds)) = ref_fetch1 (pairs_of ds) i.
Proof.
  induction ds as [|d ds IH]; intros [ND F] blk o prev i p Hin; [simpl in Hin; tauto|].
  simpl in ND. inversion ND; subst. inversion F; subst.
  rewrite sent_view_docs, map_app in Hin by assumption. apply in_app_iff in Hin.
  rewrite layout_docs, ref_fetch1_docs by assumption. destruct Hin as [Hin|Hin].
  - apply in_map_iff in Hin. destruct Hin as (v & E & Hv). rewrite (doc_views_in _ _ _ _ Hv) in E.
    inversion E; subst. simpl. rewrite N.eqb_refl, id_eqb_refl. split; [lia|reflexivity].
  - assert (Hi : In i (map d_id ds)).
    { apply in_map_iff in Hin. destruct Hin as (v & E & Hv).
      pose proof (docs_view_ids ds _ _ _ v H4 Hv) as X. rewrite E in X. exact X. }
    destruct (IH (conj H2 H4) blk _ _ i p Hin) as [Hle Hl]. split; [lia|].
    simpl. destruct (N.eqb_spec (snd p) o) as [E|_]; [lia|].
    destruct (id_eqb i (d_id d)) eqn:Ei; [apply id_eqb_eq in Ei; subst; contradiction|]. exact Hl.
Qed.

Lemma ref_fetch1_notin K i : ~ In i (map (fun p : meta * N => m_id (fst p)) K) -> ref_fetch1 K i = None.
Proof.
  induction K as [|[m b] K IH]; simpl; intros H; [reflexivity|].
  destruct (id_eqb i (m_id m)) eqn:E; [apply id_eqb_eq in E; subst; tauto|]. simpl. apply IH. tauto.
Qed.

Lemma ref_fetch1_app K1 K2 i :
  ref_fetch1 (K1 ++ K2) i = match ref_fetch1 K1 i with Some b => Some b | None => ref_fetch1 K2 i end.
Proof.
  induction K1 as [|[m b] K1 IH]; simpl; [reflexivity|].
  destruct (id_eqb i (m_id m) && negb (N.eqb (m_size m) 0)); [reflexivity|apply IH].
Qed.

Lemma ref_fetch1_filter (f : id -> bool) K i : f i = true ->
  ref_fetch1 (filter (fun p : meta * N => f (m_id (fst p))) K) i = ref_fetch1 K i.
Proof.
  intros Hf. induction K as [|[m b] K IH]; simpl; [reflexivity|].
  destruct (f (m_id m)) eqn:E; simpl.
  - rewrite IH. reflexivity.
  - destruct (id_eqb i (m_id m)) eqn:Ei; [apply id_eqb_eq in Ei; subst; congruence|]. simpl. exact IH.
Qed.

Lemma ref_fetch1_filter_out (f : id -> bool) K i : f i = false ->
  ref_fetch1 (filter (fun p : meta * N => f (m_id (fst p))) K) i = None.
Proof.
  intros Hf. apply ref_fetch1_notin. intros Hin. apply in_map_iff in Hin. destruct Hin as (p & <- & Hp).
  apply filter_In in Hp. destruct Hp. congruence.
Qed.

Lemma ref_fetch1_wf_some ds i : wf_docs ds -> In i (map d_id ds) -> ref_fetch1 (pairs_of ds) i <> None.
Proof.
  induction ds as [|d ds IH]; intros [ND F] Hin; [simpl in Hin; tauto|].
  simpl in ND. inversion ND; subst. inversion F; subst. rewrite ref_fetch1_docs by assumption.
  destruct (id_eqb i (d_id d)) eqn:E; [discriminate|]. apply IH; [split; assumption|].
  destruct Hin as [Hin|Hin]; [|assumption]. apply id_eqb_false in E. congruence.
Qed.

Lemma pairs_ids ds : forall i, In i (map (fun p : meta * N => m_id (fst p)) (pairs_of ds)) <-> In i (map d_id ds).
Proof.
  intros i. induction ds as [|d ds IH]; [simpl; tauto|].
  rewrite pairs_cons, map_app, in_app_iff, IH. unfold doc_pairs. simpl. rewrite map_map. simpl.
  split; intros H.
  - destruct H as [[H|H]|H]; auto. apply in_map_iff in H. destruct H as (ts & H & _). auto.
  - destruct H as [H|H]; auto.
Qed.

(* ------------------------------------------------------------------ fetch after one bulk *)

Definition fetch_is (a : active) (Kb : list (meta * N)) : Prop := forall i, fetch a i = ref_fetch1 Kb i.

Definition new_pairs (K : list meta) (b : list (meta * N)) : list (meta * N) :=
  filter (fun p => negb (old_in K (m_id (fst p)))) b.

Lemma new_pairs_metas K b : map fst (new_pairs K b) = first_new K (map fst b).
Proof. unfold new_pairs, first_new. rewrite (filter_map_comm fst (fun m => negb (old_in K (m_id m)))). reflexivity. Qed.

Lemma process_bulk_fetch a Kb ds :
  index_is a (map fst Kb) -> fetch_is a Kb -> wf_docs ds ->
  fetch_is (process_bulk a (pairs_of ds)) (Kb ++ new_pairs (map fst Kb) (pairs_of ds)).
Proof.
  intros I FI W i. set (K := map fst Kb) in *. set (b := pairs_of ds).
  assert (OK : bulk_ok (map fst b)) by (apply bulk_wf_ok; exists ds; auto).
  destruct (bulk_sm a K (map fst b) I OK) as (Hpairs & Hids & B & C).
  unfold fetch, process_bulk. cbn [a_posm a_blocks].
  set (blk := length (a_blocks a)) in *. set (c := collect blk (map fst b)) in *.
  set (r := set_multiple (a_posm a) (c_ids c) (c_pos c)) in *.
  rewrite ref_fetch1_app.
  assert (Hkeys : lookup_pos i (a_posm a) <> None <-> In i (map m_id K)) by apply (ii_keys a K I).
  assert (HKids : map m_id K = map (fun p : meta * N => m_id (fst p)) Kb) by (unfold K; rewrite map_map; reflexivity).
  destruct (lookup_pos i (a_posm a)) as [q|] eqn:Eq.
  - (* known ID: position untouched, block untouched *)
    assert (Er : lookup_pos i (fst r) = Some q) by (apply sm_preserve; exact Eq). rewrite Er. destruct q as [bk off].
    pose proof (ii_blk a K I i _ Eq) as Hb. simpl in Hb. rewrite app_nth1 by exact Hb.
    pose proof (FI i) as Fi. unfold fetch in Fi. rewrite Eq in Fi. rewrite Fi.
    destruct (ref_fetch1 Kb i); [reflexivity|]. symmetry. unfold new_pairs.
    apply (ref_fetch1_filter_out (fun j => negb (old_in K j))).
    assert (old_in K i = true) by (unfold old_in; apply mem_id_In, Hkeys; discriminate).
    rewrite H. reflexivity.
  - assert (Hno : ~ In i (map m_id K)) by (intros X; apply Hkeys in X; congruence).
    assert (Hold : old_in K i = false).
    { unfold old_in. destruct (mem_id i (map m_id K)) eqn:E; [apply mem_id_In in E; contradiction|reflexivity]. }
    rewrite (ref_fetch1_notin Kb i) by (rewrite <- HKids; exact Hno).
    unfold new_pairs. rewrite (ref_fetch1_filter (fun j => negb (old_in K j))) by (rewrite Hold; reflexivity).
    destruct (lookup_pos i (fst r)) as [p|] eqn:Er.
    + destruct (C i p Er) as [X|X]; [congruence|]. rewrite Hpairs in X. destruct p as [bk off].
      assert (Hbk : bk = blk).
      { apply in_map_iff in X. destruct X as (v & Ev & Hv).
        pose proof (sent_view_block blk (map fst b) 0%N (blk, 0%N) v eq_refl Hv) as Hb. rewrite Ev in Hb. exact Hb. }
      subst bk. unfold blk at 1. rewrite nth_middle.
      destruct (fetch_layout ds W blk 0%N (blk, 0%N) i (blk, off) X) as [_ Hl]. exact Hl.
    + symmetry. apply ref_fetch1_notin. intros Hin. apply (proj2 (B i)); [|exact Er].
      right. split; [|exact Hold]. rewrite Hids, map_map. exact Hin.
Qed.

(* ------------------------------------------------------------------ histories *)

Lemma fetch_empty : fetch_is active_empty [].
Proof. intros i. reflexivity. Qed.

Lemma run_fetch_gen h : forall a Kb, index_is a (map fst Kb) -> fetch_is a Kb -> Forall bulk_wf h ->
  fetch_is (fold_left process_bulk h a) (Kb ++ concat (dedupb_from (map fst Kb) h)).
Proof.
  induction h as [|b h IH]; intros a Kb I FI F; simpl; [rewrite app_nil_r; exact FI|].
  inversion F as [|? ? (ds & W & ->) F']; subst.
  fold (new_pairs (map fst Kb) (pairs_of ds)).
  rewrite app_assoc. rewrite <- (map_app fst Kb (new_pairs (map fst Kb) (pairs_of ds))).
  apply IH; [| |assumption].
  - rewrite map_app, new_pairs_metas. apply process_bulk_index; [assumption|].
    apply bulk_wf_ok. exists ds; auto.
  - apply process_bulk_fetch; assumption.
Qed.

Lemma mem_id_app i l1 l2 : mem_id i (l1 ++ l2) = mem_id i l1 || mem_id i l2.
Proof. induction l1; simpl; [reflexivity|]. rewrite IHl1, orb_assoc. reflexivity. Qed.

(* the first deliveries hold, for every ID, the first document of the whole history with that ID *)
Lemma first_body h : forall K, Forall bulk_wf h -> forall i,
  ref_fetch1 (concat (dedupb_from K h)) i = if old_in K i then None else ref_fetch1 (concat h) i.
Proof.
  induction h as [|b h IH]; intros K F i; simpl; [destruct (old_in K i); reflexivity|].
  inversion F as [|? ? (ds & W & ->) F']; subst. rewrite !ref_fetch1_app.
  fold (new_pairs K (pairs_of ds)). rewrite (IH _ F' i).
  unfold old_in at 1. rewrite map_app, mem_id_app. fold (old_in K i).
  destruct (old_in K i) eqn:Eo.
  - unfold new_pairs. rewrite (ref_fetch1_filter_out (fun j => negb (old_in K j))) by (rewrite Eo; reflexivity).
    reflexivity.
  - unfold new_pairs at 1. rewrite (ref_fetch1_filter (fun j => negb (old_in K j))) by (rewrite Eo; reflexivity).
    destruct (ref_fetch1 (pairs_of ds) i) eqn:Er; [reflexivity|]. simpl.
    destruct (mem_id i (map m_id (map fst (new_pairs K (pairs_of ds))))) eqn:Em; [|reflexivity].
    exfalso. apply mem_id_In in Em. rewrite map_map in Em. apply in_map_iff in Em.
    destruct Em as (p & <- & Hp). unfold new_pairs in Hp. apply filter_In in Hp. destruct Hp as [Hp _].
    apply (ref_fetch1_wf_some ds (m_id (fst p)) W); [|exact Er].
    apply pairs_ids. apply in_map_iff. exists p. auto.
Qed.

(* thm:C17_fetch_first_delivery *)
Lemma run_fetch h : Forall bulk_wf h -> forall i, fetch (run_active h) i = ref_fetch1 (concat h) i.
Proof.
  intros F i.
  pose proof (run_fetch_gen h active_empty [] index_empty fetch_empty F i) as X. simpl in X.
  fold (run_active h) in X. rewrite X. rewrite (first_body h [] F i). reflexivity.
Qed.
