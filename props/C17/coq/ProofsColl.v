(* C17 — the collector: what AppendMeta builds, what Filter keeps, what GroupLIDsByToken hands out. *)
From Coq Require Import List Arith NArith Bool Lia.
From VLib Require Import CaseLib.
From C17 Require Import Model CaseDefs.
Import ListNotations.

(* ------------------------------------------------------------------ generic list facts *)

Lemma map_nth_seq_gen {A} (L : list A) : forall pre d,
  map (fun i => nth i (pre ++ L) d) (seq (length pre) (length L)) = L.
Proof.
  induction L as [|a L IH]; simpl; intros pre d; [reflexivity|].
  f_equal; [apply nth_middle|].
  replace (pre ++ a :: L) with ((pre ++ [a]) ++ L) by (rewrite <- app_assoc; reflexivity).
  specialize (IH (pre ++ [a]) d). rewrite app_length in IH; simpl in IH.
  replace (length pre + 1) with (S (length pre)) in IH by lia. exact IH.
Qed.

Lemma map_nth_seq {A} (L : list A) d : map (fun i => nth i L d) (seq 0 (length L)) = L.
Proof. exact (map_nth_seq_gen L [] d). Qed.

Lemma filter_map_comm {A B} (f : A -> B) (q : B -> bool) (l : list A) :
  filter q (map f l) = map f (filter (fun x => q (f x)) l).
Proof. induction l; simpl; [reflexivity|]. destruct (q (f a)); simpl; rewrite IHl; reflexivity. Qed.

Lemma combine_map_same {A B C} (f : A -> B) (g : A -> C) (l : list A) :
  combine (map f l) (map g l) = map (fun x => (f x, g x)) l.
Proof. induction l; simpl; [reflexivity|]. rewrite IHl; reflexivity. Qed.

Lemma combine_app_eq {A B} (a c : list A) (b d : list B) :
  length a = length b -> combine (a ++ c) (b ++ d) = combine a b ++ combine c d.
Proof.
  revert b; induction a; intros [|y b] H; simpl in *; try discriminate; [reflexivity|].
  rewrite IHa by lia. reflexivity.
Qed.

Lemma fold_left_map_gen {A B C} (f : A -> B -> A) (g : C -> B) (l : list C) : forall a,
  fold_left f (map g l) a = fold_left (fun a x => f a (g x)) l a.
Proof. induction l; simpl; intros; [reflexivity|apply IHl]. Qed.

Lemma list_eqb_refl {A} (e : A -> A -> bool) (l : list A) :
  (forall x, e x x = true) -> list_eqb e l l = true.
Proof. intros H; induction l; simpl; [reflexivity|]. rewrite H, IHl; reflexivity. Qed.

Lemma id_eqb_refl i : id_eqb i i = true.
Proof. unfold id_eqb. rewrite !N.eqb_refl. reflexivity. Qed.
Lemma pos_eqb_refl p : pos_eqb p p = true.
Proof. unfold pos_eqb. rewrite Nat.eqb_refl, N.eqb_refl. reflexivity. Qed.
Lemma dview_eqb_refl v : dview_eqb v v = true.
Proof.
  unfold dview_eqb. rewrite id_eqb_refl, pos_eqb_refl. simpl.
  apply list_eqb_refl, N.eqb_refl.
Qed.
Lemma nat_list_eqb_refl l : nat_list_eqb l l = true.
Proof. apply list_eqb_refl, Nat.eqb_refl. Qed.

(* ------------------------------------------------------------------ slices *)

Lemma slice_nth (sl : list (list nat)) : forall pre i, i < length sl ->
  slice (pre ++ concat sl) (nth i (offsets_from (length pre) (map (@length nat) sl)) 0)
        (nth i (map (@length nat) sl) 0) = nth i sl [].
Proof.
  induction sl as [|a sl IH]; simpl; intros pre i Hi; [lia|].
  destruct i as [|i]; simpl.
  - unfold slice. rewrite skipn_app, skipn_all, Nat.sub_diag. simpl.
    rewrite firstn_app, firstn_all, Nat.sub_diag. simpl. apply app_nil_r.
  - specialize (IH (pre ++ a) i). rewrite app_length, <- app_assoc in IH. apply IH. lia.
Qed.

Lemma split_by_concat (L : list (list nat)) : split_by (map (@length nat) L) (concat L) = L.
Proof.
  induction L as [|a L IH]; simpl; [reflexivity|].
  rewrite firstn_app, firstn_all, Nat.sub_diag. simpl. rewrite app_nil_r.
  rewrite skipn_app, skipn_all, Nat.sub_diag. simpl. rewrite IH. reflexivity.
Qed.

(* ------------------------------------------------------------------ a collector described by columns *)

Definition tvf (tv : list N) (j : nat) : N := nth j tv 0%N.

Definition in_range (tv : list N) (sl : list (list nat)) : Prop :=
  Forall (Forall (fun j => j < length tv)) sl.

(* [sl]: the token indexes of each document *)
Definition cols_ok (c : coll) (sl : list (list nat)) : Prop :=
  length (c_pos c) = length (c_ids c) /\ length sl = length (c_ids c) /\
  c_tid c = map (@length nat) sl /\ c_tix c = concat sl /\
  NoDup (c_tvals c) /\ in_range (c_tvals c) sl.

Definition cview (c : coll) (sl : list (list nat)) : list dview :=
  combine (combine (c_ids c) (c_pos c)) (map (map (tvf (c_tvals c))) sl).

Lemma cview_length c sl : cols_ok c sl -> length (cview c sl) = length (c_ids c).
Proof.
  intros (H1 & H2 & _). unfold cview, dview. rewrite !combine_length, map_length. lia.
Qed.

Definition row (c : coll) (sl : list (list nat)) (i : nat) : dview :=
  (nth i (c_ids c) (0, 0)%N, nth i (c_pos c) (0, 0%N), map (tvf (c_tvals c)) (nth i sl [])).

Lemma cview_rows c sl : cols_ok c sl ->
  cview c sl = map (row c sl) (seq 0 (length (c_ids c))).
Proof.
  intros H. pose proof (cview_length c sl H) as HL. destruct H as (H1 & H2 & _).
  rewrite <- (map_nth_seq (cview c sl) ((0, 0)%N, (0, 0%N), [])) at 1. rewrite HL.
  apply map_ext_in. intros i Hi. apply in_seq in Hi. unfold cview, row, dview.
  rewrite combine_nth by (rewrite combine_length, map_length; lia).
  rewrite combine_nth by (symmetry; exact H1).
  f_equal. change (@nil N) with (map (tvf (c_tvals c)) []). apply map_nth.
Qed.

(* ------------------------------------------------------------------ Filter *)

Definition kept_sl (c : coll) (sl : list (list nat)) (app : list id) : list (list nat) :=
  map (fun i => nth i sl []) (kept_indexes (c_ids c) app).

Lemma kept_indexes_lt ids app i : In i (kept_indexes ids app) -> i < length ids.
Proof. unfold kept_indexes. intros H. apply filter_In in H. destruct H as [H _]. apply in_seq in H. lia. Qed.

Lemma filter_cols c sl app : cols_ok c sl ->
  cols_ok (filter_coll c app) (kept_sl c sl app) /\
  cview (filter_coll c app) (kept_sl c sl app) = filter (fun v => mem_id (fst (fst v)) app) (cview c sl).
Proof.
  intros H. pose proof H as (H1 & H2 & H3 & H4 & H5 & H6).
  assert (Htix : c_tix (filter_coll c app) = concat (kept_sl c sl app)).
  { unfold filter_coll, kept_sl; simpl. rewrite flat_map_concat_map. f_equal.
    apply map_ext_in. intros i Hi. apply kept_indexes_lt in Hi.
    rewrite H3, H4. apply (slice_nth sl [] i). lia. }
  split.
  - unfold cols_ok. rewrite Htix. unfold filter_coll, kept_sl; simpl.
    rewrite !map_length. repeat split; auto.
    + rewrite H3, map_map. apply map_ext_in. intros i Hi.
      change 0 with (length (@nil nat)). apply map_nth.
    + unfold in_range. apply Forall_forall. intros s Hs. apply in_map_iff in Hs.
      destruct Hs as (i & <- & Hi). apply kept_indexes_lt in Hi.
      unfold in_range in H6. rewrite Forall_forall in H6. apply H6. apply nth_In. lia.
  - rewrite (cview_rows c sl H). rewrite filter_map_comm.
    unfold cview, kept_sl, filter_coll; simpl.
    rewrite combine_map_same, map_map, combine_map_same.
    unfold kept_indexes. apply map_ext. intros i. reflexivity.
Qed.

(* ------------------------------------------------------------------ GroupLIDsByToken *)

Fixpoint count_nat (j : nat) (s : list nat) : nat :=
  match s with [] => 0 | x :: r => (if Nat.eqb j x then 1 else 0) + count_nat j r end.

Lemma group_one (j l : nat) (s : list nat) :
  map snd (filter (fun p => Nat.eqb (fst p) j) (combine s (repeat l (length s)))) = repeat l (count_nat j s).
Proof.
  induction s as [|x s IH]; simpl; [reflexivity|].
  rewrite (Nat.eqb_sym x j). destruct (Nat.eqb j x); simpl; rewrite IH; reflexivity.
Qed.

Lemma restore_length (sl : list (list nat)) : forall lids, length lids = length sl ->
  length (restore_lids (map (@length nat) sl) lids) = length (concat sl).
Proof.
  induction sl as [|s sl IH]; intros [|l lids] H; simpl in *; try discriminate; [reflexivity|].
  rewrite !app_length, repeat_length, IH by lia. reflexivity.
Qed.

Lemma count_tok_nth tv j s : NoDup tv -> j < length tv -> Forall (fun x => x < length tv) s ->
  count_tok (tvf tv j) (map (tvf tv) s) = count_nat j s.
Proof.
  intros ND Hj Hs. induction s as [|x s IH]; simpl; [reflexivity|].
  inversion Hs; subst. rewrite IH by assumption. f_equal. unfold tvf.
  destruct (Nat.eqb_spec j x) as [->|Hne]; [rewrite N.eqb_refl; reflexivity|].
  destruct (N.eqb_spec (nth j tv 0%N) (nth x tv 0%N)) as [E|]; [|reflexivity].
  exfalso. apply Hne. rewrite NoDup_nth in ND. apply (ND j x Hj H1 E).
Qed.

Lemma groups_of_cols tv j : NoDup tv -> j < length tv ->
  forall sl (ids : list id) (ps : list pos) first, in_range tv sl ->
  length ids = length sl -> length ps = length sl ->
  map snd (filter (fun p => Nat.eqb (fst p) j)
                  (combine (concat sl) (restore_lids (map (@length nat) sl) (seq first (length sl)))))
  = expected_group (tvf tv j) first (combine (combine ids ps) (map (map (tvf tv)) sl)).
Proof.
  intros ND Hj. induction sl as [|s sl IH]; intros ids ps first HR Hi Hp.
  - destruct ids, ps; simpl in *; try discriminate; reflexivity.
  - destruct ids as [|i ids], ps as [|p ps]; simpl in *; try discriminate.
    inversion HR; subst.
    rewrite combine_app_eq by (rewrite repeat_length; reflexivity).
    rewrite filter_app, map_app, group_one.
    rewrite (IH ids ps (S first)) by (auto; lia).
    rewrite count_tok_nth by assumption. reflexivity.
Qed.

(* ------------------------------------------------------------------ alignment of a described collector *)

Lemma aligned_of_cols c sl first : cols_ok c sl ->
  c_min c = min_mid (cview c sl) -> c_max c = max_mid (cview c sl) ->
  aligned (cview c sl) first (out_of c first) = true.
Proof.
  intros H Hmin Hmax. pose proof H as (H1 & H2 & H3 & H4 & H5 & H6).
  assert (Hsplit : split_by (c_tid c) (c_tix c) = sl) by (rewrite H3, H4; apply split_by_concat).
  assert (A1 : shape_ok (c_ids c) (c_pos c) (c_tid c) (c_tix c) (c_tvals c) = true).
  { unfold shape_ok.
    assert (E1 : Nat.eqb (length (c_pos c)) (length (c_ids c)) = true) by (apply Nat.eqb_eq; assumption).
    assert (E2 : Nat.eqb (length (c_tid c)) (length (c_ids c)) = true)
      by (apply Nat.eqb_eq; rewrite H3, map_length; assumption).
    assert (E3 : Nat.eqb (fold_right Nat.add 0 (c_tid c)) (length (c_tix c)) = true).
    { apply Nat.eqb_eq. rewrite H3, H4. clear. induction sl; simpl; [reflexivity|].
      rewrite app_length, IHsl. reflexivity. }
    assert (E4 : forallb (fun j => Nat.ltb j (length (c_tvals c))) (c_tix c) = true).
    { rewrite H4. apply forallb_forall. intros j Hj. apply Nat.ltb_lt.
      apply in_concat in Hj. destruct Hj as (s & Hs & Hj).
      unfold in_range in H6. rewrite Forall_forall in H6. specialize (H6 s Hs).
      rewrite Forall_forall in H6. apply H6; assumption. }
    rewrite E1, E2, E3, E4. reflexivity. }
  assert (A2 : list_eqb dview_eqb (view_of (c_ids c) (c_pos c) (c_tid c) (c_tix c) (c_tvals c)) (cview c sl) = true).
  { unfold view_of. rewrite Hsplit. apply list_eqb_refl, dview_eqb_refl. }
  assert (A3 : Nat.eqb (length (group_lids c (seq first (length (c_ids c))))) (length (c_tvals c)) = true).
  { apply Nat.eqb_eq. unfold group_lids. rewrite map_length, seq_length. reflexivity. }
  assert (A4 : forallb (fun p => nat_list_eqb (snd p) (expected_group (fst p) first (cview c sl)))
                       (combine (c_tvals c) (group_lids c (seq first (length (c_ids c))))) = true).
  { apply forallb_forall. intros [t g] Hin. simpl.
    unfold group_lids in Hin.
    rewrite <- (map_nth_seq (c_tvals c) 0%N) in Hin at 1.
    rewrite combine_map_same in Hin. apply in_map_iff in Hin.
    destruct Hin as (j & E & Hj). inversion E; subst t g. apply in_seq in Hj.
    rewrite H3, H4.
    replace (length (c_ids c)) with (length sl) by assumption.
    rewrite (groups_of_cols (c_tvals c) j H5 ltac:(lia) sl (c_ids c) (c_pos c) first H6)
      by (try (symmetry; assumption); congruence).
    apply nat_list_eqb_refl. }
  unfold aligned, out_of; simpl. rewrite A1, A2, A3, A4, Hmin, Hmax, !N.eqb_refl. reflexivity.
Qed.

(* ------------------------------------------------------------------ what AppendMeta builds *)

Lemma index_of_some t l i : index_of t l = Some i -> i < length l /\ nth i l 0%N = t.
Proof.
  revert i; induction l as [|x l IH]; simpl; intros i H; [discriminate|].
  destruct (N.eqb_spec t x) as [->|Hne].
  - inversion H; subst. split; [lia|reflexivity].
  - destruct (index_of t l) as [k|]; simpl in H; [|discriminate]. inversion H; subst.
    destruct (IH k eq_refl). split; [lia|assumption].
Qed.

Lemma index_of_none t l : index_of t l = None -> ~ In t l.
Proof.
  induction l as [|x l IH]; simpl; intros H; [tauto|].
  destruct (N.eqb_spec t x) as [->|Hne]; [discriminate|].
  destruct (index_of t l); simpl in H; [discriminate|]. intros [E|E]; [congruence|]. exact (IH eq_refl E).
Qed.

Lemma tvf_app1 tv ext s : Forall (fun j => j < length tv) s -> map (tvf (tv ++ ext)) s = map (tvf tv) s.
Proof.
  intros H. apply map_ext_in. intros j Hj. rewrite Forall_forall in H. unfold tvf. apply app_nth1, H, Hj.
Qed.

Lemma range_app (tv ext : list N) (s : list nat) :
  Forall (fun j => j < length tv) s -> Forall (fun j => j < length (tv ++ ext)) s.
Proof. intros H. eapply Forall_impl; [|exact H]. simpl. intros; rewrite app_length; lia. Qed.

Lemma NoDup_snoc {A} (l : list A) x : NoDup l -> ~ In x l -> NoDup (l ++ [x]).
Proof.
  induction l as [|y l IH]; simpl; intros ND H.
  - constructor; [tauto|constructor].
  - inversion ND; subst. constructor.
    + rewrite in_app_iff. simpl. intros [E|[E|[]]]; [tauto|]. subst. tauto.
    + apply IH; tauto.
Qed.

Lemma extract_spec toks : forall tv tix, NoDup tv ->
  exists ext s, fold_left extract_token toks (tv, tix) = (tv ++ ext, tix ++ s) /\ NoDup (tv ++ ext) /\
                map (tvf (tv ++ ext)) s = toks /\ Forall (fun j => j < length (tv ++ ext)) s.
Proof.
  induction toks as [|t toks IH]; intros tv tix ND; simpl.
  - exists [], []. rewrite !app_nil_r. auto.
  - unfold extract_token at 2; simpl. destruct (index_of t tv) as [i|] eqn:E.
    + destruct (index_of_some _ _ _ E) as [Hi Hn].
      destruct (IH tv (tix ++ [i]) ND) as (ext & s & E1 & ND1 & M1 & R1).
      exists ext, (i :: s). rewrite E1, <- app_assoc. simpl. repeat split; auto.
      * f_equal; [|assumption]. unfold tvf. rewrite app_nth1 by assumption. assumption.
      * constructor; [rewrite app_length; lia|assumption].
    + pose proof (index_of_none _ _ E) as Hnin.
      assert (ND' : NoDup (tv ++ [t])).
      { apply NoDup_snoc; assumption. }
      destruct (IH (tv ++ [t]) (tix ++ [length tv]) ND') as (ext & s & E1 & ND1 & M1 & R1).
      exists ([t] ++ ext), (length tv :: s). rewrite E1, <- !app_assoc. simpl.
      rewrite <- app_assoc in ND1, M1, R1. simpl in ND1, M1, R1. repeat split; auto.
      * f_equal; [|assumption]. unfold tvf. rewrite app_nth2 by lia. rewrite Nat.sub_diag. reflexivity.
      * constructor; [rewrite app_length; simpl; lia|assumption].
Qed.

Lemma map_fst_combine {A B} (a : list A) : forall (b : list B), length a = length b -> map fst (combine a b) = a.
Proof. induction a; intros [|y b] H; simpl in *; try discriminate; [reflexivity|]. rewrite IHa by lia. reflexivity. Qed.

Lemma map_fstfst_combine {A B C} (a : list A) : forall (b : list B) (c : list C),
  length a = length b -> length a = length c ->
  map (fun v : A * B * C => fst (fst v)) (combine (combine a b) c) = a.
Proof.
  induction a; intros [|y b] [|z c] H1 H2; simpl in *; try discriminate; [reflexivity|].
  rewrite IHa by lia. reflexivity.
Qed.

Lemma cview_ids c sl : cols_ok c sl -> map (fun v : dview => fst (fst v)) (cview c sl) = c_ids c.
Proof.
  intros (H1 & H2 & _). unfold cview. apply map_fstfst_combine.
  - symmetry; exact H1.
  - rewrite map_length. symmetry; exact H2.
Qed.

Lemma min_mid_ids (l : list dview) :
  min_mid l = fold_left (fun a (i : id) => N.min a (fst i)) (map (fun v : dview => fst (fst v)) l) max_u64.
Proof. unfold min_mid. rewrite fold_left_map_gen. reflexivity. Qed.
Lemma max_mid_ids (l : list dview) :
  max_mid l = fold_left (fun a (i : id) => N.max a (fst i)) (map (fun v : dview => fst (fst v)) l) 0%N.
Proof. unfold max_mid. rewrite fold_left_map_gen. reflexivity. Qed.

Definition meta_pos (c : coll) (m : meta) : pos :=
  if N.eqb (m_size m) 0 then last (c_pos c) (c_blk c, 0%N) else (c_blk c, c_next c).

Lemma append_meta_cols c sl0 m : cols_ok c sl0 ->
  exists s, cols_ok (append_meta c m) (sl0 ++ [s]) /\
            cview (append_meta c m) (sl0 ++ [s]) = cview c sl0 ++ [(m_id m, meta_pos c m, m_toks m)].
Proof.
  intros (H1 & H2 & H3 & H4 & H5 & H6).
  destruct (extract_spec (m_toks m) (c_tvals c) (c_tix c) H5) as (ext & s & E & ND & M & R).
  exists s. unfold append_meta. rewrite E. cbv zeta. unfold cols_ok, cview. simpl.
  assert (Hls : length s = length (m_toks m)) by (rewrite <- M, map_length; reflexivity).
  split.
  - rewrite !app_length. simpl. repeat split; auto; try lia.
    + rewrite map_app, H3. simpl. rewrite Hls. reflexivity.
    + rewrite concat_app, H4. simpl. rewrite app_nil_r. reflexivity.
    + unfold in_range. apply Forall_app. split.
      * eapply Forall_impl; [|exact H6]. intros a Ha. apply range_app, Ha.
      * constructor; [assumption|constructor].
  - rewrite map_app. simpl.
    rewrite (combine_app_eq (c_ids c)) by (symmetry; exact H1).
    rewrite combine_app_eq.
    2:{ rewrite combine_length, map_length. rewrite H1, H2. apply Nat.min_id. }
    simpl. rewrite M. unfold meta_pos. f_equal.
    f_equal. apply map_ext_in. intros a Ha. apply tvf_app1.
    unfold in_range in H6. rewrite Forall_forall in H6. apply H6, Ha.
Qed.

Lemma append_meta_next_pos c m :
  c_blk (append_meta c m) = c_blk c /\
  last (c_pos (append_meta c m)) (c_blk c, 0%N) = meta_pos c m /\
  c_next (append_meta c m) = (if N.eqb (m_size m) 0 then c_next c else c_next c + m_size m + 4)%N.
Proof.
  unfold append_meta, meta_pos. cbv zeta. simpl. rewrite last_last. auto.
Qed.

Lemma collect_gen ms : forall c sl0, cols_ok c sl0 ->
  exists sl, cols_ok (fold_left append_meta ms c) (sl0 ++ sl) /\
    cview (fold_left append_meta ms c) (sl0 ++ sl)
    = cview c sl0 ++ sent_view_from (c_blk c) (c_next c) (last (c_pos c) (c_blk c, 0%N)) ms.
Proof.
  induction ms as [|m ms IH]; intros c sl0 H; simpl.
  - exists []. rewrite !app_nil_r. auto.
  - destruct (append_meta_cols c sl0 m H) as (s & H1 & V1).
    destruct (IH _ _ H1) as (sl & H2 & V2).
    exists (s :: sl). replace (sl0 ++ s :: sl) with ((sl0 ++ [s]) ++ sl) by (rewrite <- app_assoc; reflexivity).
    split; [assumption|]. rewrite V2, V1, <- app_assoc. f_equal.
    destruct (append_meta_next_pos c m) as (B & L & Nx). rewrite B, L, Nx. unfold meta_pos.
    cbn [app sent_view_from].
    destruct (N.eqb (m_size m) 0); reflexivity.
Qed.

Lemma collect_minmax ms : forall c,
  c_min (fold_left append_meta ms c) = fold_left (fun a (i : id) => N.min a (fst i)) (map m_id ms) (c_min c) /\
  c_max (fold_left append_meta ms c) = fold_left (fun a (i : id) => N.max a (fst i)) (map m_id ms) (c_max c).
Proof.
  induction ms as [|m ms IH]; intros c; simpl; [auto|].
  destruct (IH (append_meta c m)) as [A B]. rewrite A, B. unfold append_meta. cbv zeta. simpl. auto.
Qed.

Lemma cols_init blk : cols_ok (coll_init blk) [].
Proof. unfold cols_ok, coll_init, in_range. simpl. repeat split; auto. constructor. Qed.

Lemma sent_view_ids blk ms : forall o prev,
  map (fun v : dview => fst (fst v)) (sent_view_from blk o prev ms) = map m_id ms.
Proof.
  induction ms as [|m ms IH]; intros o prev; simpl; [reflexivity|].
  destruct (N.eqb (m_size m) 0); simpl; rewrite IH; reflexivity.
Qed.

Lemma collect_cols blk ms :
  exists sl, cols_ok (collect blk ms) sl /\ cview (collect blk ms) sl = sent_view blk ms /\
             c_min (collect blk ms) = min_mid (sent_view blk ms) /\
             c_max (collect blk ms) = max_mid (sent_view blk ms).
Proof.
  destruct (collect_gen ms (coll_init blk) [] (cols_init blk)) as (sl & H & V).
  destruct (collect_minmax ms (coll_init blk)) as [A B].
  exists sl. unfold collect. split; [exact H|]. split; [exact V|].
  rewrite A, B, min_mid_ids, max_mid_ids. unfold sent_view. rewrite sent_view_ids. split; reflexivity.
Qed.

(* thm:C17_filter_alignment *)
Lemma filter_alignment blk ms dofilter app first :
  aligned (kept_view dofilter app (sent_view blk ms)) first
          (out_of (model_coll blk ms dofilter app) first) = true.
Proof.
  destruct (collect_cols blk ms) as (sl & H & V & Hmin & Hmax).
  unfold model_coll, kept_view. destruct dofilter.
  - destruct (filter_cols _ sl app H) as [H' V']. rewrite <- V, <- V'.
    apply aligned_of_cols; [assumption| |].
    + rewrite min_mid_ids, (cview_ids _ _ H'). reflexivity.
    + rewrite max_mid_ids, (cview_ids _ _ H'). reflexivity.
  - rewrite <- V. apply aligned_of_cols; [assumption| |]; rewrite V; assumption.
Qed.

(* the stats count what was kept, when [app] is what SetMultiple returns for the kept metas *)
Lemma filter_docs_count blk ms app :
  length app = length (filter (fun v : dview => mem_id (fst (fst v)) app) (sent_view blk ms)) ->
  c_docs (filter_coll (collect blk ms) app)
  = N.of_nat (length (filter (fun v : dview => mem_id (fst (fst v)) app) (sent_view blk ms))).
Proof. intros H. simpl. rewrite H. reflexivity. Qed.
