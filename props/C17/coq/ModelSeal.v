(* C17 — executable model of replay, seal and reload (frac/active.go:Replay, fracmanager/loader.go,
   frac/active_lids.go:GetLIDs, frac/disk_blocks_producer.go:sortSeqIDs / getIDsBlocksGenerator /
   getLIDsBlockGenerator, frac/active_sealer.go:writeSealedFraction / writeDocBlocksInOrder /
   docBlocksWriter, frac/sealed_index.go:findLIDs + getDocPosByLIDs, fracmanager.Load /
   SealForcedForTests). No proofs in this file. *)
From Coq Require Import List Arith NArith Bool.
From C17 Require Import Model.
Import ListNotations.

Definition bulk := list (meta * N).

(* ------------------------------------------------------------------ replay *)

(* The on-disk log of an active fraction (.docs/.meta) is the list of ALL accepted bulk payloads,
   repeats included, in write order. Active.Replay reads the meta blocks in file order and hands
   every block to the same appendWorker as a live bulk: the same append step, on an empty index.
   (With one index worker the blocks are indexed in file order; with several the order is the
   workers' arrival order — the correspondence compares order-sensitive observables only for
   one worker, see check.py ASSUME.) *)
Definition replay (log : list bulk) : active := fold_left process_bulk log active_empty.

(* ------------------------------------------------------------------ GetLIDs: sorted postings *)

(* queueIDs.Less / SeqIDCmp.compare: descending by MID, RID, then LID *)
Definition lid_before (ids : list id) (x y : nat) : bool :=
  let ix := nth x ids sys_id in let iy := nth y ids sys_id in
  if id_eqb ix iy then Nat.ltb y x else id_ltb iy ix.

Fixpoint insert_lid (ids : list id) (x : nat) (l : list nat) : list nat :=
  match l with
  | [] => [x]
  | y :: r => if lid_before ids y x then y :: insert_lid ids x r else x :: l
  end.
Definition sort_lids (ids : list id) (l : list nat) : list nat := fold_right (insert_lid ids) [] l.

(* mergeSorted: an equal LID is taken once *)
Fixpoint dedup_adj_nat (l : list nat) : list nat :=
  match l with
  | [] => []
  | x :: r => match r with
              | [] => [x]
              | y :: _ => if Nat.eqb x y then dedup_adj_nat r else x :: dedup_adj_nat r
              end
  end.

(* TokenLIDs.GetLIDs on a queue holding q *)
Definition get_lids (ids : list id) (q : list nat) : list nat := dedup_adj_nat (sort_lids ids q).

Definition tok_all : N := 0.   (* the `_all_:` token every meta carries (harness token table) *)

(* ------------------------------------------------------------------ sealed form *)

Record sealed := mkSealed {
  s_ids : list id;                   (* LID -> ID, LID 0 = system entry (IDs blocks) *)
  s_pos : list (option pos);         (* LID -> DocPos, None = DocPosNotFound (Pos blocks) *)
  s_tok : list (N * list nat);       (* token -> LIDs of the sealed numbering (LIDs blocks) *)
  s_blocks : list (list (N * N));    (* docs blocks the positions point into *)
  s_total : N; s_from : N; s_to : N  (* Info *)
}.

Record sealcfg := mkCfg {
  sc_skipsort : bool;   (* frac.Config.SkipSortDocs *)
  sc_bs : N             (* SealParams.DocBlockSize (payload bytes after which a block is flushed) *)
}.

(* bytes of a document: the body tag carries the length (harness: tag = variant * 4096 + length) *)
Definition body_len (b : N) : N := N.modulo b 4096.

Fixpoint index_nat (x : nat) (l : list nat) : option nat :=
  match l with
  | [] => None
  | y :: r => if Nat.eqb x y then Some 0 else option_map S (index_nat x r)
  end.

(* sortSeqIDs: index[lid] = i + 1 for the i-th LID of GetAllDocuments, 0 for a LID not listed *)
Definition new_lid (alls : list nat) (l : nat) : nat :=
  match index_nat l alls with Some i => S i | None => 0 end.

(* docBlocksWriter: (finished blocks, current block, payload length of the current block) *)
Definition wstate := (list (list (N * N)) * list (N * N) * N)%type.

Definition write_doc (bs : N) (st : wstate) (b : N) : wstate * pos :=
  let '(done, cur, len) := st in
  let p := (length done, len) in
  let cur' := cur ++ [(len, b)] in
  let len' := (len + 4 + body_len b)%N in
  if N.ltb bs len' then ((done ++ [cur'], [], 0%N), p) else ((done, cur', len'), p).

(* writeDocBlocksInOrder over the sorted IDs (system entry removed): an ID equal to the previous
   one (nested metas) is skipped; the document is read at its position in the active fraction *)
Fixpoint write_sorted (bs : N) (ft : id -> option N) (prev : id) (ids : list id) (st : wstate)
  : wstate * list (id * pos) :=
  match ids with
  | [] => (st, [])
  | i :: r =>
      if id_eqb i prev then write_sorted bs ft prev r st
      else match ft i with
           | None => write_sorted bs ft i r st    (* Go panics: unreachable for indexed IDs *)
           | Some b => let '(st', p) := write_doc bs st b in
                       let '(st'', m) := write_sorted bs ft i r st' in (st'', (i, p) :: m)
           end
  end.

(* Flush: the last block is written when it holds anything *)
Definition finish_blocks (st : wstate) : list (list (N * N)) :=
  let '(done, cur, _) := st in match cur with [] => done | _ => done ++ [cur] end.

(* GetAllDocuments: the LIDs of the all-token, newest ID first *)
Definition all_lids (a : active) : list nat := get_lids (a_ids a) (tok_lids a tok_all).

(* sortSeqIDs: len(mids) entries; a LID not listed by the all-token leaves a zero ID at the end *)
Definition sealed_ids (a : active) : list id :=
  sys_id :: map (lid_id a) (all_lids a) ++ repeat (0, 0)%N (length (a_ids a) - 1 - length (all_lids a)).

(* positions and docs blocks of the sealed form: the active ones (SkipSortDocs) or the sorted docs *)
Definition sealed_docs (cfg : sealcfg) (a : active) : list (id * pos) * list (list (N * N)) :=
  if sc_skipsort cfg then (a_posm a, a_blocks a)
  else let r := write_sorted (sc_bs cfg) (fetch a) (0, 0)%N (tl (sealed_ids a)) ([], [], 0%N) in
       (snd r, finish_blocks (fst r)).

(* frac.Seal: writeSealedFraction *)
Definition seal (cfg : sealcfg) (a : active) : sealed :=
  let ids := sealed_ids a in
  let docs := sealed_docs cfg a in
  mkSealed ids
           (map (fun i => lookup_pos i (fst docs)) ids)                   (* fillPos *)
           (map (fun p => (fst p, map (new_lid (all_lids a)) (get_lids (a_ids a) (snd p)))) (a_tok a))
           (snd docs) (a_total a) (a_from a) (a_to a).

(* loading a sealed fraction from its files: the tables as they were written (identity in the
   model; that the loader reproduces them is what the correspondence run compares) *)
Definition reload (s : sealed) : sealed :=
  mkSealed (s_ids s) (s_pos s) (s_tok s) (s_blocks s) (s_total s) (s_from s) (s_to s).

(* ---------- observables of a sealed fraction *)

Definition stok_lids (s : sealed) (t : N) : list nat := tok_lids_in (s_tok s) t.

(* search runs on the LID table and the postings, exactly as on an active fraction *)
Definition sealed_view (s : sealed) : active :=
  mkActive [] (s_ids s) (s_tok s) [] (s_total s) (s_from s) (s_to s).

(* findLIDs: a LID >= 1 holding the ID (all LIDs of one ID carry the same position) *)
Fixpoint find_lid_from (k : nat) (ids : list id) (i : id) : option nat :=
  match ids with
  | [] => None
  | x :: r => if id_eqb i x then Some k else find_lid_from (S k) r i
  end.
Definition find_lid (s : sealed) (i : id) : option nat := find_lid_from 1 (tl (s_ids s)) i.

Definition sealed_fetch (s : sealed) (i : id) : option N :=
  match find_lid s i with
  | None => None
  | Some l => match nth l (s_pos s) None with
              | None => None
              | Some (blk, off) => lookup_off off (nth blk (s_blocks s) [])
              end
  end.

(* ------------------------------------------------------------------ the store with seal and restart *)

Inductive frac :=
| FA (a : active) (log : list bulk)   (* active fraction: index state and the on-disk log *)
| FS (s : sealed).

Definition store2 := list frac.
Definition store2_empty : store2 := [FA active_empty []].

Definition frac_total (f : frac) : N := match f with FA a _ => a_total a | FS s => s_total s end.

Definition append_frac (f : frac) (b : bulk) : frac :=
  match f with FA a log => FA (process_bulk a b) (log ++ [b]) | FS s => FS s end.

Definition on_last2 (g : frac -> frac) (s : store2) : store2 :=
  match rev s with
  | [] => [g (FA active_empty [])]
  | f :: r => rev r ++ [g f]
  end.

(* SealForcedForTests: rotate, then seal the previous active fraction when it holds documents *)
Definition seal_last (cfg : sealcfg) (f : frac) : frac :=
  match f with
  | FA a _ => if N.eqb (a_total a) 0 then f else FS (seal cfg a)
  | FS _ => f
  end.

(* Load: sealed fractions are reloaded; active ones are replayed from their log, an empty one is
   removed; all but the last remaining active fraction are sealed; without any active fraction a
   new one is created *)
Fixpoint restart_fracs (cfg : sealcfg) (s : store2) : store2 * option (active * list bulk) :=
  match s with
  | [] => ([], None)
  | f :: r =>
      let '(r', lastact) := restart_fracs cfg r in
      match f with
      | FS sd => (FS (reload sd) :: r', lastact)
      | FA _ log =>
          let a := replay log in
          if N.eqb (a_total a) 0 then (r', lastact)
          else match lastact with
               | None => (FA a log :: r', Some (a, log))
               | Some _ => (FS (seal cfg a) :: r', lastact)
               end
      end
  end.

Definition restart (cfg : sealcfg) (s : store2) : store2 :=
  let '(r, lastact) := restart_fracs cfg s in
  match lastact with
  | Some _ => r
  | None => r ++ [FA active_empty []]
  end.

Definition do_step2 (cfg : sealcfg) (s : store2) (st : step) : store2 :=
  match st with
  | SBulk b => on_last2 (fun f => append_frac f b) s
  | SConc bs => on_last2 (fun f => fold_left append_frac bs f) s
  | SSeal => on_last2 (seal_last cfg) s ++ [FA active_empty []]
  | SRestart => restart cfg s
  end.
Definition run_store2 (cfg : sealcfg) (h : list step) : store2 := fold_left (do_step2 cfg) h store2_empty.

Definition nonempty2 (s : store2) : store2 := filter (fun f => negb (N.eqb (frac_total f) 0)) s.

Definition frac_fetch (f : frac) (i : id) : option N :=
  match f with FA a _ => fetch a i | FS s => sealed_fetch s i end.

(* fetch over all fractions, newest first (compared only where every fraction holding the ID holds
   the same bytes) *)
Fixpoint fetch_store2 (s : store2) (i : id) : option N :=
  match s with
  | [] => None
  | f :: r => match fetch_store2 r i with Some b => Some b | None => frac_fetch f i end
  end.
