(* C17 — repeats that land in another fraction: the merged search lists every ID once, and the
   document is fetchable with its bytes. *)
From Coq Require Import List Arith NArith Bool Lia Sorting.Sorted.
From VLib Require Import CaseLib.
From C17 Require Import Model CaseDefs ProofsColl ProofsHist ProofsDocs.
Import ListNotations.

(* ------------------------------------------------------------------ order on IDs *)

Definition id_lt (a b : id) : Prop := (fst a < fst b \/ (fst a = fst b /\ snd a < snd b))%N.

Lemma id_ltb_lt a b : id_ltb a b = true <-> id_lt a b.
Proof. unfold id_ltb, id_lt. destruct (N.eqb_spec (fst a) (fst b)); rewrite N.ltb_lt; lia. Qed.

Lemma id_ltb_ge a b : id_ltb a b = false <-> ~ id_lt a b.
Proof. rewrite <- id_ltb_lt. destruct (id_ltb a b); split; congruence. Qed.

Definition id_ge (a b : id) : Prop := id_ltb a b = false.   (* a is not older than b *)
Definition id_gt (a b : id) : Prop := id_lt b a.

Lemma id_eq_components (a b : id) : fst a = fst b -> snd a = snd b -> a = b.
Proof. destruct a, b; simpl; intros; subst; reflexivity. Qed.

(* ------------------------------------------------------------------ sort_desc *)

Lemma in_insert x y l : In x (insert_desc y l) <-> x = y \/ In x l.
Proof.
  induction l as [|z l IH]; simpl; [intuition|].
  destruct (id_ltb y z); simpl; [rewrite IH|]; intuition.
Qed.

Lemma in_sort x l : In x (sort_desc l) <-> In x l.
Proof.
  induction l as [|y l IH]; simpl; [tauto|]. rewrite in_insert, IH. intuition.
Qed.

Lemma insert_sorted x l : StronglySorted id_ge l -> StronglySorted id_ge (insert_desc x l).
Proof.
  induction l as [|y l IH]; simpl; intros S; [repeat constructor|].
  inversion S; subst. destruct (id_ltb x y) eqn:E.
  - constructor; [apply IH; assumption|]. apply Forall_forall. intros z Hz. apply in_insert in Hz.
    destruct Hz as [->|Hz].
    + unfold id_ge. apply id_ltb_ge. apply id_ltb_lt in E. unfold id_lt in *. lia.
    + rewrite Forall_forall in H2. apply H2, Hz.
  - constructor; [assumption|]. constructor; [exact E|].
    apply Forall_forall. intros z Hz. rewrite Forall_forall in H2. specialize (H2 z Hz).
    unfold id_ge in *. apply id_ltb_ge in E. apply id_ltb_ge in H2. apply id_ltb_ge. unfold id_lt in *. lia.
Qed.

Lemma sort_sorted l : StronglySorted id_ge (sort_desc l).
Proof. induction l; simpl; [constructor|apply insert_sorted; assumption]. Qed.

(* ------------------------------------------------------------------ dedup_adj *)

Lemma dedup_adj_cons2 x y r :
  dedup_adj (x :: y :: r) = if id_eqb x y then dedup_adj (y :: r) else x :: dedup_adj (y :: r).
Proof. reflexivity. Qed.

Lemma in_dedup x l : In x (dedup_adj l) <-> In x l.
Proof.
  induction l as [|a l IH]; [simpl; tauto|]. destruct l as [|b r]; [simpl; tauto|].
  rewrite dedup_adj_cons2. destruct (id_eqb a b) eqn:E.
  - apply id_eqb_eq in E; subst. rewrite IH. simpl. intuition.
  - simpl In at 1. rewrite IH. simpl. intuition.
Qed.

Lemma dedup_sorted l : StronglySorted id_ge l -> StronglySorted id_gt (dedup_adj l).
Proof.
  induction l as [|a l IH]; intros S; [constructor|]. destruct l as [|b r]; [repeat constructor|].
  inversion S; subst. specialize (IH H1). rewrite dedup_adj_cons2. destruct (id_eqb a b) eqn:E; [exact IH|].
  constructor; [exact IH|]. apply Forall_forall. intros z Hz. apply (proj1 (in_dedup _ _)) in Hz.
  apply id_eqb_false in E. inversion H2; subst. unfold id_ge in H3. apply id_ltb_ge in H3.
  assert (Hab : id_gt a b).
  { unfold id_gt, id_lt in *. destruct (N.lt_trichotomy (fst a) (fst b)) as [?|[?|?]]; try lia.
    destruct (N.lt_trichotomy (snd a) (snd b)) as [?|[?|?]]; try lia.
    exfalso. apply E. apply id_eq_components; assumption. }
  simpl in Hz. destruct Hz as [<-|Hz]; [exact Hab|].
  inversion H1; subst. rewrite Forall_forall in H6. specialize (H6 z Hz). unfold id_ge in H6.
  apply id_ltb_ge in H6. unfold id_gt, id_lt in *. lia.
Qed.

Lemma sorted_gt_nodup l : StronglySorted id_gt l -> NoDup l.
Proof.
  induction l as [|a l IH]; intros S; [constructor|]. inversion S; subst. constructor; [|auto].
  intros Hin. rewrite Forall_forall in H2. specialize (H2 a Hin). unfold id_gt, id_lt in H2. lia.
Qed.

Lemma listed_nodup l : NoDup (dedup_adj (sort_desc l)).
Proof. apply sorted_gt_nodup, dedup_sorted, sort_sorted. Qed.

Lemma listed_in x l : In x (dedup_adj (sort_desc l)) <-> In x l.
Proof. rewrite in_dedup, in_sort. tauto. Qed.

(* ------------------------------------------------------------------ the merged search *)

Lemma frac_ids_in iv gt a t i :
  In i (q_ids (search_frac iv gt a t)) <-> exists l, In l (tok_lids a t) /\ lid_id a l = i.
Proof.
  unfold search_frac. simpl. rewrite listed_in, in_map_iff. split; intros (l & H1 & H2); exists l; tauto.
Qed.

(* thm:C17_cross_fraction_listed_once (search part) *)
Lemma search_ids_once s t :
  NoDup (search_ids s t) /\
  forall i, In i (search_ids s t) <->
            exists a l, In a (nonempty s) /\ In l (tok_lids a t) /\ lid_id a l = i.
Proof.
  unfold search_ids. split; [apply listed_nodup|]. intros i. rewrite listed_in, in_flat_map. split.
  - intros (a & Ha & Hi). apply frac_ids_in in Hi. destruct Hi as (l & H1 & H2). exists a, l. tauto.
  - intros (a & l & Ha & H1 & H2). exists a. split; [assumption|]. apply frac_ids_in. exists l. tauto.
Qed.

(* ------------------------------------------------------------------ fetch over several fractions *)

Lemma fetch_store_some s i b : fetch_store s i = Some b -> exists a, In a s /\ fetch a i = Some b.
Proof.
  induction s as [|a s IH]; simpl; [discriminate|].
  destruct (fetch_store s i) as [b'|] eqn:E.
  - intros X; inversion X; subst. destruct (IH eq_refl) as (a' & H1 & H2). exists a'. auto.
  - intros X. exists a. auto.
Qed.

Lemma fetch_store_found s i : (exists a, In a s /\ fetch a i <> None) -> fetch_store s i <> None.
Proof.
  induction s as [|a s IH]; intros (a' & Hin & Hf); simpl in *; [tauto|].
  destruct (fetch_store s i) eqn:E; [discriminate|]. destruct Hin as [->|Hin]; [exact Hf|].
  exfalso. apply IH; [exists a'; auto|reflexivity].
Qed.

Lemma ref_fetch1_in K i b : ref_fetch1 K i = Some b ->
  exists m, In (m, b) K /\ m_id m = i /\ m_size m <> 0%N.
Proof.
  induction K as [|[m b'] K IH]; simpl; [discriminate|].
  destruct (id_eqb i (m_id m)) eqn:E1; simpl.
  - destruct (N.eqb_spec (m_size m) 0) as [E2|E2]; simpl.
    + intros X. destruct (IH X) as (m' & ? & ? & ?). exists m'. auto.
    + intros X; inversion X; subst. exists m. apply id_eqb_eq in E1. auto.
  - intros X. destruct (IH X) as (m' & ? & ? & ?). exists m'. auto.
Qed.

(* thm:C17_cross_fraction_listed_once (fetch part): the fractions are the runs of the histories
   hs; every delivery of ID i carries the bytes [body]; i was delivered somewhere *)
Lemma cross_fetch hs i body :
  Forall (Forall bulk_wf) hs ->
  (forall h b m bb, In h hs -> In b h -> In (m, bb) b -> m_id m = i -> m_size m <> 0%N -> bb = body) ->
  (exists h, In h hs /\ ref_fetch1 (concat h) i <> None) ->
  fetch_store (map run_active hs) i = Some body.
Proof.
  intros F Same (h0 & Hh0 & Hf0).
  destruct (fetch_store (map run_active hs) i) as [b|] eqn:E.
  - apply fetch_store_some in E. destruct E as (a & Ha & Hf). apply in_map_iff in Ha.
    destruct Ha as (h & <- & Hh). rewrite Forall_forall in F. rewrite (run_fetch h (F h Hh)) in Hf.
    apply ref_fetch1_in in Hf. destruct Hf as (m & Hm & Hi & Hs). apply in_concat in Hm.
    destruct Hm as (bk & Hbk & Hm). f_equal. eapply Same; eassumption.
  - exfalso. revert E. apply fetch_store_found. exists (run_active h0). split; [apply in_map; assumption|].
    rewrite Forall_forall in F. rewrite (run_fetch h0 (F h0 Hh0)). exact Hf0.
Qed.

(* ------------------------------------------------------------------ run_store = one run per fraction *)

Definition steps_of (h : list (list (meta * N))) (hs : list (list (list (meta * N)))) : list step :=
  map SBulk h ++ flat_map (fun h' => SSeal :: map SBulk h') hs.

Lemma on_last_snoc f pre a : on_last f (pre ++ [a]) = pre ++ [f a].
Proof. unfold on_last. rewrite rev_unit, rev_involutive. reflexivity. Qed.

Lemma run_bulks h : forall pre a,
  fold_left do_step (map SBulk h) (pre ++ [a]) = pre ++ [fold_left process_bulk h a].
Proof.
  induction h as [|b h IH]; intros pre a; simpl; [reflexivity|]. rewrite on_last_snoc. apply IH.
Qed.

Lemma run_fracs hs : forall pre a,
  fold_left do_step (flat_map (fun h' => SSeal :: map SBulk h') hs) (pre ++ [a])
  = pre ++ [a] ++ map run_active hs.
Proof.
  induction hs as [|h hs IH]; intros pre a; simpl; [reflexivity|].
  rewrite fold_left_app, run_bulks. fold (run_active h).
  rewrite (IH (pre ++ [a]) (run_active h)). rewrite <- app_assoc. reflexivity.
Qed.

Lemma run_store_fracs h hs : run_store (steps_of h hs) = map run_active (h :: hs).
Proof.
  unfold run_store, steps_of, store_empty. rewrite fold_left_app.
  change [active_empty] with ([] ++ [active_empty]). rewrite (run_bulks h [] active_empty). fold (run_active h). apply (run_fracs hs [] (run_active h)).
Qed.
