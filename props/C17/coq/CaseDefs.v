(* C17 — shape of the generated cases and the two executable verdicts. No proofs. *)
From VLib Require Import CaseLib.
From C17 Require Import Model ModelSeal ModelConc.

Definition N_list_eqb := list_eqb N.eqb.
Definition nat_list_eqb := list_eqb Nat.eqb.
Definition id_list_eqb := list_eqb id_eqb.
Definition NN_eqb (a b : N * N) := N.eqb (fst a) (fst b) && N.eqb (snd a) (snd b).

(* ------------------------------------------------------------------ collector cases *)

(* what the real collector holds after AppendMeta* [+ Filter] + GroupLIDsByToken *)
Record collout := mkOut {
  o_ids : list id; o_pos : list pos; o_tid : list nat; o_tix : list nat; o_tvals : list N;
  o_docs : N; o_min : N; o_max : N; o_groups : list (list nat)
}.

Definition out_of (c : coll) (first : nat) : collout :=
  mkOut (c_ids c) (c_pos c) (c_tid c) (c_tix c) (c_tvals c) (c_docs c) (c_min c) (c_max c)
        (group_lids c (seq first (length (c_ids c)))).

Definition collout_eqb (a b : collout) : bool :=
  id_list_eqb (o_ids a) (o_ids b) && list_eqb pos_eqb (o_pos a) (o_pos b)
  && nat_list_eqb (o_tid a) (o_tid b) && nat_list_eqb (o_tix a) (o_tix b)
  && N_list_eqb (o_tvals a) (o_tvals b) && N.eqb (o_docs a) (o_docs b)
  && N.eqb (o_min a) (o_min b) && N.eqb (o_max a) (o_max b)
  && list_eqb nat_list_eqb (o_groups a) (o_groups b).

Definition model_coll (blk : nat) (ms : list meta) (dofilter : bool) (app : list id) : coll :=
  let c := collect blk ms in if dofilter then filter_coll c app else c.

(* --- the specification of the collector's result, stated on documents, not on offsets *)

(* a document as the index must see it: ID, position in the docs file, its tokens in order *)
Definition dview := (id * pos * list N)%type.
Definition dview_eqb (a b : dview) : bool :=
  id_eqb (fst (fst a)) (fst (fst b)) && pos_eqb (snd (fst a)) (snd (fst b)) && N_list_eqb (snd a) (snd b).

(* what was sent: every meta with the position of its document (a nested meta points at the
   document before it) *)
Fixpoint sent_view_from (blk : nat) (o : N) (prev : pos) (ms : list meta) : list dview :=
  match ms with
  | [] => []
  | m :: r => if N.eqb (m_size m) 0 then (m_id m, prev, m_toks m) :: sent_view_from blk o prev r
              else (m_id m, (blk, o), m_toks m) :: sent_view_from blk (o + m_size m + 4)%N (blk, o) r
  end.
Definition sent_view (blk : nat) (ms : list meta) : list dview := sent_view_from blk 0 (blk, 0%N) ms.

(* tokensIndex cut into documents by tokensInDocs *)
Fixpoint split_by (tid : list nat) (tix : list nat) : list (list nat) :=
  match tid with [] => [] | n :: r => firstn n tix :: split_by r (skipn n tix) end.

(* the documents a collector state describes *)
Definition view_of (ids : list id) (ps : list pos) (tid tix : list nat) (tvals : list N) : list dview :=
  combine (combine ids ps) (map (map (fun j => nth j tvals 0%N)) (split_by tid tix)).

Definition shape_ok (ids : list id) (ps : list pos) (tid tix : list nat) (tvals : list N) : bool :=
  Nat.eqb (length ps) (length ids) && Nat.eqb (length tid) (length ids)
  && Nat.eqb (fold_right Nat.add 0 tid) (length tix)
  && forallb (fun j => Nat.ltb j (length tvals)) tix.

Fixpoint count_tok (t : N) (l : list N) : nat :=
  match l with [] => 0 | x :: r => (if N.eqb t x then 1 else 0) + count_tok t r end.

(* LIDs token t must receive: the LID of every kept document, once per occurrence of t in it *)
Fixpoint expected_group (t : N) (first : nat) (kept : list dview) : list nat :=
  match kept with
  | [] => []
  | v :: r => repeat first (count_tok t (snd v)) ++ expected_group t (S first) r
  end.

Definition kept_view (dofilter : bool) (app : list id) (sent : list dview) : list dview :=
  if dofilter then filter (fun v => mem_id (fst (fst v)) app) sent else sent.

Definition min_mid (l : list dview) : N := fold_left (fun a v => N.min a (fst (fst (fst v)))) l max_u64.
Definition max_mid (l : list dview) : N := fold_left (fun a v => N.max a (fst (fst (fst v)))) l 0%N.

(* alignment: the collector describes exactly the kept documents — each with its own ID, its
   original position and its own tokens in order — and every token's group is the LIDs of the
   kept documents carrying it; dropped documents contribute nothing. [ndocs] is what the stats
   must count. *)
Definition aligned (kept : list dview) (first : nat) (o : collout) : bool :=
  shape_ok (o_ids o) (o_pos o) (o_tid o) (o_tix o) (o_tvals o)
  && list_eqb dview_eqb (view_of (o_ids o) (o_pos o) (o_tid o) (o_tix o) (o_tvals o)) kept
  && Nat.eqb (length (o_groups o)) (length (o_tvals o))
  && forallb (fun p => nat_list_eqb (snd p) (expected_group (fst p) first kept))
             (combine (o_tvals o) (o_groups o))
  && N.eqb (o_min o) (min_mid kept) && N.eqb (o_max o) (max_mid kept).

(* ------------------------------------------------------------------ history cases *)

(* state of the active fraction as the export hook copies it *)
Record dump := mkDump {
  d_ids : list id;                 (* LID -> ID, LID 0 = system entry *)
  d_tok : list (N * list nat);     (* every token of the table -> LIDs (GetLIDs: no repeats) *)
  d_pos : list (id * pos);         (* DocsPositions *)
  d_nblocks : nat; d_total : N; d_from : N; d_to : N
}.

(* one observation of the whole store *)
Record obsv := mkObs {
  ob_q : list (N * qres);          (* single-token queries *)
  ob_fetch : list (id * option N); (* probed ID -> body found *)
  ob_totals : list N               (* DocsTotal of every fraction holding documents, oldest first *)
}.

Definition hist_iv : N := 10.

Definition qres_eqb (a b : qres) : bool :=
  id_list_eqb (q_ids a) (q_ids b) && N.eqb (q_total a) (q_total b)
  && list_eqb NN_eqb (q_hist a) (q_hist b) && list_eqb NN_eqb (q_agg a) (q_agg b)
  && N.eqb (q_notexists a) (q_notexists b).

Fixpoint nodup_nat (l : list nat) : list nat :=
  match l with [] => [] | x :: r => if mem_nat x r then nodup_nat r else x :: nodup_nat r end.
Fixpoint is_nodup_nat (l : list nat) : bool :=
  match l with [] => true | x :: r => negb (mem_nat x r) && is_nodup_nat r end.
Definition same_set_nat (a b : list nat) : bool :=
  is_nodup_nat a && Nat.eqb (length a) (length (nodup_nat b)) && forallb (fun x => mem_nat x b) a.

(* GetLIDs merges the queue into a sorted list without equal LIDs: a token repeated inside one
   document is one posting *)
Definition uniq_tok (a : active) : active :=
  mkActive (a_posm a) (a_ids a) (map (fun p => (fst p, nodup_nat (snd p))) (a_tok a))
           (a_blocks a) (a_total a) (a_from a) (a_to a).

Definition last_frac (s : store) : active := last s active_empty.

Definition dump_agrees (a : active) (d : dump) : bool :=
  id_list_eqb (a_ids a) (d_ids d)
  && forallb (fun p => same_set_nat (snd p) (tok_lids a (fst p))) (d_tok d)
  && Nat.eqb (length (d_pos d)) (length (a_posm a))
  && forallb (fun p => option_eqb pos_eqb (lookup_pos (fst p) (a_posm a)) (Some (snd p))) (d_pos d)
  && Nat.eqb (d_nblocks d) (length (a_blocks a))
  && N.eqb (d_total d) (a_total a) && N.eqb (d_from d) (a_from a) && N.eqb (d_to d) (a_to a).

Definition gtoks_of (o : obsv) : list N := map fst (ob_q o).

Definition obs_agrees (gt : list N) (s : store) (o : obsv) : bool :=
  let fr := nonempty s in
  list_eqb N.eqb (map a_total fr) (ob_totals o)
  && forallb (fun p => option_eqb N.eqb (fetch_store s (fst p)) (snd p)) (ob_fetch o)
  && match fr with
     | [a] => forallb (fun p => qres_eqb (search_frac hist_iv gt (uniq_tok a) (fst p)) (snd p)) (ob_q o)
     | _ => forallb (fun p => id_list_eqb (search_ids (map uniq_tok s) (fst p)) (q_ids (snd p))) (ob_q o)
     end.

(* --- reference with set semantics, computed from the history alone (no collector, no LIDs):
   per fraction the metas of first deliveries *)

Definition metas_new (seen : list id) (b : list (meta * N)) : list (meta * N) :=
  filter (fun p => negb (mem_id (m_id (fst p)) seen)) b.

(* (closed fractions, kept metas of the current fraction) *)
Definition ref_state := (list (list (meta * N)) * list (meta * N))%type.
Definition ref_bulk (cur : list (meta * N)) (b : list (meta * N)) : list (meta * N) :=
  cur ++ metas_new (map (fun p => m_id (fst p)) cur) b.
Definition ref_step (r : ref_state) (st : step) : ref_state :=
  match st with
  | SBulk b => (fst r, ref_bulk (snd r) b)
  | SConc bs => (fst r, fold_left ref_bulk bs (snd r))
  | SSeal => (fst r ++ [snd r], [])
  | SRestart => r
  end.
Definition ref_run (h : list step) : list (list (meta * N)) :=
  let r := fold_left ref_step h ([], []) in
  filter (fun k => negb (Nat.eqb (length k) 0)) (fst r ++ [snd r]).

Definition ref_cur (h : list step) : list (meta * N) := snd (fold_left ref_step h ([], [])).

Definition has_tokN (t : N) (l : list N) : bool := existsb (N.eqb t) l.

Definition ref_search (iv : N) (gtoks : list N) (k : list (meta * N)) (t : N) : qres :=
  let matched := filter (fun p => has_tokN t (m_toks (fst p))) k in
  let ids := map (fun p => m_id (fst p)) matched in
  let cnt g := N.of_nat (length (filter (fun p => has_tokN g (m_toks (fst p))) matched)) in
  mkQres (dedup_adj (sort_desc ids))
         (N.of_nat (length matched))
         (fold_right (fun i h => hist_add (bucket iv i) h) [] ids)
         (filter (fun p => negb (N.eqb (snd p) 0)) (map (fun g => (g, cnt g)) gtoks))
         (N.of_nat (length (filter (fun p => negb (existsb (fun g => has_tokN g (m_toks (fst p))) gtoks)) matched))).

Fixpoint ref_fetch1 (k : list (meta * N)) (i : id) : option N :=
  match k with
  | [] => None
  | (m, b) :: r => if id_eqb i (m_id m) && negb (N.eqb (m_size m) 0) then Some b else ref_fetch1 r i
  end.
Fixpoint ref_fetch (ks : list (list (meta * N))) (i : id) : option N :=
  match ks with
  | [] => None
  | k :: r => match ref_fetch (r) i with Some b => Some b | None => ref_fetch1 k i end
  end.

(* histograms are compared up to the order in which equal buckets were filled: both sides list
   buckets ascending, so plain equality is meant *)
Definition obs_spec_ok (gt : list N) (ks : list (list (meta * N))) (o : obsv) : bool :=
  list_eqb N.eqb (map (fun k => N.of_nat (length k)) ks) (ob_totals o)
  && forallb (fun p => option_eqb N.eqb (ref_fetch ks (fst p)) (snd p)) (ob_fetch o)
  && match ks with
     | [k] => forallb (fun p => qres_eqb (ref_search hist_iv gt k (fst p)) (snd p)) (ob_q o)
     | _ => forallb (fun p => id_list_eqb
                                (dedup_adj (sort_desc (flat_map (fun k => q_ids (ref_search 1 [] k (fst p))) ks)))
                                (q_ids (snd p))) (ob_q o)
     end.

(* dump against the reference: the LID table lists exactly the first deliveries, each token's
   postings resolve to exactly the IDs of the first deliveries carrying it, positions exist for
   exactly the stored IDs *)
Definition dump_spec_ok (k : list (meta * N)) (d : dump) : bool :=
  let ids := map (fun p => m_id (fst p)) k in
  id_list_eqb (sort_desc (tl (d_ids d))) (sort_desc ids)
  && N.eqb (d_total d) (N.of_nat (length k))
  && forallb (fun p =>
       id_list_eqb (sort_desc (map (fun l => nth l (d_ids d) sys_id) (snd p)))
                   (sort_desc (map (fun q => m_id (fst q)) (filter (fun q => has_tokN (fst p) (m_toks (fst q))) k))))
       (d_tok d)
  && forallb (fun i => match lookup_pos i (d_pos d) with Some _ => true | None => false end) ids
  && forallb (fun p => mem_id (fst p) ids) (d_pos d).

(* ------------------------------------------------------------------ histories with seal, reload and replay modelled *)

(* tables of a sealed fraction as the export hook reads them through the sealed loaders *)
Record sdump := mkSDump {
  sd_ids : list id;                (* LID -> ID *)
  sd_pos : list (option pos);      (* LID -> DocPos, None = DocPosNotFound *)
  sd_tok : list (N * list nat);    (* every token of the table -> LIDs, ascending *)
  sd_nblocks : nat; sd_total : N; sd_from : N; sd_to : N
}.

Inductive fdump := DActive (d : dump) | DSealed (d : sdump).

Definition sealed_agrees (s : sealed) (d : sdump) : bool :=
  id_list_eqb (s_ids s) (sd_ids d)
  && list_eqb (option_eqb pos_eqb) (s_pos s) (sd_pos d)
  && forallb (fun p => nat_list_eqb (snd p) (stok_lids s (fst p))) (sd_tok d)
  && Nat.eqb (sd_nblocks d) (length (s_blocks s))
  && N.eqb (sd_total d) (s_total s) && N.eqb (sd_from d) (s_from s) && N.eqb (sd_to d) (s_to s).

Definition fdump_agrees (f : frac) (d : fdump) : bool :=
  match f, d with
  | FA a _, DActive d => dump_agrees a d
  | FS s, DSealed d => sealed_agrees s d
  | _, _ => false
  end.

Definition frac_view (f : frac) : active :=
  match f with FA a _ => uniq_tok a | FS s => sealed_view s end.

Definition obs_agrees2 (gt : list N) (s : store2) (o : obsv) : bool :=
  let fr := nonempty2 s in
  list_eqb N.eqb (map frac_total fr) (ob_totals o)
  && forallb (fun p => option_eqb N.eqb (fetch_store2 s (fst p)) (snd p)) (ob_fetch o)
  && match fr with
     | [f] => forallb (fun p => qres_eqb (search_frac hist_iv gt (frac_view f) (fst p)) (snd p)) (ob_q o)
     | _ => forallb (fun p => id_list_eqb (search_ids (map frac_view s) (fst p)) (q_ids (snd p))) (ob_q o)
     end.

(* --- set-semantics reference for the sealed tables, from the first deliveries k of the fraction:
   the LID table is the system entry followed by the IDs of the first deliveries, newest first
   (every meta once); DocsTotal counts them once; From/To span them; every token's LIDs are
   distinct and resolve to exactly the first deliveries carrying it; every LID has a position,
   and two LIDs share a position exactly when they carry the same ID *)
Definition sdump_spec_ok (k : list (meta * N)) (d : sdump) : bool :=
  let ids := map (fun p => m_id (fst p)) k in
  let n := length (sd_ids d) in
  id_list_eqb (sd_ids d) (sys_id :: sort_desc ids)
  && N.eqb (sd_total d) (N.of_nat (length k))
  && N.eqb (sd_from d) (fold_left (fun a i => N.min a (fst i)) ids max_u64)
  && N.eqb (sd_to d) (fold_left (fun a i => N.max a (fst i)) ids 0%N)
  && forallb (fun p =>
       is_nodup_nat (snd p) && forallb (fun l => Nat.ltb 0 l && Nat.ltb l n) (snd p)
       && id_list_eqb (sort_desc (map (fun l => nth l (sd_ids d) sys_id) (snd p)))
                      (sort_desc (map (fun q => m_id (fst q)) (filter (fun q => has_tokN (fst p) (m_toks (fst q))) k))))
       (sd_tok d)
  && Nat.eqb (length (sd_pos d)) n
  && forallb (fun l1 =>
       match nth l1 (sd_pos d) None with
       | None => false
       | Some p1 => forallb (fun l2 =>
           match nth l2 (sd_pos d) None with
           | None => false
           | Some p2 => Bool.eqb (id_eqb (nth l1 (sd_ids d) sys_id) (nth l2 (sd_ids d) sys_id)) (pos_eqb p1 p2)
           end) (seq 1 (n - 1))
       end) (seq 1 (n - 1)).

Definition fdump_spec_ok (k : list (meta * N)) (d : fdump) : bool :=
  match d with
  | DActive d => dump_spec_ok k d
             && N.eqb (d_from d) (fold_left (fun a p => N.min a (fst (m_id (fst p)))) k max_u64)
             && N.eqb (d_to d) (fold_left (fun a p => N.max a (fst (m_id (fst p)))) k 0%N)
  | DSealed d => sdump_spec_ok k d
  end.

Definition group_toks : list N := [5; 6; 7; 9]%N.   (* tokens of the group field g in the harness table *)

(* ------------------------------------------------------------------ concurrent deliveries *)

(* small concurrent groups: the step model (ModelConc) under the schedule the driver drew must finish
   and predict the order-insensitive observables of the real fraction *)
Definition conc_agrees (qs : list (list cbulk)) (sched : list nat) (o : obsv) : bool :=
  let s := conc_run sched (conc_init qs) in
  all_done s && obs_agrees group_toks [cc_a s] o.

(* --- stress rounds: every delivery is a RANGE [lo, hi) of document numbers of the round (document
   x has the ID the driver derives from the round and x, the all-token, and the token k:a iff
   x mod 5 = 0), so that bulks of tens of thousands of documents stay small terms *)

(* first writer wins on ranges: the parts of [lo, hi) not covered yet *)
Fixpoint sub_iv (lo hi : N) (cov : list (N * N)) : list (N * N) :=
  match cov with
  | [] => if N.ltb lo hi then [(lo, hi)] else []
  | (a, b) :: r => sub_iv lo (N.min hi a) r ++ sub_iv (N.max lo b) hi r
  end.
Definition iv_size (l : list (N * N)) : N := fold_right (fun p s => (snd p - fst p + s)%N) 0%N l.
Definition iv_mult5 (l : list (N * N)) : N :=
  fold_right (fun p s => ((snd p + 4) / 5 - (fst p + 4) / 5 + s)%N) 0%N l.
(* the deliveries in list order: covered ranges, accepted ranges of every delivery *)
Definition ranges_run (rs : list (N * N)) : list (N * N) * list (list (N * N)) :=
  fold_left (fun st r => let fresh := sub_iv (fst r) (snd r) (fst st) in (fresh ++ fst st, snd st ++ [fresh]))
            rs ([], []).

(* reference, point by point *)
Definition count_upto (n : N) (P : N -> bool) : N :=
  snd (N.iter n (fun st : N * N => ((fst st + 1)%N, if P (fst st) then (snd st + 1)%N else snd st)) (0%N, 0%N)).
Definition covered (rs : list (N * N)) (x : N) : bool :=
  existsb (fun r => N.leb (fst r) x && N.ltb x (snd r)) rs.
Definition ranges_top (rs : list (N * N)) : N := fold_right (fun r m => N.max (snd r) m) 0%N rs.
Definition distinct_pts (rs : list (N * N)) : N := count_upto (ranges_top rs) (covered rs).
Definition distinct_mult5 (rs : list (N * N)) : N :=
  count_upto (ranges_top rs) (fun x => covered rs x && N.eqb (x mod 5) 0).

(* DocsPositions.SetMultiple called by one goroutine per delivery at the same moment (unit level) *)
Record sobs := mkSObs {
  so_acc : N;      (* IDs returned as added, all calls together *)
  so_once : N;     (* IDs returned by exactly one call *)
  so_multi : N;    (* IDs returned by more than one call *)
  so_never : N;    (* IDs returned by no call *)
  so_pos : N;      (* entries of the map afterwards *)
  so_bad : N       (* IDs whose stored position is not the position given by a call that got the ID back *)
}.
(* the same deliveries through FracManager.Append on a fraction with several index workers;
   numbers are the growth during the round *)
Record pobs := mkPObs {
  po_lids : N;     (* new LIDs = IDs accepted for indexing, all deliveries together *)
  po_duplids : N;  (* IDs of the round holding more than one LID + new LIDs holding an ID no delivery carried *)
  po_pos : N;      (* new entries of DocsPositions *)
  po_total : N;    (* Info.DocsTotal *)
  po_all : N;      (* LIDs of the all-token *)
  po_search : N;   (* Total of the search `*` *)
  po_ka : N;       (* Total of the search k:"a" *)
  po_probes : N; po_found : N   (* IDs fetched / of them found with the document's bytes *)
}.

Definition sobs_agrees (rs : list (N * N)) (o : sobs) : bool :=
  let acc := snd (ranges_run rs) in
  let d := fold_right (fun l s => (iv_size l + s)%N) 0%N acc in
  N.eqb (so_acc o) d && N.eqb (so_once o) d && N.eqb (so_multi o) 0 && N.eqb (so_never o) 0
  && N.eqb (so_pos o) (iv_size (fst (ranges_run rs))) && N.eqb (so_bad o) 0.
Definition sobs_spec_ok (rs : list (N * N)) (o : sobs) : bool :=
  let d := distinct_pts rs in
  N.eqb (so_acc o) d && N.eqb (so_once o) d && N.eqb (so_multi o) 0 && N.eqb (so_never o) 0
  && N.eqb (so_pos o) d && N.eqb (so_bad o) 0.

Definition pobs_agrees (rs : list (N * N)) (o : pobs) : bool :=
  let acc := snd (ranges_run rs) in
  let d := fold_right (fun l s => (iv_size l + s)%N) 0%N acc in
  let d5 := fold_right (fun l s => (iv_mult5 l + s)%N) 0%N acc in
  N.eqb (po_lids o) d && N.eqb (po_duplids o) 0 && N.eqb (po_pos o) (iv_size (fst (ranges_run rs)))
  && N.eqb (po_total o) d && N.eqb (po_all o) d && N.eqb (po_search o) d && N.eqb (po_ka o) d5
  && N.eqb (po_found o) (po_probes o).
Definition pobs_spec_ok (rs : list (N * N)) (o : pobs) : bool :=
  let d := distinct_pts rs in
  N.eqb (po_lids o) d && N.eqb (po_duplids o) 0 && N.eqb (po_pos o) d
  && N.eqb (po_total o) d && N.eqb (po_all o) d && N.eqb (po_search o) d && N.eqb (po_ka o) (distinct_mult5 rs)
  && N.eqb (po_found o) (po_probes o).

Inductive case :=
(* real collector: Init blk, AppendMeta ms, [Filter app], GroupLIDsByToken first.. *)
| CColl (blk : nat) (ms : list meta) (dofilter : bool) (app : list id) (first : nat) (impl : collout)
(* history through the real store: optional dump of the active fraction after [fst dmp] steps,
   observations after the given numbers of steps *)
| CHist (h : list step) (dmp : option (nat * dump)) (obs : list (nat * obsv))
(* history through the real store with seal, reload and replay predicted by the model
   (ModelSeal.run_store2): dumps = (after k steps, index j among the fractions holding documents,
   copy of that fraction's tables), observations after the given numbers of steps *)
| CHist2 (cfg : sealcfg) (h : list step) (dumps : list (nat * nat * fdump)) (obs : list (nat * obsv))
(* bulks delivered concurrently to one active fraction with several index workers: qs = the bulks as
   the model's workers receive them, sched = the interleaving of atomic steps the driver drew;
   observation of the real store afterwards (order-insensitive observables, identical bytes) *)
| CConc (qs : list (list cbulk)) (sched : list nat) (o : obsv)
(* g goroutines call the real DocsPositions.SetMultiple at the same moment, one per range of IDs;
   every round on a fresh map *)
| CSetStress (rounds : list (list (N * N) * sobs))
(* the same deliveries released together into FracManager.Append, `workers` index workers; rounds
   on one fraction with fresh IDs each *)
| CPipeStress (workers : nat) (rounds : list (list (N * N) * pobs)).

Definition case_agrees (c : case) : bool :=
  match c with
  | CColl blk ms dofilter app first impl =>
      collout_eqb (out_of (model_coll blk ms dofilter app) first) impl
  | CHist h dmp obs =>
      match dmp with
      | None => true
      | Some (k, d) => dump_agrees (last_frac (run_store (firstn k h))) d
      end
      && forallb (fun p => obs_agrees group_toks (run_store (firstn (fst p) h)) (snd p)) obs
  | CHist2 cfg h dumps obs =>
      forallb (fun x => fdump_agrees (nth (snd (fst x)) (nonempty2 (run_store2 cfg (firstn (fst (fst x)) h)))
                                          (FA active_empty [])) (snd x)) dumps
      && forallb (fun p => obs_agrees2 group_toks (run_store2 cfg (firstn (fst p) h)) (snd p)) obs
  | CConc qs sched o => conc_agrees qs sched o
  | CSetStress rounds => forallb (fun r => sobs_agrees (fst r) (snd r)) rounds
  | CPipeStress _ rounds => forallb (fun r => pobs_agrees (fst r) (snd r)) rounds
  end.

Definition case_spec_ok (c : case) : bool :=
  match c with
  | CColl blk ms dofilter app first impl =>
      let kept := kept_view dofilter app (sent_view blk ms) in
      aligned kept first impl && N.eqb (o_docs impl) (N.of_nat (length kept))
  | CHist h dmp obs =>
      match dmp with
      | None => true
      | Some (k, d) => dump_spec_ok (ref_cur (firstn k h)) d
      end
      && forallb (fun p => obs_spec_ok group_toks (ref_run (firstn (fst p) h)) (snd p)) obs
  | CHist2 cfg h dumps obs =>
      forallb (fun x => fdump_spec_ok (nth (snd (fst x)) (ref_run (firstn (fst (fst x)) h)) []) (snd x)) dumps
      && forallb (fun p => obs_spec_ok group_toks (ref_run (firstn (fst p) h)) (snd p)) obs
  | CConc qs sched o => obs_spec_ok group_toks (ref_run [SConc (concat qs)]) o
  | CSetStress rounds => forallb (fun r => sobs_spec_ok (fst r) (snd r)) rounds
  | CPipeStress _ rounds => forallb (fun r => pobs_spec_ok (fst r) (snd r)) rounds
  end.

Definition diff_indices (l : list case) : list nat := bad_indices (fun c => negb (case_agrees c)) l.
Definition specfail_indices (l : list case) : list nat := bad_indices (fun c => negb (case_spec_ok c)) l.
