(* C17 — property theorems. Only statements, each closed by `exact <lemma>`, Print Assumptions
   beneath, and the non-vacuity examples. *)
From Coq Require Import List NArith.
From C17 Require Import Model CaseDefs ProofsColl.
Import ListNotations.

(* After AppendMeta of a whole bulk and Filter(appended) — for EVERY bulk, block index, list
   `app` and first LID — the collector describes exactly the kept documents: each with its own
   ID, its original position and its own tokens in their order, and GroupLIDsByToken gives every
   token exactly the LIDs of the kept documents carrying it (once per occurrence); a dropped
   document contributes no LID to any token. `aligned` is the very checker the correspondence
   run evaluates on the real collector's output (CaseDefs.case_spec_ok). *)
Theorem C17_filter_alignment :
  forall blk ms dofilter app first,
    aligned (kept_view dofilter app (sent_view blk ms)) first
            (out_of (model_coll blk ms dofilter app) first) = true.
Proof. exact filter_alignment. Qed.
Print Assumptions C17_filter_alignment.

(* non-vacuity: a bulk [A; nested of A; B; C] with B dropped, tokens shared between A and C *)
Example C17_alignment_nonvacuous :
  let ms := [mkMeta (1005, 1) 30 [1; 5; 0]; mkMeta (1005, 1) 0 [2; 0];
             mkMeta (1010, 2) 25 [2; 2; 0]; mkMeta (1001, 3) 40 [1; 0]]%N in
  let app := [(1005, 1); (1005, 1); (1001, 3)]%N in
  o_groups (out_of (model_coll 3 ms true app) 7) = [[7; 9]; [7]; [7; 8; 9]; [8]]
  /\ c_pos (model_coll 3 ms true app) = [(3, 0%N); (3, 0%N); (3, 63%N)]
  /\ c_docs (model_coll 3 ms true app) = 3%N.
Proof. vm_compute. auto. Qed.
