(* C17 — property theorems. Only statements, each closed by `exact <lemma>`, Print Assumptions
   beneath, and the non-vacuity examples. *)
From Coq Require Import List NArith.
From C17 Require Import Model CaseDefs ProofsColl.
Import ListNotations.

(* After AppendMeta of a whole bulk and Filter(appended) — for EVERY bulk, block index, list
   `app` and first LID — the collector describes exactly the kept documents: each with its own
   ID, its original position and its own tokens in their order, and GroupLIDsByToken gives every
   token exactly the LIDs of the kept documents carrying it (once per occurrence); a dropped
   document contributes no LID to any token. `aligned` is the very checker the correspondence
   run evaluates on the real collector's output (CaseDefs.case_spec_ok). *)
Theorem C17_filter_alignment :
  forall blk ms dofilter app first,
    aligned (kept_view dofilter app (sent_view blk ms)) first
            (out_of (model_coll blk ms dofilter app) first) = true.
Proof. exact filter_alignment. Qed.
Print Assumptions C17_filter_alignment.

(* non-vacuity: a bulk [A; nested of A; B; C] with B dropped, tokens shared between A and C *)
Example C17_alignment_nonvacuous :
  let ms := [mkMeta (1005, 1) 30 [1; 5; 0]; mkMeta (1005, 1) 0 [2; 0];
             mkMeta (1010, 2) 25 [2; 2; 0]; mkMeta (1001, 3) 40 [1; 0]]%N in
  let app := [(1005, 1); (1005, 1); (1001, 3)]%N in
  o_groups (out_of (model_coll 3 ms true app) 7) = [[7; 9]; [7]; [7; 8; 9]; [8]]
  /\ c_pos (model_coll 3 ms true app) = [(3, 0%N); (3, 0%N); (3, 63%N)]
  /\ c_docs (model_coll 3 ms true app) = 3%N.
Proof. vm_compute. auto. Qed.

From C17 Require Import ProofsHist ProofsDocs ProofsCross.

(* For EVERY history of bulks into one fraction (each bulk: metas with the same ID point at the
   same document, i.e. pairwise distinct document IDs, nested metas with their parent) with
   arbitrary re-sent subsets — whole bulks, partial overlaps, the same document many times,
   mixed with new documents, at any position — the index of the fraction is exactly the first
   deliveries (first_deliveries h = concat (dedup_first h), C17_first_deliveries_are_dedup):
   the LID table lists them once each in arrival order, every token's postings are exactly the
   LIDs of the first deliveries carrying it, DocsTotal counts them once, From/To span them,
   and the position map holds exactly their IDs. A repeat contributes nothing. *)
Theorem C17_index_is_first_deliveries :
  forall h, Forall (fun b => bulk_ok (map fst b)) h ->
    index_is (run_active h) (first_deliveries (map (map fst) h)).
Proof. exact run_index. Qed.
Print Assumptions C17_index_is_first_deliveries.

Theorem C17_first_deliveries_are_dedup :
  forall h, first_deliveries h = concat (dedup_first h)
            /\ first_deliveries (dedup_first h) = first_deliveries h.
Proof. intros h. split; [apply first_deliveries_concat|apply first_deliveries_dedup]. Qed.
Print Assumptions C17_first_deliveries_are_dedup.

(* Scope of the correspondence: a repeated ID carries the tokens of its first delivery (the same
   bulk is re-delivered). The theorems below do not need this — in the model the first delivery
   wins whatever a repeat carries — but the real store is only compared under it (check.py ASSUME).

   A bulk as the proxy builds it: documents with pairwise distinct IDs and non-empty bodies, each
   followed by its nested metas (bulk_wf b := exists ds, wf_docs ds /\ b = pairs_of ds). Such
   bulks satisfy bulk_ok, and removing whole documents keeps them well formed. *)
Theorem C17_wf_bulks :
  forall h, Forall bulk_wf h ->
    Forall (fun b => bulk_ok (map fst b)) h /\ Forall bulk_wf (dedupb h).
Proof. intros h F. split; [apply all_wf_ok, F|apply dedupb_wf, F]. Qed.
Print Assumptions C17_wf_bulks.

(* observe (run h) = observe (run (dedup_first h)): LID table, postings of every token,
   DocsTotal, From, To — for every history of well formed bulks, no further hypothesis. *)
Theorem C17_idempotent :
  forall h, Forall bulk_wf h ->
    let a := run_active h in let a' := run_active (dedupb h) in
    a_ids a = a_ids a' /\ (forall t, tok_lids a t = tok_lids a' t) /\
    a_total a = a_total a' /\ a_from a = a_from a' /\ a_to a = a_to a'.
Proof. exact idempotent_wf. Qed.
Print Assumptions C17_idempotent.

(* Fetch serves the FIRST delivery: for every history of well formed bulks and every ID, the
   fraction returns the bytes of the first document with that ID in the whole history (None if the
   ID never came) — whatever bytes later repeats carry. From the SetMultiple invariant: an entry
   is never overwritten, older entries point into older blocks. *)
Theorem C17_fetch_first_delivery :
  forall h, Forall bulk_wf h -> forall i, fetch (run_active h) i = ref_fetch1 (concat h) i.
Proof. exact run_fetch. Qed.
Print Assumptions C17_fetch_first_delivery.

(* Repeats landing in other fractions (the store after the bulks of h, then for each element of hs
   a seal followed by its bulks — the model the correspondence run executes): the merged
   single-token search lists no ID twice and lists exactly the IDs some fraction has postings
   for; and if every delivery of ID i carries the bytes `body` and i was delivered at all, the
   store returns `body`. (Totals across fractions are not claimed, as in the property text.) *)
Theorem C17_cross_fraction_listed_once :
  forall h hs t,
    let s := run_store (steps_of h hs) in
    s = map run_active (h :: hs) /\
    NoDup (search_ids s t) /\
    (forall i, In i (search_ids s t) <->
               exists a l, In a (nonempty s) /\ In l (tok_lids a t) /\ lid_id a l = i) /\
    (forall i body, Forall (Forall bulk_wf) (h :: hs) ->
       (forall h' b m bb, In h' (h :: hs) -> In b h' -> In (m, bb) b -> m_id m = i -> m_size m <> 0%N -> bb = body) ->
       (exists h', In h' (h :: hs) /\ ref_fetch1 (concat h') i <> None) ->
       fetch_store s i = Some body).
Proof.
  intros h hs t s. assert (E : s = map run_active (h :: hs)) by apply run_store_fracs.
  split; [exact E|]. split; [apply search_ids_once|]. split; [apply search_ids_once|].
  intros i body F Same Ex. rewrite E. apply cross_fetch; assumption.
Qed.
Print Assumptions C17_cross_fraction_listed_once.

(* hence every single-token search — listed IDs, total, histogram, count aggregation — agrees *)
Theorem C17_idempotent_search :
  forall iv gt a a' t, a_ids a = a_ids a' -> (forall t, tok_lids a t = tok_lids a' t) ->
    search_frac iv gt a t = search_frac iv gt a' t.
Proof. exact search_frac_ext. Qed.
Print Assumptions C17_idempotent_search.

(* non-vacuity: bulk 1 = [A with a nested meta; B], bulk 2 = [C; A again (other bytes); B again],
   bulk 3 = bulk 1 again. Hypotheses hold, repeats are dropped, first bytes are served. *)
Definition ex_A := mkMeta (1005, 1)%N 30%N [1; 5; 0]%N.
Definition ex_An := mkMeta (1005, 1)%N 0%N [2; 0]%N.
Definition ex_B := mkMeta (1010, 2)%N 25%N [2; 0]%N.
Definition ex_C := mkMeta (1001, 3)%N 40%N [1; 6; 0]%N.
Definition ex_h : list (list (meta * N)) :=
  [[(ex_A, 0); (ex_An, 0); (ex_B, 0)]; [(ex_C, 0); (ex_A, 1); (ex_An, 1); (ex_B, 1)];
   [(ex_A, 0); (ex_An, 0); (ex_B, 0)]]%N.

Definition ex_dA (v : N) := mkDoc (1005, 1)%N 30%N [1; 5; 0]%N [[2; 0]%N] v.
Definition ex_dB (v : N) := mkDoc (1010, 2)%N 25%N [2; 0]%N [] v.
Definition ex_dC := mkDoc (1001, 3)%N 40%N [1; 6; 0]%N [] 0%N.

Example C17_history_hypotheses_hold : Forall bulk_wf ex_h.
Proof.
  assert (W : forall ds, NoDup (map d_id ds) -> Forall (fun d => d_size d <> 0%N) ds -> bulk_wf (pairs_of ds))
    by (intros ds A B; exists ds; split; [split; assumption|reflexivity]).
  repeat constructor.
  - apply (W [ex_dA 0%N; ex_dB 0%N]); repeat constructor; simpl; intuition discriminate.
  - apply (W [ex_dC; ex_dA 1%N; ex_dB 1%N]); repeat constructor; simpl; intuition discriminate.
  - apply (W [ex_dA 0%N; ex_dB 0%N]); repeat constructor; simpl; intuition discriminate.
Qed.

(* the repeat of A in bulk 2 carries other bytes (1): the first delivery's bytes (0) are served *)
Example C17_fetch_nonvacuous :
  fetch (run_active ex_h) (1005, 1)%N = Some 0%N /\ ref_fetch1 (concat ex_h) (1005, 1)%N = Some 0%N
  /\ fetch (run_active ex_h) (7, 7)%N = None.
Proof. vm_compute. auto. Qed.

(* bulk 1 lands in fraction 1, is re-delivered after a seal into fraction 2 together with C *)
Example C17_cross_nonvacuous :
  let h := [pairs_of [ex_dA 0%N; ex_dB 0%N]] in
  let hs := [[pairs_of [ex_dC; ex_dA 0%N; ex_dB 0%N]]] in
  let s := run_store (steps_of h hs) in
  search_ids s 2%N = [(1010, 2); (1005, 1)]%N /\ search_ids s 0%N = [(1010, 2); (1005, 1); (1001, 3)]%N
  /\ fetch_store s (1005, 1)%N = Some 0%N /\ map a_total s = [3; 4]%N.
Proof. vm_compute. auto. Qed.

Example C17_history_nonvacuous :
  a_ids (run_active ex_h) = [sys_id; (1005, 1); (1005, 1); (1010, 2); (1001, 3)]%N
  /\ tok_lids (run_active ex_h) 2 = [2; 3] /\ tok_lids (run_active ex_h) 1 = [1; 4]
  /\ a_total (run_active ex_h) = 4%N
  /\ fetch (run_active ex_h) (1005, 1)%N = Some 0%N
  /\ map (map fst) (dedupb ex_h) = [[ex_A; ex_An; ex_B]; [ex_C]; []].
Proof. vm_compute. repeat split. Qed.

(* the behaviour the filter exists for, kept as a refuted variant: without Filter (collector used
   as is although SetMultiple rejected documents) the repeats get LIDs and are counted twice *)
Definition process_bulk_v0 (a : active) (b : list (meta * N)) : active :=
  let blk := length (a_blocks a) in
  let c := collect blk (map fst b) in
  let r := set_multiple (a_posm a) (c_ids c) (c_pos c) in
  mkActive (fst r) (a_ids a ++ c_ids c)
           (add_groups (a_tok a) (c_tvals c) (group_lids c (seq (length (a_ids a)) (length (c_ids c)))))
           (a_blocks a ++ [layout_from 0 b]) (a_total a + c_docs c)
           (N.min (a_from a) (c_min c)) (N.max (a_to a) (c_max c)).
Example C17_no_filter_v0_refuted :
  exists h, Forall (fun b => bulk_ok (map fst b)) h /\
            a_total (fold_left process_bulk_v0 h active_empty) <> N.of_nat (length (first_deliveries (map (map fst) h))).
Proof.
  exists [[(ex_B, 0%N)]; [(ex_B, 0%N)]]. split.
  - repeat constructor; intros blk v1 v2; simpl; intuition (subst; simpl in *; congruence).
  - vm_compute. discriminate.
Qed.

(* ================================================================== replay, seal, reload *)
From C17 Require Import ModelSeal ProofsSeal.

(* Restarts anywhere in a one-fraction history are invisible. For EVERY history of steps without a
   seal — bulks, concurrent groups and restarts in any order and number — over well formed,
   non-empty bulks: the store holds one active fraction whose index state is, as a whole record
   (LID table, postings, position map, docs blocks, DocsTotal, From, To), the state of the same
   bulks delivered without any restart, and whose on-disk log is all delivered bulks with their
   repeats; replaying that log gives the live state; hence (C17_idempotent) LID table, postings,
   DocsTotal/From/To equal those of the history with every repeat removed. [replay := the same
   append step folded over the log: Active.Replay hands every meta block to the same appendWorker.] *)
Theorem C17_replay_idempotent :
  forall cfg h, no_seal h -> Forall bulk_wf (bulks_of h) -> Forall (fun b : bulk => b <> []) (bulks_of h) ->
    let live := run_active (bulks_of h) in
    run_store2 cfg h = [FA live (bulks_of h)]
    /\ replay (bulks_of h) = live
    /\ let a' := run_active (dedupb (bulks_of h)) in
       a_ids live = a_ids a' /\ (forall t, tok_lids live t = tok_lids a' t) /\
       a_total live = a_total a' /\ a_from live = a_from a' /\ a_to live = a_to a'.
Proof. exact replay_idempotent. Qed.
Print Assumptions C17_replay_idempotent.

(* A second restart changes nothing — for EVERY store state (any mix of sealed fractions and
   active fractions with arbitrary index state and log), no reachability hypothesis. *)
Theorem C17_replay_of_replay :
  forall cfg s, do_step2 cfg (do_step2 cfg s SRestart) SRestart = do_step2 cfg s SRestart.
Proof. exact restart_idem. Qed.
Print Assumptions C17_replay_of_replay.

(* Sealing keeps the first deliveries: for EVERY history of well formed bulks into one fraction and
   every seal configuration, the sealed tables of the history equal the sealed tables of the
   history with every repeat removed — LID table, every token's LIDs, DocsTotal/From/To, and with
   sorted docs (the default) also the position table and the docs blocks, i.e. the whole sealed
   form; DocsTotal is the number of first deliveries. (With SkipSortDocs the sealed form keeps the
   active fraction's position map and blocks, which C17_fetch_first_delivery characterises.)
   What "every ID listed once" means for the LID table is stated by C17_seal_lists_each_id_once
   below. *)
Theorem C17_seal_preserves :
  forall cfg h, Forall bulk_wf h ->
    let s := seal cfg (run_active h) in let s' := seal cfg (run_active (dedupb h)) in
    s_ids s = s_ids s' /\ (forall t, stok_lids s t = stok_lids s' t) /\
    s_total s = s_total s' /\ s_from s = s_from s' /\ s_to s = s_to s' /\
    (sc_skipsort cfg = false -> s_pos s = s_pos s' /\ s_blocks s = s_blocks s') /\
    s_total s = N.of_nat (length (first_deliveries (map (map fst) h))).
Proof. exact seal_preserves_eq. Qed.
Print Assumptions C17_seal_preserves.

(* Fetch from the sealed form serves the FIRST delivery: for every history of well formed bulks in
   which every meta carries the all-token, every seal configuration (sorted docs with any block
   size, or SkipSortDocs) and every ID other than the zero ID, the sealed fraction returns the bytes
   of the first document with that ID in the whole history (None if it never came) — never a
   repeat's bytes, although with SkipSortDocs the repeats' bytes are still in the docs file.
   (ID (0,0): writeDocBlocksInOrder starts with prevID = zero ID and would skip such a document; a
   zero MID is never produced by the proxy. Excluded, noted in the report.) *)
Theorem C17_sealed_fetch_first_delivery :
  forall cfg h, Forall bulk_wf h -> has_all h -> forall i, i <> (0, 0)%N ->
    sealed_fetch (seal cfg (run_active h)) i = ref_fetch1 (concat h) i.
Proof. exact sealed_fetch_first. Qed.
Print Assumptions C17_sealed_fetch_first_delivery.

(* All forms, history vs. repeat-free history — the part that needs no comparison BETWEEN the
   active and the sealed numbering (kept under its first name; C17_idempotent_all_forms below is the
   full statement and implies the search clauses of this one up to GetLIDs' duplicate removal):
   the replayed state IS the live state; DocsTotal/From/To agree across live active, replayed
   active, sealed, reloaded sealed, and the sealed form of the repeat-free history; fetch returns
   the first delivery's bytes in all five; and within each form (active with its raw queues;
   sealed; reloaded) every search observable of the history equals that of the repeat-free history. *)
Theorem C17_idempotent_all_forms_partial :
  forall cfg h, Forall bulk_wf h -> has_all h ->
    let a := run_active h in let a' := run_active (dedupb h) in
    let s := seal cfg a in let s' := seal cfg a' in
    replay h = a /\
    (a_total a = a_total a' /\ s_total s = a_total a /\ s_total (reload s) = a_total a /\ s_total s' = a_total a) /\
    (a_from a = a_from a' /\ s_from s = a_from a /\ s_from (reload s) = a_from a /\ s_from s' = a_from a) /\
    (a_to a = a_to a' /\ s_to s = a_to a /\ s_to (reload s) = a_to a /\ s_to s' = a_to a) /\
    (forall i, i <> (0, 0)%N ->
       fetch a i = ref_fetch1 (concat h) i /\ fetch a' i = ref_fetch1 (concat h) i /\
       sealed_fetch s i = ref_fetch1 (concat h) i /\ sealed_fetch (reload s) i = ref_fetch1 (concat h) i /\
       sealed_fetch s' i = ref_fetch1 (concat h) i) /\
    (forall iv gt t,
       search_frac iv gt a t = search_frac iv gt a' t /\
       search_frac iv gt (sealed_view s) t = search_frac iv gt (sealed_view s') t /\
       search_frac iv gt (sealed_view (reload s)) t = search_frac iv gt (sealed_view s) t).
Proof. exact all_forms. Qed.
Print Assumptions C17_idempotent_all_forms_partial.

From Coq Require Import Permutation.
From C17 Require Import ProofsForms.

(* Every ID listed once: for every history of well formed bulks in which every meta carries the
   all-token and every seal configuration, the sealed LID table is the system entry followed by a
   PERMUTATION of the IDs of the first deliveries (every first-delivered meta exactly once, a
   repeat never). From: GetLIDs' output is sorted strictly (ID, LID descending), hence free of
   duplicates, and the all-token lists exactly the LIDs 1..n. *)
Theorem C17_seal_lists_each_id_once :
  forall cfg h, Forall bulk_wf h -> has_all h ->
    let s := seal cfg (run_active h) in
    hd sys_id (s_ids s) = sys_id /\
    Permutation (tl (s_ids s)) (map m_id (first_deliveries (map (map fst) h))).
Proof. exact seal_lists_once. Qed.
Print Assumptions C17_seal_lists_each_id_once.

(* All forms, FULL: as C17_idempotent_all_forms_partial for DocsTotal/From/To and fetch, and every
   single-token search observable — listed IDs, total, histogram, count aggregation, not-exists
   count, for every interval, group-token list and token — is THE SAME VALUE on the live active
   fraction (uniq_tok: GetLIDs takes an equal LID once), the replayed active fraction, the sealed
   form, the reloaded sealed form, the active fraction of the repeat-free history and its sealed
   form. (sealed_view s is the LID table and postings of the sealed numbering; the proof goes
   through: sort_lids + adjacent removal is a duplicate-free permutation of the postings, new_lid
   is injective on the all-token's LIDs and maps a LID to a slot holding its ID, sort_desc and the
   histogram fold do not depend on the order of the matched LIDs.) *)
Theorem C17_idempotent_all_forms :
  forall cfg h, Forall bulk_wf h -> has_all h ->
    let a := run_active h in let a' := run_active (dedupb h) in
    let s := seal cfg a in let s' := seal cfg a' in
    replay h = a /\
    (a_total a = a_total a' /\ s_total s = a_total a /\ s_total (reload s) = a_total a /\ s_total s' = a_total a) /\
    (a_from a = a_from a' /\ s_from s = a_from a /\ s_from (reload s) = a_from a /\ s_from s' = a_from a) /\
    (a_to a = a_to a' /\ s_to s = a_to a /\ s_to (reload s) = a_to a /\ s_to s' = a_to a) /\
    (forall i, i <> (0, 0)%N ->
       fetch a i = ref_fetch1 (concat h) i /\ fetch a' i = ref_fetch1 (concat h) i /\
       sealed_fetch s i = ref_fetch1 (concat h) i /\ sealed_fetch (reload s) i = ref_fetch1 (concat h) i /\
       sealed_fetch s' i = ref_fetch1 (concat h) i) /\
    (forall iv gt t,
       let q := search_frac iv gt (uniq_tok a) t in
       search_frac iv gt (uniq_tok (replay h)) t = q /\
       search_frac iv gt (sealed_view s) t = q /\
       search_frac iv gt (sealed_view (reload s)) t = q /\
       search_frac iv gt (uniq_tok a') t = q /\
       search_frac iv gt (sealed_view s') t = q).
Proof. exact all_forms_full. Qed.
Print Assumptions C17_idempotent_all_forms.

(* non-vacuity of the cross-form clause: token 2 of ex_h (A's nested meta and B; old LIDs 2, 3, new
   LIDs 1, 2): the same non-trivial result on the active and on the sealed numbering *)
Example C17_all_forms_nonvacuous :
  let a := run_active ex_h in let s := seal (mkCfg false 40) a in
  search_frac 10 [5; 6]%N (sealed_view s) 2%N = search_frac 10 [5; 6]%N (uniq_tok a) 2%N
  /\ q_ids (search_frac 10 [5; 6]%N (uniq_tok a) 2%N) = [(1010, 2); (1005, 1)]%N
  /\ q_hist (search_frac 10 [5; 6]%N (uniq_tok a) 1%N) = [(1000, 2)]%N
  /\ q_agg (search_frac 10 [5; 6]%N (sealed_view s) 1%N) = [(5, 1); (6, 1)]%N
  /\ tok_lids (uniq_tok a) 2%N = [2; 3] /\ tok_lids (sealed_view s) 2%N = [1; 2].
Proof. vm_compute. repeat split. Qed.

(* non-vacuity: ex_h (bulk 2 repeats A with other bytes, bulk 3 repeats bulk 1) satisfies every
   hypothesis, with restarts between the bulks; the sealed forms (sorted docs with a block size
   that splits the docs, and SkipSortDocs) list A, its nested meta, B and C once, newest first,
   and serve A's first bytes *)
Definition ex_steps : list step :=
  match ex_h with
  | [b1; b2; b3] => [SBulk b1; SRestart; SBulk b2; SRestart; SRestart; SBulk b3]
  | _ => []
  end.

Example C17_seal_hypotheses_hold :
  has_all ex_h /\ Forall (fun b : bulk => b <> []) ex_h /\ no_seal ex_steps /\ bulks_of ex_steps = ex_h.
Proof.
  split; [|split; [|split]].
  - unfold has_all, ex_h. repeat (apply Forall_cons || apply Forall_nil); simpl; tauto.
  - repeat constructor; discriminate.
  - repeat constructor; discriminate.
  - reflexivity.
Qed.

Example C17_replay_nonvacuous :
  run_store2 (mkCfg false 40) ex_steps = [FA (run_active ex_h) ex_h]
  /\ a_total (run_active ex_h) = 4%N.
Proof. vm_compute. auto. Qed.

Example C17_seal_nonvacuous :
  let s := seal (mkCfg false 40) (run_active ex_h) in
  let k := seal (mkCfg true 0) (run_active ex_h) in
  s_ids s = [sys_id; (1010, 2); (1005, 1); (1005, 1); (1001, 3)]%N
  /\ stok_lids s 2 = [1; 2] /\ stok_lids s 1 = [3; 4] /\ s_total s = 4%N
  /\ s_pos s = [None; Some (0, 0%N); Some (0, 4%N); Some (0, 4%N); Some (0, 8%N)]
  /\ sealed_fetch s (1005, 1)%N = Some 0%N /\ sealed_fetch k (1005, 1)%N = Some 0%N
  /\ s_ids k = s_ids s /\ nth 2 (s_pos k) None = Some (0, 0%N) /\ length (s_blocks k) = 3
  /\ sealed_fetch s (7, 7)%N = None.
Proof. vm_compute. repeat split. Qed.

(* ================================================================== concurrent index workers *)
From Coq Require Import Permutation.
From C17 Require Import ModelConc ProofsConc.

(* First writer wins under EVERY interleaving. k index workers (k = length qs), each with an arbitrary
   queue of well formed bulks (overlapping, repeated, identical — no hypothesis relating them), run
   under an arbitrary schedule of atomic steps (ModelConc: take = DocBlocks.Append, set = the whole
   SetMultiple under its write lock, ids = AppendIDs, put = PutLIDsInQueue of one token, stats =
   UpdateStats). When all workers are done:
   - the SetMultiple critical sections ran in an order sg that is a permutation of the deliveries;
   - every call got back exactly the IDs that no earlier call of that order carried
     (map snd log = the repeat-free history of sg), so every delivered ID was returned to EXACTLY ONE
     call: the log of returned lists splits as l1 ++ acc :: l2 with the ID in acc and in no list of
     l1 ++ l2;
   - the LID table is the system entry followed by the accepted metas tab, a permutation of the first
     deliveries of sg — each first-delivered meta holds exactly one LID; every token's queue is a
     permutation of the LIDs of the metas of the table carrying it (once per occurrence); the
     position map holds exactly the delivered IDs;
   - DocsTotal, From and To EQUAL those of the sequential run of the bulks in the order sg, and the
     LID table is a permutation of that run's; hence (C17_idempotent) they equal those of the
     repeat-free history; DocsTotal = number of first deliveries.
   (Not proved here: that search results are invariant under the permutation of LIDs and of the
   queues — sorted by ID and counted, they are; compared on every run by class conc-steps. Fetch
   under interleavings is compared by the run only.) *)
Theorem C17_concurrent_first_writer_wins :
  forall (qs : list (list cbulk)) (sched : list nat),
    Forall (Forall bulk_wf) qs ->
    let s := conc_run sched (conc_init qs) in
    all_done s = true ->
    let a := cc_a s in let sg := sigma s in
    let K := first_deliveries (map (map fst) sg) in
    Permutation sg (concat qs) /\
    map snd (cc_log s) = map (map m_id) (dedup_first (map (map fst) sg)) /\
    (forall i, In i (map m_id (concat (map (map fst) sg))) ->
       exists l1 acc l2, map snd (cc_log s) = l1 ++ acc :: l2 /\ In i acc /\
                         (forall acc', In acc' (l1 ++ l2) -> ~ In i acc')) /\
    a_ids a = sys_id :: map m_id (cc_tab s) /\ Permutation (cc_tab s) K /\
    (forall t, Permutation (tok_lids a t) (postings t 1 (map m_toks (cc_tab s)))) /\
    (forall i, lookup_pos i (a_posm a) <> None <-> In i (map m_id K)) /\
    let q := run_active sg in let q' := run_active (dedupb sg) in
    (a_total a = a_total q /\ a_from a = a_from q /\ a_to a = a_to q /\ Permutation (a_ids a) (a_ids q)) /\
    (a_total a = a_total q' /\ a_from a = a_from q' /\ a_to a = a_to q' /\ Permutation (a_ids a) (a_ids q')) /\
    a_total a = N.of_nat (length K).
Proof. exact conc_first_writer_wins. Qed.
Print Assumptions C17_concurrent_first_writer_wins.

(* non-vacuity: worker 0 receives bulk 1 = [A + nested; B] and then [C; A; B], worker 1 receives bulk 1
   again at the same time; their steps alternate. Hypotheses hold, every worker finishes; worker 0's
   SetMultiple ran first and got A, A(nested), B back, worker 1 got nothing, the third call got C. *)
Definition ex_qs : list (list cbulk) :=
  [[pairs_of [ex_dA 0%N; ex_dB 0%N]; pairs_of [ex_dC; ex_dA 0%N; ex_dB 0%N]]; [pairs_of [ex_dA 0%N; ex_dB 0%N]]].
Definition ex_sched : list nat :=
  [0; 1; 0; 1; 0; 1; 0; 1; 0; 1; 0; 1; 0; 1; 0; 1; 0; 0; 0; 0; 0; 0; 0; 0; 0].

Example C17_concurrent_hypotheses_hold :
  Forall (Forall bulk_wf) ex_qs /\ all_done (conc_run ex_sched (conc_init ex_qs)) = true.
Proof.
  assert (W : forall ds, NoDup (map d_id ds) -> Forall (fun d => d_size d <> 0%N) ds -> bulk_wf (pairs_of ds))
    by (intros ds A B; exists ds; split; [split; assumption|reflexivity]).
  split; [|vm_compute; reflexivity].
  repeat constructor.
  - apply (W [ex_dA 0%N; ex_dB 0%N]); repeat constructor; simpl; intuition discriminate.
  - apply (W [ex_dC; ex_dA 0%N; ex_dB 0%N]); repeat constructor; simpl; intuition discriminate.
  - apply (W [ex_dA 0%N; ex_dB 0%N]); repeat constructor; simpl; intuition discriminate.
Qed.

Example C17_concurrent_nonvacuous :
  let s := conc_run ex_sched (conc_init ex_qs) in
  map snd (cc_log s) = [[(1005, 1); (1005, 1); (1010, 2)]; []; [(1001, 3)]]%N
  /\ a_ids (cc_a s) = [sys_id; (1005, 1); (1005, 1); (1010, 2); (1001, 3)]%N
  /\ a_total (cc_a s) = 4%N /\ tok_lids (cc_a s) 2 = [2; 3] /\ length (a_blocks (cc_a s)) = 3.
Proof. vm_compute. repeat split. Qed.

(* the variant with SetMultiple cut into a lookup under the read lock and a store under the write
   lock (ModelConc.swstep), refuted: two workers, the same one-document bulk, both lookups before
   either store — both calls get the ID back, the document holds two LIDs, DocsTotal = 2 *)
Example C17_split_setmultiple_refuted :
  exists qs sched,
    Forall (Forall bulk_wf) qs /\
    let s := sconc_run sched (sconc_init qs) in
    forallb swdone (sc_ws s) = true /\
    map snd (sc_log s) = [[(1010, 2)]; [(1010, 2)]]%N /\
    a_ids (sc_a s) = [sys_id; (1010, 2); (1010, 2)]%N /\
    a_total (sc_a s) = 2%N /\
    length (first_deliveries (map (map fst) (concat qs))) = 1.
Proof.
  exists [[pairs_of [ex_dB 0%N]]; [pairs_of [ex_dB 0%N]]], [0; 1; 0; 1; 0; 1; 0; 0; 0; 0; 1; 1; 1; 1].
  split.
  - repeat constructor; exists [ex_dB 0%N]; (split; [split; repeat constructor; simpl; intuition discriminate|reflexivity]).
  - vm_compute. repeat split.
Qed.
