(* C17 — property theorems. Only statements, each closed by `exact <lemma>`, Print Assumptions
   beneath, and the non-vacuity examples. *)
From Coq Require Import List NArith.
From C17 Require Import Model CaseDefs ProofsColl.
Import ListNotations.

(* After AppendMeta of a whole bulk and Filter(appended) — for EVERY bulk, block index, list
   `app` and first LID — the collector describes exactly the kept documents: each with its own
   ID, its original position and its own tokens in their order, and GroupLIDsByToken gives every
   token exactly the LIDs of the kept documents carrying it (once per occurrence); a dropped
   document contributes no LID to any token. `aligned` is the very checker the correspondence
   run evaluates on the real collector's output (CaseDefs.case_spec_ok). *)
Theorem C17_filter_alignment :
  forall blk ms dofilter app first,
    aligned (kept_view dofilter app (sent_view blk ms)) first
            (out_of (model_coll blk ms dofilter app) first) = true.
Proof. exact filter_alignment. Qed.
Print Assumptions C17_filter_alignment.

(* non-vacuity: a bulk [A; nested of A; B; C] with B dropped, tokens shared between A and C *)
Example C17_alignment_nonvacuous :
  let ms := [mkMeta (1005, 1) 30 [1; 5; 0]; mkMeta (1005, 1) 0 [2; 0];
             mkMeta (1010, 2) 25 [2; 2; 0]; mkMeta (1001, 3) 40 [1; 0]]%N in
  let app := [(1005, 1); (1005, 1); (1001, 3)]%N in
  o_groups (out_of (model_coll 3 ms true app) 7) = [[7; 9]; [7]; [7; 8; 9]; [8]]
  /\ c_pos (model_coll 3 ms true app) = [(3, 0%N); (3, 0%N); (3, 63%N)]
  /\ c_docs (model_coll 3 ms true app) = 3%N.
Proof. vm_compute. auto. Qed.

From C17 Require Import ProofsHist.

(* For EVERY history of bulks into one fraction (each bulk: metas with the same ID point at the
   same document, i.e. pairwise distinct document IDs, nested metas with their parent) with
   arbitrary re-sent subsets — whole bulks, partial overlaps, the same document many times,
   mixed with new documents, at any position — the index of the fraction is exactly the first
   deliveries (first_deliveries h = concat (dedup_first h), C17_first_deliveries_are_dedup):
   the LID table lists them once each in arrival order, every token's postings are exactly the
   LIDs of the first deliveries carrying it, DocsTotal counts them once, From/To span them,
   and the position map holds exactly their IDs. A repeat contributes nothing. *)
Theorem C17_index_is_first_deliveries :
  forall h, Forall (fun b => bulk_ok (map fst b)) h ->
    index_is (run_active h) (first_deliveries (map (map fst) h)).
Proof. exact run_index. Qed.
Print Assumptions C17_index_is_first_deliveries.

Theorem C17_first_deliveries_are_dedup :
  forall h, first_deliveries h = concat (dedup_first h)
            /\ first_deliveries (dedup_first h) = first_deliveries h.
Proof. intros h. split; [apply first_deliveries_concat|apply first_deliveries_dedup]. Qed.
Print Assumptions C17_first_deliveries_are_dedup.

(* observe (run h) = observe (run (dedup_first h)): LID table, postings of every token,
   DocsTotal, From, To. (The second hypothesis — the deduplicated bulks are still well formed —
   holds whenever documents are removed whole; it is kept as a hypothesis, see the report.) *)
Theorem C17_idempotent :
  forall h, Forall (fun b => bulk_ok (map fst b)) h -> Forall (fun b => bulk_ok (map fst b)) (dedupb h) ->
    let a := run_active h in let a' := run_active (dedupb h) in
    a_ids a = a_ids a' /\ (forall t, tok_lids a t = tok_lids a' t) /\
    a_total a = a_total a' /\ a_from a = a_from a' /\ a_to a = a_to a'.
Proof. exact idempotent. Qed.
Print Assumptions C17_idempotent.

(* hence every single-token search — listed IDs, total, histogram, count aggregation — agrees *)
Theorem C17_idempotent_search :
  forall iv gt a a' t, a_ids a = a_ids a' -> (forall t, tok_lids a t = tok_lids a' t) ->
    search_frac iv gt a t = search_frac iv gt a' t.
Proof. exact search_frac_ext. Qed.
Print Assumptions C17_idempotent_search.

(* non-vacuity: bulk 1 = [A with a nested meta; B], bulk 2 = [C; A again (other bytes); B again],
   bulk 3 = bulk 1 again. Hypotheses hold, repeats are dropped, first bytes are served. *)
Definition ex_A := mkMeta (1005, 1)%N 30%N [1; 5; 0]%N.
Definition ex_An := mkMeta (1005, 1)%N 0%N [2; 0]%N.
Definition ex_B := mkMeta (1010, 2)%N 25%N [2; 0]%N.
Definition ex_C := mkMeta (1001, 3)%N 40%N [1; 6; 0]%N.
Definition ex_h : list (list (meta * N)) :=
  [[(ex_A, 0); (ex_An, 0); (ex_B, 0)]; [(ex_C, 0); (ex_A, 1); (ex_An, 1); (ex_B, 1)];
   [(ex_A, 0); (ex_An, 0); (ex_B, 0)]]%N.

Example C17_history_hypotheses_hold :
  Forall (fun b => bulk_ok (map fst b)) ex_h /\ Forall (fun b => bulk_ok (map fst b)) (dedupb ex_h).
Proof.
  split; repeat constructor; intros blk v1 v2; simpl;
    intuition (subst; simpl in *; congruence).
Qed.

Example C17_history_nonvacuous :
  a_ids (run_active ex_h) = [sys_id; (1005, 1); (1005, 1); (1010, 2); (1001, 3)]%N
  /\ tok_lids (run_active ex_h) 2 = [2; 3] /\ tok_lids (run_active ex_h) 1 = [1; 4]
  /\ a_total (run_active ex_h) = 4%N
  /\ fetch (run_active ex_h) (1005, 1)%N = Some 0%N
  /\ map (map fst) (dedupb ex_h) = [[ex_A; ex_An; ex_B]; [ex_C]; []].
Proof. vm_compute. repeat split. Qed.

(* the behaviour the filter exists for, kept as a refuted variant: without Filter (collector used
   as is although SetMultiple rejected documents) the repeats get LIDs and are counted twice *)
Definition process_bulk_v0 (a : active) (b : list (meta * N)) : active :=
  let blk := length (a_blocks a) in
  let c := collect blk (map fst b) in
  let r := set_multiple (a_posm a) (c_ids c) (c_pos c) in
  mkActive (fst r) (a_ids a ++ c_ids c)
           (add_groups (a_tok a) (c_tvals c) (group_lids c (seq (length (a_ids a)) (length (c_ids c)))))
           (a_blocks a ++ [layout_from 0 b]) (a_total a + c_docs c)
           (N.min (a_from a) (c_min c)) (N.max (a_to a) (c_max c)).
Example C17_no_filter_v0_refuted :
  exists h, Forall (fun b => bulk_ok (map fst b)) h /\
            a_total (fold_left process_bulk_v0 h active_empty) <> N.of_nat (length (first_deliveries (map (map fst) h))).
Proof.
  exists [[(ex_B, 0%N)]; [(ex_B, 0%N)]]. split.
  - repeat constructor; intros blk v1 v2; simpl; intuition (subst; simpl in *; congruence).
  - vm_compute. discriminate.
Qed.
