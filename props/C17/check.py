"""C17 — re-delivering a bulk does not duplicate documents (DESIGN.md section 7, C17)."""
import vcheck

PROP = "C17"

TRUSTED = [
    "Coq 8.16.1 kernel (coqc), vm_compute for case evaluation; no native_compute",
    "hand-written model props/C17/coq/Model.v of DocsPositions.SetMultiple, metaDataCollector (AppendMeta, Filter,"
    " GroupLIDsByToken), Active.AppendIDs/UpdateStats, TokenLIDs queues and of single-token search / histogram /"
    " count aggregation over LIDs (tied to /repo by the correspondence run, not verified code)",
    "hand-written model props/C17/coq/ModelSeal.v of Active.Replay + fracmanager loader/Load (the on-disk log = all"
    " accepted bulks with repeats; replay = the same append step over the log; empty active fractions dropped, all but"
    " the last active fraction sealed), of TokenLIDs.GetLIDs (sort by ID/LID descending, equal LIDs once), sortSeqIDs"
    " (sealed LID order, old->new LID index), getIDsBlocksGenerator/fillPos (position per LID),"
    " getLIDsBlockGenerator/reassignLIDs (postings in the sealed numbering), writeDocBlocksInOrder + docBlocksWriter"
    " (sorted docs: adjacent equal IDs once, block flushed when the payload exceeds DocBlockSize, new positions) or"
    " SkipSortDocs (active positions and blocks kept), Info.DocsTotal/From/To, sealed fetch (findLIDs ->"
    " getDocPosByLIDs -> block/offset); reload of a sealed fraction is the IDENTITY on these tables in the model —"
    " that the real loader (sealed_loader.go, IDs/LIDs/token block codecs, fraction info cache) reproduces them is"
    " compared on every run (sealed tables read back through the real loaders before and after a restart), not proved."
    " Proved over this model (props/C17/coq/ProofsSeal.v, ProofsForms.v): replay/restart invisibility, seal of a history ="
    " seal of the repeat-free history, sealed LID table = permutation of the first deliveries, sealed fetch = first"
    " delivery, and equality of every single-token search observable between active, replayed, sealed and reloaded form",
    "hand-written model props/C17/coq/ModelConc.v of SEVERAL index workers on one active fraction (appendWorker run by"
    " k goroutines): every worker owns a queue of bulks and advances in atomic steps, one per critical section of the"
    " real code — DocBlocks.Append (block index), the WHOLE DocsPositions.SetMultiple under its write lock (lookup and"
    " store of every ID of the bulk) followed by the local Filter, Active.AppendIDs (both ID locks), PutLIDsInQueue of"
    " one token (all-token last), UpdateStats — executed under an arbitrary schedule; that each of these is one atomic"
    " step (the lock really covers it) is an assumption of the model that the stress classes set-stress / pipe-stress"
    " test on every run, not a proved fact; TokenList.Append (token table) and the merge workers are not modelled;"
    " the variant with SetMultiple cut into a read-locked lookup and a write-locked store is kept as a refuted Example",
    "stress cases (CSetStress, CPipeStress) are evaluated in Coq against a range-level model (CaseDefs.ranges_run:"
    " first writer wins on ranges of document numbers) and a point-by-point reference (distinct_pts), NOT against the"
    " list model: bulks of tens of thousands of documents are described by ranges",
    "Go harness harness/cmd/hC17 (generators, token table, body bytes <-> tag = variant*4096+length, sorting of LID"
    " lists and buckets) and the add-only export files frac/export_verif_c17.go, frac/export_verif_c17_sealed.go,"
    " fracmanager/export_verif_c17.go, fracmanager/export_verif_c17_fracs.go, frac/export_verif_c17_conc.go"
    " (sizes of the index state, IDs holding more than one LID)",
    "the docs/meta block codecs (zstd, DocBlock headers, docs offsets derived from meta blocks during replay), the"
    " index file codecs and the query engine below the LID lists: NOT modelled; exercised by every history (test)",
    "harness/internal/storectl: every history runs on a real store inside a child process, so that a panic in an"
    " index worker or a Fatal is reported with the history as replay (fingerprint history-crash)",
]
ASSUME = [
    "each bulk carries pairwise distinct document IDs (nested metas directly follow their document, size 0); the"
    " same ID twice inside ONE bulk is outside the quantifier: recorded as observation:same-bulk-duplicate-id in"
    " stats.json (first bytes served, DocsTotal 1, but both metas get LIDs), not checked",
    "a repeated ID carries the tokens of its first delivery (the same bulk is re-delivered: same bytes, same"
    " tokens; the proxy never re-indexes an existing ID); only the body bytes of a repeat are varied by the driver"
    " to make 'first writer wins' observable. Outside this hypothesis the model still says 'first delivery wins'"
    " (the theorems hold for arbitrary repeats), but the real store leaves the repeat's new token with an empty"
    " posting list and searches on the sealed fraction panic: recorded as observation:repeat-new-token-empty-posting"
    " in stats.json, not checked",
    "every meta carries the all-token `_all_` (hypothesis has_all of the seal theorems: the sealed LID table is built"
    " from the all-token's postings); no document has the zero ID (0,0) (writeDocBlocksInOrder starts with the zero"
    " ID as 'previous ID' and would skip it)",
    "at most one value of the aggregation group field per meta (single-source count aggregation)",
    "replay order: the model replays the log in file order. Histories whose repeats carry OTHER bytes run with ONE"
    " index worker (conf.IndexWorkers = 1), where Active.Replay indexes the meta blocks in file order, and every"
    " order-sensitive observable is compared after a restart (LID table, positions, block count, fetched bytes)."
    " With several index workers (default) the replay order of the blocks is the workers' arrival order, so which"
    " delivery of an ID wins is scheduling dependent; those histories (class history-conc) carry identical bytes on"
    " every delivery and only order-insensitive observables (search, totals, histogram, aggregation, DocsTotal,"
    " fetch, and the sealed tables with sorted docs) are compared",
    "concurrent deliveries: the theorem C17_concurrent_first_writer_wins covers every interleaving of the modelled"
    " atomic steps; the real interleaving of a run is not observable without source hooks, so class conc-steps compares"
    " the real store with the step model under a schedule drawn by the driver on order-insensitive observables only"
    " (search, totals, histogram, aggregation, DocsTotal, fetch with identical bytes), and the stress classes check the"
    " schedule-independent consequences (every ID accepted exactly once, DocsTotal = distinct IDs); a violation found"
    " by a stress class is a race: its replay repeats the case 3 times and may need several attempts",
    "repeats landing in ANOTHER fraction carry the original bytes (cross-fraction fetch order is not modelled)",
    "DocsRaw (raw bytes appended) is not part of the observables: the code counts a dropped repeat's bytes again",
]
RULE = ("collector cases: random bulks (0/1/many tokens, nested metas, repeated tokens) x dropped documents at "
        "first/last/middle/all/none/random positions on ONE reused real collector; history cases (CHist2, seal / "
        "reload / replay predicted by the model): 2-6 bulks with whole-bulk repeats, reordered repeats, partial "
        "overlaps with new documents, the same document several times, repeats with OTHER bytes under the same ID "
        "(in a later bulk, after a restart, after seal + restart), sequential / concurrent / landing in a later "
        "fraction, restarts between bulks (also twice in a row), sorted docs with default and tiny docs blocks and "
        "SkipSortDocs; fixed shapes scn-restart-between (first delivery, restart, repeat), scn-seal-repeat (repeat, "
        "seal, repeat in the new fraction, repeat again), scn-overlap (chains of partial overlaps), scn-degenerate "
        "(restart of an empty store, seal of an empty fraction, double seal, double restart, repeat-only bulk); "
        "copies of the index state of every fraction (active: LID table, postings, positions; sealed: LID table, "
        "position per LID, postings, block count, Info) after restarts and seals. "
        "concurrent classes: conc-steps (2-5 small bulks — copies, reordered copies, partial overlaps with new "
        "documents, new documents only, nested metas, optionally after a first bulk — delivered at once to a store with 4 "
        "index workers; the step model under a random interleaving with bursts must finish and predict the observables); "
        "set-stress (2-8 goroutines call the real DocsPositions.SetMultiple at the same moment with identical, then "
        "partially overlapping, lists of 60-75 thousand IDs: IDs returned in total / by exactly one / by several / by no "
        "call, size of the map, stored position = position of a call that got the ID back); pipe-stress (the same bulk of "
        "30-37 thousand tiny documents released together 2-8 times into FracManager.Append of a store with 4-8 index "
        "workers, several rounds per fraction, every third round partially overlapping ranges incl. an empty one: new LIDs, "
        "IDs with more than one LID, new positions, DocsTotal, all-token LIDs, Total of `*` and of k:a, fetch of the "
        "range borders and a sample). "
        "plus two stats-only observations outside the quantifier (observation:repeat-new-token-empty-posting, "
        "observation:same-bulk-duplicate-id). non-trivial = filter with some but not all documents dropped / "
        "history with repeats and new documents; distinct by input")


def harness_args(tier, seed, outdir):
    return ["-seed", str(seed), "-tier", tier, "-out", outdir]


def main(argv):
    return vcheck.standard_check(PROP, argv, harness_args, TRUSTED, ASSUME, RULE, coqchk=True)
