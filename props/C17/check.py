"""C17 — re-delivering a bulk does not duplicate documents (DESIGN.md section 7, C17)."""
import vcheck

PROP = "C17"

TRUSTED = [
    "Coq 8.16.1 kernel (coqc), vm_compute for case evaluation; no native_compute",
    "hand-written model props/C17/coq/Model.v of DocsPositions.SetMultiple, metaDataCollector (AppendMeta, Filter,"
    " GroupLIDsByToken), Active.AppendIDs/UpdateStats, TokenLIDs queues and of single-token search / histogram /"
    " count aggregation over LIDs (tied to /repo by the correspondence run, not verified code)",
    "Go harness harness/cmd/hC17 (generators, token table, body <-> variant tag, sorting of LID lists and buckets)"
    " and the add-only export files frac/export_verif_c17.go, fracmanager/export_verif_c17.go",
    "seal, reload of sealed fractions, replay of active fractions, the docs/meta block codecs and the query engine"
    " below the LID lists: NOT modelled; the observations after seal and restart are compared with the model (test)",
    "harness/internal/storectl: every history runs on a real store inside a child process, so that a panic in an"
    " index worker or a Fatal is reported with the history as replay (fingerprint history-crash)",
]
ASSUME = [
    "each bulk carries pairwise distinct document IDs (nested metas directly follow their document, size 0)",
    "a repeated ID carries the tokens of its first delivery (the same bulk is re-delivered: same bytes, same"
    " tokens; the proxy never re-indexes an existing ID); only the body bytes of a repeat are varied by the driver"
    " to make 'first writer wins' observable. Outside this hypothesis the model still says 'first delivery wins'"
    " (the theorems hold for arbitrary repeats), but the real store leaves the repeat's new token with an empty"
    " posting list and searches on the sealed fraction panic: recorded as observation:repeat-new-token-empty-posting"
    " in stats.json, not checked",
    "at most one value of the aggregation group field per meta (single-source count aggregation)",
    "concurrent deliveries and replay are modelled in list order; for them only order-insensitive observables"
    " (search, totals, histogram, aggregation, DocsTotal, fetch of identical bytes) are compared",
    "DocsRaw (raw bytes appended) is not part of the observables: the code counts a dropped repeat's bytes again",
]
RULE = ("collector cases: random bulks (0/1/many tokens, nested metas, repeated tokens) x dropped documents at "
        "first/last/middle/all/none/random positions on ONE reused real collector; history cases: 2-6 bulks with "
        "whole-bulk repeats, reordered repeats, partial overlaps with new documents, the same document several "
        "times, sequential / concurrent / landing in a later fraction, each followed by seal and restart. "
        "plus one stats-only observation outside the quantifier (known ID re-delivered with a token new to the "
        "fraction: observation:repeat-new-token-empty-posting). non-trivial = filter with some but not all documents dropped / history with repeats and new documents; "
        "distinct by input")


def harness_args(tier, seed, outdir):
    return ["-seed", str(seed), "-tier", tier, "-out", outdir]


def main(argv):
    return vcheck.standard_check(PROP, argv, harness_args, TRUSTED, ASSUME, RULE, coqchk=True)
