(* C04 — the model's output always passes the executable specification checker of CaseDefs.v
   (the checker that is evaluated on the implementation's output in every correspondence run). *)
From Coq Require Import Lia ZifyN ZifyNat.
From VLib Require Import CaseLib.
From C04 Require Import Model CaseDefs ProofsBase ProofsChunk ProofsSealed ProofsFetch ProofsMain.
Open Scope N_scope.

Lemma body_eqb_refl : forall b, body_eqb b b = true.
Proof. intros [a l]; unfold body_eqb; simpl. rewrite !N.eqb_refl. reflexivity. Qed.

Definition add_doc (n : N) (m : stored) (e : id * body) : stored :=
  PositiveMap.add (key (fst e)) ((n, snd e) :: st_get m (fst e)) m.

Lemma st_get_add_doc : forall n m e x, snd (fst e) <= max64 -> snd x <= max64 ->
  st_get (add_doc n m e) x = if id_eqb (fst e) x then (n, snd e) :: st_get m x else st_get m x.
Proof.
  intros n m e x He Hx. unfold add_doc, st_get at 1.
  destruct (id_eqb (fst e) x) eqn:E.
  - apply id_eqb_eq in E. subst x. rewrite PositiveMap.gss. reflexivity.
  - rewrite PositiveMap.gso; [reflexivity|]. intros H. apply key_inj in H; auto.
    subst x. rewrite id_eqb_refl in E. discriminate.
Qed.

Lemma fold_docs_in : forall n docs m x p,
  Forall (fun e => snd (fst e) <= max64) docs -> snd x <= max64 ->
  (In p (st_get (fold_left (add_doc n) docs m) x) <->
   In p (st_get m x) \/ (fst p = n /\ In (x, snd p) docs)).
Proof.
  induction docs as [|e r IH]; intros m x p Hd Hx; simpl.
  - tauto.
  - inversion Hd; subst. rewrite IH by assumption. rewrite st_get_add_doc by assumption.
    destruct (id_eqb (fst e) x) eqn:E.
    + apply id_eqb_eq in E. simpl. destruct e as [i b]; destruct p as [pn pb]; simpl in *. subst i.
      split.
      * intros [[H|H]|H]; [inversion H; subst; right; split; auto|tauto|tauto].
      * intros [H|[Ha [Hb|Hb]]]; [tauto|inversion Hb; subst; left; left; reflexivity|tauto].
    + apply id_eqb_neq in E. split; [tauto|]. intros [H|[Ha [Hb|Hb]]]; [tauto| |tauto].
      exfalso. apply E. destruct e; inversion Hb; reflexivity.
Qed.

Lemma corpus_fold_in : forall frs m x p,
  Forall (fun f => Forall (fun e => snd (fst e) <= max64) (f_docs f)) frs -> snd x <= max64 ->
  (In p (st_get (fold_left (fun m f => fold_left (add_doc (f_name f)) (f_docs f) m) frs m) x) <->
   In p (st_get m x) \/ exists f, In f frs /\ fst p = f_name f /\ In (x, snd p) (f_docs f)).
Proof.
  induction frs as [|f r IH]; intros m x p Hf Hx; simpl.
  - split; [tauto|]. intros [H|[f [[] _]]]. exact H.
  - inversion Hf; subst. rewrite IH by assumption. rewrite fold_docs_in by assumption.
    split.
    + intros [[H|H]|[f' [Ha Hb]]]; [tauto|right; exists f; tauto|right; exists f'; tauto].
    + intros [H|[f' [[Ha|Ha] Hb]]]; [tauto|subst f'; tauto|right; exists f'; tauto].
Qed.

Lemma corpus_in : forall frs x p,
  Forall (fun f => Forall (fun e => snd (fst e) <= max64) (f_docs f)) frs -> snd x <= max64 ->
  (In p (st_get (corpus frs) x) <-> exists f, In f frs /\ fst p = f_name f /\ In (x, snd p) (f_docs f)).
Proof.
  intros frs x p Hf Hx. unfold corpus.
  change (fun m f => fold_left (fun m0 e => PositiveMap.add (key (fst e)) ((f_name f, snd e) :: st_get m0 (fst e)) m0) (f_docs f) m)
    with (fun m f => fold_left (add_doc (f_name f)) (f_docs f) m).
  rewrite corpus_fold_in by assumption.
  unfold st_get at 1. rewrite PositiveMap.gempty. simpl. tauto.
Qed.

Section Spec.
  Variable B : N.
  Variable frs : list frac.
  Hypothesis Hwf : corpus_wf B frs.

  Lemma corpus_u64 : Forall (fun f => Forall (fun e => snd (fst e) <= max64) (f_docs f)) frs.
  Proof.
    destruct Hwf as [Hf _]. eapply Forall_impl; [|exact Hf]. intros f [[_ Hd] _].
    eapply Forall_impl; [|exact Hd]. simpl. tauto.
  Qed.

  Lemma entry_ok_expected : forall cnt s, id_u64 (fst s) -> entry_ok (corpus frs) cnt s (expected frs s) = true.
  Proof.
    intros cnt s [_ Hx]. unfold entry_ok.
    set (st := st_get (corpus frs) (fst s)).
    set (mine := if snd s =? 0 then map snd st else map snd (filter (fun p => fst p =? snd s) st)).
    assert (Hmine : forall b, In b mine <->
              exists f, In f frs /\ hint_ok f s = true /\ In (fst s, b) (f_docs f)).
    { intros b. unfold mine, hint_ok. destruct (snd s =? 0) eqn:E0.
      - rewrite in_map_iff. split.
        + intros [[n b'] [E Hi]]. simpl in E. subst b'. apply corpus_in in Hi; auto using corpus_u64.
          destruct Hi as [f [H1 [H2 H3]]]. exists f. simpl in *. tauto.
        + intros [f [H1 [_ H3]]]. exists (f_name f, b). split; [reflexivity|].
          apply corpus_in; auto using corpus_u64. exists f. simpl. tauto.
      - rewrite in_map_iff. split.
        + intros [[n b'] [E Hi]]. simpl in E. subst b'. apply filter_In in Hi. destruct Hi as [Hi Hn]. simpl in Hn.
          apply corpus_in in Hi; auto using corpus_u64. destruct Hi as [f [H1 [H2 H3]]]. exists f. simpl in *.
          apply N.eqb_eq in Hn. subst n. rewrite <- Hn, N.eqb_refl. tauto.
        + intros [f [H1 [H2 H3]]]. simpl in H2. exists (f_name f, b). split; [reflexivity|].
          apply filter_In. split; [|simpl; rewrite N.eqb_sym; exact H2].
          apply corpus_in; auto using corpus_u64. exists f. simpl. tauto. }
    destruct (expected frs s) as [d|] eqn:Ee.
    - destruct (expected_stored frs s d Ee) as [f [Hf [Hh Hl]]].
      apply lookup_docs_in in Hl.
      assert (Hd : In d mine) by (apply Hmine; exists f; auto).
      destruct mine as [|m0 mr] eqn:Em; [contradiction|]. simpl is_nil. cbv iota.
      apply existsb_exists. exists d. split; [exact Hd|apply body_eqb_refl].
    - destruct mine as [|m0 mr] eqn:Em; [reflexivity|]. exfalso.
      assert (Hd : In m0 (m0 :: mr)) by (left; reflexivity). apply Hmine in Hd.
      destruct Hd as [f [Hf [Hh Hi]]].
      destruct Hwf as [Hfw _]. rewrite Forall_forall in Hfw. destruct (Hfw f Hf) as [[Hnd _] _].
      pose proof (lookup_docs_nodup _ _ _ Hnd Hi) as Hl.
      rewrite (expected_of_stored frs B Hwf f s m0 Hf Hh Hl) in Ee. discriminate.
  Qed.

  Lemma entries_ok_expected : forall cnt ids, Forall (fun s => id_u64 (fst s)) ids ->
    entries_ok (corpus frs) cnt ids (map (fun s => (fst s, expected frs s)) ids) = true.
  Proof.
    induction ids as [|s r IH]; intros Hu; [reflexivity|]. inversion Hu; subst. simpl.
    rewrite id_eqb_refl, entry_ok_expected, IH by assumption. reflexivity.
  Qed.
End Spec.

Lemma model_meets_spec : forall B g frs ids, cfg_ok g -> corpus_wf B frs -> req_ok B ids ->
  case_spec_ok (CFetch g frs ids (stream g frs ids) (Some (batch_lens (batches g (map compile frs) ids)))) = true.
Proof.
  intros B g frs ids Hg Hc Hr. simpl.
  rewrite (stream_exact B g frs ids Hg Hc Hr).
  destruct (batch_lens_ok B g frs ids Hg Hc Hr) as [H1 H2].
  destruct Hr as [_ [Hu _]].
  rewrite (entries_ok_expected B frs Hc _ ids Hu). simpl.
  apply andb_true_iff. split.
  - apply forallb_forall. intros k Hk. rewrite Forall_forall in H1. apply N.leb_le. apply H1; exact Hk.
  - apply N.eqb_eq. exact H2.
Qed.

Lemma calc_meets_spec : forall g sizes prev, 1 <= prev ->
  case_spec_ok (CCalc g sizes prev (Some (calc_chunk g (docs_of_sizes sizes) prev))) = true.
Proof.
  intros g sizes prev H. simpl. apply orb_true_iff. left. apply N.leb_le. apply calc_chunk_pos. exact H.
Qed.
