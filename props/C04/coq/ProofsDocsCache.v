(* C04 — the docs block cache is transparent: whatever was read or evicted before, a read returns the block
   stored at the requested offset (repair 871e0d8); the earlier key uint32(blockOffset) is refuted. *)
From Coq Require Import List NArith Bool Lia.
From C04 Require Import ModelDocsCache.
Import ListNotations.
Open Scope N_scope.

Section Proofs.
  Variable B : Type.
  Variable blk : N -> option B.

  (* every cached entry holds the block stored at the offset equal to its key *)
  Definition Inv (c : cache B) : Prop :=
    forall k v, lookup B k c = Some v -> k < two32 /\ blk k = Some v.

  Lemma inv_nil : Inv [].
  Proof. intros k v H. discriminate H. Qed.

  Lemma lookup_remove_same k (c : cache B) : lookup B k (remove B k c) = None.
  Proof.
    induction c as [|[b x] r IH]; cbn [remove lookup]; [reflexivity|].
    destruct (k =? b) eqn:E; [exact IH|]. cbn [lookup]. rewrite E. exact IH.
  Qed.

  Lemma lookup_remove_some k k' (c : cache B) v :
    lookup B k (remove B k' c) = Some v -> lookup B k c = Some v.
  Proof.
    induction c as [|[a w] r IH]; cbn [remove lookup]; [easy|].
    destruct (k' =? a) eqn:E1.
    - intros H. destruct (k =? a) eqn:E2; [|apply IH; exact H].
      apply N.eqb_eq in E1, E2. subst a. subst k'.
      rewrite lookup_remove_same in H. discriminate H.
    - cbn [lookup]. destruct (k =? a); [easy|exact IH].
  Qed.

  Lemma inv_remove k c : Inv c -> Inv (remove B k c).
  Proof. intros H a v L. apply H. eapply lookup_remove_some. exact L. Qed.

  Lemma read_exact c off :
    Inv c -> fst (read B blk c off) = blk off /\ Inv (snd (read B blk c off)).
  Proof.
    intros H. unfold read. destruct (two32 <=? off) eqn:E; cbn [fst snd]; [split; [reflexivity|exact H]|].
    apply N.leb_gt in E. unfold get_with_error.
    destruct (lookup B off c) as [v|] eqn:L; cbn [fst snd].
    - destruct (H _ _ L) as [_ Hv]. split; [symmetry; exact Hv|exact H].
    - destruct (blk off) as [v|] eqn:Hb; cbn [fst snd]; (split; [reflexivity|]); [|exact H].
      intros k w. cbn [lookup]. destruct (k =? off) eqn:E2.
      + apply N.eqb_eq in E2. subst k. intros [= <-]. split; [exact E|exact Hb].
      + apply H.
  Qed.

  Lemma run_transparent ops : forall c, Inv c -> run B blk c ops = direct B blk ops.
  Proof.
    induction ops as [|o ops IH]; intros c H; [reflexivity|].
    destruct o as [off|k]; unfold run in *; cbn [run_with direct].
    - destruct (read B blk c off) as [v c'] eqn:R.
      destruct (read_exact c off H) as [Hv Hc]. rewrite R in Hv, Hc. cbn [fst snd] in Hv, Hc.
      rewrite Hv. f_equal. apply IH. exact Hc.
    - apply IH. apply inv_remove. exact H.
  Qed.
End Proofs.

(* the key uint32(blockOffset) of the unrepaired reader: two blocks 2^32 apart share one cache entry *)
Lemma docs_cache_v0_refuted :
  exists (blk : N -> option N) ops, run_v0 N blk [] ops <> direct N blk ops.
Proof.
  exists (fun off => Some off), [Read 100; Read (100 + two32)].
  vm_compute. intros H. discriminate H.
Qed.
