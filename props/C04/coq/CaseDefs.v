(* C04 — shape of the generated cases and the two executable verdicts. No proofs. *)
From VLib Require Import CaseLib.
From C04 Require Import Model ModelSlots.
(* docs block cache (ModelDocsCache has its own two32): required, not imported *)
From C04 Require ModelDocsCache.
(* gen-* cases (validation of the translator): required, not imported (GoSem has its own Panic) *)
From VLib Require GoSem.
From C04 Require GenCase.
Notation GVal := GoSem.GVal.
Notation GPanic := GoSem.GPanic.
Notation GFuel := GoSem.GFuel.
Open Scope N_scope.

(* operations on the reader + cache: ReadDocs at a file offset, one key dropped by a cleaner pass, cache Reset *)
Inductive dcop := DRead (off : N) | DEvict (key : N) | DReset.
(* one step of a Fetcher history: kind (0 = live context; 1 = context cancelled before the call; 2 = deadline
   passed before the call; 3 = the client cancels when the active fraction's fetch starts, i.e. after the last
   candidate was dispatched), the requested IDs (one chunk), number of repetitions *)
Definition sstep := (N * list idsrc * N)%type.
(* observation of a step: every repetition returned in time; the largest number of slots in use seen after a
   repetition; errors: 0 = no repetition returned an error, 1 = every one did, 2 = some did, 3 = a repetition
   returned without error but with a document that is not the stored one *)
Definition sobs := (bool * N * N)%type.

Inductive case :=
(* real GrpcV1.Fetch over the fractions frs for the request ids: impl = what the stream delivered
   (Ext1/Ext2 and document per block) and how it ended; lens = batch lengths produced by the real
   batchLoader for the same request (None = the store process died) *)
| CFetch (g : cfg) (frs : list frac) (ids : list idsrc) (impl : sres) (lens : option (list N))
(* the same with injected faults: panic_active = the active fraction's Fetch panics on entry (schedule point
   "fetch.start"); damaged = names of sealed fractions whose docs file was cut down between stop and start *)
| CFault (g : cfg) (frs : list frac) (panic_active : bool) (damaged : list N) (ids : list idsrc)
         (impl : sres) (lens : option (list N))
(* real docsStream.calcChunkSize on documents of the given sizes (0 = not found); None = it panicked *)
| CCalc (g : cfg) (sizes : list N) (prev : N) (impl : option N)
(* ---- unit level, position layer ---- *)
(* seq.PackDocPos(b, off) (None = it panicked) and DocPos.Unpack of its result *)
| CPack (b off : N) (impl : option N) (ub uo : N)
(* DocPos(p).Unpack() *)
| CUnpack (p : N) (ib io : N)
(* seq.GroupDocsOffsets(ps): (block, offsets, index) per group *)
| CGroup (ps : list N) (impl : list (N * list N * list N))
(* processor.IndexFetch over a fetch index serving positions ps, the block offsets table tbl and a real
   disk.DocsReader on a file holding, at file offset foffs[k], the block of documents blocks[k];
   None = error or panic, inner None = nil entry *)
| CIndexFetch (blocks : list (list (list N))) (foffs tbl ps : list N) (impl : option (list (option (list N))))
(* activeFetchIndex.GetDocPos with a snapshot of k block offsets and the given DocsPositions *)
| CActivePos (k : N) (stored : list (id * N)) (req : list id) (impl : list N)
(* sealedFetchIndex.getDocPosByLIDs over position blocks of ipb entries holding ptab; None = panic *)
| CSealedPos (g : cfg) (ptab lids : list N) (impl : option (list N))
(* gen-<func>: the REAL Go function number fn (GenCase.gen_eval) was called on args and returned impl (or
   panicked); the model side is the definition GENERATED from the Go source by go2coq (Gen.v) *)
| CGen (fn : N) (args : list (list Z)) (impl : GoSem.gres)
(* ---- the docs block cache in front of disk.DocsReader (repair 871e0d8) ----
   a REAL disk.DocsReader with a REAL cache.Cache over a sparse file holding, at file offset o, the doc block
   number b for every (o, b) of blocks; ops in order; impl = per DRead the number of the block whose documents
   ReadDocs returned (None = error; a number no block has = unknown bytes / panic); keys = the keys the real
   cache holds at the end *)
| CDocsCache (blocks : list (N * N)) (ops : list dcop) (impl : list (option N)) (keys : list N)
(* ---- the worker slots of the store's long-lived Fetcher over a HISTORY of FetchDocs calls ----
   W = cap(Fetcher.sem); faults as in CFault (they hold for every step); steps in order; obs = one per step *)
| CSlots (g : cfg) (frs : list frac) (panic_active : bool) (damaged : list N) (W : N)
         (steps : list sstep) (impl : list sobs).

Definition body_eqb (a b : body) : bool := (fst a =? fst b) && (snd a =? snd b).
Definition sent_eqb (a b : id * option body) : bool :=
  id_eqb (fst a) (fst b) && option_eqb body_eqb (snd a) (snd b).
Definition sres_eqb (a b : sres) : bool :=
  match a, b with
  | SOk x, SOk y | SErr x, SErr y => list_eqb sent_eqb x y
  | SCrash, SCrash | SFuel, SFuel => true
  | _, _ => false
  end.

Definition docs_of_sizes (sizes : list N) : list (option body) :=
  map (fun l => if l =? 0 then None else Some (1, l)) sizes.

Definition group_eqb (a b : N * list N * list N) : bool :=
  let '(b1, o1, i1) := a in let '(b2, o2, i2) := b in
  (b1 =? b2) && list_eqb N.eqb o1 o2 && list_eqb N.eqb i1 i2.

(* ---- docs block cache: the file as a function of the offset; Reset = every key any block can have is dropped *)
Definition dc_blk (blocks : list (N * N)) (off : N) : option N := assoc off blocks.
Definition dc_expand (blocks : list (N * N)) (o : dcop) : list ModelDocsCache.op :=
  match o with
  | DRead off => [ModelDocsCache.Read off]
  | DEvict k => [ModelDocsCache.Evict k]
  | DReset => map (fun b : N * N => ModelDocsCache.Evict (fst b mod two32)) blocks
              ++ map (fun b : N * N => ModelDocsCache.Evict (fst b)) blocks
  end.
(* the model's cache after the operations *)
Fixpoint dc_final (rd : ModelDocsCache.cache N -> N -> option N * ModelDocsCache.cache N)
         (c : ModelDocsCache.cache N) (ops : list ModelDocsCache.op) : ModelDocsCache.cache N :=
  match ops with
  | [] => c
  | ModelDocsCache.Read off :: r => dc_final rd (snd (rd c off)) r
  | ModelDocsCache.Evict k :: r => dc_final rd (ModelDocsCache.remove N k c) r
  end.
Definition same_keys (a b : list N) : bool :=
  forallb (fun k => existsb (N.eqb k) b) a && forallb (fun k => existsb (N.eqb k) a) b.

(* ---- Fetcher slots: the candidate fractions of one chunk in dispatch order (FetchDocs: sortIDs, FilterInRange,
   groupIDsByFraction) with the way their fetch ends *)
Definition workers (g : cfg) (fs : list cfrac) (ids : list idsrc) : list wres :=
  match ids with
  | [] => []
  | _ => let '(s, lo, hi) := sort_ids ids in
         let cand := filter (fun c => intersecting (cf c) lo hi) fs in
         map (fun ci : cfrac * list id =>
                match frac_fetch g (fst ci) (snd ci) with
                | Ok _ => WOk
                | _ => if cf_fault (fst ci) then WPanic else WErr
                end) (group cand s)
  end.
(* kind 3: every candidate is dispatched (its worker may end at once), the client cancels after the last dispatch *)
Definition sched_late_cancel (fr : list wres) : list move :=
  flat_map (fun _ => [MAcquire; MFinish 0]) (removelast fr) ++ [MAcquire; MCancel].
Definition agg_obs (os : list obs) : sobs :=
  (forallb (fun o : obs => snd (fst o)) os,
   fold_left (fun a (o : obs) => N.max a (fst (fst o))) os 0,
   if forallb (fun o : obs => negb (snd o)) os then 0 else if forallb (fun o : obs => snd o) os then 1 else 2).
Fixpoint slots_run (g : cfg) (fs : list cfrac) (W u : N) (steps : list sstep) : list sobs :=
  match steps with
  | [] => []
  | (k, ids, rep) :: t =>
      let fr := workers g fs ids in
      let rq : request := (fr, (k =? 1) || (k =? 2), if k =? 3 then sched_late_cancel fr else []) in
      let os := history false W u (repeat rq (N.to_nat rep)) in
      agg_obs os :: slots_run g fs W (fold_left (fun _ (o : obs) => fst (fst o)) os u) t
  end.
(* whether a call made with a context that is already done returns an error depends on the select: not compared *)
Definition sobs_agree (a b : N * sobs) : bool :=
  let '(k, (r1, u1, e1)) := a in let '(_, (r2, u2, e2)) := b in
  Bool.eqb r1 r2 && (u1 =? u2) && negb (e2 =? 3) && ((k =? 1) || (k =? 2) || (e1 =? e2)).

(* model output = implementation output *)
Definition case_agrees (c : case) : bool :=
  match c with
  | CFetch g frs ids impl lens =>
      let b := batches g (map compile frs) ids in
      sres_eqb (stream_of ids b) impl
      && match lens, b with
         | Some l, BDone _ => list_eqb N.eqb (batch_lens b) l
         | None, BCrash => true
         | _, _ => false
         end
  | CFault g frs pa dmg ids impl lens =>
      let b := batches_gen true false g (map (compile_faulty pa dmg) frs) ids in
      sres_eqb (stream_of ids b) impl
      && match lens, b with
         | Some l, BDone _ => list_eqb N.eqb (batch_lens b) l
         | Some l, BFail _ => list_eqb N.eqb (batch_lens b ++ [0]) l     (* 0 = the batch carrying the error *)
         | None, BCrash => true
         | _, _ => false
         end
  | CCalc g sizes prev impl =>
      option_eqb N.eqb (Some (calc_chunk g (docs_of_sizes sizes) prev)) impl
  | CPack b off impl ub uo =>
      match pack_pos b off, impl with
      | Ok p, Some q => (p =? q) && pair_eqb N.eqb N.eqb (unpack_pos p) (ub, uo)
      | Panic, None => true
      | _, _ => false
      end
  | CUnpack p ib io => pair_eqb N.eqb N.eqb (unpack_pos p) (ib, io)
  | CGroup ps impl => list_eqb group_eqb (group_offsets ps) impl
  | CIndexFetch blocks foffs tbl ps impl =>
      match index_fetch tbl (read_bytes (combine foffs (map encode_block blocks))) ps, impl with
      | Ok r, Some q => list_eqb (option_eqb (list_eqb N.eqb)) r q
      | Panic, None => true
      | _, _ => false
      end
  | CActivePos k stored req impl => list_eqb N.eqb (map (active_pos k (build_apos stored)) req) impl
  | CSealedPos g ptab lids impl =>
      match pos_by_lids g (build_ptab ptab 0 (PositiveMap.empty _)) (N.of_nat (length ptab)) None lids, impl with
      | Ok r, Some q => list_eqb N.eqb r q
      | Panic, None => true
      | _, _ => false
      end
  | CGen fn args impl => GoSem.gres_eqb (GenCase.gen_eval fn args) impl
  | CDocsCache blocks ops impl keys =>
      let mops := flat_map (dc_expand blocks) ops in
      list_eqb (option_eqb N.eqb) (ModelDocsCache.run N (dc_blk blocks) [] mops) impl
      && same_keys (map fst (dc_final (ModelDocsCache.read N (dc_blk blocks)) [] mops)) keys
  | CSlots g frs pa dmg W steps impl =>
      list_eqb sobs_agree (combine (map (fun st : sstep => fst (fst st)) steps)
                                   (slots_run g (map (compile_faulty pa dmg) frs) W 0 steps))
               (combine (map (fun st : sstep => fst (fst st)) steps) impl)
      && (N.of_nat (length steps) =? N.of_nat (length impl))
  end.

(* ---- the property itself, evaluated on the implementation's output, independent of the model's algorithm:
   what is stored under an ID is looked up in a map built directly from the corpus *)
Definition stored := PositiveMap.t (list (N * body)).          (* ID -> [(fraction name, document)] *)
Definition st_get (m : stored) (x : id) : list (N * body) :=
  match PositiveMap.find (key x) m with Some l => l | None => [] end.
Definition corpus (frs : list frac) : stored :=
  fold_left (fun m f => fold_left (fun m e => PositiveMap.add (key (fst e)) ((f_name f, snd e) :: st_get m (fst e)) m)
                                  (f_docs f) m) frs (PositiveMap.empty _).
Definition counts (ids : list idsrc) : PositiveMap.t N :=
  fold_left (fun m s => PositiveMap.add (key (fst s))
                          (match PositiveMap.find (key (fst s)) m with Some k => k + 1 | None => 1 end) m)
            ids (PositiveMap.empty _).
Definition is_nil {A} (l : list A) : bool := match l with [] => true | _ => false end.

(* entry for request element s:
   - no hint, or the hint names a fraction that stores the ID: exactly (one of) the stored document(s)
     [under that hint], or empty when nothing is stored;
   - a hint that does not lead to the document: empty or the correct document, never anything else;
   - an ID listed several times in one request (outside the property's "distinct IDs"): empty or correct *)
Definition entry_ok (m : stored) (cnt : PositiveMap.t N) (s : idsrc) (got : option body) : bool :=
  let st := st_get m (fst s) in
  let all := map snd st in
  let mine := if snd s =? 0 then all else map snd (filter (fun p => fst p =? snd s) st) in
  match got with
  | None => is_nil mine || match PositiveMap.find (key (fst s)) cnt with Some k => 1 <? k | None => false end
  | Some b => existsb (body_eqb b) (if is_nil mine then all else mine)
  end.

Fixpoint entries_ok (m : stored) (cnt : PositiveMap.t N) (ids : list idsrc) (sent : list (id * option body)) : bool :=
  match ids, sent with
  | [], [] => true
  | s :: ri, (x, d) :: rs => id_eqb (fst s) x && entry_ok m cnt s d && entries_ok m cnt ri rs
  | _, _ => false
  end.

(* a position decoded by plain arithmetic: p = block * 2^30 + offset + 1 with offset < 2^30 *)
Definition pos_limit : N := 4611686018427387904.                (* 2^62 *)
Definition dec_ok (p b o : N) : bool := (b * 1073741824 + o + 1 =? p) && (o <? 1073741824).
Fixpoint nodupb (l : list N) : bool :=
  match l with [] => true | x :: r => negb (existsb (N.eqb x) r) && nodupb r end.
Fixpoint index_of (x : N) (l : list N) (i : nat) : option nat :=
  match l with [] => None | y :: r => if y =? x then Some i else index_of x r (S i) end.
(* the document whose length prefix starts at in-block offset o *)
Fixpoint doc_at (docs : list (list N)) (cur o : N) : option (list N) :=
  match docs with
  | [] => None
  | d :: r => if cur =? o then Some d else doc_at r (cur + 4 + N.of_nat (length d)) o
  end.
(* what IndexFetch must deliver for position p: Some None = nil, Some (Some d) = document, None = p points nowhere *)
Definition want_doc (blocks : list (list (list N))) (foffs tbl : list N) (p : N) : option (option (list N)) :=
  if p =? max64 then Some None
  else if (1 <=? p) && (p <=? pos_limit)
       then let b := (p - 1) / 1073741824 in let o := (p - 1) mod 1073741824 in
            match nth_error tbl (N.to_nat b) with
            | Some fo => match index_of fo foffs 0 with
                         | Some k => match doc_at (nth k blocks []) 0 o with
                                     | Some d => Some (Some d) | None => None end
                         | None => None
                         end
            | None => None
            end
       else None.
Fixpoint want_all {A} (l : list (option A)) : option (list A) :=
  match l with
  | [] => Some []
  | Some x :: r => match want_all r with Some t => Some (x :: t) | None => None end
  | None :: _ => None
  end.

(* entries of a (possibly shorter) stream prefix *)
Fixpoint prefix_ok (m : stored) (cnt : PositiveMap.t N) (ids : list idsrc) (sent : list (id * option body)) : bool :=
  match ids, sent with
  | _, [] => true
  | s :: ri, (x, d) :: rs => id_eqb (fst s) x && entry_ok m cnt s d && prefix_ok m cnt ri rs
  | [], _ :: _ => false
  end.

Definition case_spec_ok (c : case) : bool :=
  match c with
  | CFetch g frs ids impl lens =>
      match impl with
      | SOk sent => entries_ok (corpus frs) (counts ids) ids sent
      | _ => false                                  (* error, crash, hang *)
      end
      && match lens with
         | Some l => forallb (fun k => 1 <=? k) l && (fold_right N.add 0 l =? N.of_nat (length ids))
         | None => false
         end
  (* a fraction whose fetch fails cannot deliver: the request must end with an error, or at least no document
     stored in such a fraction (and admitted by the hint) may be reported as plainly not found without error *)
  | CFault g frs pa dmg ids impl lens =>
      let bad := map f_name (filter (fun f => (pa && negb (f_sealed f)) || existsb (N.eqb (f_name f)) dmg) frs) in
      let m := corpus frs in
      let hits (s : idsrc) :=
        existsb (fun p : N * body => existsb (N.eqb (fst p)) bad && ((snd s =? 0) || (snd s =? fst p)))
                (st_get m (fst s)) in
      match impl with
      | SOk sent =>
          negb (existsb hits ids) && entries_ok m (counts ids) ids sent
          && match lens with
             | Some l => forallb (fun k => 1 <=? k) l && (fold_right N.add 0 l =? N.of_nat (length ids))
             | None => false
             end
      | SErr sent => (pa || negb (is_nil dmg)) && prefix_ok m (counts ids) ids sent
      | _ => false
      end
  | CCalc g sizes prev impl =>
      match impl with Some k => (1 <=? k) || (prev =? 0) | None => false end
  | CPack b off impl ub uo =>
      if off <=? max_doc_offset
      then match impl with
           | Some p => (ub =? b) && (uo =? off) && negb (p =? 0) && negb (p =? max64)
           | None => false
           end
      else match impl with None => true | Some _ => false end
  | CUnpack p ib io => if (1 <=? p) && (p <=? pos_limit) then dec_ok p ib io else true
  | CGroup ps impl =>
      let idxs := flat_map (fun g : N * list N * list N => snd g) impl in
      nodupb (map (fun g : N * list N * list N => fst (fst g)) impl)
      && nodupb idxs
      && (N.of_nat (length idxs) =? N.of_nat (length (filter (fun p => negb (p =? max64)) ps)))
      && forallb (fun g : N * list N * list N =>
                    let '(b, offs, idx) := g in
                    (N.of_nat (length offs) =? N.of_nat (length idx))
                    && forallb (fun oi : N * N =>
                                  match nth_error ps (N.to_nat (snd oi)) with
                                  | Some p => negb (p =? max64) && dec_ok p b (fst oi)
                                  | None => false
                                  end) (combine offs idx)) impl
  | CIndexFetch blocks foffs tbl ps impl =>
      match want_all (map (want_doc blocks foffs tbl) ps) with
      | Some w => match impl with
                  | Some r => list_eqb (option_eqb (list_eqb N.eqb)) w r
                  | None => false
                  end
      | None => true                      (* a position that points nowhere: nothing is demanded *)
      end
  | CActivePos k stored req impl =>
      list_eqb N.eqb
        (map (fun x => match find (fun e : id * N => id_eqb (fst e) x) stored with
                       | None => max64
                       | Some (_, p) => if p =? max64 then max64
                                        else if k * 1073741824 + 1 <=? p then max64 else p
                       end) req) impl
  | CSealedPos g ptab lids impl =>
      if (1 <=? ipb g) && forallb (fun l => l <? N.of_nat (length ptab)) lids
      then match impl with
           | Some r => list_eqb N.eqb (map (fun l => if l =? 0 then max64 else nth (N.to_nat l) ptab 0) lids) r
           | None => false
           end
      else true
  | CGen _ _ _ => true   (* translator validation: correspondence only *)
  (* every read returns the block stored at the requested offset (an error where the file holds none) *)
  | CDocsCache blocks ops impl keys =>
      list_eqb (option_eqb N.eqb)
               (flat_map (fun o => match o with DRead off => [assoc off blocks] | _ => [] end) ops) impl
  (* never hang the store, over request sequences: every call of the history has returned, after every call no
     worker slot is in use; a call with a live context fails only because of an injected fault, and does fail
     when it asks for a document of a faulty fraction *)
  | CSlots g frs pa dmg W steps impl =>
      let bad := map f_name (filter (fun f => (pa && negb (f_sealed f)) || existsb (N.eqb (f_name f)) dmg) frs) in
      let m := corpus frs in
      let hits (s : idsrc) :=
        existsb (fun p : N * body => existsb (N.eqb (fst p)) bad && ((snd s =? 0) || (snd s =? fst p)))
                (st_get m (fst s)) in
      (N.of_nat (length steps) =? N.of_nat (length impl))
      && forallb (fun so : sstep * sobs =>
                    let '((k, ids, rep), (ret, used, e)) := so in
                    ret && (used =? 0) && negb (e =? 3)
                    && ((k =? 1) || (k =? 2)
                        || (if e =? 0 then negb (existsb hits ids)
                            else if e =? 1 then pa || negb (is_nil dmg) else false)))
                 (combine steps impl)
  end.

Definition diff_indices (l : list case) : list nat := bad_indices (fun c => negb (case_agrees c)) l.
Definition specfail_indices (l : list case) : list nat := bad_indices (fun c => negb (case_spec_ok c)) l.

(* monomorphic constructors for the generated files (elaborating nested pair notations is slow) *)
Definition D (m r n l : N) : id * body := ((m, r), (n, l)).
Definition Q (m r h : N) : idsrc := ((m, r), h).
Definition F (m r n l : N) : id * option body := ((m, r), Some (n, l)).
Definition X (m r : N) : id * option body := ((m, r), None).
Definition SS (k : N) (ids : list idsrc) (rep : N) : sstep := (k, ids, rep).
Definition SO (r : bool) (u e : N) : sobs := (r, u, e).
