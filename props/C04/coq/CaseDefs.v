(* C04 — shape of the generated cases and the two executable verdicts. No proofs. *)
From VLib Require Import CaseLib.
From C04 Require Import Model.
Open Scope N_scope.

Inductive case :=
(* real GrpcV1.Fetch over the fractions frs for the request ids: impl = what the stream delivered
   (Ext1/Ext2 and document per block) and how it ended; lens = batch lengths produced by the real
   batchLoader for the same request (None = the store process died) *)
| CFetch (g : cfg) (frs : list frac) (ids : list idsrc) (impl : sres) (lens : option (list N))
(* real docsStream.calcChunkSize on documents of the given sizes (0 = not found); None = it panicked *)
| CCalc (g : cfg) (sizes : list N) (prev : N) (impl : option N).

Definition body_eqb (a b : body) : bool := (fst a =? fst b) && (snd a =? snd b).
Definition sent_eqb (a b : id * option body) : bool :=
  id_eqb (fst a) (fst b) && option_eqb body_eqb (snd a) (snd b).
Definition sres_eqb (a b : sres) : bool :=
  match a, b with
  | SOk x, SOk y | SErr x, SErr y => list_eqb sent_eqb x y
  | SCrash, SCrash | SFuel, SFuel => true
  | _, _ => false
  end.

Definition docs_of_sizes (sizes : list N) : list (option body) :=
  map (fun l => if l =? 0 then None else Some (1, l)) sizes.

(* model output = implementation output *)
Definition case_agrees (c : case) : bool :=
  match c with
  | CFetch g frs ids impl lens =>
      let b := batches g (map compile frs) ids in
      sres_eqb (stream_of ids b) impl
      && match lens, b with
         | Some l, BDone _ => list_eqb N.eqb (batch_lens b) l
         | None, BCrash => true
         | _, _ => false
         end
  | CCalc g sizes prev impl =>
      option_eqb N.eqb (Some (calc_chunk g (docs_of_sizes sizes) prev)) impl
  end.

(* ---- the property itself, evaluated on the implementation's output, independent of the model's algorithm:
   what is stored under an ID is looked up in a map built directly from the corpus *)
Definition stored := PositiveMap.t (list (N * body)).          (* ID -> [(fraction name, document)] *)
Definition st_get (m : stored) (x : id) : list (N * body) :=
  match PositiveMap.find (key x) m with Some l => l | None => [] end.
Definition corpus (frs : list frac) : stored :=
  fold_left (fun m f => fold_left (fun m e => PositiveMap.add (key (fst e)) ((f_name f, snd e) :: st_get m (fst e)) m)
                                  (f_docs f) m) frs (PositiveMap.empty _).
Definition counts (ids : list idsrc) : PositiveMap.t N :=
  fold_left (fun m s => PositiveMap.add (key (fst s))
                          (match PositiveMap.find (key (fst s)) m with Some k => k + 1 | None => 1 end) m)
            ids (PositiveMap.empty _).
Definition is_nil {A} (l : list A) : bool := match l with [] => true | _ => false end.

(* entry for request element s:
   - no hint, or the hint names a fraction that stores the ID: exactly (one of) the stored document(s)
     [under that hint], or empty when nothing is stored;
   - a hint that does not lead to the document: empty or the correct document, never anything else;
   - an ID listed several times in one request (outside the property's "distinct IDs"): empty or correct *)
Definition entry_ok (m : stored) (cnt : PositiveMap.t N) (s : idsrc) (got : option body) : bool :=
  let st := st_get m (fst s) in
  let all := map snd st in
  let mine := if snd s =? 0 then all else map snd (filter (fun p => fst p =? snd s) st) in
  match got with
  | None => is_nil mine || match PositiveMap.find (key (fst s)) cnt with Some k => 1 <? k | None => false end
  | Some b => existsb (body_eqb b) (if is_nil mine then all else mine)
  end.

Fixpoint entries_ok (m : stored) (cnt : PositiveMap.t N) (ids : list idsrc) (sent : list (id * option body)) : bool :=
  match ids, sent with
  | [], [] => true
  | s :: ri, (x, d) :: rs => id_eqb (fst s) x && entry_ok m cnt s d && entries_ok m cnt ri rs
  | _, _ => false
  end.

Definition case_spec_ok (c : case) : bool :=
  match c with
  | CFetch g frs ids impl lens =>
      match impl with
      | SOk sent => entries_ok (corpus frs) (counts ids) ids sent
      | _ => false                                  (* error, crash, hang *)
      end
      && match lens with
         | Some l => forallb (fun k => 1 <=? k) l && (fold_right N.add 0 l =? N.of_nat (length ids))
         | None => false
         end
  | CCalc g sizes prev impl =>
      match impl with Some k => (1 <=? k) || (prev =? 0) | None => false end
  end.

Definition diff_indices (l : list case) : list nat := bad_indices (fun c => negb (case_agrees c)) l.
Definition specfail_indices (l : list case) : list nat := bad_indices (fun c => negb (case_spec_ok c)) l.

(* monomorphic constructors for the generated files (elaborating nested pair notations is slow) *)
Definition D (m r n l : N) : id * body := ((m, r), (n, l)).
Definition Q (m r h : N) : idsrc := ((m, r), h).
Definition F (m r n l : N) : id * option body := ((m, r), Some (n, l)).
Definition X (m r : N) : id * option body := ((m, r), None).
