(* C04 — every slot of the Fetcher's semaphore is given back, under every interleaving and for every history of
   requests (completed, failed, cancelled at any point); the seeded early exit (C04-m9) leaks. *)
From Coq Require Import List NArith Bool Lia ZifyN ZifyNat.
From C04 Require Import ModelSlots.
Import ListNotations.
Open Scope N_scope.

(* each running worker of the request holds exactly one slot, nothing else of the request does *)
Definition SlotInv (u : N) (s : rstate) : Prop := in_use s = u + N.of_nat (length (running s)).

Lemma remove_nth_length {A} j (l : list A) o :
  nth_error l j = Some o -> S (length (remove_nth j l)) = length l.
Proof.
  revert j; induction l as [|x r IH]; intros [|j] H; cbn in *; try discriminate; [reflexivity|].
  f_equal. apply IH. exact H.
Qed.

Lemma step_inv W u s m s' : SlotInv u s -> step false W s m = Some s' -> SlotInv u s'.
Proof.
  unfold SlotInv. intros I H. destruct m as [| |j|]; cbn in H.
  - destruct (todo s) as [|o r]; [discriminate|]. destruct (in_use s <? W); [|discriminate].
    injection H as <-. cbn. lia.
  - destruct (todo s) as [|o r]; [discriminate|]. destruct (ctx_done s); [|discriminate].
    injection H as <-. cbn. exact I.
  - destruct (nth_error (running s) j) as [o|] eqn:E; [|discriminate]. injection H as <-. cbn.
    pose proof (remove_nth_length _ _ _ E). lia.
  - injection H as <-. cbn. exact I.
Qed.

Lemma exec_inv W u ms : forall s, SlotInv u s -> SlotInv u (exec false W s ms).
Proof.
  induction ms as [|m r IH]; intros s I; cbn; [exact I|].
  destruct (step false W s m) as [s'|] eqn:E; [apply IH; eapply step_inv; eassumption|apply IH; exact I].
Qed.

Lemma start_inv u fr cd : SlotInv u (start u fr cd).
Proof. unfold SlotInv. cbn. lia. Qed.

(* safety, every schedule: whenever FetchDocs returns, the slots in use are those in use before the call *)
Lemma slots_every_schedule W u fr cd ms :
  let s := exec false W (start u fr cd) ms in
  in_use s = u + N.of_nat (length (running s)) /\ (finished s = true -> in_use s = u).
Proof.
  cbv zeta. pose proof (exec_inv W u ms _ (start_inv u fr cd)) as I. split; [exact I|].
  unfold finished. intros F. destruct (todo _); [|discriminate]. destruct (running _) eqn:R; [|discriminate].
  unfold SlotInv in I. rewrite R in I. cbn in I. lia.
Qed.

(* progress: a request that has not returned can always move on by itself (no client event needed) *)
Lemma dispatch_progress W u fr cd ms :
  u < W -> let s := exec false W (start u fr cd) ms in
  finished s = false -> exists m s', m <> MCancel /\ step false W s m = Some s'.
Proof.
  intros HW. cbv zeta. pose proof (exec_inv W u ms _ (start_inv u fr cd)) as I.
  set (s := exec false W (start u fr cd) ms) in *. unfold finished. intros F.
  destruct (running s) as [|o r] eqn:R.
  - destruct (todo s) as [|o t] eqn:T; [discriminate|].
    exists MAcquire. unfold step. rewrite T. unfold SlotInv in I. rewrite R in I. cbn in I.
    assert (in_use s <? W = true) as -> by (apply N.ltb_lt; lia). cbn. eexists. split; [discriminate|reflexivity].
  - exists (MFinish 0). unfold step. rewrite R. cbn. eexists. split; [discriminate|reflexivity].
Qed.

Lemma drain_ok W u : u < W -> forall fuel s, SlotInv u s ->
  (2 * length (todo s) + length (running s) < fuel)%nat ->
  exists s', drain fuel false W s = (s', true) /\ in_use s' = u /\ finished s' = true.
Proof.
  intros HW. induction fuel as [|k IH]; intros s I Hf; [lia|].
  cbn [drain]. destruct (running s) as [|o r] eqn:R.
  - destruct (todo s) as [|o t] eqn:T.
    + exists s. split; [reflexivity|]. unfold SlotInv in I. rewrite R in I. cbn in I. split; [lia|].
      unfold finished. rewrite T, R. reflexivity.
    + unfold step. rewrite T. unfold SlotInv in I. rewrite R in I. cbn in I.
      assert (in_use s <? W = true) as -> by (apply N.ltb_lt; lia). cbn [andb].
      apply IH.
      * unfold SlotInv. cbn. rewrite R. cbn. lia.
      * cbn. rewrite R. cbn in *. lia.
  - unfold step. rewrite R. cbn [nth_error]. apply IH.
    + unfold SlotInv in *. cbn. try rewrite R in I. cbn in I. lia.
    + cbn. try rewrite R in Hf. cbn in Hf. lia.
Qed.

Lemma serve_ok W u r : u < W -> exists e, serve false W u r = (u, true, e).
Proof.
  intros HW. destruct r as [[fr cd] ms]. unfold serve.
  set (s := exec false W (start u fr cd) ms).
  destruct (drain_ok W u HW (drain_fuel s) s) as (s' & D & U & _).
  - apply exec_inv, start_inv.
  - unfold drain_fuel. lia.
  - rewrite D. exists (err s'). rewrite U. reflexivity.
Qed.

Lemma history_ok W u h : u < W ->
  Forall (fun o : obs => fst (fst o) = u /\ snd (fst o) = true) (history false W u h).
Proof.
  intros HW. induction h as [|r t IH]; cbn [history]; [constructor|].
  destruct (serve_ok W u r HW) as [e E]. rewrite E. cbn [fst snd]. constructor; [split; reflexivity|exact IH].
Qed.

(* ---- a request with a live context and healthy fractions ends without error *)
Definition Clean (s : rstate) : Prop :=
  ctx_done s = false /\ err s = false /\ Forall (eq WOk) (todo s) /\ Forall (eq WOk) (running s).

Lemma remove_nth_forall {A} (P : A -> Prop) j (l : list A) : Forall P l -> Forall P (remove_nth j l).
Proof.
  revert j. induction l as [|x r IH]; intros j H; [destruct j; constructor|].
  inversion H; subst. destruct j; cbn; [assumption|constructor; [assumption|apply IH; assumption]].
Qed.

Lemma step_clean leak W s m s' : Clean s -> m <> MCancel -> step leak W s m = Some s' -> Clean s'.
Proof.
  intros (C & E & T & R) Hm H. destruct m as [| |j|]; cbn in H; [| | |congruence].
  - destruct (todo s) as [|o r] eqn:Td; [discriminate|]. destruct (in_use s <? W); [|discriminate].
    rewrite C, andb_false_r in H. injection H as <-. try rewrite Td in T. inversion T; subst.
    repeat split; cbn; try assumption. constructor; [reflexivity|assumption].
  - destruct (todo s); [discriminate|]. rewrite C in H. discriminate.
  - destruct (nth_error (running s) j) as [o|] eqn:N; [|discriminate]. injection H as <-.
    assert (o = WOk) as ->.
    { apply nth_error_In in N. rewrite Forall_forall in R. symmetry. apply R. exact N. }
    repeat split; cbn; try assumption.
    + rewrite C. reflexivity.
    + rewrite E. reflexivity.
    + apply remove_nth_forall. exact R.
Qed.

Lemma exec_clean leak W ms : forall s, Clean s -> ~ In MCancel ms -> Clean (exec leak W s ms).
Proof.
  induction ms as [|m r IH]; intros s C H; cbn; [exact C|].
  assert (m <> MCancel) by (intro; subst; apply H; left; reflexivity).
  assert (~ In MCancel r) by (intro; apply H; right; assumption).
  destruct (step leak W s m) eqn:E; [apply IH; [eapply step_clean; eassumption|assumption]|apply IH; assumption].
Qed.

Lemma drain_clean leak W : forall fuel s s' b, Clean s -> drain fuel leak W s = (s', b) -> Clean s'.
Proof.
  induction fuel as [|k IH]; intros s s' b C H; cbn [drain] in H; [injection H as <- _; exact C|].
  revert H. destruct (running s) as [|o r]; [destruct (todo s) as [|o t]|]; intros H.
  - injection H as <- _; exact C.
  - destruct (step leak W s MAcquire) as [s1|] eqn:E1.
    + eapply IH; [|exact H]. eapply step_clean; [exact C| |exact E1]; discriminate.
    + destruct (step leak W s MCtxDone) as [s2|] eqn:E2.
      * eapply IH; [|exact H]. eapply step_clean; [exact C| |exact E2]; discriminate.
      * injection H as <- _. exact C.
  - destruct (step leak W s (MFinish 0)) as [s1|] eqn:E1.
    + eapply IH; [|exact H]. eapply step_clean; [exact C| |exact E1]; discriminate.
    + injection H as <- _. exact C.
Qed.

Lemma serve_clean W u fr ms : u < W -> Forall (eq WOk) fr -> ~ In MCancel ms ->
  serve false W u (fr, false, ms) = (u, true, false).
Proof.
  intros HW F H. destruct (serve_ok W u (fr, false, ms) HW) as [e E]. rewrite E. f_equal.
  unfold serve in E. set (s := exec false W (start u fr false) ms) in *.
  destruct (drain (drain_fuel s) false W s) as [s' fin] eqn:D. injection E as _ _ <-.
  assert (Clean s) as C.
  { apply exec_clean; [|exact H]. repeat split; cbn; try reflexivity; [exact F|constructor]. }
  destruct (drain_clean _ _ _ _ _ _ C D) as (_ & Er & _). exact Er.
Qed.

Lemma history_last_in_use leak W : forall h u,
  fold_left (fun v o => fst (fst o)) (history leak W u h) u =
  fold_left (fun v r => fst (fst (serve leak W v r))) h u.
Proof. induction h as [|r t IH]; intros u; cbn [history fold_left]; [reflexivity|]. apply IH. Qed.

Lemma history_app leak W : forall h1 h2 u,
  history leak W u (h1 ++ h2) =
  history leak W u h1 ++ history leak W (fold_left (fun v r => fst (fst (serve leak W v r))) h1 u) h2.
Proof. induction h1 as [|r t IH]; intros h2 u; cbn [history app fold_left]; [reflexivity|]. rewrite IH. reflexivity. Qed.

Lemma history_fold_ok W u h : u < W -> fold_left (fun v r => fst (fst (serve false W v r))) h u = u.
Proof.
  intros HW. induction h as [|r t IH]; cbn [fold_left]; [reflexivity|].
  destruct (serve_ok W u r HW) as [e E]. rewrite E. cbn [fst]. exact IH.
Qed.

(* the statement of the property over request sequences: after ANY history on a Fetcher with at least one worker —
   every request with any candidate fractions (healthy, failing, panicking), context done or not at the call, any
   interleaving and any cancel moments — every call has returned, no slot is in use, and a following request with
   a live context over healthy fractions returns without error, under every interleaving *)
Lemma fetch_slots_returned W h fr ms : 1 <= W -> Forall (eq WOk) fr -> ~ In MCancel ms ->
  Forall (fun o : obs => fst (fst o) = 0 /\ snd (fst o) = true) (history false W 0 h) /\
  history false W 0 (h ++ [(fr, false, ms)]) = history false W 0 h ++ [(0, true, false)].
Proof.
  intros HW F H. assert (0 < W) as HW' by lia. split; [apply history_ok; exact HW'|].
  rewrite history_app, history_fold_ok by exact HW'. cbn [history]. rewrite serve_clean by assumption. reflexivity.
Qed.

(* ---- the seeded variant (C04-m9): W requests whose context is already done each keep a slot; from then on a
   request with a live context never returns, whatever the interleaving *)
Lemma leak_stuck W o r : forall ms, ~ In MCancel ms ->
  exec true W (start W (o :: r) false) ms = start W (o :: r) false.
Proof.
  induction ms as [|m t IH]; intros H; cbn [exec]; [reflexivity|].
  assert (m <> MCancel) by (intro; subst; apply H; left; reflexivity).
  assert (~ In MCancel t) by (intro; apply H; right; assumption).
  destruct m as [| |j|]; [| | |congruence]; cbn [step start todo in_use ctx_done running].
  - rewrite N.ltb_irrefl. apply IH. assumption.
  - apply IH. assumption.
  - destruct j; cbn; apply IH; assumption.
Qed.

Lemma fetch_slots_leaky_refuted :
  exists W h fr, 1 <= W /\ Forall (eq WOk) fr /\
    fold_left (fun v r => fst (fst (serve true W v r))) h 0 = W /\
    (forall ms, ~ In MCancel ms -> finished (exec true W (start W fr false) ms) = false) /\
    serve true W W (fr, false, []) = (W, false, false).
Proof.
  exists 2, [([WOk; WOk], true, [MAcquire]); ([WOk; WOk; WOk], true, [MAcquire])], [WOk].
  split; [lia|]. split; [repeat constructor|]. split; [vm_compute; reflexivity|]. split.
  - intros ms H. rewrite leak_stuck by exact H. reflexivity.
  - vm_compute. reflexivity.
Qed.
