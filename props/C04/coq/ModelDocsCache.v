(* C04 — the document-block cache in front of disk.DocsReader.ReadDocsFunc (disk/docs_reader.go) and
   cache.Cache.GetWithError as the reader uses it.  No proofs here.

   The file is a partial function from byte offsets to decoded blocks; the cache is keyed by a 32-bit
   integer.  `read` is the code after repair 871e0d8 (offsets above MaxUint32 bypass the cache),
   `read_v0` the code before it (key = uint32(blockOffset) for every offset).  The cleaner may drop any
   entry at any time (Evict); a failed load stores nothing (GetWithError + recover). *)
From Coq Require Import List NArith Bool.
Import ListNotations.
Open Scope N_scope.

Definition two32 : N := 4294967296.

Section DocsCache.
  Variable B : Type.                       (* a decoded document block *)
  Variable blk : N -> option B.            (* ReadDocBlockPayload at a file offset; None = read error *)

  Definition cache := list (N * B).        (* newest binding first *)

  Fixpoint lookup (k : N) (c : cache) : option B :=
    match c with
    | [] => None
    | (k', v) :: r => if k =? k' then Some v else lookup k r
    end.

  Fixpoint remove (k : N) (c : cache) : cache :=
    match c with
    | [] => []
    | (k', v) :: r => if k =? k' then remove k r else (k', v) :: remove k r
    end.

  (* cache.GetWithError(key, load) *)
  Definition get_with_error (c : cache) (key : N) (load : option B) : option B * cache :=
    match lookup key c with
    | Some v => (Some v, c)
    | None => match load with
              | Some v => (Some v, (key, v) :: c)
              | None => (None, c)
              end
    end.

  (* before 871e0d8: r.cache.GetWithError(uint32(blockOffset), load) *)
  Definition read_v0 (c : cache) (off : N) : option B * cache :=
    get_with_error c (off mod two32) (blk off).

  (* after 871e0d8: if blockOffset > math.MaxUint32 { load() } else { cache … } *)
  Definition read (c : cache) (off : N) : option B * cache :=
    if two32 <=? off then (blk off, c) else get_with_error c off (blk off).

  Inductive op := Read (off : N) | Evict (key : N).

  Fixpoint run_with (rd : cache -> N -> option B * cache) (c : cache) (ops : list op) : list (option B) :=
    match ops with
    | [] => []
    | Read off :: r => let '(v, c') := rd c off in v :: run_with rd c' r
    | Evict k :: r => run_with rd (remove k c) r
    end.

  Definition run := run_with read.
  Definition run_v0 := run_with read_v0.

  (* what a reader without any cache returns *)
  Fixpoint direct (ops : list op) : list (option B) :=
    match ops with
    | [] => []
    | Read off :: r => blk off :: direct r
    | Evict _ :: r => direct r
    end.
End DocsCache.

