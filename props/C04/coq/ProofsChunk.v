(* C04 — the batch loader: chunk size >= 1, termination, no empty chunk. *)
From Coq Require Import Lia ZifyN ZifyNat.
From C04 Require Import Model.
Open Scope N_scope.

Lemma calc_chunk_pos : forall g docs prev, 1 <= prev -> 1 <= calc_chunk g docs prev.
Proof.
  intros g docs prev H. unfold calc_chunk.
  destruct (sum_len docs =? 0); [exact H|]. apply N.le_max_l.
Qed.

Definition calc_now (g : cfg) : list (option body) -> N -> option N := fun d p => Some (calc_chunk g d p).

(* the fetcher may crash (or run out of model fuel) on an EMPTY chunk only *)
Definition fetch_safe (fetch : list idsrc -> fres) : Prop :=
  forall ch, ch <> [] -> fetch ch <> FCrash /\ fetch ch <> FFuel.

Lemma bcons_ok : forall d r, r <> BFuel /\ r <> BCrash -> bcons d r <> BFuel /\ bcons d r <> BCrash.
Proof. intros d [l|l| |] [H1 H2]; simpl; split; congruence. Qed.

Lemma firstn_nonempty : forall (A : Type) (l : list A) n, l <> [] -> (1 <= n)%nat -> firstn n l <> [].
Proof. intros A [|x l] [|n] H1 H2; simpl; try congruence; lia. Qed.

Lemma batch_loop_step : forall k calc fetch ids chunk, ids <> [] ->
  batch_loop (S k) calc fetch ids chunk =
  let l := N.to_nat (N.min (N.of_nat (length ids)) chunk) in
  match fetch (firstn l ids) with
  | FOk docs => match calc docs chunk with
                | Some chunk' => bcons docs (batch_loop k calc fetch (skipn l ids) chunk')
                | None => BCrash
                end
  | FErr => BFail []
  | FCrash => BCrash
  | FFuel => BFuel
  end.
Proof. intros k calc fetch [|s r] chunk H; [congruence|reflexivity]. Qed.

Lemma batch_loop_total : forall fuel g fetch ids chunk,
  fetch_safe fetch -> (length ids <= fuel)%nat -> 1 <= chunk ->
  batch_loop fuel (calc_now g) fetch ids chunk <> BFuel /\
  batch_loop fuel (calc_now g) fetch ids chunk <> BCrash.
Proof.
  induction fuel as [|k IH]; intros g fetch ids chunk Hs Hl Hc.
  - destruct ids; simpl in *; [split; congruence|lia].
  - destruct ids as [|s r]; [simpl; split; congruence|].
    remember (s :: r) as ids eqn:E.
    assert (Hne : ids <> []) by (subst; congruence).
    assert (Hlen : (1 <= length ids)%nat) by (subst; simpl; lia).
    rewrite batch_loop_step by exact Hne. cbv zeta.
    set (l := N.to_nat (N.min (N.of_nat (length ids)) chunk)).
    assert (Hl1 : (1 <= l)%nat) by (unfold l; lia).
    destruct (Hs (firstn l ids) (firstn_nonempty _ ids l Hne Hl1)) as [Hc1 Hc2].
    destruct (fetch (firstn l ids)) as [docs| | |] eqn:Ef; try congruence.
    + unfold calc_now at 1. apply bcons_ok. apply IH; [exact Hs| |apply calc_chunk_pos; exact Hc].
      rewrite skipn_length. lia.
    + split; congruence.
Qed.

Lemma chunking_total : forall g fetch ids,
  1 <= init_chunk g -> fetch_safe fetch ->
  batch_loop (S (length ids)) (calc_now g) fetch ids (init_chunk g) <> BFuel /\
  batch_loop (S (length ids)) (calc_now g) fetch ids (init_chunk g) <> BCrash.
Proof. intros. apply batch_loop_total; auto. Qed.

(* the chunks handed to the fetcher partition the request, in order: if every non-empty chunk (satisfying an
   invariant P inherited by prefixes and suffixes of the request) is answered with one entry per ID, the
   batches concatenate to one entry per requested ID *)
Lemma batch_loop_done : forall (P : list idsrc -> Prop) fuel g fetch (ans : idsrc -> option body) ids chunk,
  (forall l n, P l -> P (firstn n l) /\ P (skipn n l)) ->
  (forall ch, ch <> [] -> P ch -> fetch ch = FOk (map ans ch)) ->
  P ids -> (length ids <= fuel)%nat -> 1 <= chunk ->
  exists l, batch_loop fuel (calc_now g) fetch ids chunk = BDone l /\ concat l = map ans ids
            /\ Forall (fun b => b <> []) l.
Proof.
  intros P. induction fuel as [|k IH]; intros g fetch ans ids chunk HP Hf Hp Hl Hc.
  - destruct ids; simpl in *; [exists []; auto|lia].
  - destruct ids as [|s r]; [exists []; simpl; auto|].
    remember (s :: r) as ids eqn:E.
    assert (Hne : ids <> []) by (subst; congruence).
    assert (Hlen : (1 <= length ids)%nat) by (subst; simpl; lia).
    rewrite batch_loop_step by exact Hne. cbv zeta.
    set (l := N.to_nat (N.min (N.of_nat (length ids)) chunk)).
    assert (Hl1 : (1 <= l)%nat) by (unfold l; lia).
    pose proof (firstn_nonempty _ ids l Hne Hl1) as Hfn.
    destruct (HP ids l Hp) as [Hp1 Hp2].
    rewrite (Hf _ Hfn Hp1). unfold calc_now at 1.
    destruct (IH g fetch ans (skipn l ids) (calc_chunk g (map ans (firstn l ids)) chunk) HP Hf Hp2) as [t [H1 [H2 H3]]].
    + rewrite skipn_length. lia.
    + apply calc_chunk_pos; exact Hc.
    + rewrite H1. simpl. exists (map ans (firstn l ids) :: t). split; [reflexivity|]. split.
      * simpl. rewrite H2, <- map_app, firstn_skipn. reflexivity.
      * constructor; [|exact H3]. destruct (firstn l ids); simpl; congruence.
Qed.
