(* C04 — dispatch of the gen-* correspondence cases (validation of the translator go2coq): evaluates the
   GENERATED definitions of Gen.v on the arguments the harness passed to the real Go functions. NO proofs. *)
From Coq Require Import ZArith List.
From VLib Require Import GoSem.
From C04 Require Import Gen.
Import ListNotations.
Open Scope Z_scope.

Definition gen_eval (fn : N) (a : list (list Z)) : gres :=
  match fn with
  | 1%N => gres_of enc_b (go_seq_LessOrEqual_run (mk_go_ID (arg a 0) (arg a 1)) (mk_go_ID (arg a 2) (arg a 3)))
  | 2%N => gres_of enc_b (go_seq_Less_run (mk_go_ID (arg a 0) (arg a 1)) (mk_go_ID (arg a 2) (arg a 3)))
  | 3%N => gres_of enc_z (go_seq_PackDocPos_run (arg a 0) (arg a 1))
  | 4%N => gres_of enc_zz (go_seq_DocPos_Unpack_run (arg a 0))
  | 5%N => gres_of enc_z (go_storeapi_docsStream_calcChunkSize_run (arg a 0) (mk_go_docsStream (arg a 1)) (argl a 2) (arg a 3))
  | _ => GFuel
  end.
