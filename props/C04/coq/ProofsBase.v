(* C04 — definitions used by the theorem statements (specification side) and basic facts on IDs. *)
From Coq Require Import Lia ZifyN ZifyNat.
From C04 Require Import Model.
Open Scope N_scope.

(* ---- specification vocabulary *)
Definition id_u64 (x : id) : Prop := fst x <= max64 /\ snd x <= max64.

(* what a fraction stores under an ID *)
Definition lookup_docs (l : list (id * body)) (x : id) : option body :=
  match find (fun e => id_eqb (fst e) x) l with Some e => Some (snd e) | None => None end.
Definition lookup (f : frac) (x : id) : option body := lookup_docs (f_docs f) x.

(* documents of one fraction: distinct IDs, 64-bit, timestamp below the sentinel's *)
Definition docs_wf (l : list (id * body)) : Prop :=
  NoDup (map fst l) /\ Forall (fun e => fst (fst e) < max64 /\ snd (fst e) <= max64) l.

(* the fraction's time range / occupancy map does not exclude a stored document for any request range
   [lo, hi] with hi <= B that contains its timestamp (pruning soundness: property C14).
   Proved (ProofsMain.info_sound_nodist) for every B when the fraction has no occupancy map. Before the repair
   6d376ea a fraction with a map satisfied it only for B < 2^63 (see C04_pruning_v0_refuted in Props.v). *)
Definition info_sound (B : N) (f : frac) : Prop :=
  forall x b lo hi, lookup f x = Some b -> lo <= fst x -> fst x <= hi -> hi <= B -> intersecting f lo hi = true.

(* the block layout of the docs file: a decoded block is at most 2^30 bytes (so that every in-block offset
   fits PackDocPos's 30 bits - the writer panics otherwise) and the block index fits uint32 *)
Definition layout_wf (f : frac) : Prop :=
  Forall (fun blk => block_size blk <= max_doc_offset + 1) (blocks_of f) /\
  N.of_nat (length (blocks_of f)) <= two32.

Definition frac_wf (B : N) (f : frac) : Prop :=
  docs_wf (f_docs f) /\ 1 <= f_name f /\ info_sound B f /\ layout_wf f.

Definition is_some {A} (o : option A) : bool := match o with Some _ => true | None => false end.
Definition hint_ok (f : frac) (s : idsrc) : bool := (snd s =? 0) || (snd s =? f_name f).

(* the entry the property demands for request element s: the document stored under the ID in a fraction the
   hint admits (no hint: any fraction), nothing otherwise *)
Definition expected (frs : list frac) (s : idsrc) : option body :=
  match find (fun f => hint_ok f s && is_some (lookup f (fst s))) frs with
  | Some f => lookup f (fst s)
  | None => None
  end.

Definition corpus_wf (B : N) (frs : list frac) : Prop :=
  Forall (frac_wf B) frs /\ NoDup (map f_name frs) /\
  (forall f1 f2 x, In f1 frs -> In f2 frs -> lookup f1 x <> None -> lookup f2 x <> None -> f1 = f2).

Definition cfg_ok (g : cfg) : Prop := 1 <= ipb g /\ 1 <= init_chunk g.

(* ---- IDs *)
Lemma id_eqb_eq : forall a b, id_eqb a b = true <-> a = b.
Proof.
  intros [a1 a2] [b1 b2]; unfold id_eqb; simpl. rewrite andb_true_iff, !N.eqb_eq.
  split; [intros [-> ->]; reflexivity|intros H; inversion H; auto].
Qed.
Lemma id_eqb_refl : forall a, id_eqb a a = true.
Proof. intros; apply id_eqb_eq; reflexivity. Qed.
Lemma id_eqb_neq : forall a b, id_eqb a b = false <-> a <> b.
Proof.
  intros a b; split; intros H.
  - intros E. apply id_eqb_eq in E. congruence.
  - destruct (id_eqb a b) eqn:E; [apply id_eqb_eq in E; contradiction|reflexivity].
Qed.

(* the order on IDs as propositions *)
Definition ilt (a b : id) : Prop := fst a < fst b \/ (fst a = fst b /\ snd a < snd b).
Definition ile (a b : id) : Prop := fst a < fst b \/ (fst a = fst b /\ snd a <= snd b).

Lemma id_less_spec : forall a b, id_less a b = true <-> ilt a b.
Proof.
  intros [a1 a2] [b1 b2]; unfold id_less, ilt; simpl.
  destruct (a1 =? b1) eqn:E.
  - apply N.eqb_eq in E; subst. rewrite N.ltb_lt. split; [intros; right; auto|intros [H|[_ H]]; [lia|auto]].
  - apply N.eqb_neq in E. rewrite N.ltb_lt. split; [intros; left; auto|intros [H|[H _]]; [auto|contradiction]].
Qed.
Lemma id_leq_spec : forall a b, id_leq a b = true <-> ile a b.
Proof.
  intros [a1 a2] [b1 b2]; unfold id_leq, ile; simpl.
  destruct (a1 =? b1) eqn:E.
  - apply N.eqb_eq in E; subst. rewrite N.leb_le. split; [intros; right; auto|intros [H|[_ H]]; [lia|auto]].
  - apply N.eqb_neq in E. rewrite N.ltb_lt. split; [intros; left; auto|intros [H|[H _]]; [auto|contradiction]].
Qed.
Lemma ile_refl : forall a, ile a a.
Proof. intros a; right; split; [reflexivity|apply N.le_refl]. Qed.
Lemma ile_trans : forall a b c, ile a b -> ile b c -> ile a c.
Proof. unfold ile; intros a b c; lia. Qed.
Lemma ilt_ile : forall a b, ilt a b -> ile a b.
Proof. unfold ilt, ile; intros; lia. Qed.
Lemma ile_antisym : forall a b, ile a b -> ile b a -> a = b.
Proof. intros [a1 a2] [b1 b2]; unfold ile; simpl; intros; f_equal; lia. Qed.
Lemma ile_total : forall a b, ile a b \/ ilt b a.
Proof. intros a b; unfold ile, ilt; lia. Qed.
Lemma ilt_not_ile : forall a b, ilt a b <-> ~ ile b a.
Proof. intros a b; unfold ile, ilt; lia. Qed.
Lemma ile_ilt_trans : forall a b c, ile a b -> ilt b c -> ilt a c.
Proof. unfold ile, ilt; intros a b c; lia. Qed.
Lemma ilt_ile_trans : forall a b c, ilt a b -> ile b c -> ilt a c.
Proof. unfold ile, ilt; intros a b c; lia. Qed.
Lemma ile_cases : forall a b, ile a b -> a = b \/ ilt a b.
Proof. intros [a1 a2] [b1 b2]; unfold ile, ilt; simpl; intros. assert (a2 = b2 \/ a2 <> b2) by lia.
  destruct H0; [|right; lia]. assert (a1 = b1 \/ a1 <> b1) by lia. destruct H1; [left; subst; reflexivity|right; lia]. Qed.

(* ---- lookup *)
Lemma lookup_docs_in : forall l x b, lookup_docs l x = Some b -> In (x, b) l.
Proof.
  intros l x b; unfold lookup_docs. destruct (find _ l) as [e|] eqn:E; [|discriminate].
  intros H; inversion H; subst. apply find_some in E. destruct E as [Hi He]. apply id_eqb_eq in He.
  destruct e as [i d]; simpl in *; subst; exact Hi.
Qed.
Lemma lookup_docs_nodup : forall l x b, NoDup (map fst l) -> In (x, b) l -> lookup_docs l x = Some b.
Proof.
  induction l as [|[i d] l IH]; intros x b Hn Hi; [contradiction|].
  unfold lookup_docs; simpl. inversion Hn; subst. destruct Hi as [Hi|Hi].
  - inversion Hi; subst. rewrite id_eqb_refl. reflexivity.
  - destruct (id_eqb i x) eqn:E.
    + apply id_eqb_eq in E; subst. exfalso. apply H1. apply (in_map fst) in Hi. exact Hi.
    + apply IH; assumption.
Qed.
Lemma lookup_docs_none : forall l x, lookup_docs l x = None <-> ~ In x (map fst l).
Proof.
  induction l as [|[i d] l IH]; intros x; unfold lookup_docs; simpl.
  - split; auto.
  - destruct (id_eqb i x) eqn:E.
    + apply id_eqb_eq in E; subst. split; [discriminate|intros H; exfalso; apply H; left; reflexivity].
    + apply id_eqb_neq in E. fold (lookup_docs l x). rewrite IH. split; [intros H [H1|H1]; auto|intros H H1; apply H; right; exact H1].
Qed.
